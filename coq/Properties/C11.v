(* C11 — StandardFlexibleScaler standardises w.r.t. the weighted training distribution.
   Statements only; every proof is `exact <lemma>` from Proofs/ScalerP.v.

   Model: Model/Scaler.v (the mexp programs of fit / transform / inverse_transform, run on
   binary64 against /repo by the check) and Model/ScalerMx.v (the same programs run by
   [eval_mx] over an arbitrary real closed field F, wrapped exactly like the Python code:
   [sc_fit_mx cfg rtol atol X w] is [None] when fit raises ValueError (fewer than two
   samples, or one of the two zero-variance guards fires) and [Some (mean_, scale_)]
   otherwise; [sc_transform_mx st Y] / [sc_inverse_mx st T] run the transform programs
   with the fitted state).  cfg = (with_mean, with_std, column_wise, sample_weight given).

   Vocabulary (Model/ScalerMx.v):
     wsum w      = sum_i w_i
     wmean w A   = row of  sum_i w_i A_ij / sum_i w_i
     wvar w A    = row of  sum_i w_i (A_ij - wmean_j)^2 / sum_i w_i
     sc_effw cfg w = w if sample weights are given, the all-ones vector otherwise
     sc_wok cfg w  = given sample weights have a non-zero sum
   All theorems: any real closed field, any n, d, k, any of the 8 flag combinations unless
   a flag is a hypothesis, any weights with non-zero sum (in particular non-negative
   weights with positive sum, zeros allowed).  `0 < atol`, `0 <= rtol` (the defaults are
   atol = 1e-12, rtol = 0) are what makes the accepted scale non-zero.                    *)
From Coq Require Import PrimFloat.
From mathcomp Require Import all_ssreflect all_algebra.
From Verif Require Import MExp MExpMx MxBox Scaler ScalerMx ScalerP.
From Verif Require Import ScalerExtP ScalerObj ScalerObjMx ScalerObjP.
Set Implicit Arguments.
Unset Strict Implicit.
Unset Printing Implicit Defensive.
Import GRing.Theory Num.Theory.
Local Open Scope ring_scope.

(* centring on: the weighted column means of the transformed training data are zero *)
Theorem C11_mean_zero :
  forall (F : rcfType) (cfg : sc_cfg) (n d : nat) (rtol atol : F)
         (X : 'M[F]_(n, d)) (w : 'cV[F]_n) (st : 'rV[F]_d * 'rV[F]_d),
    sc_wok cfg w -> sc_fit_mx cfg rtol atol X w = Some st ->
    with_mean cfg -> 0 < atol -> 0 <= rtol ->
    wmean (sc_effw cfg w) (sc_transform_mx st X) = 0.
Proof. exact sc_mean_zero. Qed.
Print Assumptions C11_mean_zero.

(* scaling on, column-wise: every weighted column variance of the transformed training
   data is one (with or without centring) *)
Theorem C11_unit_variance_columnwise :
  forall (F : rcfType) (cfg : sc_cfg) (n d : nat) (rtol atol : F)
         (X : 'M[F]_(n, d)) (w : 'cV[F]_n) (st : 'rV[F]_d * 'rV[F]_d),
    sc_wok cfg w -> sc_fit_mx cfg rtol atol X w = Some st ->
    with_std cfg -> column_wise cfg -> 0 < atol -> 0 <= rtol ->
    wvar (sc_effw cfg w) (sc_transform_mx st X) = const_mx 1.
Proof. exact sc_unit_variance_columnwise. Qed.
Print Assumptions C11_unit_variance_columnwise.

(* scaling on, whole-matrix mode: the weighted column variances sum to one *)
Theorem C11_unit_total_variance :
  forall (F : rcfType) (cfg : sc_cfg) (n d : nat) (rtol atol : F)
         (X : 'M[F]_(n, d)) (w : 'cV[F]_n) (st : 'rV[F]_d * 'rV[F]_d),
    sc_wok cfg w -> sc_fit_mx cfg rtol atol X w = Some st ->
    with_std cfg -> ~~ column_wise cfg -> 0 < atol -> 0 <= rtol ->
    \sum_j (wvar (sc_effw cfg w) (sc_transform_mx st X)) ord0 j = 1.
Proof. exact sc_unit_total_variance. Qed.
Print Assumptions C11_unit_total_variance.

(* inverse_transform undoes transform on any data of any number of rows, and conversely *)
Theorem C11_inverse :
  forall (F : rcfType) (cfg : sc_cfg) (n d : nat) (rtol atol : F)
         (X : 'M[F]_(n, d)) (w : 'cV[F]_n) (st : 'rV[F]_d * 'rV[F]_d),
    sc_wok cfg w -> sc_fit_mx cfg rtol atol X w = Some st ->
    forall (k : nat) (Y : 'M[F]_(k, d)), 0 < atol -> 0 <= rtol ->
      sc_inverse_mx st (sc_transform_mx st Y) = Y.
Proof. exact sc_inverseK. Qed.
Print Assumptions C11_inverse.

Theorem C11_inverse_converse :
  forall (F : rcfType) (cfg : sc_cfg) (n d : nat) (rtol atol : F)
         (X : 'M[F]_(n, d)) (w : 'cV[F]_n) (st : 'rV[F]_d * 'rV[F]_d),
    sc_wok cfg w -> sc_fit_mx cfg rtol atol X w = Some st ->
    forall (k : nat) (T : 'M[F]_(k, d)), 0 < atol -> 0 <= rtol ->
      sc_transform_mx st (sc_inverse_mx st T) = T.
Proof. exact sc_transformK. Qed.
Print Assumptions C11_inverse_converse.

(* non-negative integer sample weights are equivalent to repeating rows: if row i of X
   occurs w_i = #{k | f k = i} times in the N-row data X o f (any arrangement f), then the
   unweighted fit on X o f and the weighted fit on X have the same outcome — the same
   mean_ and scale_ (hence the same transform), or both are rejected.  Both data sets
   need the 2 rows that fit demands. *)
Theorem C11_integer_weights_replicate :
  forall (F : rcfType) (wm ws cw : bool) (n N d : nat) (rtol atol : F)
         (X : 'M[F]_(n, d)) (w : 'cV[F]_n) (f : 'I_N -> 'I_n),
    (forall i, w i ord0 = #|[pred k | f k == i]|%:R) ->
    forall w' : 'cV[F]_N, (1 < n)%N -> (1 < N)%N ->
      sc_fit_mx (ScCfg wm ws cw false) rtol atol (\matrix_(k, j) X (f k) j : 'M[F]_(N, d)) w'
      = sc_fit_mx (ScCfg wm ws cw true) rtol atol X w.
Proof. exact sc_replicate. Qed.
Print Assumptions C11_integer_weights_replicate.

(* unweighted column-wise mode is the z-score with the population variance that
   sklearn's StandardScaler documents: (y - mean) / sqrt(mean((x - mean)^2)) *)
Theorem C11_textbook :
  forall (F : rcfType) (cfg : sc_cfg) (n d : nat) (rtol atol : F)
         (X : 'M[F]_(n, d)) (w : 'cV[F]_n),
    sc_wok cfg w ->
    forall (st : 'rV[F]_d * 'rV[F]_d) (k : nat) (Y : 'M[F]_(k, d)) (i : 'I_k) (j : 'I_d),
    sc_fit_mx cfg rtol atol X w = Some st ->
    ~~ has_w cfg -> with_mean cfg -> with_std cfg -> column_wise cfg ->
    let mu := (\sum_l X l j) / n%:R in
    (sc_transform_mx st Y) i j
    = (Y i j - mu) / Num.sqrt ((\sum_l (X l j - mu) ^+ 2) / n%:R).
Proof. exact sc_textbook. Qed.
Print Assumptions C11_textbook.

(* a prior shift of the input by a row c (added to every row): the scale is unchanged and,
   with centring on, so is the transformed data (training or new) ... *)
Theorem C11_shift_invariant :
  forall (F : rcfType) (cfg : sc_cfg) (n d : nat) (rtol atol : F)
         (X : 'M[F]_(n, d)) (w : 'cV[F]_n),
    sc_wok cfg w ->
    forall (st st' : 'rV[F]_d * 'rV[F]_d) (c : 'rV[F]_d),
    sc_fit_mx cfg rtol atol X w = Some st ->
    sc_fit_mx cfg rtol atol (X + rows_of n c) w = Some st' ->
    st'.2 = st.2
    /\ (with_mean cfg -> forall (k : nat) (Y : 'M[F]_(k, d)),
          sc_transform_mx st' (Y + rows_of k c) = sc_transform_mx st Y).
Proof. exact sc_shift. Qed.
Print Assumptions C11_shift_invariant.

(* ... and with rtol = 0 (the default) the shifted data is accepted whenever the original
   is, with mean_ moved by c *)
Theorem C11_shift_accepted :
  forall (F : rcfType) (cfg : sc_cfg) (n d : nat) (rtol atol : F)
         (X : 'M[F]_(n, d)) (w : 'cV[F]_n),
    sc_wok cfg w ->
    forall (st : 'rV[F]_d * 'rV[F]_d) (c : 'rV[F]_d),
    rtol = 0 -> sc_fit_mx cfg rtol atol X w = Some st ->
    sc_fit_mx cfg rtol atol (X + rows_of n c) w
    = Some (if with_mean cfg then st.1 + c else st.1, st.2).
Proof. exact sc_shift_fit. Qed.
Print Assumptions C11_shift_accepted.

(* a prior uniform rescaling X |-> a X, a != 0, with scaling on: the transformed data is
   multiplied by the sign of a (all modes, with or without centring) *)
Theorem C11_rescale_sign :
  forall (F : rcfType) (cfg : sc_cfg) (n d : nat) (rtol atol : F)
         (X : 'M[F]_(n, d)) (w : 'cV[F]_n),
    sc_wok cfg w ->
    forall (st st' : 'rV[F]_d * 'rV[F]_d) (a : F),
    a != 0 -> with_std cfg ->
    sc_fit_mx cfg rtol atol X w = Some st ->
    sc_fit_mx cfg rtol atol (a *: X) w = Some st' ->
    forall (k : nat) (Y : 'M[F]_(k, d)),
      sc_transform_mx st' (a *: Y) = Num.sg a *: sc_transform_mx st Y.
Proof. exact sc_rescale. Qed.
Print Assumptions C11_rescale_sign.

(* data whose variance is below the configured tolerance is rejected: fit is accepted
   exactly when there are at least 2 samples and (scaling on) no column variance
   [column-wise] / the total variance [whole matrix] is below the tolerance of the guard *)
Theorem C11_zero_variance_rejected :
  forall (F : rcfType) (cfg : sc_cfg) (n d : nat) (rtol atol : F)
         (X : 'M[F]_(n, d)) (w : 'cV[F]_n),
    sc_wok cfg w ->
    let ew := sc_effw cfg w in
    isSome (sc_fit_mx cfg rtol atol X w)
    = ~~ ((n < 2)%N
          || with_std cfg
             && (if column_wise cfg
                 then [exists j, (wvar ew X) ord0 j < atol + `|(wmean ew X) ord0 j| * rtol]
                 else \sum_j (wvar ew X) ord0 j
                      < `|(\sum_j (wmean ew X) ord0 j) / d%:R| * rtol + atol)).
Proof. exact sc_rejected_iff. Qed.
Print Assumptions C11_zero_variance_rejected.

(* ... so an accepted scale_ is the square root of that variance and its square is at
   least the tolerance: no division by a scale below sqrt(atol) is ever performed *)
Theorem C11_scale_bounded_below :
  forall (F : rcfType) (cfg : sc_cfg) (n d : nat) (rtol atol : F)
         (X : 'M[F]_(n, d)) (w : 'cV[F]_n) (st : 'rV[F]_d * 'rV[F]_d),
    sc_wok cfg w -> sc_fit_mx cfg rtol atol X w = Some st ->
    with_std cfg -> 0 <= atol -> 0 <= rtol ->
    let ew := sc_effw cfg w in
    if column_wise cfg
    then forall j, (st.2 ord0 j) ^+ 2 = (wvar ew X) ord0 j
                   /\ atol + `|(wmean ew X) ord0 j| * rtol <= (st.2 ord0 j) ^+ 2
    else forall j, (st.2 ord0 j) ^+ 2 = \sum_j (wvar ew X) ord0 j
                   /\ `|(\sum_j (wmean ew X) ord0 j) / d%:R| * rtol + atol <= (st.2 ord0 j) ^+ 2.
Proof. exact sc_scale_bounded. Qed.
Print Assumptions C11_scale_bounded_below.

(* ======================= extension (round 3) ============================================ *)

(* the complete functional form of transform on ANY data, for every flag combination and any
   (given or absent) sample weights: (y - [weighted mean]) / [sqrt of the weighted column
   variance | sqrt of their sum | 1].  C11_textbook is the instance all flags on, unweighted. *)
Theorem C11_transform_formula :
  forall (F : rcfType) (cfg : sc_cfg) (n d : nat) (rtol atol : F)
         (X : 'M[F]_(n, d)) (w : 'cV[F]_n),
    sc_wok cfg w ->
    forall (st : 'rV[F]_d * 'rV[F]_d) (k : nat) (Y : 'M[F]_(k, d)) (i : 'I_k) (j : 'I_d),
    sc_fit_mx cfg rtol atol X w = Some st ->
    let ew := sc_effw cfg w in
    (sc_transform_mx st Y) i j
    = (Y i j - (if with_mean cfg then (wmean ew X) ord0 j else 0))
      / (if with_std cfg then
           if column_wise cfg then Num.sqrt ((wvar ew X) ord0 j)
           else Num.sqrt (\sum_l (wvar ew X) ord0 l)
         else 1).
Proof. exact sc_transform_formula. Qed.
Print Assumptions C11_transform_formula.

(* weights incl. zeros: rows of weight zero do not influence the fit at all — two data sets
   that agree on every row of non-zero weight have the same fit outcome (mean_, scale_ or
   rejection); real weights, not only integer multiplicities *)
Theorem C11_zero_weight_rows_ignored :
  forall (F : rcfType) (cfg : sc_cfg) (n d : nat) (rtol atol : F)
         (X : 'M[F]_(n, d)) (w : 'cV[F]_n),
    sc_wok cfg w ->
    forall X' : 'M[F]_(n, d),
    has_w cfg -> (forall i, w i ord0 != 0 -> forall j, X i j = X' i j) ->
    sc_fit_mx cfg rtol atol X w = sc_fit_mx cfg rtol atol X' w.
Proof. exact sc_zero_weight_rows. Qed.
Print Assumptions C11_zero_weight_rows_ignored.

(* only the ratios of the sample weights matter ("weights are internally normalized") *)
Theorem C11_weight_scale_invariant :
  forall (F : rcfType) (cfg : sc_cfg) (n d : nat) (rtol atol : F)
         (X : 'M[F]_(n, d)) (w : 'cV[F]_n),
    sc_wok cfg w ->
    forall a : F, has_w cfg -> a != 0 ->
    sc_fit_mx cfg rtol atol X (a *: w) = sc_fit_mx cfg rtol atol X w.
Proof. exact sc_weight_scale. Qed.
Print Assumptions C11_weight_scale_invariant.

(* C11_rescale_sign assumes that the rescaled data is accepted too.  For |a| >= 1 that is
   automatic (all modes, all tolerances) ... *)
Theorem C11_rescale_accepted :
  forall (F : rcfType) (cfg : sc_cfg) (n d : nat) (rtol atol : F)
         (X : 'M[F]_(n, d)) (w : 'cV[F]_n),
    sc_wok cfg w ->
    forall (st : 'rV[F]_d * 'rV[F]_d) (a : F),
    sc_fit_mx cfg rtol atol X w = Some st -> 1 <= `|a| -> 0 <= atol -> 0 <= rtol ->
    isSome (sc_fit_mx cfg rtol atol (a *: X) w).
Proof. exact sc_rescale_accepted. Qed.
Print Assumptions C11_rescale_accepted.

(* ... and for |a| < 1 it can fail: the accepted 2 x 1 data (0, 2) with atol = 1/2 is
   rejected after multiplication by 1/2 (variance 1/4).  The guard is absolute in atol. *)
Theorem C11_rescale_down_can_be_rejected :
  forall F : rcfType,
    let X : 'M[F]_(2, 1) := \matrix_(i, j) (i : nat)%:R *+ 2 in
    let cfg := ScCfg true true true false in
    isSome (sc_fit_mx cfg 0 (2%:R^-1) X 0)
    /\ sc_fit_mx cfg 0 (2%:R^-1) (2%:R^-1 *: X) 0 = None.
Proof. exact sc_rescale_down_rejected. Qed.
Print Assumptions C11_rescale_down_can_be_rejected.

(* a prior shift with centring OFF is not absorbed: the output moves by c / scale_ *)
Theorem C11_shift_without_centring :
  forall (F : rcfType) (cfg : sc_cfg) (n d : nat) (rtol atol : F)
         (X : 'M[F]_(n, d)) (w : 'cV[F]_n),
    sc_wok cfg w ->
    forall (st st' : 'rV[F]_d * 'rV[F]_d) (c : 'rV[F]_d),
    ~~ with_mean cfg ->
    sc_fit_mx cfg rtol atol X w = Some st ->
    sc_fit_mx cfg rtol atol (X + rows_of n c) w = Some st' ->
    forall (k : nat) (Y : 'M[F]_(k, d)) (i : 'I_k) (j : 'I_d),
      (sc_transform_mx st' (Y + rows_of k c)) i j
      = (sc_transform_mx st Y) i j + c ord0 j / st.2 ord0 j.
Proof. exact sc_shift_nocenter. Qed.
Print Assumptions C11_shift_without_centring.

(* standardised data is standardised: with centring and scaling on and atol <= 1, fitting
   again on transform(X) (same flags, same weights) is accepted with mean_ = 0 and
   scale_ = 1, so standardising twice is standardising once, on any data *)
Theorem C11_idempotent :
  forall (F : rcfType) (cfg : sc_cfg) (n d : nat) (rtol atol : F)
         (X : 'M[F]_(n, d)) (w : 'cV[F]_n) (st : 'rV[F]_d * 'rV[F]_d),
    sc_wok cfg w -> sc_fit_mx cfg rtol atol X w = Some st ->
    with_mean cfg -> with_std cfg -> 0 < atol -> atol <= 1 -> 0 <= rtol ->
    exists st2, sc_fit_mx cfg rtol atol (sc_transform_mx st X) w = Some st2
      /\ forall (k : nat) (Y : 'M[F]_(k, d)),
           sc_transform_mx st2 (sc_transform_mx st Y) = sc_transform_mx st Y.
Proof. exact sc_idempotent_ex. Qed.
Print Assumptions C11_idempotent.

(* ---- the estimator OBJECT over arbitrary call sequences (Model/ScalerObjMx.v; its binary64
   twin Model/ScalerObj.v is run against the Python object call by call) -------------------
   State: constructor parameters + (None | n_samples_in_, n_features_in_, `scale_ is an
   array`, mean_, scale_).  Calls: set_params, fit (any shape, with/without weights),
   transform / inverse_transform (any width).  A fit rejected by the zero-variance guard
   leaves the object fitted with the new mean_ and scale_ = 1.0 — as the code does. *)

(* INVARIANT (induction over the call sequence): from a fresh estimator, after ANY sequence
   of calls in which every atol in force is >= a0 > 0, every rtol >= 0 and given weights
   have non-zero sum, a stored scale_ is positive and either exactly 1 or scale_^2 >= a0.
   So no transform of any reachable object divides by a scale below min(1, sqrt a0) — also
   not after rejected refits or parameter changes between fits. *)
Theorem C11_obj_scale_invariant :
  forall (F : rcfType) (a0 : F), 0 < a0 ->
  forall (p0 : so_par F) (ops : seq (so_op F)) (f : so_fitted F),
    par_ok a0 p0 -> all (op_ok a0) ops ->
    o_fit (so_run (SoObj p0 None) ops).1 = Some f ->
    forall j, 0 < (f_st f).2 ord0 j
              /\ ((f_st f).2 ord0 j = 1 \/ a0 <= (f_st f).2 ord0 j ^+ 2).
Proof. exact so_reachable_scale. Qed.
Print Assumptions C11_obj_scale_invariant.

(* hence in every reachable fitted state transform and inverse_transform (on data of the
   fitted width) return matrices and undo each other, in both orders *)
Theorem C11_obj_roundtrip :
  forall (F : rcfType) (a0 : F), 0 < a0 ->
  forall (p0 : so_par F) (ops : seq (so_op F)) (f : so_fitted F),
    par_ok a0 p0 -> all (op_ok a0) ops ->
    let o := (so_run (SoObj p0 None) ops).1 in
    o_fit o = Some f ->
    forall (k : nat) (Y : 'M[F]_(k, f_d f)),
      let T := sc_transform_mx (f_st f) Y in
      [/\ so_step o (OpTransform Y) = (o, OutMat (box T)),
          so_step o (OpInverse T) = (o, OutMat (box Y))
        & so_step o (OpTransform (sc_inverse_mx (f_st f) Y)) = (o, OutMat (box Y))].
Proof. exact so_reachable_roundtrip. Qed.
Print Assumptions C11_obj_roundtrip.

(* transform / inverse_transform never change the object; both raise NotFittedError exactly
   when nothing is fitted, ValueError exactly when the width differs from n_features_in_,
   and return a matrix otherwise *)
Theorem C11_obj_transform_outcome :
  forall (F : rcfType) (o : so_obj F) (k c : nat) (Y : 'M[F]_(k, c)),
    (so_step o (OpTransform Y)).1 = o
    /\ match (so_step o (OpTransform Y)).2, (so_step o (OpInverse Y)).2 with
       | OutNotFitted, OutNotFitted => o_fit o = None
       | OutValueError, OutValueError => exists2 f, o_fit o = Some f & c != f_d f
       | OutMat _, OutMat _ => exists2 f, o_fit o = Some f & c = f_d f
       | _, _ => False
       end.
Proof. exact so_transform_outcome. Qed.
Print Assumptions C11_obj_transform_outcome.

(* no stale state: a fit with >= 2 rows overwrites every fitted attribute; the resulting
   object and outcome depend on the current parameters and the arguments only *)
Theorem C11_obj_refit_fresh :
  forall (F : rcfType) (o o' : so_obj F) (n d : nat) (X : 'M[F]_(n, d)) (hw : bool) (w : 'cV[F]_n),
    o_par o = o_par o' -> (1 < n)%N ->
    so_step o (OpFit X hw w) = so_step o' (OpFit X hw w)
    /\ isSome (o_fit (so_step o (OpFit X hw w)).1).
Proof. exact so_refit_fresh. Qed.
Print Assumptions C11_obj_refit_fresh.

(* a fit with fewer than 2 rows raises and touches nothing *)
Theorem C11_obj_fit_small_untouched :
  forall (F : rcfType) (o : so_obj F) (n d : nat) (X : 'M[F]_(n, d)) (hw : bool) (w : 'cV[F]_n),
    (n < 2)%N -> so_step o (OpFit X hw w) = (o, OutValueError F).
Proof. exact so_fit_small. Qed.
Print Assumptions C11_obj_fit_small_untouched.

(* what a fit rejected by the zero-variance guard leaves behind (quirk of the code, stated
   as it is): the object is fitted, with the new n_samples_in_ / n_features_in_ / mean_ and
   the scalar scale_ = 1 — the rejected variance is never divided by *)
Theorem C11_obj_rejected_fit_state :
  forall (F : rcfType) (o : so_obj F) (n d : nat) (X : 'M[F]_(n, d)) (hw : bool) (w : 'cV[F]_n),
    (1 < n)%N ->
    sc_fit_mx (so_cfg (o_par o) hw) (p_rtol (o_par o)) (p_atol (o_par o)) X w = None ->
    exists f, [/\ so_step o (OpFit X hw w) = (SoObj (o_par o) (Some f), OutValueError F),
                  f_n f = n, f_arr f = false
                & exists e : f_d f = d,
                    castmx (erefl, e) (f_st f).2 = const_mx 1
                    /\ castmx (erefl, e) (f_st f).1
                       = eval_mx (sc_env_fit_mx X w) (sc_mean (so_cfg (o_par o) hw) n d)].
Proof. exact so_fit_rejected. Qed.
Print Assumptions C11_obj_rejected_fit_state.

(* non-vacuity of the object theorems: over every real closed field the trace
   fit (0,2) [accepted]; fit (1,1) [rejected by the guard]; transform of width 2 [ValueError];
   transform of width 1 [matrix] is admissible with a0 = 1/2 and ends fitted with a scalar
   scale_ *)
Example C11_obj_nonvacuous :
  forall F : rcfType,
    let p : so_par F := SoPar true true true 0 (2%:R^-1) in
    let X : 'M[F]_(2, 1) := \matrix_(i, j) (i : nat)%:R *+ 2 in
    let C : 'M[F]_(2, 1) := const_mx 1 in
    let Y2 : 'M[F]_(1, 2) := 0 in
    let ops := [:: OpFit X false 0; OpFit C false 0; OpTransform Y2; OpTransform C] in
    par_ok (2%:R^-1) p /\ all (op_ok (2%:R^-1)) ops
    /\ exists f B, [/\ (so_run (SoObj p None) [:: OpFit X false 0]).2 = [:: OutSelf F],
                      o_fit (so_run (SoObj p None) ops).1 = Some f,
                      (so_run (SoObj p None) ops).2
                      = [:: OutSelf F; OutValueError F; OutValueError F; OutMat B]
                    & f_arr f = false].
Proof. exact so_nonvacuous. Qed.

(* non-vacuity: over every real closed field the 2 x 1 data (0, 2), unweighted, all flags on,
   atol = 1/2, is accepted with mean_ = 1 and scale_ = 1 (so the hypotheses of the theorems
   above are satisfiable with a non-trivial centre and scale); and the binary64 run of the
   same programs on the same data gives the same result *)
Example C11_nonvacuous :
  forall F : rcfType,
    let X : 'M[F]_(2, 1) := \matrix_(i, j) (i : nat)%:R *+ 2 in
    sc_wok (ScCfg true true true false) (0 : 'cV[F]_2)
    /\ sc_fit_mx (ScCfg true true true false) 0 (2%:R^-1) X 0
       = Some (const_mx 1, const_mx 1).
Proof. exact sc_nonvacuous. Qed.

Example C11_nonvacuous_float :
  sc_fit_f (ScCfg true true true false) 2 1 0%float 0.5%float
           (cons (cons 0%float nil) (cons (cons 2%float nil) nil)) nil
  = Some (cons (cons 1%float nil) nil, cons (cons 1%float nil) nil).
Proof. vm_compute. reflexivity. Qed.

Example C11_obj_nonvacuous_float :
  let p := SofPar true true true 0%float 0.5%float in
  let X := cons (cons 0%float nil) (cons (cons 2%float nil) nil) in
  let C := cons (cons 1%float nil) (cons (cons 1%float nil) nil) in
  List.map (fun x => snd (fst x))
    (cons (sof_step (SofObj p None) (FTransform 2 1 C))
    (cons (sof_step (SofObj p None) (FFit 2 1 X false nil))
    (cons (sof_step (fst (fst (sof_step (SofObj p None) (FFit 2 1 X false nil)))) (FFit 2 1 C false nil))
    (cons (sof_step (fst (fst (sof_step (SofObj p None) (FFit 2 1 X false nil)))) (FTransform 1 2 (cons (cons 0%float (cons 0%float nil)) nil)))
    (cons (sof_step (fst (fst (sof_step (SofObj p None) (FFit 2 1 X false nil)))) (FTransform 2 1 X)) nil)))))
  = cons FNotFitted (cons FSelf (cons FValueError (cons FValueError
      (cons (FMat (cons (cons (-1)%float nil) (cons (cons 1%float nil) nil))) nil)))).
Proof. vm_compute. reflexivity. Qed.
