(* C11 — StandardFlexibleScaler standardises w.r.t. the weighted training distribution.
   Statements only; every proof is `exact <lemma>` from Proofs/ScalerP.v.

   Model: Model/Scaler.v (the mexp programs of fit / transform / inverse_transform, run on
   binary64 against /repo by the check) and Model/ScalerMx.v (the same programs run by
   [eval_mx] over an arbitrary real closed field F, wrapped exactly like the Python code:
   [sc_fit_mx cfg rtol atol X w] is [None] when fit raises ValueError (fewer than two
   samples, or one of the two zero-variance guards fires) and [Some (mean_, scale_)]
   otherwise; [sc_transform_mx st Y] / [sc_inverse_mx st T] run the transform programs
   with the fitted state).  cfg = (with_mean, with_std, column_wise, sample_weight given).

   Vocabulary (Model/ScalerMx.v):
     wsum w      = sum_i w_i
     wmean w A   = row of  sum_i w_i A_ij / sum_i w_i
     wvar w A    = row of  sum_i w_i (A_ij - wmean_j)^2 / sum_i w_i
     sc_effw cfg w = w if sample weights are given, the all-ones vector otherwise
     sc_wok cfg w  = given sample weights have a non-zero sum
   All theorems: any real closed field, any n, d, k, any of the 8 flag combinations unless
   a flag is a hypothesis, any weights with non-zero sum (in particular non-negative
   weights with positive sum, zeros allowed).  `0 < atol`, `0 <= rtol` (the defaults are
   atol = 1e-12, rtol = 0) are what makes the accepted scale non-zero.                    *)
From Coq Require Import PrimFloat.
From mathcomp Require Import all_ssreflect all_algebra.
From Verif Require Import MExp MExpMx MxBox Scaler ScalerMx ScalerP.
Set Implicit Arguments.
Unset Strict Implicit.
Unset Printing Implicit Defensive.
Import GRing.Theory Num.Theory.
Local Open Scope ring_scope.

(* centring on: the weighted column means of the transformed training data are zero *)
Theorem C11_mean_zero :
  forall (F : rcfType) (cfg : sc_cfg) (n d : nat) (rtol atol : F)
         (X : 'M[F]_(n, d)) (w : 'cV[F]_n) (st : 'rV[F]_d * 'rV[F]_d),
    sc_wok cfg w -> sc_fit_mx cfg rtol atol X w = Some st ->
    with_mean cfg -> 0 < atol -> 0 <= rtol ->
    wmean (sc_effw cfg w) (sc_transform_mx st X) = 0.
Proof. exact sc_mean_zero. Qed.
Print Assumptions C11_mean_zero.

(* scaling on, column-wise: every weighted column variance of the transformed training
   data is one (with or without centring) *)
Theorem C11_unit_variance_columnwise :
  forall (F : rcfType) (cfg : sc_cfg) (n d : nat) (rtol atol : F)
         (X : 'M[F]_(n, d)) (w : 'cV[F]_n) (st : 'rV[F]_d * 'rV[F]_d),
    sc_wok cfg w -> sc_fit_mx cfg rtol atol X w = Some st ->
    with_std cfg -> column_wise cfg -> 0 < atol -> 0 <= rtol ->
    wvar (sc_effw cfg w) (sc_transform_mx st X) = const_mx 1.
Proof. exact sc_unit_variance_columnwise. Qed.
Print Assumptions C11_unit_variance_columnwise.

(* scaling on, whole-matrix mode: the weighted column variances sum to one *)
Theorem C11_unit_total_variance :
  forall (F : rcfType) (cfg : sc_cfg) (n d : nat) (rtol atol : F)
         (X : 'M[F]_(n, d)) (w : 'cV[F]_n) (st : 'rV[F]_d * 'rV[F]_d),
    sc_wok cfg w -> sc_fit_mx cfg rtol atol X w = Some st ->
    with_std cfg -> ~~ column_wise cfg -> 0 < atol -> 0 <= rtol ->
    \sum_j (wvar (sc_effw cfg w) (sc_transform_mx st X)) ord0 j = 1.
Proof. exact sc_unit_total_variance. Qed.
Print Assumptions C11_unit_total_variance.

(* inverse_transform undoes transform on any data of any number of rows, and conversely *)
Theorem C11_inverse :
  forall (F : rcfType) (cfg : sc_cfg) (n d : nat) (rtol atol : F)
         (X : 'M[F]_(n, d)) (w : 'cV[F]_n) (st : 'rV[F]_d * 'rV[F]_d),
    sc_wok cfg w -> sc_fit_mx cfg rtol atol X w = Some st ->
    forall (k : nat) (Y : 'M[F]_(k, d)), 0 < atol -> 0 <= rtol ->
      sc_inverse_mx st (sc_transform_mx st Y) = Y.
Proof. exact sc_inverseK. Qed.
Print Assumptions C11_inverse.

Theorem C11_inverse_converse :
  forall (F : rcfType) (cfg : sc_cfg) (n d : nat) (rtol atol : F)
         (X : 'M[F]_(n, d)) (w : 'cV[F]_n) (st : 'rV[F]_d * 'rV[F]_d),
    sc_wok cfg w -> sc_fit_mx cfg rtol atol X w = Some st ->
    forall (k : nat) (T : 'M[F]_(k, d)), 0 < atol -> 0 <= rtol ->
      sc_transform_mx st (sc_inverse_mx st T) = T.
Proof. exact sc_transformK. Qed.
Print Assumptions C11_inverse_converse.

(* non-negative integer sample weights are equivalent to repeating rows: if row i of X
   occurs w_i = #{k | f k = i} times in the N-row data X o f (any arrangement f), then the
   unweighted fit on X o f and the weighted fit on X have the same outcome — the same
   mean_ and scale_ (hence the same transform), or both are rejected.  Both data sets
   need the 2 rows that fit demands. *)
Theorem C11_integer_weights_replicate :
  forall (F : rcfType) (wm ws cw : bool) (n N d : nat) (rtol atol : F)
         (X : 'M[F]_(n, d)) (w : 'cV[F]_n) (f : 'I_N -> 'I_n),
    (forall i, w i ord0 = #|[pred k | f k == i]|%:R) ->
    forall w' : 'cV[F]_N, (1 < n)%N -> (1 < N)%N ->
      sc_fit_mx (ScCfg wm ws cw false) rtol atol (\matrix_(k, j) X (f k) j : 'M[F]_(N, d)) w'
      = sc_fit_mx (ScCfg wm ws cw true) rtol atol X w.
Proof. exact sc_replicate. Qed.
Print Assumptions C11_integer_weights_replicate.

(* unweighted column-wise mode is the z-score with the population variance that
   sklearn's StandardScaler documents: (y - mean) / sqrt(mean((x - mean)^2)) *)
Theorem C11_textbook :
  forall (F : rcfType) (cfg : sc_cfg) (n d : nat) (rtol atol : F)
         (X : 'M[F]_(n, d)) (w : 'cV[F]_n),
    sc_wok cfg w ->
    forall (st : 'rV[F]_d * 'rV[F]_d) (k : nat) (Y : 'M[F]_(k, d)) (i : 'I_k) (j : 'I_d),
    sc_fit_mx cfg rtol atol X w = Some st ->
    ~~ has_w cfg -> with_mean cfg -> with_std cfg -> column_wise cfg ->
    let mu := (\sum_l X l j) / n%:R in
    (sc_transform_mx st Y) i j
    = (Y i j - mu) / Num.sqrt ((\sum_l (X l j - mu) ^+ 2) / n%:R).
Proof. exact sc_textbook. Qed.
Print Assumptions C11_textbook.

(* a prior shift of the input by a row c (added to every row): the scale is unchanged and,
   with centring on, so is the transformed data (training or new) ... *)
Theorem C11_shift_invariant :
  forall (F : rcfType) (cfg : sc_cfg) (n d : nat) (rtol atol : F)
         (X : 'M[F]_(n, d)) (w : 'cV[F]_n),
    sc_wok cfg w ->
    forall (st st' : 'rV[F]_d * 'rV[F]_d) (c : 'rV[F]_d),
    sc_fit_mx cfg rtol atol X w = Some st ->
    sc_fit_mx cfg rtol atol (X + rows_of n c) w = Some st' ->
    st'.2 = st.2
    /\ (with_mean cfg -> forall (k : nat) (Y : 'M[F]_(k, d)),
          sc_transform_mx st' (Y + rows_of k c) = sc_transform_mx st Y).
Proof. exact sc_shift. Qed.
Print Assumptions C11_shift_invariant.

(* ... and with rtol = 0 (the default) the shifted data is accepted whenever the original
   is, with mean_ moved by c *)
Theorem C11_shift_accepted :
  forall (F : rcfType) (cfg : sc_cfg) (n d : nat) (rtol atol : F)
         (X : 'M[F]_(n, d)) (w : 'cV[F]_n),
    sc_wok cfg w ->
    forall (st : 'rV[F]_d * 'rV[F]_d) (c : 'rV[F]_d),
    rtol = 0 -> sc_fit_mx cfg rtol atol X w = Some st ->
    sc_fit_mx cfg rtol atol (X + rows_of n c) w
    = Some (if with_mean cfg then st.1 + c else st.1, st.2).
Proof. exact sc_shift_fit. Qed.
Print Assumptions C11_shift_accepted.

(* a prior uniform rescaling X |-> a X, a != 0, with scaling on: the transformed data is
   multiplied by the sign of a (all modes, with or without centring) *)
Theorem C11_rescale_sign :
  forall (F : rcfType) (cfg : sc_cfg) (n d : nat) (rtol atol : F)
         (X : 'M[F]_(n, d)) (w : 'cV[F]_n),
    sc_wok cfg w ->
    forall (st st' : 'rV[F]_d * 'rV[F]_d) (a : F),
    a != 0 -> with_std cfg ->
    sc_fit_mx cfg rtol atol X w = Some st ->
    sc_fit_mx cfg rtol atol (a *: X) w = Some st' ->
    forall (k : nat) (Y : 'M[F]_(k, d)),
      sc_transform_mx st' (a *: Y) = Num.sg a *: sc_transform_mx st Y.
Proof. exact sc_rescale. Qed.
Print Assumptions C11_rescale_sign.

(* data whose variance is below the configured tolerance is rejected: fit is accepted
   exactly when there are at least 2 samples and (scaling on) no column variance
   [column-wise] / the total variance [whole matrix] is below the tolerance of the guard *)
Theorem C11_zero_variance_rejected :
  forall (F : rcfType) (cfg : sc_cfg) (n d : nat) (rtol atol : F)
         (X : 'M[F]_(n, d)) (w : 'cV[F]_n),
    sc_wok cfg w ->
    let ew := sc_effw cfg w in
    isSome (sc_fit_mx cfg rtol atol X w)
    = ~~ ((n < 2)%N
          || with_std cfg
             && (if column_wise cfg
                 then [exists j, (wvar ew X) ord0 j < atol + `|(wmean ew X) ord0 j| * rtol]
                 else \sum_j (wvar ew X) ord0 j
                      < `|(\sum_j (wmean ew X) ord0 j) / d%:R| * rtol + atol)).
Proof. exact sc_rejected_iff. Qed.
Print Assumptions C11_zero_variance_rejected.

(* ... so an accepted scale_ is the square root of that variance and its square is at
   least the tolerance: no division by a scale below sqrt(atol) is ever performed *)
Theorem C11_scale_bounded_below :
  forall (F : rcfType) (cfg : sc_cfg) (n d : nat) (rtol atol : F)
         (X : 'M[F]_(n, d)) (w : 'cV[F]_n) (st : 'rV[F]_d * 'rV[F]_d),
    sc_wok cfg w -> sc_fit_mx cfg rtol atol X w = Some st ->
    with_std cfg -> 0 <= atol -> 0 <= rtol ->
    let ew := sc_effw cfg w in
    if column_wise cfg
    then forall j, (st.2 ord0 j) ^+ 2 = (wvar ew X) ord0 j
                   /\ atol + `|(wmean ew X) ord0 j| * rtol <= (st.2 ord0 j) ^+ 2
    else forall j, (st.2 ord0 j) ^+ 2 = \sum_j (wvar ew X) ord0 j
                   /\ `|(\sum_j (wmean ew X) ord0 j) / d%:R| * rtol + atol <= (st.2 ord0 j) ^+ 2.
Proof. exact sc_scale_bounded. Qed.
Print Assumptions C11_scale_bounded_below.

(* non-vacuity: over every real closed field the 2 x 1 data (0, 2), unweighted, all flags on,
   atol = 1/2, is accepted with mean_ = 1 and scale_ = 1 (so the hypotheses of the theorems
   above are satisfiable with a non-trivial centre and scale); and the binary64 run of the
   same programs on the same data gives the same result *)
Example C11_nonvacuous :
  forall F : rcfType,
    let X : 'M[F]_(2, 1) := \matrix_(i, j) (i : nat)%:R *+ 2 in
    sc_wok (ScCfg true true true false) (0 : 'cV[F]_2)
    /\ sc_fit_mx (ScCfg true true true false) 0 (2%:R^-1) X 0
       = Some (const_mx 1, const_mx 1).
Proof. exact sc_nonvacuous. Qed.

Example C11_nonvacuous_float :
  sc_fit_f (ScCfg true true true false) 2 1 0%float 0.5%float
           (cons (cons 0%float nil) (cons (cons 2%float nil) nil)) nil
  = Some (cons (cons 1%float nil) nil, cons (cons 1%float nil) nil).
Proof. vm_compute. reflexivity. Qed.
