(* C19 — DirectionalConvexHull selects the lower-hull vertices and reports signed distances.
   Statements only; proofs are `exact <lemma>` from Proofs/DCHP.v.  Model: Model/DCH.v. *)
From Coq Require Import QArith Sorting.Sorted.
From Verif Require Import ListX DCH DCHP.

Theorem C19_no_sample_below :
  forall fs P tol, (0 <= tol)%Q -> forall p,
    contract_h1 fs P -> lower_facets fs <> [] -> In p P ->
    exists dd, hull_distance tol (lower_facets fs) p = Some dd /\ (0 <= dd)%Q.
Proof. exact no_sample_below. Qed.
Print Assumptions C19_no_sample_below.
