(* C19 — DirectionalConvexHull selects the lower-hull vertices and reports signed distances.
   Statements only; every proof is `exact <lemma>` from Proofs/DCHP.v, DCHSpecP.v, DCHChainP.v.
   Model: Model/DCH.v.

   Part A: the model of the code after scipy's ConvexHull, over Q.  qhull is an oracle that
   returns facets (normal, offset, vertex ids); its contract
     h1  every sample satisfies n.p + b <= 0 for every facet            [contract_h1]
     h2  the vertices of a kept facet are samples lying on it           [contract_h2]
     h3  the kept facets' projections cover every sample's position     [contract_h3 / in_footprint]
   is a hypothesis here and is validated numerically on every run of the check.
   [hull_distance] is the REPAIRED below/above logic (finding F15: the code as found masks
   `> 0` instead of `>= -tolerance`; Findings/F15_dch_below_mask.v refutes C19_sign for it).

   Part B: the specification of "lower-hull vertex" over Z, independent of Part A:
   [below_combo d P i]: a convex combination (integer weights over a common denominator) of
   the OTHER samples, at the position of sample i, has a target <= y_i;
   [is_lower_vertex] is its negation.  The check compares selected_idx_ with the executable
   simplex form [lower_vertices] and, for one hull dimension, with the monotone chain.

   PARTIAL (stated in comments where they belong): Caratheodory's theorem (completeness of
   the simplex form for 2-3 hull dimensions) is not proved; the contract h1-h3 (+ general
   position and simplicial kept facets for the strict clause) is validated, not proved of qhull.

   Round 3 (Model/DCHExt.v): strictness of "selected => lower vertex" (C19_selected_lower_strict);
   samples sharing a position (C19_same_position_not_lower, and for one hull dimension the
   complete characterisation / decision procedure on ANY sample list, C19_lower_vertex_1d_any,
   C19_lower_vertex_1d_decision); Part C: the estimator object as a state machine (guard of fit,
   refit = fresh fit, scoring after a refit, the non-atomic failed refit, unfitted object). *)
From Coq Require Import QArith Lqa Sorting.Sorted.
From Verif Require Import ListX DCH DCHP DCHSpecP DCHChainP DCH1dP DCHExt DCHStrictP DCHExtP DCHInsertP DCHScaleP.

(* ============================== Part A: the model under the oracle contract ============== *)

(* selected_idx_ is strictly increasing and lists exactly the vertices of the facets whose
   y-normal is negative *)
Theorem C19_selected_unique_vertices :
  forall fs, StronglySorted lt (selected fs) /\
    forall i, In i (selected fs) <-> exists f, In f (lower_facets fs) /\ In i (fverts f).
Proof. exact selected_spec. Qed.
Print Assumptions C19_selected_unique_vertices.

(* no training sample lies below the hull: the "below" branch is not taken and the distance
   is >= 0 *)
Theorem C19_no_sample_below :
  forall fs P tol, (0 <= tol)%Q -> forall p,
    contract_h1 fs P -> lower_facets fs <> [] -> In p P ->
    exists dd, hull_distance tol (lower_facets fs) p = Some dd /\ (0 <= dd)%Q.
Proof. exact no_sample_below. Qed.
Print Assumptions C19_no_sample_below.

(* every selected sample has distance zero *)
Theorem C19_selected_zero :
  forall fs P tol, (0 <= tol)%Q -> forall i,
    contract_h1 fs P -> contract_h2 fs P -> In i (selected fs) ->
    exists dd, hull_distance tol (lower_facets fs) (nth i P []) = Some dd /\ (dd == 0)%Q.
Proof. exact selected_zero. Qed.
Print Assumptions C19_selected_zero.

(* every unselected sample in general position (w.r.t. the hull: only a facet's vertices lie
   on its plane) has positive distance *)
Theorem C19_unselected_positive :
  forall fs P tol, (0 <= tol)%Q -> forall i,
    contract_h1 fs P -> contract_gp fs P -> lower_facets fs <> [] ->
    (i < length P)%nat -> ~ In i (selected fs) ->
    exists dd, hull_distance tol (lower_facets fs) (nth i P []) = Some dd /\ (0 < dd)%Q.
Proof. exact unselected_positive. Qed.
Print Assumptions C19_unselected_positive.

(* the piecewise-linear surface max_f plane_f(x) IS the lower hull of the samples over every
   covered position: it is attained by a convex combination of samples (the vertices of the
   covering facet) and no convex combination of samples at x has a smaller target *)
Theorem C19_surface_is_hull :
  forall d fs P, wf_dim d fs P -> contract_h1 fs P -> contract_h2 fs P ->
  forall x s, length x = d -> in_footprint d fs P x -> surface (lower_facets fs) x = Some s ->
    (exists f lam, In f (lower_facets fs) /\ covers d P f lam x /\
        (s == qdot lam (map (fun v => nth 0 (nth v P []) 0%Q) (fverts f)))%Q) /\
    (forall w, is_combo d P w x -> (s <= combo_target P w)%Q).
Proof. exact surface_is_hull. Qed.
Print Assumptions C19_surface_is_hull.

(* on or above the surface (and down to tol below it) the distance of a query is the vertical
   offset y - max_f plane_f(x) *)
Theorem C19_offset_above :
  forall lf tol, (forall f, In f lf -> (f_ny f < 0)%Q) ->
  forall x y s, surface lf x = Some s -> (s - tol <= y)%Q ->
    exists dd, hull_distance tol lf (y :: x) = Some dd /\ (dd == y - s)%Q.
Proof. exact offset_above. Qed.
Print Assumptions C19_offset_above.

(* positive above, negative below, zero on the surface; a query below the surface by more
   than the tolerance is reported below by more than the tolerance *)
Theorem C19_sign :
  forall lf tol, (forall f, In f lf -> (f_ny f < 0)%Q) ->
  forall x y s dd, (0 <= tol)%Q -> surface lf x = Some s ->
    hull_distance tol lf (y :: x) = Some dd ->
    ((0 < dd)%Q <-> (s < y)%Q) /\ ((dd < 0)%Q <-> (y < s)%Q) /\ ((dd == 0)%Q <-> (y == s)%Q) /\
    ((y < s - tol)%Q -> (dd < - tol)%Q).
Proof. exact distance_sign. Qed.
Print Assumptions C19_sign.

(* "lower vertex => selected" under the contract: an unselected sample has a convex
   combination of OTHER samples (vertices of the covering facet, none of them i) at its
   position with a target <= its own *)
Theorem C19_unselected_not_lower :
  forall d fs P, wf_dim d fs P -> contract_h1 fs P -> contract_h2 fs P ->
  forall i, contract_h3 d fs P -> (i < length P)%nat -> ~ In i (selected fs) ->
    exists f lam, In f (lower_facets fs) /\ covers d P f lam (tl (nth i P [])) /\
      ~ In i (fverts f) /\
      (qdot lam (map (fun v => nth 0 (nth v P []) 0) (fverts f)) <= nth 0 (nth i P []) 0)%Q.
Proof. exact unselected_not_lower. Qed.
Print Assumptions C19_unselected_not_lower.

(* "selected => lower vertex", PARTIAL: proved with <= and over combinations of ALL samples
   (the sample lies on the lower hull).  Full statement, not proved: in general position the
   target of every convex combination of the OTHER samples at that position is strictly
   larger (needs: the other samples on the facet's plane are its other vertices, whose
   projections do not contain x_i in their hull). *)
Theorem C19_selected_lower_partial :
  forall d fs P, wf_dim d fs P -> contract_h1 fs P -> contract_h2 fs P ->
  forall i w, In i (selected fs) -> is_combo d P w (tl (nth i P [])) ->
    (nth 0 (nth i P []) 0 <= combo_target P w)%Q.
Proof. exact selected_on_surface. Qed.
Print Assumptions C19_selected_lower_partial.

(* "selected => lower vertex", FULL STRENGTH (round 3): in general position w.r.t. the hull
   (contract_gp) and with simplicial kept facets (contract_simplex: a convex combination of a
   kept facet's vertices located at its vertex i must use i), the target of a selected sample
   lies STRICTLY below every convex combination of the OTHER samples at its position.
   Together with C19_unselected_not_lower this is the "exactly when" clause of the statement. *)
Theorem C19_selected_lower_strict :
  forall d fs P, wf_dim d fs P -> contract_h1 fs P -> contract_h2 fs P ->
    contract_gp fs P -> contract_simplex d fs P ->
  forall i w, In i (selected fs) -> is_combo d P w (tl (nth i P [])) -> (nth i w 0 == 0)%Q ->
    (nth 0 (nth i P []) 0 < combo_target P w)%Q.
Proof. exact selected_lower_strict. Qed.
Print Assumptions C19_selected_lower_strict.

(* positive affine change of the target y -> a*y + c (a > 0): the hull's facets become
   [taffine a c f] (up to qhull's normalisation, see C19_facet_scaling); they satisfy the
   contract for the transformed samples, the selection is unchanged, distances scale by a *)
Theorem C19_affine_target_contract :
  forall a, (0 < a)%Q -> forall c fs P, (forall p, In p P -> p <> []) ->
    contract_h1 fs P -> contract_h2 fs P ->
    contract_h1 (map (taffine a c) fs) (map (paffine a c) P) /\
    contract_h2 (map (taffine a c) fs) (map (paffine a c) P).
Proof. exact contract_taffine. Qed.
Print Assumptions C19_affine_target_contract.

Theorem C19_affine_target_selection :
  forall a, (0 < a)%Q -> forall c fs, selected (map (taffine a c) fs) = selected fs.
Proof. exact selected_taffine. Qed.
Print Assumptions C19_affine_target_selection.

Theorem C19_affine_target_distance :
  forall a, (0 < a)%Q -> forall c tol lf y x, (forall f, In f lf -> ~ (f_ny f == 0)%Q) ->
    orel a (hull_distance tol lf (y :: x))
           (hull_distance (a * tol) (map (taffine a c) lf) ((a * y + c)%Q :: x)).
Proof. exact hull_distance_taffine. Qed.
Print Assumptions C19_affine_target_distance.

(* the normalisation of a facet's equation does not matter (also used by the check, which
   passes each observed equation multiplied by a power of two) *)
Theorem C19_facet_scaling :
  forall k f p, (0 < k)%Q ->
    is_lower (fscale k f) = is_lower f /\ (gval (fscale k f) p == k * gval f p)%Q /\
    (~ (f_ny f == 0)%Q -> (ddist (fscale k f) p == ddist f p)%Q).
Proof. exact fscale_invariant. Qed.
Print Assumptions C19_facet_scaling.

(* score_feature_matrix: zero residual wherever the interpolant (oracle) reproduces the
   high-dimensional features, which is its contract at the selected samples *)
Theorem C19_feature_residual_zero :
  forall interp low high x,
    Forall2 Qeq (interp (select 0%Q low x)) (select 0%Q high x) ->
    score_feature_matrix interp low high [x]
      = [map2 Qminus (select 0%Q high x) (interp (select 0%Q low x))] /\
    Forall (fun r => (r == 0)%Q) (map2 Qminus (select 0%Q high x) (interp (select 0%Q low x))).
Proof. exact sfm_node_zero. Qed.
Print Assumptions C19_feature_residual_zero.

(* ============================== Part B: the specification over Z ========================== *)

(* positive affine maps of the target do not change which samples are lower vertices *)
Theorem C19_affine_target_spec :
  forall d a c P i, 0 < a -> (i < length P)%nat ->
    (below_combo d (zaffine a c P) i <-> below_combo d P i).
Proof. exact below_combo_affine. Qed.
Print Assumptions C19_affine_target_spec.

(* a sample added strictly above the hull is not a lower vertex and does not change the
   status of any old sample (any number of hull dimensions and samples) *)
Theorem C19_add_above_new :
  forall d P q, strictly_above d P q -> below_combo d (P ++ [q]) (length P).
Proof. exact added_point_not_lower. Qed.
Print Assumptions C19_add_above_new.

Theorem C19_add_above_old :
  forall d P q i, (i < length P)%nat -> strictly_above d P q ->
    (below_combo d (P ++ [q]) i <-> below_combo d P i).
Proof. exact add_above_invariant. Qed.
Print Assumptions C19_add_above_old.

(* soundness of the executable simplex test, 1..3 hull dimensions, any number of samples:
   PARTIAL.  Proved: lower_vertex_b = false => not a lower vertex.  Not proved (Caratheodory's
   theorem): lower_vertex_b = true => is_lower_vertex, for 2 and 3 hull dimensions; for one
   hull dimension the converse is C19_chain_1d_complete below. *)
Theorem C19_simplex_sound_partial :
  forall d P i, (1 <= d <= 3)%nat -> (forall p, In p P -> length p = S d) -> (i < length P)%nat ->
    not_lower_b d P i = true -> below_combo d P i.
Proof. exact not_lower_b_sound. Qed.
Print Assumptions C19_simplex_sound_partial.

(* one hull dimension: the monotone chain over points sorted by x returns exactly the points
   that do not lie on or above a segment between two other points straddling them, in order *)
Theorem C19_chain_1d :
  forall pts, sorted_x pts = true -> chain pts = filter (lower_1d_b pts) pts.
Proof. exact chain_is_lower_hull. Qed.
Print Assumptions C19_chain_1d.

Theorem C19_chain_1d_spec :
  forall pts, StronglySorted xlt pts ->
    StronglySorted xlt (chain pts) /\
    (forall q, In q (chain pts) -> In q pts) /\
    (forall q, In q pts -> ~ In q (chain pts) -> not_lower_1d pts q) /\
    (forall h, In h (chain pts) -> ~ not_lower_1d pts h).
Proof. exact chain_spec. Qed.
Print Assumptions C19_chain_1d_spec.

(* one hull dimension, COMPLETE: for distinct positions the pair form is equivalent to the
   convex-combination specification (Caratheodory in dimension 1), so the chain's result is
   exactly the set of lower vertices *)
Theorem C19_lower_vertex_1d :
  forall P i, (forall p, In p P -> length p = 2%nat) -> (i < length P)%nat ->
    (forall j, (j < length P)%nat -> j <> i -> nth 1 (nth j P []) 0 <> nth 1 (nth i P []) 0) ->
    (below_combo 1 P i <-> not_lower_1d (map pt1 P) (pt1 (nth i P []))).
Proof. exact below_combo_1d. Qed.
Print Assumptions C19_lower_vertex_1d.

Theorem C19_chain_1d_complete :
  forall P pts i, (forall p, In p P -> length p = 2%nat) -> (i < length P)%nat ->
    (forall j, (j < length P)%nat -> j <> i -> nth 1 (nth j P []) 0 <> nth 1 (nth i P []) 0) ->
    sorted_x pts = true -> (forall q, In q pts <-> In q (map pt1 P)) ->
    (In (pt1 (nth i P [])) (chain pts) <-> is_lower_vertex 1 P i).
Proof. exact chain_1d_complete. Qed.
Print Assumptions C19_chain_1d_complete.

(* ---- follow-up: change of units of the positions ------------------------------------------- *)
(* multiplying every low-dimensional coordinate by s <> 0 does not change which samples are
   lower vertices; with C19_affine_target_spec: the selection is invariant under any change of
   units of target and positions (the check fits power-of-two rescalings 2^+-10 .. 2^+-32) *)
Theorem C19_position_scale_spec :
  forall d s P i, s <> 0 -> (i < length P)%nat ->
    (below_combo d (zpscale s P) i <-> below_combo d P i).
Proof. exact below_combo_pscale. Qed.
Print Assumptions C19_position_scale_spec.

(* ---- round 3: the order of the samples ---------------------------------------------------- *)
(* moving a sample from any index to the end of the sample list does not change which samples
   are lower vertices (indices follow the move) *)
Theorem C19_sample_order_rotation :
  forall d P1 P2 q j, (j < length P1 + S (length P2))%nat ->
    (below_combo d (P1 ++ q :: P2) j <->
     below_combo d ((P1 ++ P2) ++ [q]) (rot_idx (length P1) (length P2) j)).
Proof. exact below_combo_rotate. Qed.
Print Assumptions C19_sample_order_rotation.

(* hence C19_add_above_new / _old hold for a sample INSERTED AT ANY INDEX *)
Theorem C19_insert_above_new :
  forall d P1 P2 q, strictly_above d (P1 ++ P2) q -> below_combo d (P1 ++ q :: P2) (length P1).
Proof. exact inserted_point_not_lower. Qed.
Print Assumptions C19_insert_above_new.

Theorem C19_insert_above_old :
  forall d P1 P2 q i, (i < length (P1 ++ P2))%nat -> strictly_above d (P1 ++ P2) q ->
    (below_combo d (P1 ++ q :: P2) (shift_idx (length P1) i) <-> below_combo d (P1 ++ P2) i).
Proof. exact insert_above_invariant. Qed.
Print Assumptions C19_insert_above_old.

(* ---- round 3: samples sharing their low-dimensional position --------------------------------- *)
(* any number of hull dimensions and samples: a sample that has ANOTHER sample at the same
   position with a target <= its own is not a lower vertex (whatever the order of the two) *)
Theorem C19_same_position_not_lower :
  forall d P i, (i < length P)%nat -> stacked_below d P i -> below_combo d P i.
Proof. exact stacked_not_lower. Qed.
Print Assumptions C19_same_position_not_lower.

(* one hull dimension, ANY sample list (positions may repeat, any order): Caratheodory in
   dimension 1 without the distinctness hypothesis of C19_lower_vertex_1d *)
Theorem C19_lower_vertex_1d_any :
  forall P i, (forall p, In p P -> length p = 2%nat) -> (i < length P)%nat ->
    (below_combo 1 P i <->
     stacked_below 1 P i \/ not_lower_1d (map pt1 P) (pt1 (nth i P []))).
Proof. exact below_combo_1d_any. Qed.
Print Assumptions C19_lower_vertex_1d_any.

(* ... hence the executable test the check runs on such sample sets is sound and complete *)
Theorem C19_lower_vertex_1d_decision :
  forall P, (forall p, In p P -> length p = 2%nat) ->
  forall i, In i (lower_vertices_1d P) <-> (i < length P)%nat /\ is_lower_vertex 1 P i.
Proof. exact lower_vertices_1d_spec. Qed.
Print Assumptions C19_lower_vertex_1d_decision.

(* ============================== Part C: the estimator object (round 3) ===================== *)
(* fit's guard `max(|low_dim_idx|) > n_features and min(low_dim_idx) >= 0`, as written *)
Theorem C19_fit_guard_value_error :
  forall low nfeat, fit_guard low nfeat = ValueErr <->
    (nfeat < zmax_list (map Z.abs low) /\ 0 <= zmin_list low).
Proof. exact fit_guard_value_error. Qed.
Print Assumptions C19_fit_guard_value_error.

(* refit = fresh fit: after a successful fit the object's state depends only on its parameters
   and the data, not on anything the object went through before *)
Theorem C19_refit_is_fresh_fit :
  forall o nfeat fs, fit_guard (o_low o) (Z.of_nat nfeat) = Done ->
    obj_fit o nfeat fs = obj_fit (fresh (o_low o) (o_tol o)) nfeat fs.
Proof. exact refit_is_fresh_fit. Qed.
Print Assumptions C19_refit_is_fresh_fit.

(* scoring a (re)fitted object with the fitted feature count IS the function-level
   score_samples of Part A on the kept facets: all theorems of Part A apply to it *)
Theorem C19_score_after_fit :
  forall o nfeat fs X y, fit_guard (o_low o) (Z.of_nat nfeat) = Done ->
    (forall f, In f (lower_facets fs) -> length (fnormal f) = S (length (o_low o))) ->
    let o' := snd (obj_fit o nfeat fs) in
    fst (obj_fit o nfeat fs) = Done /\
    obj_score o' nfeat X y
    = (Done, score_samples (o_tol o) (lower_facets fs) (low_nat (o_low o)) X y).
Proof. exact score_after_fit. Qed.
Print Assumptions C19_score_after_fit.

(* the code as found: a fit that fails its guard (or numpy's bounds check) has already
   overwritten n_features_in_ but keeps the previous hull *)
Theorem C19_failed_refit_keeps_hull :
  forall o nfeat fs,
    fit_guard (o_low o) (Z.of_nat nfeat) = ValueErr \/ fit_guard (o_low o) (Z.of_nat nfeat) = IndexErr ->
    let o' := snd (obj_fit o nfeat fs) in
    fst (obj_fit o nfeat fs) <> Done /\ o_hull o' = o_hull o /\ o_nfeat o' = Some nfeat.
Proof. exact failed_refit_keeps_hull. Qed.
Print Assumptions C19_failed_refit_keeps_hull.

Theorem C19_unfitted_refuses :
  forall low tol ncols X y, obj_score (fresh low tol) ncols X y = (NotFitted, []).
Proof. exact unfitted_refuses. Qed.
Print Assumptions C19_unfitted_refuses.

(* ============================== non-vacuity ================================================= *)
(* hull of (x,y) = (-1,1), (0,0), (1,1), (0,2): two lower facets, two upper facets; sample 3 is
   unselected, 2 above the surface.  The contract h1, h2, h3 and general position hold. *)
Definition ex_fs : list facet :=
  [mkFacet [-1; -1]%Q 0%Q [0; 1]%nat; mkFacet [-1; 1]%Q 0%Q [1; 2]%nat;
   mkFacet [1; -1]%Q (-2)%Q [0; 3]%nat; mkFacet [1; 1]%Q (-2)%Q [3; 2]%nat].
Definition ex_P : list (list Q) := [[1; -1]; [0; 0]; [1; 1]; [2; 0]]%Q.
Definition ex_PZ : list (list Z) := [[1; -1]; [0; 0]; [1; 1]; [2; 0]].

Example C19_nonvacuous_contract :
  wf_dim 1 ex_fs ex_P /\ contract_h1 ex_fs ex_P /\ contract_h2 ex_fs ex_P /\
  contract_h3 1 ex_fs ex_P /\ contract_gp ex_fs ex_P /\
  selected ex_fs = [0; 1; 2]%nat /\
  (exists dd, hull_distance (1 # 1000000000000) (lower_facets ex_fs) (nth 3 ex_P []) = Some dd /\ (dd == 2)%Q) /\
  (exists dd, hull_distance (1 # 1000000000000) (lower_facets ex_fs) [- (1 # 2); 1 # 2]%Q = Some dd /\ (dd == -1)%Q) /\
  surface (lower_facets ex_fs) [1 # 2]%Q = Some (1 # 2)%Q.
Proof.
  split; [|split; [|split; [|split; [|split; [|split; [|split; [|split]]]]]]].
  - split.
    + intros f Hf. cbn in Hf. destruct Hf as [<-|[<-|[<-|[<-|[]]]]]; reflexivity.
    + intros p Hp. cbn in Hp. destruct Hp as [<-|[<-|[<-|[<-|[]]]]]; reflexivity.
  - intros f p Hf Hp. cbn in Hf, Hp.
    destruct Hf as [<-|[<-|[<-|[<-|[]]]]]; destruct Hp as [<-|[<-|[<-|[<-|[]]]]]; vm_compute; discriminate.
  - intros f v Hf Hv. cbn in Hf.
    destruct Hf as [<-|[<-|[]]]; cbn in Hv; destruct Hv as [<-|[<-|[]]]; split; vm_compute;
      try reflexivity; repeat constructor.
  - intros p Hp. cbn in Hp.
    assert (Hf0 : In (mkFacet [-1; -1]%Q 0%Q [0; 1]%nat) (lower_facets ex_fs)) by (vm_compute; auto).
    assert (Hf1 : In (mkFacet [-1; 1]%Q 0%Q [1; 2]%nat) (lower_facets ex_fs)) by (vm_compute; auto).
    destruct Hp as [<-|[<-|[<-|[<-|[]]]]].
    + exists (mkFacet [-1; -1]%Q 0%Q [0; 1]%nat), [1; 0]%Q. split; [exact Hf0|].
      split; [reflexivity|]. split; [intros l [<-|[<-|[]]]; vm_compute; discriminate|].
      split; [vm_compute; reflexivity|]. intros c Hc. assert (c = 0)%nat as -> by lia. vm_compute. reflexivity.
    + exists (mkFacet [-1; -1]%Q 0%Q [0; 1]%nat), [0; 1]%Q. split; [exact Hf0|].
      split; [reflexivity|]. split; [intros l [<-|[<-|[]]]; vm_compute; discriminate|].
      split; [vm_compute; reflexivity|]. intros c Hc. assert (c = 0)%nat as -> by lia. vm_compute. reflexivity.
    + exists (mkFacet [-1; 1]%Q 0%Q [1; 2]%nat), [0; 1]%Q. split; [exact Hf1|].
      split; [reflexivity|]. split; [intros l [<-|[<-|[]]]; vm_compute; discriminate|].
      split; [vm_compute; reflexivity|]. intros c Hc. assert (c = 0)%nat as -> by lia. vm_compute. reflexivity.
    + exists (mkFacet [-1; -1]%Q 0%Q [0; 1]%nat), [0; 1]%Q. split; [exact Hf0|].
      split; [reflexivity|]. split; [intros l [<-|[<-|[]]]; vm_compute; discriminate|].
      split; [vm_compute; reflexivity|]. intros c Hc. assert (c = 0)%nat as -> by lia. vm_compute. reflexivity.
  - intros f i Hf Hi Hg. cbn in Hf, Hi.
    destruct Hf as [<-|[<-|[]]];
      (destruct i as [|[|[|[|i]]]]; [| | | |lia]); cbn [fverts]; vm_compute in Hg; try discriminate; cbn; auto.
  - vm_compute. reflexivity.
  - eexists. split; vm_compute; reflexivity.
  - eexists. split; vm_compute; reflexivity.
  - vm_compute. reflexivity.
Qed.

(* the specification on the same samples: exactly 0, 1, 2 are lower vertices (simplex form and
   chain agree), sample 3 has a witness combination, sample 1 provably has none *)
Example C19_nonvacuous_spec :
  lower_vertices 1 ex_PZ = [0; 1; 2]%nat /\
  chain [(-1, 1); (0, 0); (1, 1)] = [(-1, 1); (0, 0); (1, 1)] /\
  chain [(-1, 1); (0, 2); (1, 1)] = [(-1, 1); (1, 1)] /\
  below_combo 1 ex_PZ 3 /\ is_lower_vertex 1 ex_PZ 1 /\
  strictly_above 1 [[1; -1]; [0; 0]; [1; 1]] [2; 0].
Proof.
  split; [vm_compute; reflexivity|]. split; [vm_compute; reflexivity|]. split; [vm_compute; reflexivity|].
  split; [|split].
  - apply not_lower_b_sound; [lia| |cbn; lia|vm_compute; reflexivity].
    intros p Hp. cbn in Hp. destruct Hp as [<-|[<-|[<-|[<-|[]]]]]; reflexivity.
  - intros (w & W & HW & Hl & Hn & Hz & Hs & Hx & Hy).
    destruct w as [|w0 [|w1 [|w2 [|w3 [|]]]]]; try discriminate.
    pose proof (Hn 0%nat) as N0. pose proof (Hn 2%nat) as N2. pose proof (Hn 3%nat) as N3.
    specialize (Hx 1%nat ltac:(lia)). cbn in *. unfold zsum, dot in *. cbn in *. lia.
  - exists [0; 1; 0], 1. split; [lia|]. split; [reflexivity|].
    split; [intros [|[|[|[|j]]]]; cbn; lia|]. split; [reflexivity|].
    split; [intros c Hc; assert (c = 1)%nat as -> by lia; reflexivity|]. vm_compute. reflexivity.
Qed.

(* round 3.  The kept facets of the example are simplicial (contract_simplex), so the strict
   theorem applies to it *)
Example C19_nonvacuous_simplex : contract_simplex 1 ex_fs ex_P.
Proof.
  intros f i w Hf Hv (Hl & Hpos & Hsum & Hc) Hz Hi.
  destruct w as [|w0 [|w1 [|w2 [|w3 [|]]]]]; try discriminate.
  specialize (Hc 0%nat ltac:(lia)).
  cbn in Hf. destruct Hf as [<-|[<-|[]]]; cbn in Hv; destruct Hv as [<-|[<-|[]]];
    try (pose proof (Hz 0%nat ltac:(cbn; lia) ltac:(cbn; intuition discriminate)) as A0);
    try (pose proof (Hz 1%nat ltac:(cbn; lia) ltac:(cbn; intuition discriminate)) as A1);
    try (pose proof (Hz 2%nat ltac:(cbn; lia) ltac:(cbn; intuition discriminate)) as A2);
    try (pose proof (Hz 3%nat ltac:(cbn; lia) ltac:(cbn; intuition discriminate)) as A3);
    cbn [nth ex_P tl hd qdot qcol map map2 qsum] in *; lra.
Qed.

(* samples sharing a position: (x,y) = (-1,1), (0,0), (1,1), (0,2), (0,-1): sample 4 sits at the
   position of samples 1 and 3 with the lowest target; it is selected although it comes last,
   samples 1 and 3 are not lower vertices *)
Definition ex_PZ2 : list (list Z) := [[1; -1]; [0; 0]; [1; 1]; [2; 0]; [-1; 0]].
Example C19_nonvacuous_stacked :
  lower_vertices_1d ex_PZ2 = [0; 2; 4]%nat /\ lower_vertices 1 ex_PZ2 = [0; 2; 4]%nat /\
  stacked_below 1 ex_PZ2 1 /\ below_combo 1 ex_PZ2 1 /\ is_lower_vertex 1 ex_PZ2 4.
Proof.
  assert (Hdim : forall p, In p ex_PZ2 -> length p = 2%nat).
  { intros p Hp. cbn in Hp. destruct Hp as [<-|[<-|[<-|[<-|[<-|[]]]]]]; reflexivity. }
  assert (S1 : stacked_below 1 ex_PZ2 1).
  { exists 4%nat. split; [cbn; lia|]. split; [discriminate|]. split.
    - intros c Hc. assert (c = 1)%nat as -> by lia. reflexivity.
    - cbn. lia. }
  split; [vm_compute; reflexivity|]. split; [vm_compute; reflexivity|]. split; [exact S1|].
  split; [apply stacked_not_lower; [cbn; lia|exact S1]|].
  apply (lower_vertex_1d_b_spec ex_PZ2 4 Hdim); [cbn; lia|vm_compute; reflexivity].
Qed.

(* a life of the object: fit on 3 features with low_dim_idx [0;2] (ok), re-parametrise to [3]
   and refit on 3 features (passes the guard, numpy raises IndexError: the quirk), to [4]
   (ValueError), score with 3 columns (IndexError: the stale hull is still there, low_dim_idx
   is read at call time), re-parametrise to [1] and score (ValueError: the stored equations
   have another dimension), refit (ok), score (ok), score with 2 columns (ValueError) *)
Example C19_nonvacuous_object :
  run_life (fresh [0; 2] 0%Q)
    [OpScore 3; OpFit 3; OpScore 3; OpSet [3]; OpFit 3; OpSet [4]; OpFit 3; OpScore 3;
     OpSet [1]; OpScore 3; OpFit 3; OpScore 3; OpScore 2]
  = [3; 0; 0; 2; 1; 2; 1; 0; 0; 1]%nat /\
  fit_guard [0; 2] 3 = Done /\ fit_guard [3] 3 = IndexErr /\ fit_guard [4] 3 = ValueErr /\
  fit_guard [-1] 3 = Done /\ fit_guard [-4; 9] 3 = IndexErr.
Proof. repeat split; vm_compute; reflexivity. Qed.

(* the sample (0,2) inserted at index 1 of (-1,1), (0,0), (1,1): not a lower vertex, and sample
   (0,0), now at index 2 = shift_idx 1 1, keeps its status *)
Example C19_nonvacuous_insert :
  below_combo 1 ([[1; -1]] ++ [2; 0] :: [[0; 0]; [1; 1]]) 1 /\
  (below_combo 1 ([[1; -1]] ++ [2; 0] :: [[0; 0]; [1; 1]]) (shift_idx 1 1)
   <-> below_combo 1 ([[1; -1]] ++ [[0; 0]; [1; 1]]) 1) /\ shift_idx 1 1 = 2%nat.
Proof.
  assert (A : strictly_above 1 ([[1; -1]] ++ [[0; 0]; [1; 1]]) [2; 0])
    by exact (proj2 (proj2 (proj2 (proj2 (proj2 C19_nonvacuous_spec))))).
  split; [exact (inserted_point_not_lower 1 [[1; -1]] [[0; 0]; [1; 1]] [2; 0] A)|].
  split; [apply (insert_above_invariant 1 [[1; -1]] [[0; 0]; [1; 1]] [2; 0] 1); [cbn; lia|exact A]|reflexivity].
Qed.

(* scaling the positions of the example by 1024: same lower vertices *)
Example C19_nonvacuous_pscale :
  zpscale 1024 ex_PZ = [[1; -1024]; [0; 0]; [1; 1024]; [2; 0]] /\
  lower_vertices 1 (zpscale 1024 ex_PZ) = lower_vertices 1 ex_PZ /\
  below_combo 1 (zpscale 1024 ex_PZ) 3.
Proof.
  split; [reflexivity|]. split; [vm_compute; reflexivity|].
  apply (below_combo_pscale 1 1024 ex_PZ 3); [lia|cbn; lia|].
  exact (proj1 (proj2 (proj2 (proj2 C19_nonvacuous_spec)))).
Qed.
