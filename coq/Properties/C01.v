(* C01 — every selector returns a consistent set of distinct, valid indices.
   Model: Model/Select.v + Model/Greedy.v (GreedySelector.fit for an arbitrary scorer, given
   as the stream of score vectors presented to the arg-max).  [sfit cand ycand prev c inits str]
   is one call of fit: [prev] the state left by the previous fit (None = never fitted), [c] the
   configuration (n_to_select form, threshold, full, warm_start), [inits] the initial selections
   of a cold start.  [state_ok] is the invariant of fitted states; C01_chain_invariant shows
   every fit re-establishes it, so all statements hold after ANY chain of cold/warm fits. *)
From Verif Require Import ListX Greedy Select ListXP GreedyP SelectP C01Thm SelBuf SelBufP SelBufRefP.
From Coq Require Import PrimFloat.
From Coq Require Import Sorting.Permutation Sorting.Sorted.

Theorem C01_chain_invariant :
  forall cand ycand prev c inits str,
    state_ok cand ycand prev -> NoDup inits -> in_rng (length cand) inits ->
    stream_ok (length cand) str ->
    forall g st, sfit cand ycand prev c inits str = Fitted g st -> state_ok cand ycand (Some g).
Proof. exact c01_state_ok. Qed.
Print Assumptions C01_chain_invariant.

(* pairwise distinct, in-range indices — both the internal sequence and what is reported *)
Theorem C01_distinct_in_range :
  forall cand ycand prev c inits str,
    state_ok cand ycand prev -> NoDup inits -> in_rng (length cand) inits ->
    stream_ok (length cand) str ->
    forall g st, sfit cand ycand prev c inits str = Fitted g st ->
      NoDup (sel g) /\ in_rng (length cand) (sel g) /\
      NoDup (reported_sel g st (n_before prev c inits)) /\
      in_rng (length cand) (reported_sel g st (n_before prev c inits)).
Proof. exact c01_distinct_in_range. Qed.
Print Assumptions C01_distinct_in_range.

(* the stored columns/rows and targets are the input sliced at the selections, in order *)
Theorem C01_stored_data :
  forall cand ycand prev c inits str,
    state_ok cand ycand prev -> NoDup inits -> in_rng (length cand) inits ->
    stream_ok (length cand) str ->
    forall g st, sfit cand ycand prev c inits str = Fitted g st ->
      xsel g = map (fun i => nth i cand []) (sel g) /\
      (forall y, ycand = Some y -> ysel g = map (fun i => nth i y []) (sel g)).
Proof. exact c01_stored_data. Qed.
Print Assumptions C01_stored_data.

(* length = the size implied by n_to_select unless a threshold stopped the search.
   PARTIAL: the full statement also demands len(selected_idx_) = n_selected_ after a threshold
   stop; the code as it stands violates that (C01_threshold_stop_refuted below, known finding). *)
Theorem C01_length_partial :
  forall cand ycand prev c inits str,
    state_ok cand ycand prev -> NoDup inits -> in_rng (length cand) inits ->
    stream_ok (length cand) str ->
    forall g st, sfit cand ycand prev c inits str = Fitted g st ->
    forall k, resolve_n (length cand) (c_nts c) = Some k -> (n_before prev c inits <= k)%nat ->
      (length (sel g) <= k)%nat /\
      (st = false -> length (sel g) = k /\ reported_sel g st (n_before prev c inits) = sel g).
Proof. exact c01_length. Qed.
Print Assumptions C01_length_partial.

Theorem C01_threshold_stop_refuted :
  exists cand inits str c g,
    sfit cand None None c inits str = Fitted g true /\
    length (reported_sel g true (n_before None c inits)) <> length (sel g).
Proof. exact c01_stop_truncation_witness. Qed.
Print Assumptions C01_threshold_stop_refuted.

(* n_to_select resolution *)
Theorem C01_resolve_n :
  forall n p k, resolve_n n p = Some k ->
    match p with
    | NtsNone => k = Nat.div n 2
    | NtsInt z => 0 < z <= Z.of_nat n /\ k = Z.to_nat z
    | NtsFrac r ok => ok = true /\ k = Z.to_nat r
    end.
Proof. exact c01_resolve. Qed.
Print Assumptions C01_resolve_n.

(* every kept selection had a score at or above the threshold when it was taken ... *)
Theorem C01_threshold_kept :
  forall cand ycand t k g,
    GInv stream cand ycand (SP cand) g -> has_thr t = true ->
    Forall (fun x => below t (snd x) (snd (fst x)) = false)
           (run_tr stream (s_score (length cand)) s_upd cand ycand t k g).
Proof.
  exact (fun cand ycand =>
    run_tr_above stream (s_score (length cand)) s_upd cand ycand (SP cand)
                 (SP_len cand) (SP_upd cand)).
Qed.
Print Assumptions C01_threshold_kept.

(* ... and on a stop the best remaining score was below it *)
Theorem C01_threshold_stop :
  forall cand ycand t k g g',
    GInv stream cand ycand (SP cand) g -> (length (sel g) + k <= length cand)%nat ->
    run stream (s_score (length cand)) s_upd cand ycand t k g = (g', true) ->
    exists i f, is_best stream (s_score (length cand)) cand g' i /\ first g' = Some f /\
                below t f (nth i (s_score (length cand) (sst g')) 0) = true.
Proof.
  exact (fun cand ycand =>
    run_stop_below stream (s_score (length cand)) s_upd cand ycand (SP cand)
                   (SP_len cand) (SP_upd cand)).
Qed.
Print Assumptions C01_threshold_stop.

(* derived views: support mask, sorted index list, transform *)
Theorem C01_views :
  forall cand s, NoDup s -> in_rng (length cand) s ->
    (forall i, (i < length cand)%nat -> nth i (support (length cand) s) false = true <-> In i s) /\
    length (support (length cand) s) = length cand /\
    Permutation s (support_indices s) /\ Sorted le (support_indices s) /\
    transform_cols cand s = map (fun i => nth i cand []) (support_indices s).
Proof. exact c01_views. Qed.
Print Assumptions C01_views.

(* rejected configurations *)
Theorem C01_rejections :
  forall cand ycand prev c inits str,
    (c_full c = true /\ has_thr (c_thr c) = true) \/ resolve_n (length cand) (c_nts c) = None \/
    (c_warm c = true /\ (prev = None \/ exists g0, prev = Some g0 /\ sel g0 = [])) ->
    sfit cand ycand prev c inits str = Rejected.
Proof. exact c01_rejections. Qed.
Print Assumptions C01_rejections.

(* non-vacuity: a concrete cold fit with a tie, then a warm continuation *)
Example C01_nonvacuous :
  let cand := [[0;0];[3;0];[0;4];[1;1]] in
  let str := [[0;9;16;2];[0;9;0;2];[0;0;0;2]] in
  in_rng 4 [0%nat] /\ stream_ok 4 str /\
  exists g, sfit cand None None (mk_cfg (NtsInt 2) NoThr false false) [0%nat] str = Fitted g false /\
            sel g = [0; 2]%nat /\
  exists g2, sfit cand None (Some g) (mk_cfg NtsNone NoThr false true) [] [] = Fitted g2 false /\
             sel g2 = [0; 2]%nat.
Proof.
  cbv zeta. split; [repeat constructor|]. split; [repeat constructor|].
  eexists. split; [vm_compute; reflexivity|]. split; [reflexivity|].
  eexists. split; vm_compute; reflexivity.
Qed.

(* ======================================================================================== *)
(* Extension (round 3): the BUFFER-LEVEL model Model/SelBuf.v.  [bfit cand ycand prev c inits
   str] is one call of fit on the object state [prev] as Python holds it: n_selected_ and the
   selected_idx_/X_selected_/y_selected_ buffers with their capacity (np.zeros / np.pad / prefix
   assignment with numpy broadcasting / indexed writes / the three truncations of the threshold
   exit).  Out-of-range writes and the non-broadcastable prefix assignment are explicit
   outcomes [BRaised EIndex/EValue]; [EOut] = the observed score stream does not fit the model.
   The threshold test [bc_tst c] is ANY function of (first_score_, score): the exact integer
   tests [tst_of_thr] and the binary64 tests on float scores [tst_fabs]/[tst_frel] (relative:
   s / first < t with IEEE division) are instances.  [tr] is the trace of the loop of this
   fit: (index, score, first_score_, kept?).  [sel_before] = the selections present before the
   loop (initialisation of a cold start / the index buffer a warm start continues from). *)

(* Every successful fit, for every threshold test, capacity and score stream: the selections
   are distinct and in range, their number is n_selected_ and (without a stop) the size implied
   by n_to_select, X_selected_ is the input sliced at ALL of them; selected_idx_ and y_selected_
   are that sequence and y sliced at it, cut to the loop counter when the threshold stopped the
   search (exact form of finding F2); every kept step passed the threshold test and a stop was
   caused by a step that failed it. *)
Theorem C01_buf_fit :
  forall cand ycand prev c inits str k,
    (bc_warm c = true -> bprev_ok cand ycand prev) ->
    (bc_warm c = false -> NoDup inits /\ in_rng (length cand) inits) ->
    resolve_n (length cand) (bc_nts c) = Some k ->
    (length (sel_before prev c inits) <= k)%nat ->
    forall b st tr, bfit cand ycand prev c inits str = BFitted b st tr ->
      let s0 := sel_before prev c inits in
      let s := s0 ++ kept_idx tr in
      let cut := fun (A : Type) (l : list A) => if st then firstn (length s - length s0) l else l in
      NoDup s /\ in_rng (length cand) s /\ (length s <= k)%nat /\ (st = false -> length s = k) /\
      b_n b = length s /\ b_x b = map (fun i => nth i cand []) s /\ b_idx b = cut _ s /\
      b_y b = match ycand with
              | Some y => Some (cut _ (map (fun i => nth i y []) s)) | None => None end /\
      (forall below, bc_tst c = Some below ->
         Forall (fun e => te_below below e = negb (te_kept e)) tr) /\
      (st = true -> has_tst (bc_tst c) = true /\ exists e, In e tr /\ te_kept e = false).
Proof. exact bfit_fitted. Qed.
Print Assumptions C01_buf_fit.

(* the buffer bookkeeping never overflows and the warm-start prefix assignment never fails:
   inside the quantifier of C01 no IndexError / ValueError can come out of the search *)
Theorem C01_buf_no_buffer_error :
  forall cand ycand prev c inits str k,
    (bc_warm c = true -> bprev_ok cand ycand prev) ->
    (bc_warm c = false -> NoDup inits /\ in_rng (length cand) inits) ->
    resolve_n (length cand) (bc_nts c) = Some k ->
    (length (sel_before prev c inits) <= k)%nat ->
    forall e, bfit cand ycand prev c inits str = BRaised e -> e = EOut.
Proof. exact bfit_no_buffer_error. Qed.
Print Assumptions C01_buf_no_buffer_error.

(* chain invariant on the object state: the fitted object is consistent (index buffer of
   length n_selected_, distinct, in range, X_selected_/y_selected_ = input sliced at it) after
   every fit that was not stopped by the threshold — and ALSO after a threshold stop when no
   selection preceded the loop (cold CUR / PCov-CUR); such a state may be warm-continued *)
Theorem C01_buf_chain_invariant :
  forall cand ycand prev c inits str k,
    (bc_warm c = true -> bprev_ok cand ycand prev) ->
    (bc_warm c = false -> NoDup inits /\ in_rng (length cand) inits) ->
    resolve_n (length cand) (bc_nts c) = Some k ->
    (length (sel_before prev c inits) <= k)%nat ->
    forall b st tr, bfit cand ycand prev c inits str = BFitted b st tr ->
      (st = false \/ sel_before prev c inits = []) ->
      NoDup (b_idx b) /\ in_rng (length cand) (b_idx b) /\ b_n b = length (b_idx b) /\
      b_x b = map (fun i => nth i cand []) (b_idx b) /\
      b_y b = match ycand with
              | Some y => Some (map (fun i => nth i y []) (b_idx b)) | None => None end.
Proof. exact bfit_consistent. Qed.
Print Assumptions C01_buf_chain_invariant.

(* what is reported in every case (also after a stop that cut selections off): the index
   buffer is distinct and in range, the targets are y sliced at exactly it, the leading part of
   X_selected_ is X sliced at it, and its length is n_selected_ minus the selections that
   preceded the loop of a stopped fit — the exact size of the F2 discrepancy *)
Theorem C01_length_exact :
  forall cand ycand prev c inits str k,
    (bc_warm c = true -> bprev_ok cand ycand prev) ->
    (bc_warm c = false -> NoDup inits /\ in_rng (length cand) inits) ->
    resolve_n (length cand) (bc_nts c) = Some k ->
    (length (sel_before prev c inits) <= k)%nat ->
    forall b st tr, bfit cand ycand prev c inits str = BFitted b st tr ->
      NoDup (b_idx b) /\ in_rng (length cand) (b_idx b) /\
      b_y b = match ycand with
              | Some y => Some (map (fun i => nth i y []) (b_idx b)) | None => None end /\
      firstn (length (b_idx b)) (b_x b) = map (fun i => nth i cand []) (b_idx b) /\
      length (b_idx b) = (b_n b - (if st then length (sel_before prev c inits) else O))%nat.
Proof. exact bfit_reported. Qed.
Print Assumptions C01_length_exact.

Theorem C01_buf_rejections :
  forall cand ycand prev c inits str,
    (bc_full c = true /\ has_tst (bc_tst c) = true) \/ resolve_n (length cand) (bc_nts c) = None \/
    (bc_warm c = true /\ (prev = None \/ exists b0, prev = Some b0 /\ b_n b0 = O)) ->
    bfit cand ycand prev c inits str = BRejected.
Proof. exact bfit_rejections. Qed.
Print Assumptions C01_buf_rejections.

(* a cold fit does not depend on what any earlier fit left in the object *)
Theorem C01_cold_fit_forgets_history :
  forall cand ycand prev prev' c inits str,
    bc_warm c = false -> bfit cand ycand prev c inits str = bfit cand ycand prev' c inits str.
Proof. exact bfit_cold_history. Qed.
Print Assumptions C01_cold_fit_forgets_history.

(* The abstract model [sfit] (about whose loop C01_chain_invariant ... C01_threshold_stop above and
   the farthest-point / leverage-score theorems of C02, C06, C07 speak) is an abstraction of the
   buffer-level model: whenever the buffer-level fit succeeds from a consistent state, the
   abstract fit succeeds from the state it stands for ([prev_rel]: same selection sequence and
   first_score_), with the same stop flag; its selection sequence is the one underlying the
   buffers, what the index buffer shows is [reported_sel] of it, and both leave the same score
   stream and first_score_ behind. *)
Theorem C01_buf_refines_abstract :
  forall cand ycand pg pb c inits str k b st tr,
    prev_rel pg pb ->
    (c_warm c = true -> bprev_ok cand ycand pb) ->
    (c_warm c = false -> NoDup inits /\ in_rng (length cand) inits) ->
    resolve_n (length cand) (c_nts c) = Some k ->
    (length (sel_before pb (bcfg_of c) inits) <= k)%nat ->
    bfit cand ycand pb (bcfg_of c) inits str = BFitted b st tr ->
    exists g, sfit cand ycand pg c inits str = Fitted g st /\
              sel g = sel_before pb (bcfg_of c) inits ++ kept_idx tr /\
              reported_sel g st (n_before pg c inits) = b_idx b /\
              first g = b_first b /\ b_n b = length (sel g) /\ sst g = b_str b.
Proof. exact bfit_refines_sfit_flat. Qed.
Print Assumptions C01_buf_refines_abstract.

(* Consequences of finding F2 for a warm start after a stop that cut selections off, on the
   faithful model (each replayed on the implementation by the check, all under the F2 key):
   one kept step -> the 1-element index buffer is broadcast, duplicate index;
   two kept steps -> the prefix assignment raises ValueError;
   with targets -> the y buffer is padded too short, IndexError in the loop. *)
Theorem C01_warm_after_stop_refuted :
  f2_stage1 = BFitted f2_b1 true f2_tr1 /\ b_idx f2_b1 = [O] /\ b_n f2_b1 = 2%nat /\
  f2_stage2 = BFitted f2_b2 false f2_tr2 /\ ~ NoDup (b_idx f2_b2).
Proof. exact f2_warm_broadcast_duplicates. Qed.
Print Assumptions C01_warm_after_stop_refuted.

Theorem C01_warm_after_stop_value_error_refuted :
  f2v_stage1 = BFitted f2v_b1 true f2v_tr1 /\
  length (b_idx f2v_b1) = 2%nat /\ b_n f2v_b1 = 3%nat /\
  bfit f2_cand None (Some f2v_b1) (mk_bcfg (NtsInt 4) None false true) [] [[0;0;0;2]]
    = BRaised EValue.
Proof. exact f2_warm_value_error. Qed.
Print Assumptions C01_warm_after_stop_value_error_refuted.

Theorem C01_warm_after_stop_index_error_refuted :
  f2i_stage1 = BFitted f2i_b1 true f2i_tr1 /\
  bfit f2_cand f2_y (Some f2i_b1) (mk_bcfg (NtsInt 4) None false true) []
       [[0;9;0;2];[0;0;0;2]] = BRaised EIndex.
Proof. exact f2_warm_index_error. Qed.
Print Assumptions C01_warm_after_stop_index_error_refuted.

(* non-vacuity: float scores (IEEE bit patterns of 0.5, 0.3, 0.1), RELATIVE threshold 0.5 on
   binary64: 0.5/0.5 and 0.3/0.5 pass, 0.1/0.5 stops the search; no selection preceded the
   loop, so the state is consistent and a warm start (no threshold) continues it *)
Example C01_buf_nonvacuous :
  let cand := [[1;0];[0;2];[3;3]] in
  let y := Some [[7];[8];[9]] in
  let h := 4602678819172646912 in let t := 4599075939470750515 in let o := 4591870180066957722 in
  exists b1 tr1 b2 tr2,
    bfit cand y None (mk_bcfg (NtsInt 3) (tst_frel 0.5%float) false false) []
         [[h;t;o];[0;t;o];[0;0;o]] = BFitted b1 true tr1 /\
    b_idx b1 = [0;1]%nat /\ b_n b1 = 2%nat /\ b_y b1 = Some [[7];[8]] /\
    bprev_ok cand y (Some b1) /\
    bfit cand y (Some b1) (mk_bcfg (NtsInt 3) None false true) [] [[0;0;o]]
      = BFitted b2 false tr2 /\
    b_idx b2 = [0;1;2]%nat /\ b_x b2 = [[1;0];[0;2];[3;3]].
Proof.
  cbv zeta.
  exists (mk_bst 2 [0;1]%nat [[1;0];[0;2]] (Some [[7];[8]]) (Some 4602678819172646912) []).
  exists [(0%nat, 4602678819172646912, 4602678819172646912, true);
          (1%nat, 4599075939470750515, 4602678819172646912, true);
          (2%nat, 4591870180066957722, 4602678819172646912, false)].
  exists (mk_bst 3 [0;1;2]%nat [[1;0];[0;2];[3;3]] (Some [[7];[8];[9]]) (Some 4602678819172646912) []).
  exists [(2%nat, 4591870180066957722, 0, true)].
  split; [vm_compute; reflexivity|]. split; [reflexivity|]. split; [reflexivity|].
  split; [reflexivity|]. split.
  - unfold bprev_ok, BOk; cbn. repeat split; auto.
    + repeat constructor; cbn; intuition lia.
    + repeat constructor.
  - split; [vm_compute; reflexivity|]. split; reflexivity.
Qed.

(* NaN scores (finite but overflowing input: inf - inf): the harness codes every NaN as
   0x7FF8000000000000, above +infinity (0x7FF0000000000000).  On the codes the masked first-index
   arg-max is numpy's np.argmax after `scores[selected] = -inf`: the FIRST NaN among the unselected
   wins over +infinity and over every finite score; the code decodes to nan and no threshold test
   (absolute or relative, binary64) stops on it. *)
Example C01_nan_order :
  let nanc := 9221120237041090560 in let infc := 9218868437227405312 in
  amax (mask [0%nat] [nanc; infc; nanc; nanc; 4607182418800017408]) = Some (2%nat, nanc) /\
  PrimFloat.is_nan (dec nanc) = true /\
  match tst_fabs infinity with Some below => below nanc nanc = false | None => False end /\
  match tst_frel 0.5%float with Some below => below infc nanc = false /\ below nanc infc = false | None => False end.
Proof. cbv zeta. repeat split; vm_compute; reflexivity. Qed.
