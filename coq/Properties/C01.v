(* C01 — every selector returns a consistent set of distinct, valid indices.
   Model: Model/Select.v + Model/Greedy.v (GreedySelector.fit for an arbitrary scorer, given
   as the stream of score vectors presented to the arg-max).  [sfit cand ycand prev c inits str]
   is one call of fit: [prev] the state left by the previous fit (None = never fitted), [c] the
   configuration (n_to_select form, threshold, full, warm_start), [inits] the initial selections
   of a cold start.  [state_ok] is the invariant of fitted states; C01_chain_invariant shows
   every fit re-establishes it, so all statements hold after ANY chain of cold/warm fits. *)
From Verif Require Import ListX Greedy Select ListXP GreedyP SelectP C01Thm.
From Coq Require Import Sorting.Permutation Sorting.Sorted.

Theorem C01_chain_invariant :
  forall cand ycand prev c inits str,
    state_ok cand ycand prev -> NoDup inits -> in_rng (length cand) inits ->
    stream_ok (length cand) str ->
    forall g st, sfit cand ycand prev c inits str = Fitted g st -> state_ok cand ycand (Some g).
Proof. exact c01_state_ok. Qed.
Print Assumptions C01_chain_invariant.

(* pairwise distinct, in-range indices — both the internal sequence and what is reported *)
Theorem C01_distinct_in_range :
  forall cand ycand prev c inits str,
    state_ok cand ycand prev -> NoDup inits -> in_rng (length cand) inits ->
    stream_ok (length cand) str ->
    forall g st, sfit cand ycand prev c inits str = Fitted g st ->
      NoDup (sel g) /\ in_rng (length cand) (sel g) /\
      NoDup (reported_sel g st (n_before prev c inits)) /\
      in_rng (length cand) (reported_sel g st (n_before prev c inits)).
Proof. exact c01_distinct_in_range. Qed.
Print Assumptions C01_distinct_in_range.

(* the stored columns/rows and targets are the input sliced at the selections, in order *)
Theorem C01_stored_data :
  forall cand ycand prev c inits str,
    state_ok cand ycand prev -> NoDup inits -> in_rng (length cand) inits ->
    stream_ok (length cand) str ->
    forall g st, sfit cand ycand prev c inits str = Fitted g st ->
      xsel g = map (fun i => nth i cand []) (sel g) /\
      (forall y, ycand = Some y -> ysel g = map (fun i => nth i y []) (sel g)).
Proof. exact c01_stored_data. Qed.
Print Assumptions C01_stored_data.

(* length = the size implied by n_to_select unless a threshold stopped the search.
   PARTIAL: the full statement also demands len(selected_idx_) = n_selected_ after a threshold
   stop; the code as it stands violates that (C01_threshold_stop_refuted below, known finding). *)
Theorem C01_length_partial :
  forall cand ycand prev c inits str,
    state_ok cand ycand prev -> NoDup inits -> in_rng (length cand) inits ->
    stream_ok (length cand) str ->
    forall g st, sfit cand ycand prev c inits str = Fitted g st ->
    forall k, resolve_n (length cand) (c_nts c) = Some k -> (n_before prev c inits <= k)%nat ->
      (length (sel g) <= k)%nat /\
      (st = false -> length (sel g) = k /\ reported_sel g st (n_before prev c inits) = sel g).
Proof. exact c01_length. Qed.
Print Assumptions C01_length_partial.

Theorem C01_threshold_stop_refuted :
  exists cand inits str c g,
    sfit cand None None c inits str = Fitted g true /\
    length (reported_sel g true (n_before None c inits)) <> length (sel g).
Proof. exact c01_stop_truncation_witness. Qed.
Print Assumptions C01_threshold_stop_refuted.

(* n_to_select resolution *)
Theorem C01_resolve_n :
  forall n p k, resolve_n n p = Some k ->
    match p with
    | NtsNone => k = Nat.div n 2
    | NtsInt z => 0 < z <= Z.of_nat n /\ k = Z.to_nat z
    | NtsFrac r ok => ok = true /\ k = Z.to_nat r
    end.
Proof. exact c01_resolve. Qed.
Print Assumptions C01_resolve_n.

(* every kept selection had a score at or above the threshold when it was taken ... *)
Theorem C01_threshold_kept :
  forall cand ycand t k g,
    GInv stream cand ycand (SP cand) g -> has_thr t = true ->
    Forall (fun x => below t (snd x) (snd (fst x)) = false)
           (run_tr stream (s_score (length cand)) s_upd cand ycand t k g).
Proof.
  exact (fun cand ycand =>
    run_tr_above stream (s_score (length cand)) s_upd cand ycand (SP cand)
                 (SP_len cand) (SP_upd cand)).
Qed.
Print Assumptions C01_threshold_kept.

(* ... and on a stop the best remaining score was below it *)
Theorem C01_threshold_stop :
  forall cand ycand t k g g',
    GInv stream cand ycand (SP cand) g -> (length (sel g) + k <= length cand)%nat ->
    run stream (s_score (length cand)) s_upd cand ycand t k g = (g', true) ->
    exists i f, is_best stream (s_score (length cand)) cand g' i /\ first g' = Some f /\
                below t f (nth i (s_score (length cand) (sst g')) 0) = true.
Proof.
  exact (fun cand ycand =>
    run_stop_below stream (s_score (length cand)) s_upd cand ycand (SP cand)
                   (SP_len cand) (SP_upd cand)).
Qed.
Print Assumptions C01_threshold_stop.

(* derived views: support mask, sorted index list, transform *)
Theorem C01_views :
  forall cand s, NoDup s -> in_rng (length cand) s ->
    (forall i, (i < length cand)%nat -> nth i (support (length cand) s) false = true <-> In i s) /\
    length (support (length cand) s) = length cand /\
    Permutation s (support_indices s) /\ Sorted le (support_indices s) /\
    transform_cols cand s = map (fun i => nth i cand []) (support_indices s).
Proof. exact c01_views. Qed.
Print Assumptions C01_views.

(* rejected configurations *)
Theorem C01_rejections :
  forall cand ycand prev c inits str,
    (c_full c = true /\ has_thr (c_thr c) = true) \/ resolve_n (length cand) (c_nts c) = None \/
    (c_warm c = true /\ (prev = None \/ exists g0, prev = Some g0 /\ sel g0 = [])) ->
    sfit cand ycand prev c inits str = Rejected.
Proof. exact c01_rejections. Qed.
Print Assumptions C01_rejections.

(* non-vacuity: a concrete cold fit with a tie, then a warm continuation *)
Example C01_nonvacuous :
  let cand := [[0;0];[3;0];[0;4];[1;1]] in
  let str := [[0;9;16;2];[0;9;0;2];[0;0;0;2]] in
  in_rng 4 [0%nat] /\ stream_ok 4 str /\
  exists g, sfit cand None None (mk_cfg (NtsInt 2) NoThr false false) [0%nat] str = Fitted g false /\
            sel g = [0; 2]%nat /\
  exists g2, sfit cand None (Some g) (mk_cfg NtsNone NoThr false true) [] [] = Fitted g2 false /\
             sel g2 = [0; 2]%nat.
Proof.
  cbv zeta. split; [repeat constructor|]. split; [repeat constructor|].
  eexists. split; [vm_compute; reflexivity|]. split; [reflexivity|].
  eexists. split; vm_compute; reflexivity.
Qed.
