(* C15 — periodic and Mahalanobis pairwise distances obey the metric laws under minimum image.
   Statements only; every proof is `exact <lemma>` from Proofs/PairwiseP.v.
   Model: Model/Pairwise.v over Q.  [pd2 cell x y] is the SQUARED periodic distance of one
   pair (what the implementation returns with squared=True; norm = its root), [fd2 x y] the
   squared free-space distance, [wrap c t = t - rhe (t / c) * c] one coordinate of
   `XY -= np.round(XY / cell) * cell`, [rhe] = np.round on a scalar, [vshift cell m x] the
   point x moved by m_k cell lengths along every axis k.  All theorems hold for every
   dimension, every positive cell and all rational points (induction over the dimension). *)
From Verif Require Import Pairwise PairwiseP.
Open Scope Q_scope.

(* the rounding of the model is round-half-to-even: a nearest integer, the even one on ties *)
Theorem C15_round_half_even :
  forall q, - (1 # 2) <= q - inject_Z (rhe q) <= 1 # 2 /\
            (q - inject_Z (rhe q) == 1 # 2 \/ q - inject_Z (rhe q) == - (1 # 2) ->
             Z.even (rhe q) = true).
Proof. exact (fun q => conj (rhe_near q) (rhe_tie_even q)). Qed.
Print Assumptions C15_round_half_even.

Theorem C15_symmetric :
  forall cell x y, cell_pos cell -> pd2 cell x y == pd2 cell y x.
Proof. exact (fun cell x y _ => pd2_sym cell x y). Qed.
Print Assumptions C15_symmetric.

Theorem C15_nonneg :
  forall cell x y, 0 <= pd2 cell x y.
Proof. exact pd2_nonneg. Qed.
Print Assumptions C15_nonneg.

(* every wrapped coordinate lies within half a cell length: |wrap c t| <= c/2 *)
Theorem C15_wrap_bound :
  forall c t, 0 < c -> - c <= 2 * wrap c t <= c.
Proof. exact wrap_bound. Qed.
Print Assumptions C15_wrap_bound.

(* the distance never exceeds half the cell diagonal: pd2 <= sum_k c_k^2 / 4 *)
Theorem C15_half_diagonal :
  forall cell x y, cell_pos cell -> 4 * pd2 cell x y <= qsqn cell.
Proof. exact pd2_half_diagonal. Qed.
Print Assumptions C15_half_diagonal.

(* ... nor the free-space distance *)
Theorem C15_le_free :
  forall cell x y, cell_pos cell -> length x = length cell -> length y = length cell ->
    pd2 cell x y <= fd2 x y.
Proof. exact pd2_le_free. Qed.
Print Assumptions C15_le_free.

(* moving either point by arbitrary integer multiples of the cell changes nothing; this
   includes pairs exactly half a cell apart, where the wrapped coordinate itself flips sign
   (wrap 1 (1/2) = 1/2, wrap 1 (3/2) = -1/2, see the Example) but its square does not *)
Theorem C15_image_invariant :
  forall cell m m' x y, cell_pos cell ->
    length m = length cell -> length m' = length cell ->
    length x = length cell -> length y = length cell ->
    pd2 cell (vshift cell m x) (vshift cell m' y) == pd2 cell x y.
Proof. exact pd2_image. Qed.
Print Assumptions C15_image_invariant.

Theorem C15_zero_on_images :
  forall cell m x, cell_pos cell -> length m = length cell -> length x = length cell ->
    pd2 cell x (vshift cell m x) == 0.
Proof. exact pd2_zero_on_images. Qed.
Print Assumptions C15_zero_on_images.

(* and only there: distance zero means y is a periodic image of x *)
Theorem C15_zero_only_on_images :
  forall cell x y, cell_pos cell -> length x = length cell -> length y = length cell ->
    pd2 cell x y == 0 ->
    exists m, length m = length cell /\ Forall2 Qeq y (vshift cell m x).
Proof. exact pd2_zero_only_images. Qed.
Print Assumptions C15_zero_only_on_images.

(* minimum-image convention: the result is the smallest free-space distance between y and
   any periodic image of x, and it is attained by one of them *)
Theorem C15_minimum_image :
  forall cell x y, cell_pos cell -> length x = length cell -> length y = length cell ->
    (forall m, length m = length cell -> pd2 cell x y <= fd2 (vshift cell m x) y) /\
    (exists m, length m = length cell /\ pd2 cell x y == fd2 (vshift cell m x) y).
Proof.
  exact (fun cell x y Hc Hx Hy =>
           conj (fun m Hm => pd2_le_any_image cell m x y Hc Hm Hx Hy) (pd2_attained cell x y Hc Hx Hy)).
Qed.
Print Assumptions C15_minimum_image.

(* triangle inequality sqrt a <= sqrt b + sqrt c for the distances a = d(x,z)^2, b = d(x,y)^2,
   c = d(y,z)^2, in its square-root-free form (a, b, c >= 0 by C15_nonneg):
   sqrt a <= sqrt b + sqrt c  <->  a - b - c <= 2 sqrt (b c)  <->  a <= b + c \/ (a-b-c)^2 <= 4 b c *)
Theorem C15_triangle :
  forall cell x y z, cell_pos cell ->
    length x = length cell -> length y = length cell -> length z = length cell ->
    pd2 cell x z <= pd2 cell x y + pd2 cell y z \/
    qsq (pd2 cell x z - pd2 cell x y - pd2 cell y z) <= 4 * pd2 cell x y * pd2 cell y z.
Proof. exact pd2_triangle. Qed.
Print Assumptions C15_triangle.

(* the returned matrix holds, at [i][j], the distance of the pair (X[i], Y[j]) *)
Theorem C15_matrix_entries :
  forall X Y cell M, periodic_pairwise X (Some Y) cell = Some M ->
    length M = length X /\
    forall i j, (i < length X)%nat -> (j < length Y)%nat ->
      nth j (nth i M []) 0 = dist2 cell (nth i X []) (nth j Y []).
Proof. exact periodic_pairwise_entry. Qed.
Print Assumptions C15_matrix_entries.

(* Mahalanobis distance with the identity precision is the periodic (resp. free) distance *)
Theorem C15_mahal_identity :
  forall cell x y, length x = length cell -> length y = length cell ->
    mahal2 (ident (length cell)) (Some cell) x y == pd2 cell x y.
Proof. exact mahal_identity_periodic. Qed.
Print Assumptions C15_mahal_identity.

Theorem C15_mahal_identity_free :
  forall x y, length y = length x -> mahal2 (ident (length x)) None x y == fd2 x y.
Proof. exact mahal_identity_free. Qed.
Print Assumptions C15_mahal_identity_free.

(* precision L L^T ([gram L], L with d rows of r entries): v^T (L L^T) v = |L^T v|^2, the squared
   Euclidean length of the whitened difference, for v the (wrapped) difference of any pair *)
Theorem C15_mahal_whitening :
  forall r L cell x y, rows_len r L -> length (dvec cell x y) = length L ->
    mahal2 (gram L) cell x y == qsqn (tmvec r L (dvec cell x y)).
Proof. exact (fun r L cell x y HL Hv => qform_gram r L (dvec cell x y) HL Hv). Qed.
Print Assumptions C15_mahal_whitening.

(* every matrix of a stack of precisions is treated independently: slice k of the result is
   the result of the call with the k-th precision alone *)
Theorem C15_mahal_stack_independent :
  forall X Y Ps cell R, pairwise_mahal X Y (Cov3 Ps) cell = Some R ->
    length R = length Ps /\
    forall k, (k < length Ps)%nat ->
      pairwise_mahal X Y (Cov2 (nth k Ps [])) cell = Some [nth k R []].
Proof. exact mahal_stack_independent. Qed.
Print Assumptions C15_mahal_stack_independent.

(* a cell whose length differs from the data dimension is rejected by both functions *)
Theorem C15_dim_mismatch_rejected :
  forall X Y Y' cov cell, length cell <> width X ->
    periodic_pairwise X Y (Some cell) = None /\ pairwise_mahal X Y' cov (Some cell) = None.
Proof. exact dim_mismatch_rejected. Qed.
Print Assumptions C15_dim_mismatch_rejected.

(* non-vacuity: an anisotropic 2-d cell, a point far outside it, a point exactly half a cell
   away; the wrap flips sign between the two images of a half-cell difference *)
Example C15_nonvacuous :
  let cell := [1; 3 # 4] in let x := [41 # 2; - (29 # 8)] in let y := [0; 1 # 8] in
  cell_pos cell /\ length x = length cell /\ length y = length cell /\
  wrap 1 (1 # 2) == 1 # 2 /\ wrap 1 (3 # 2) == - (1 # 2) /\
  pd2 cell x y == 1 # 4 /\ fd2 x y == 6949 # 16 /\
  pd2 cell (vshift cell [7; -2]%Z x) y == 1 # 4 /\
  periodic_pairwise [x] (Some [y]) (Some cell) = Some [[pd2 cell x y]] /\
  periodic_pairwise [x] (Some [y]) (Some [1]) = None /\
  mahal2 (gram [[1; 0]; [1 # 2; 2]]) (Some cell) x y == 1 # 4.
Proof.
  cbv zeta. split; [repeat constructor|]. repeat split; vm_compute; reflexivity.
Qed.
