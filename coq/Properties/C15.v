(* C15 — periodic and Mahalanobis pairwise distances obey the metric laws under minimum image.
   Statements only; every proof is `exact <lemma>` from Proofs/PairwiseP.v.
   Model: Model/Pairwise.v over Q.  [pd2 cell x y] is the SQUARED periodic distance of one
   pair (what the implementation returns with squared=True; norm = its root), [fd2 x y] the
   squared free-space distance, [wrap c t = t - rhe (t / c) * c] one coordinate of
   `XY -= np.round(XY / cell) * cell`, [rhe] = np.round on a scalar, [vshift cell m x] the
   point x moved by m_k cell lengths along every axis k.  All theorems hold for every
   dimension, every positive cell and all rational points (induction over the dimension). *)
From Coq Require Import Lqa.
From Verif Require Import Pairwise PairwiseP PairwiseX PairwiseXP.
Open Scope Q_scope.

(* the rounding of the model is round-half-to-even: a nearest integer, the even one on ties *)
Theorem C15_round_half_even :
  forall q, - (1 # 2) <= q - inject_Z (rhe q) <= 1 # 2 /\
            (q - inject_Z (rhe q) == 1 # 2 \/ q - inject_Z (rhe q) == - (1 # 2) ->
             Z.even (rhe q) = true).
Proof. exact (fun q => conj (rhe_near q) (rhe_tie_even q)). Qed.
Print Assumptions C15_round_half_even.

Theorem C15_symmetric :
  forall cell x y, cell_pos cell -> pd2 cell x y == pd2 cell y x.
Proof. exact (fun cell x y _ => pd2_sym cell x y). Qed.
Print Assumptions C15_symmetric.

Theorem C15_nonneg :
  forall cell x y, 0 <= pd2 cell x y.
Proof. exact pd2_nonneg. Qed.
Print Assumptions C15_nonneg.

(* every wrapped coordinate lies within half a cell length: |wrap c t| <= c/2 *)
Theorem C15_wrap_bound :
  forall c t, 0 < c -> - c <= 2 * wrap c t <= c.
Proof. exact wrap_bound. Qed.
Print Assumptions C15_wrap_bound.

(* the distance never exceeds half the cell diagonal: pd2 <= sum_k c_k^2 / 4 *)
Theorem C15_half_diagonal :
  forall cell x y, cell_pos cell -> 4 * pd2 cell x y <= qsqn cell.
Proof. exact pd2_half_diagonal. Qed.
Print Assumptions C15_half_diagonal.

(* ... nor the free-space distance *)
Theorem C15_le_free :
  forall cell x y, cell_pos cell -> length x = length cell -> length y = length cell ->
    pd2 cell x y <= fd2 x y.
Proof. exact pd2_le_free. Qed.
Print Assumptions C15_le_free.

(* moving either point by arbitrary integer multiples of the cell changes nothing; this
   includes pairs exactly half a cell apart, where the wrapped coordinate itself flips sign
   (wrap 1 (1/2) = 1/2, wrap 1 (3/2) = -1/2, see the Example) but its square does not *)
Theorem C15_image_invariant :
  forall cell m m' x y, cell_pos cell ->
    length m = length cell -> length m' = length cell ->
    length x = length cell -> length y = length cell ->
    pd2 cell (vshift cell m x) (vshift cell m' y) == pd2 cell x y.
Proof. exact pd2_image. Qed.
Print Assumptions C15_image_invariant.

Theorem C15_zero_on_images :
  forall cell m x, cell_pos cell -> length m = length cell -> length x = length cell ->
    pd2 cell x (vshift cell m x) == 0.
Proof. exact pd2_zero_on_images. Qed.
Print Assumptions C15_zero_on_images.

(* and only there: distance zero means y is a periodic image of x *)
Theorem C15_zero_only_on_images :
  forall cell x y, cell_pos cell -> length x = length cell -> length y = length cell ->
    pd2 cell x y == 0 ->
    exists m, length m = length cell /\ Forall2 Qeq y (vshift cell m x).
Proof. exact pd2_zero_only_images. Qed.
Print Assumptions C15_zero_only_on_images.

(* minimum-image convention: the result is the smallest free-space distance between y and
   any periodic image of x, and it is attained by one of them *)
Theorem C15_minimum_image :
  forall cell x y, cell_pos cell -> length x = length cell -> length y = length cell ->
    (forall m, length m = length cell -> pd2 cell x y <= fd2 (vshift cell m x) y) /\
    (exists m, length m = length cell /\ pd2 cell x y == fd2 (vshift cell m x) y).
Proof.
  exact (fun cell x y Hc Hx Hy =>
           conj (fun m Hm => pd2_le_any_image cell m x y Hc Hm Hx Hy) (pd2_attained cell x y Hc Hx Hy)).
Qed.
Print Assumptions C15_minimum_image.

(* triangle inequality sqrt a <= sqrt b + sqrt c for the distances a = d(x,z)^2, b = d(x,y)^2,
   c = d(y,z)^2, in its square-root-free form (a, b, c >= 0 by C15_nonneg):
   sqrt a <= sqrt b + sqrt c  <->  a - b - c <= 2 sqrt (b c)  <->  a <= b + c \/ (a-b-c)^2 <= 4 b c *)
Theorem C15_triangle :
  forall cell x y z, cell_pos cell ->
    length x = length cell -> length y = length cell -> length z = length cell ->
    pd2 cell x z <= pd2 cell x y + pd2 cell y z \/
    qsq (pd2 cell x z - pd2 cell x y - pd2 cell y z) <= 4 * pd2 cell x y * pd2 cell y z.
Proof. exact pd2_triangle. Qed.
Print Assumptions C15_triangle.

(* the returned matrix holds, at [i][j], the distance of the pair (X[i], Y[j]) *)
Theorem C15_matrix_entries :
  forall X Y cell M, periodic_pairwise X (Some Y) cell = Some M ->
    length M = length X /\
    forall i j, (i < length X)%nat -> (j < length Y)%nat ->
      nth j (nth i M []) 0 = dist2 cell (nth i X []) (nth j Y []).
Proof. exact periodic_pairwise_entry. Qed.
Print Assumptions C15_matrix_entries.

(* Mahalanobis distance with the identity precision is the periodic (resp. free) distance *)
Theorem C15_mahal_identity :
  forall cell x y, length x = length cell -> length y = length cell ->
    mahal2 (ident (length cell)) (Some cell) x y == pd2 cell x y.
Proof. exact mahal_identity_periodic. Qed.
Print Assumptions C15_mahal_identity.

Theorem C15_mahal_identity_free :
  forall x y, length y = length x -> mahal2 (ident (length x)) None x y == fd2 x y.
Proof. exact mahal_identity_free. Qed.
Print Assumptions C15_mahal_identity_free.

(* precision L L^T ([gram L], L with d rows of r entries): v^T (L L^T) v = |L^T v|^2, the squared
   Euclidean length of the whitened difference, for v the (wrapped) difference of any pair *)
Theorem C15_mahal_whitening :
  forall r L cell x y, rows_len r L -> length (dvec cell x y) = length L ->
    mahal2 (gram L) cell x y == qsqn (tmvec r L (dvec cell x y)).
Proof. exact (fun r L cell x y HL Hv => qform_gram r L (dvec cell x y) HL Hv). Qed.
Print Assumptions C15_mahal_whitening.

(* every matrix of a stack of precisions is treated independently: slice k of the result is
   the result of the call with the k-th precision alone *)
Theorem C15_mahal_stack_independent :
  forall X Y Ps cell R, pairwise_mahal X Y (Cov3 Ps) cell = Some R ->
    length R = length Ps /\
    forall k, (k < length Ps)%nat ->
      pairwise_mahal X Y (Cov2 (nth k Ps [])) cell = Some [nth k R []].
Proof. exact mahal_stack_independent. Qed.
Print Assumptions C15_mahal_stack_independent.

(* a cell whose length differs from the data dimension is rejected by both functions *)
Theorem C15_dim_mismatch_rejected :
  forall X Y Y' cov cell, length cell <> width X ->
    periodic_pairwise X Y (Some cell) = None /\ pairwise_mahal X Y' cov (Some cell) = None.
Proof. exact dim_mismatch_rejected. Qed.
Print Assumptions C15_dim_mismatch_rejected.

(* non-vacuity: an anisotropic 2-d cell, a point far outside it, a point exactly half a cell
   away; the wrap flips sign between the two images of a half-cell difference *)
Example C15_nonvacuous :
  let cell := [1; 3 # 4] in let x := [41 # 2; - (29 # 8)] in let y := [0; 1 # 8] in
  cell_pos cell /\ length x = length cell /\ length y = length cell /\
  wrap 1 (1 # 2) == 1 # 2 /\ wrap 1 (3 # 2) == - (1 # 2) /\
  pd2 cell x y == 1 # 4 /\ fd2 x y == 6949 # 16 /\
  pd2 cell (vshift cell [7; -2]%Z x) y == 1 # 4 /\
  periodic_pairwise [x] (Some [y]) (Some cell) = Some [[pd2 cell x y]] /\
  periodic_pairwise [x] (Some [y]) (Some [1]) = None /\
  mahal2 (gram [[1; 0]; [1 # 2; 2]]) (Some cell) x y == 1 # 4.
Proof.
  cbv zeta. split; [repeat constructor|]. repeat split; vm_compute; reflexivity.
Qed.

(* ======================================================================================
   Extension (round 3).  Model/PairwiseX.v, Proofs/PairwiseXP.v.
   ====================================================================================== *)

(* --- the array bookkeeping of the code: XY = concatenate([x - Y for x in X]) is a flat list of
   n_X * n_Y rows, the cell is broadcast along them, the row norms / quadratic forms are
   reshaped to (n_X, n_Y).  The functions written on that layout (these are what the
   correspondence check runs) equal the pairwise definitions all theorems speak of. *)
Theorem C15_flat_layout :
  forall X Y cell, periodic_pairwise_flat X Y cell = periodic_pairwise X Y cell.
Proof. exact periodic_pairwise_flat_eq. Qed.
Print Assumptions C15_flat_layout.

(* ... same for the Mahalanobis function, including Y=None (check_pairwise_arrays: Y = X) *)
Theorem C15_mahal_flat_layout :
  forall X Y cov cell,
    pairwise_mahal_flat X Y cov cell
    = pairwise_mahal X (match Y with None => X | Some Y' => Y' end) cov cell.
Proof. exact mahal_flat_full. Qed.
Print Assumptions C15_mahal_flat_layout.

(* --- squared=True returns the square of what squared=False returns.  The model is exact and
   has no square root: a squared=False result is any matrix of non-negative r with r*r = the
   exact squared distance ([pp_returns false]).  (i) squaring such a result entrywise is a
   squared=True result; (ii) any squared=True result is the entrywise square of any
   squared=False result of the same call. *)
Theorem C15_squared_flag :
  forall X Y cell R, pp_returns false X Y cell R ->
    pp_returns true X Y cell (map (map qsq) R) /\
    forall R2, pp_returns true X Y cell R2 -> mat_rel (fun r r2 => 0 <= r /\ r2 == r * r) R R2.
Proof.
  exact (fun X Y cell R H => conj (pp_squared_flag X Y cell R H)
                                  (fun R2 H2 => pp_flag_unique X Y cell R R2 H H2)).
Qed.
Print Assumptions C15_squared_flag.

(* --- triangle inequality with the square roots themselves.  Q has no square roots, so they are
   replaced by arbitrary rational upper bounds rb >= d(x,y), rc >= d(y,z) (given as
   d^2 <= r^2, r >= 0): then d(x,z) <= rb + rc.  Over the reals this is equivalent to
   d(x,z) <= d(x,y) + d(y,z) (rational upper bounds are dense); no hypothesis restricts the
   points, so it is not vacuous where the distances are irrational. *)
Theorem C15_triangle_root_bounds :
  forall cell x y z rb rc, cell_pos cell ->
    length x = length cell -> length y = length cell -> length z = length cell ->
    0 <= rb -> 0 <= rc -> pd2 cell x y <= rb * rb -> pd2 cell y z <= rc * rc ->
    pd2 cell x z <= (rb + rc) * (rb + rc).
Proof. exact pd2_triangle_bounds. Qed.
Print Assumptions C15_triangle_root_bounds.

(* ... and literally, whenever the three distances are rational *)
Theorem C15_triangle_roots :
  forall cell x y z ra rb rc, cell_pos cell ->
    length x = length cell -> length y = length cell -> length z = length cell ->
    is_root ra (pd2 cell x z) -> is_root rb (pd2 cell x y) -> is_root rc (pd2 cell y z) ->
    ra <= rb + rc.
Proof. exact pd2_triangle_roots. Qed.
Print Assumptions C15_triangle_roots.

(* --- when may the fold be skipped?  Exactly when every coordinate DIFFERENCE lies within half
   a cell length.  (That every POINT lies in the centred primary cell is not enough: see the
   Example, differences then reach a whole cell length.) *)
Theorem C15_fold_identity_iff :
  forall c t, 0 < c -> (wrap c t == t <-> - c <= 2 * t <= c).
Proof. exact wrap_id_iff. Qed.
Print Assumptions C15_fold_identity_iff.

Theorem C15_periodic_equals_free_iff :
  forall cell x y, cell_pos cell -> length x = length cell -> length y = length cell ->
    (pd2 cell x y == fd2 x y <-> within_half cell x y).
Proof. exact pd2_eq_free_iff. Qed.
Print Assumptions C15_periodic_equals_free_iff.

(* --- the laws at the level of the returned matrices ------------------------------------- *)
(* D(Y, X) is the transpose of D(X, Y), with or without a cell *)
Theorem C15_matrix_symmetric :
  forall X Y cell M M',
    periodic_pairwise X (Some Y) cell = Some M -> periodic_pairwise Y (Some X) cell = Some M' ->
    forall i j, (i < length X)%nat -> (j < length Y)%nat ->
      nth i (nth j M' []) 0 == nth j (nth i M []) 0.
Proof. exact pp_matrix_symmetric. Qed.
Print Assumptions C15_matrix_symmetric.

(* Y=None: zero diagonal, symmetric matrix *)
Theorem C15_matrix_self :
  forall X cell M, ocell_pos cell -> periodic_pairwise X None cell = Some M ->
    (forall i, (i < length X)%nat -> nth i (nth i M []) 0 == 0) /\
    (forall i j, (i < length X)%nat -> (j < length X)%nat ->
       nth j (nth i M []) 0 == nth i (nth j M []) 0).
Proof. exact pp_matrix_self. Qed.
Print Assumptions C15_matrix_self.

(* every row of X and every row of Y moved by its own integer image vector: same matrix *)
Theorem C15_matrix_image_invariant :
  forall cell ms ms' X Y M M', cell_pos cell ->
    length ms = length X -> length ms' = length Y ->
    Forall (fun m => length m = length cell) ms -> Forall (fun m => length m = length cell) ms' ->
    periodic_pairwise X (Some Y) (Some cell) = Some M ->
    periodic_pairwise (mshift cell ms X) (Some (mshift cell ms' Y)) (Some cell) = Some M' ->
    forall i j, (i < length X)%nat -> (j < length Y)%nat ->
      nth j (nth i M' []) 0 == nth j (nth i M []) 0.
Proof. exact pp_matrix_image. Qed.
Print Assumptions C15_matrix_image_invariant.

(* every entry is non-negative, at most half the cell diagonal, at most the free-space value *)
Theorem C15_matrix_bounds :
  forall X Y cell M, cell_pos cell -> periodic_pairwise X (Some Y) (Some cell) = Some M ->
    forall i j, (i < length X)%nat -> (j < length Y)%nat ->
      0 <= nth j (nth i M []) 0 /\ 4 * nth j (nth i M []) 0 <= qsqn cell /\
      nth j (nth i M []) 0 <= fd2 (nth i X []) (nth j Y []).
Proof. exact pp_matrix_bounds. Qed.
Print Assumptions C15_matrix_bounds.

(* --- without a cell every entry is the free-space squared distance, which is the expression
   sklearn's euclidean_distances evaluates: <x,x> - 2<x,y> + <y,y> *)
Theorem C15_no_cell_is_sklearn :
  forall X Y M, periodic_pairwise X (Some Y) None = Some M ->
    forall i j, (i < length X)%nat -> (j < length Y)%nat ->
      let x := nth i X [] in let y := nth j Y [] in
      nth j (nth i M []) 0 = fd2 x y /\ fd2 x y == qdot x x - 2 * qdot x y + qdot y y.
Proof. exact pp_no_cell. Qed.
Print Assumptions C15_no_cell_is_sklearn.

(* --- for a precision L L^T (every SPD matrix has this form) the quadratic form is never
   negative, with or without a cell: the final `**0.5` is applied to non-negative numbers *)
Theorem C15_mahal_nonneg :
  forall r L cell x y, rows_len r L -> length (dvec cell x y) = length L ->
    0 <= mahal2 (gram L) cell x y.
Proof. exact mahal_gram_nonneg. Qed.
Print Assumptions C15_mahal_nonneg.

(* --- Mahalanobis distance and periodic images.  With a non-diagonal precision the value depends
   on the SIGN pattern of the wrapped difference, and at an exact half-cell tie the sign of a
   wrapped coordinate depends on the image (round-half-even).  So image invariance holds for
   every pair without such a tie ([no_tie]) ... *)
Theorem C15_mahal_image_invariant_off_ties :
  forall P cell m m' x y, cell_pos cell ->
    length m = length cell -> length m' = length cell ->
    length x = length cell -> length y = length cell -> no_tie cell x y ->
    mahal2 P (Some cell) (vshift cell m x) (vshift cell m' y) == mahal2 P (Some cell) x y.
Proof. exact mahal_image_off_ties. Qed.
Print Assumptions C15_mahal_image_invariant_off_ties.

(* ... and fails at a tie, already for a 2 x 2 SPD precision and the unit cell (the statement
   of C15 claims image invariance for the Euclidean function only; this is why the
   correspondence oracle accepts either image for Mahalanobis at ties) *)
Theorem C15_mahal_image_at_tie_refuted :
  exists P cell m x y, cell_pos cell /\ length m = length cell /\
    length x = length cell /\ length y = length cell /\
    ~ mahal2 P (Some cell) (vshift cell m x) y == mahal2 P (Some cell) x y.
Proof.
  exact (ex_intro _ [[1; 1 # 2]; [1 # 2; 1]] (ex_intro _ [1; 1] (ex_intro _ [1; 0]%Z
        (ex_intro _ [1 # 2; 1 # 4] (ex_intro _ [0; 0]
          (conj (Forall_cons 1 (eq_refl : 0 < 1) (Forall_cons 1 (eq_refl : 0 < 1) (Forall_nil _)))
             (conj eq_refl (conj eq_refl (conj eq_refl mahal_image_tie_witness))))))))).
Qed.
Print Assumptions C15_mahal_image_at_tie_refuted.

(* non-vacuity of the extension: both points inside the centred primary cell of [1; 2] and yet
   the fold matters (periodic 1/16+1/4 vs free 9/16+1/4... see values); a 3-4-5 triangle
   on the torus with rational distances; a 2 x 2 call on the flat layout; image shift of rows *)
Example C15_ext_nonvacuous :
  let cell := [1; 2] in let x := [3 # 8; 1 # 2] in let y := [- (3 # 8); 0] in
  in_cell cell x /\ in_cell cell y /\ ~ within_half cell x y /\
  pd2 cell x y == 5 # 16 /\ fd2 x y == 13 # 16 /\
  (let c := [100; 100] in
   is_root 5 (pd2 c [0; 0] [3; 4]) /\ is_root 3 (pd2 c [0; 0] [3; 0]) /\ is_root 4 (pd2 c [3; 0] [3; 4])) /\
  omat_ok exact_sq (Some [[0; 5 # 16]; [5 # 16; 0]]) (periodic_pairwise_flat [x; y] None (Some cell)) = true /\
  pp_returns false [[0; 0]] (Some [[3; 4]]) None [[5]] /\
  omat_ok exact_sq (Some [[0; 5 # 16]; [5 # 16; 0]])
    (periodic_pairwise (mshift cell [[2; -1]%Z; [0; 3]%Z] [x; y]) (Some [x; y]) (Some cell)) = true /\
  ostack_ok exact_sq (Some [[[0; 1 # 16]; [1 # 16; 0]]])
    (pairwise_mahal_flat [x; y] None (Cov2 (gram [[1; 0]; [1 # 2; 1 # 2]])) (Some cell)) = true /\
  no_tie cell x y.
Proof.
  cbv zeta.
  split; [repeat constructor; lra|]. split; [repeat constructor; lra|].
  split. { intros H. unfold within_half, vdiff in H. cbn [map2] in H.
           inversion H as [|c t l v H1 _]; subst. lra. }
  split; [vm_compute; reflexivity|]. split; [vm_compute; reflexivity|].
  split. { repeat split; try lra; vm_compute; reflexivity. }
  split; [vm_compute; reflexivity|].
  split. { eexists. split; [vm_compute; reflexivity|]. repeat constructor; vm_compute; first [reflexivity|discriminate]. }
  split; [vm_compute; reflexivity|]. split; [vm_compute; reflexivity|].
  unfold no_tie, vdiff. cbn [map2]. repeat constructor; unfold tie; intros [T|T]; vm_compute in T; discriminate.
Qed.
