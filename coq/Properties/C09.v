(* C09 — calls never modify caller data or hyper-parameters.
   Statements only; proofs are `exact <lemma>` from Proofs/EffectsP.v.  Model: Model/Effects.v.

   A program p (regenerated from /repo's source by harness/effects_translate.py for each
   public entry point, on every run) consists of
     ctx p   the pointer/effect statements of every method of the class (possible histories),
     body p  the statements of the entry point,
     roots p the variables bound to caller-supplied objects (arguments of every method and
             constructor hyper-parameters).
   [run l s s'] executes ANY finite sequence of statements of l (any order, repetition,
   subset: every branch, every loop count, every call history); MayAlias resolves either
   way at each execution.  [safe] is the analyser evaluated by vm_compute in the generated
   file coq/Run/cases_C09_*.v. *)
From Coq Require Import List PArith Arith Bool MSets.MSetPositive.
Import ListNotations.
From Verif Require Import Effects EffectsP.

(* If the analyser accepts p then, from any initial state in which only the declared roots
   reference caller-owned cells, after any history of the object, every execution of the
   entry point leaves every caller-owned cell (owner, content) and the constructor
   hyper-parameter map unchanged. *)
Theorem C09_safe_sound :
  forall p s0 s1 s2,
    safe p = true ->
    init_ok p s0 ->
    run (ctx p ++ body p) s0 s1 ->
    run (body p) s1 s2 ->
    caller_unchanged s1 s2 /\ params_unchanged s1 s2.
Proof. exact safe_sound. Qed.
Print Assumptions C09_safe_sound.

(* the verdict printed by the generated case file is exactly [safe]: a program is accepted
   iff the closure check passes and no offending site is reported *)
Theorem C09_verdict_sites :
  forall p, safe p = true <-> closed_ok p = true /\ bad_sites p = [].
Proof. exact safe_iff_no_sites. Qed.
Print Assumptions C09_verdict_sites.

(* ---- non-vacuity 1: a safe program whose hypotheses are met and which really writes.
   Shape of KernelNormalizer.fit:  K1 = validate(K, copy=True); K1 -= ...; K2 = asarray(K);
   self.a = K2.   Variable 1 = K (root), 2 = K1, 3 = K2, attribute 1. *)
Example C09_nonvacuous_safe :
  let p := mkProg [1%positive] [] []
             [Fresh 2; Write 2 0; MayAlias 3 1; StoreAttr 1 3] in
  let s0 := mkState (fun x => if Pos.eqb x 1 then Some 0 else None) (fun _ => None)
                    [mkCell Caller 5] (fun _ => 0) in
  safe p = true /\ init_ok p s0 /\
  exists s1, run (body p) s0 s1 /\ heap s1 = [mkCell Caller 5; mkCell Local 9] /\ ats s1 1%positive = Some 0.
Proof.
  cbv zeta. split; [vm_compute; reflexivity |]. split.
  - split.
    + intros x l c He Hn Ho. cbv beta iota delta [env] in He.
      destruct (Pos.eqb x 1) eqn:E; [| discriminate He].
      apply Pos.eqb_eq in E. subst x. now left.
    + intros a l c He. discriminate He.
  - eexists. split.
    + eapply run_cons; [cbn; left; reflexivity | apply step_fresh with (v := 0) |].
      eapply run_cons; [cbn; right; left; reflexivity
                       | eapply step_write with (v := 9); cbn; reflexivity |].
      eapply run_cons; [cbn; right; right; left; reflexivity | apply step_may_same |].
      eapply run_cons; [cbn; right; right; right; left; reflexivity | apply step_store |].
      apply run_nil.
    + split; reflexivity.
Qed.

(* ---- non-vacuity 2: an unsafe program is rejected, with the offending site, and the
   rejection is right: an execution changes the caller's cell.
   Shape of SparseKDE.__init__:  self.weights = weights; self.weights /= sum  (site 7).
   Variable 1 = weights (root), 2 = temporary, attribute 1 = weights. *)
Example C09_nonvacuous_unsafe :
  let p := mkProg [1%positive] [] []
             [StoreAttr 1 1; LoadAttr 2 1; Write 2 7] in
  let s0 := mkState (fun x => if Pos.eqb x 1 then Some 0 else None) (fun _ => None)
                    [mkCell Caller 5] (fun _ => 0) in
  safe p = false /\ bad_sites p = [7] /\ init_ok p s0 /\
  exists s1, run (body p) s0 s1 /\ ~ caller_unchanged s0 s1.
Proof.
  cbv zeta. split; [vm_compute; reflexivity |]. split; [vm_compute; reflexivity |]. split.
  - split.
    + intros x l c He Hn Ho. cbv beta iota delta [env] in He.
      destruct (Pos.eqb x 1) eqn:E; [| discriminate He].
      apply Pos.eqb_eq in E. subst x. now left.
    + intros a l c He. discriminate He.
  - eexists. split.
    + eapply run_cons; [cbn; left; reflexivity | apply step_store |].
      eapply run_cons; [cbn; right; left; reflexivity | apply step_load |].
      eapply run_cons; [cbn; right; right; left; reflexivity
                       | eapply step_write with (v := 9); cbn; reflexivity |].
      apply run_nil.
    + intro H. specialize (H 0 (mkCell Caller 5) eq_refl eq_refl). cbn in H. discriminate H.
Qed.

(* ---- non-vacuity 3: MayAlias is resolved both ways; a write through a may-alias of a root
   is rejected, the same write through a fresh copy is accepted *)
Example C09_nonvacuous_mayalias :
  safe (mkProg [1%positive] [] [] [MayAlias 2 1; Write 2 3]) = false /\
  safe (mkProg [1%positive] [] [] [Fresh 2; Write 2 3]) = true /\
  (* a hyper-parameter assignment in the body is always rejected *)
  safe (mkProg [] [] [] [SetParam 4 11]) = false /\
  (* ... but the same statements in the history (other methods, __init__) are not effects
     of the entry point *)
  safe (mkProg [1%positive] [] [MayAlias 2 1; Write 2 3; SetParam 4 11] [Fresh 5; Write 5 0]) = true /\
  (* a reference stored by another method taints what the entry point loads *)
  verdict (entry_prog [1%positive] [[StoreAttr 1 1]; [LoadAttr 2 1; Write 2 8]] 1) = (false, true, [8]).
Proof. repeat split; vm_compute; reflexivity. Qed.

(* ================================================================== sub-claim (b): refits
   Model: Model/Refit.v (structured attribute-state IR, regenerated from /repo's source for every
   public class on every run); proofs: Proofs/RefitP.v.

   P        a class: [fit P] = the cold fit, [others P] = every other method (warm fit,
            transform, predict, score, ...), all skmatter-internal calls inlined;
   learned P = every attribute some method of P may assign or delete (computed in Coq from the
            commands, not supplied by the translator);
   Oc       an oracle: ALL data-dependent values and decisions (what is stored, which branch is
            taken, how often a loop runs, whether an exception is caught) as arbitrary functions
            of the call's local memory = arguments + everything the call has read so far;
   runs Oc c m st (k, m', st')  a terminating execution of c from local memory m and instance
            dictionary st, ending by kind k (KN normal, KR return, KE exception, ...);
   history Oc P st0 sth   any finite sequence of terminating method calls (whatever their
            arguments and however they end, exceptions included) takes st0 to sth. *)
From Verif Require Import Refit RefitP.

(* If the analyser accepts the class then, whatever was done with the object before (any
   history from st0 to sth), a cold fit on sth and the same cold fit (same arguments / local
   memory m) on the untouched st0 end the same way, and unless they raise they leave EXACTLY the
   same instance dictionary: every attribute has the same value or is absent in both. *)
Theorem C09_refit_fresh :
  forall Oc P, refit_fresh P = true ->
  forall st0 sth, history Oc P st0 sth ->
  forall m k1 m1 t1 k2 m2 t2,
    runs Oc (fit P) m sth (k1, m1, t1) -> runs Oc (fit P) m st0 (k2, m2, t2) ->
    k1 = k2 /\ m1 = m2 /\ ((k1 = KN \/ k1 = KR) -> forall a, t1 a = t2 a).
Proof. exact refit_fresh_sound. Qed.
Print Assumptions C09_refit_fresh.

(* The same without reference to a history: the two prior dictionaries may differ ARBITRARILY
   on the learned attributes (this also covers set_params between the fits: compare with the
   fresh estimator constructed with the current hyper-parameters). *)
Theorem C09_refit_any_prior_state :
  forall Oc L c, refit_ok L c = true ->
  forall m s1 s2 k1 m1 t1 k2 m2 t2,
    (forall a, PS.mem a L = false -> s1 a = s2 a) ->
    runs Oc c m s1 (k1, m1, t1) -> runs Oc c m s2 (k2, m2, t2) ->
    k1 = k2 /\ m1 = m2 /\ ((k1 = KN \/ k1 = KR) -> forall a, t1 a = t2 a).
Proof. exact refit_ok_sound. Qed.
Print Assumptions C09_refit_any_prior_state.

(* [learned P] is complete: no history changes an attribute outside it (so "the prior state
   differs from a fresh estimator's only on learned attributes" is a theorem, not an assumption
   about the translator's bookkeeping). *)
Theorem C09_history_changes_only_learned :
  forall Oc P st st', history Oc P st st' ->
    forall a, PS.mem a (learned P) = false -> st' a = st a.
Proof. exact history_frame. Qed.
Print Assumptions C09_history_changes_only_learned.

(* ... and after such a refit every method of the class answers exactly as on the fresh
   estimator (same exit, same local memory = same returned values, same dictionary) *)
Theorem C09_refit_then_method :
  forall Oc P, refit_fresh P = true ->
  forall st0 sth, history Oc P st0 sth ->
  forall m k1 m1 t1 k2 m2 t2,
    runs Oc (fit P) m sth (k1, m1, t1) -> runs Oc (fit P) m st0 (k2, m2, t2) ->
    (k1 = KN \/ k1 = KR) ->
    forall c mc fuel, In c (methods P) ->
      match exec Oc fuel c mc t1, exec Oc fuel c mc t2 with
      | Some (ka, ma, ta), Some (kb, mb, tb) => ka = kb /\ ma = mb /\ forall a, ta a = tb a
      | None, None => True
      | _, _ => False
      end.
Proof. exact refit_then_method. Qed.
Print Assumptions C09_refit_then_method.

(* ---- non-vacuity.  Shape of GreedySelector.fit (sample selection), attributes
   1 = n_selected_, 2 = y_selected_, 3 = support_:
     _init_greedy_search: n_selected_ = 0;  if y is not None: y_selected_ = zeros
                                            elif hasattr(self, "y_selected_"): del self.y_selected_
     loop:                if hasattr(self, "y_selected_"): ...;  n_selected_ += 1
     _postprocess:        support_ = ...
   and transform reads support_.  Oracle: a concrete one under which the loop terminates. *)
Definition ex_fit_good : cmd :=
  cseq [CAssign 1 0; CIf 1 (CAssign 2 2) (CReset 2 3);
        CWhile 4 (cseq [CRead 1 5; CRead 2 6; CAssign 1 7]); CAssign 3 8].
Definition ex_cls_good : cls := mkCls ex_fit_good [CCall (CSeq (CRead 3 9) CReturn)].
Definition ex_oracle : oracle :=
  mkOracle (fun _ m v => m + match v with Some x => x | None => 0 end)
           (fun s m => s + m) (fun s m => if Nat.eqb s 1 then Nat.even m else Nat.ltb m 5) (fun _ m => S m).
Definition ex_empty : store := fun _ => None.

Example C09_refit_nonvacuous_accepts :
  refit_fresh ex_cls_good = true /\ PS.elements (learned ex_cls_good) = [2; 1; 3]%positive /\
  exists sth,
    (* a previous fit WITH targets (local memory 0: the branch is taken) ... *)
    history ex_oracle ex_cls_good ex_empty sth /\ sth 2%positive = Some 2 /\ sth 1%positive = Some 21 /\
    (* ... then the refit without targets (local memory 1) and the fresh fit both end normally,
       after the same number of loop iterations,
       with y_selected_ absent and equal n_selected_, support_ *)
    exists m1 t1 t2,
      runs ex_oracle ex_fit_good 1 sth (KN, m1, t1) /\ runs ex_oracle ex_fit_good 1 ex_empty (KN, m1, t2) /\
      map t1 [1; 2; 3]%positive = [Some 19; None; Some 21] /\ map t2 [1; 2; 3]%positive = [Some 19; None; Some 21].
Proof.
  split; [vm_compute; reflexivity |]. split; [vm_compute; reflexivity |].
  eexists. split.
  - eapply hist_cons with (c := ex_fit_good) (m := 0); [left; reflexivity | exists 20; vm_compute; reflexivity | apply hist_nil].
  - split; [vm_compute; reflexivity |]. split; [vm_compute; reflexivity |].
    eexists. eexists. eexists. split; [exists 20; vm_compute; reflexivity |].
    split; [exists 20; vm_compute; reflexivity |]. split; vm_compute; reflexivity.
Qed.

(* ---- the analyser rejects what it should, and the rejection is right (F10 as it was in the
   code: the `elif hasattr: del` is missing, the loop consults a stale y_selected_): the
   offending site is reported, and a concrete oracle and history exist for which the refit and
   the fresh fit end in different dictionaries. *)
Definition ex_fit_f10 : cmd :=
  cseq [CAssign 1 0; CIf 1 (CAssign 2 2) CSkip;
        CWhile 4 (cseq [CRead 1 5; CRead 2 6; CAssign 1 7]); CAssign 3 8].
Definition ex_cls_f10 : cls := mkCls ex_fit_f10 [CCall (CSeq (CRead 3 9) CReturn)].

Example C09_refit_nonvacuous_rejects :
  refit_fresh ex_cls_f10 = false /\
  refit_sites (learned ex_cls_f10) ex_fit_f10 = [6] /\
  refit_missing (learned ex_cls_f10) ex_fit_f10 = [2%positive] /\
  exists sth m1 t1 m2 t2,
    history ex_oracle ex_cls_f10 ex_empty sth /\
    runs ex_oracle ex_fit_f10 1 sth (KN, m1, t1) /\ runs ex_oracle ex_fit_f10 1 ex_empty (KN, m2, t2) /\
    map t1 [1; 2; 3]%positive = [Some 11; Some 2; Some 13] /\ map t2 [1; 2; 3]%positive = [Some 19; None; Some 21].
Proof.
  split; [vm_compute; reflexivity |]. split; [vm_compute; reflexivity |]. split; [vm_compute; reflexivity |].
  eexists. eexists. eexists. eexists. eexists. split.
  - eapply hist_cons with (c := ex_fit_f10) (m := 0); [left; reflexivity | exists 20; vm_compute; reflexivity | apply hist_nil].
  - split; [exists 20; vm_compute; reflexivity |]. split; [exists 20; vm_compute; reflexivity |].
    split; vm_compute; reflexivity.
Qed.

(* ---- further rejections: an attribute only another method assigns (a cache filled by
   transform) is left over after a refit; an early return of an inlined helper that skips an
   assignment; an exception handler entered before the assignment; `del` of an attribute whose
   presence depends on the history.  And acceptances: the same shapes done right. *)
Definition ex_enc (P : cls) : list nat :=
  let ss := refit_sites (learned P) (fit P) in
  let ms := map Pos.to_nat (refit_missing (learned P) (fit P)) in
  [Nat.b2n (refit_fresh P); length ss] ++ ss ++ [length ms] ++ ms.

Example C09_refit_nonvacuous_shapes :
  (* cache filled by transform, never reset by fit *)
  ex_enc (mkCls (CAssign 1 0) [CSeq (CRead 1 1) (CAssign 2 2)]) = [0; 0; 1; 2] /\
  ex_enc (mkCls (CSeq (CAssign 1 0) (CReset 2 3)) [CSeq (CRead 1 1) (CAssign 2 2)]) = [1; 0; 0] /\
  (* helper returns early on one path: the caller goes on without the assignment *)
  ex_enc (mkCls (CSeq (CCall (CSeq (CIf 1 CReturn CSkip) (CAssign 1 2))) (CRead 1 3)) []) = [0; 1; 3; 1; 1] /\
  ex_enc (mkCls (CSeq (CCall (CSeq (CIf 1 (CSeq (CAssign 1 4) CReturn) CSkip) (CAssign 1 2))) (CRead 1 3)) []) = [1; 0; 0] /\
  (* a raise on one path is not a path to the read *)
  ex_enc (mkCls (CSeq (CIf 1 CRaise (CAssign 1 2)) (CRead 1 3)) []) = [1; 0; 0] /\
  (* try: the handler starts from what was determined when the exception may have been raised *)
  ex_enc (mkCls (CSeq (CTry 1 (CSeq (CIf 2 CRaise CSkip) (CAssign 1 3)) (CRead 1 4)) (CAssign 1 5)) []) = [0; 1; 4; 0] /\
  ex_enc (mkCls (CSeq (CTry 1 (CSeq (CIf 2 CRaise CSkip) (CAssign 1 3)) (CAssign 1 4)) (CRead 1 5)) []) = [1; 0; 0] /\
  (* loops: an assignment inside a loop body does not count after the loop (zero iterations),
     a break leaves with what was determined at the break *)
  ex_enc (mkCls (CSeq (CWhile 1 (CAssign 1 2)) (CRead 1 3)) []) = [0; 1; 3; 1; 1] /\
  ex_enc (mkCls (cseq [CAssign 1 0; CWhile 1 (CSeq (CRead 1 2) (CIf 3 CBreak (CAssign 1 4))); CRead 1 5]) []) = [1; 0; 0] /\
  (* unguarded del of an attribute this call has not determined *)
  ex_enc (mkCls (CSeq (CDel 1 7) (CAssign 1 0)) []) = [0; 1; 7; 0] /\
  (* reads of attributes nobody assigns after __init__ (hyper-parameters) are free *)
  ex_enc (mkCls (CSeq (CRead 9 1) (CAssign 1 0)) [CRead 1 2]) = [1; 0; 0].
Proof. repeat split; vm_compute; reflexivity. Qed.

(* Observable freshness: the cold fit may leave learned attributes undetermined on some paths
   (assigned only under a hyper-parameter / data condition: they can be left over from an
   earlier fit), provided NO method -- the fit itself included -- ever looks at such an
   attribute before determining it.  Then, after any history, the refit and the fresh fit end the
   same way and, unless they raised, every later sequence of method calls (any methods, any
   arguments, however each call ends) produces exactly the same exits and returned values. *)
Theorem C09_refit_observably_fresh :
  forall Oc P, refit_observable P = true ->
  forall st0 sth, history Oc P st0 sth ->
  forall m k1 m1 t1 k2 m2 t2,
    runs Oc (fit P) m sth (k1, m1, t1) -> runs Oc (fit P) m st0 (k2, m2, t2) ->
    k1 = k2 /\ m1 = m2 /\
    ((k1 = KN \/ k1 = KR) ->
     forall calls fuel l1 l2,
       (forall c mc, In (c, mc) calls -> In c (methods P)) ->
       run_calls Oc fuel calls t1 = Some l1 -> run_calls Oc fuel calls t2 = Some l2 -> l1 = l2).
Proof. exact refit_observable_sound. Qed.
Print Assumptions C09_refit_observably_fresh.

(* ---- non-vacuity.  Shape of KernelPCovR: attributes 1 = pkt_, 2 = centerer_;
     fit:        if self.center: centerer_ = KernelCenterer().fit(K);   pkt_ = ...
     transform (right):  read pkt_;  if self.center: read centerer_     -- the same oracle site 1 decides
   is not expressible (branches are independent), so the faithful shape of the right code keeps
   the read inside the branch that assigned it in fit and the class is accepted only when
   transform does not consult centerer_ otherwise.  The seeded change C05-stale-centerer
   (`if hasattr(self, "centerer_")` in transform) is the rejected shape. *)
Example C09_refit_nonvacuous_observable :
  (* leftover centerer_, never consulted by transform: not exactly fresh, observably fresh *)
  (let P := mkCls (CSeq (CIf 1 (CAssign 2 2) CSkip) (CAssign 1 3)) [CRead 1 4] in
   refit_fresh P = false /\ refit_observable P = true /\ refit_missing (learned P) (fit P) = [2%positive]) /\
  (* transform consults the possibly left-over attribute: rejected, with the site of the read *)
  (let P := mkCls (CSeq (CIf 1 (CAssign 2 2) CSkip) (CAssign 1 3)) [CSeq (CRead 1 4) (CRead 2 5)] in
   refit_observable P = false /\ refit_enc P = [0; 0; 0; 1; 2; 2; 0; 1; 5]) /\
  (* ... and the rejection is right: a history and an oracle for which transform answers differently *)
  (let P := mkCls (CSeq (CIf 1 (CAssign 2 2) CSkip) (CAssign 1 3)) [CSeq (CRead 1 4) (CRead 2 5)] in
   exists sth m1 t1 t2 l1 l2,
     history ex_oracle P ex_empty sth /\
     runs ex_oracle (fit P) 1 sth (KN, m1, t1) /\ runs ex_oracle (fit P) 1 ex_empty (KN, m1, t2) /\
     run_calls ex_oracle 9 [(CSeq (CRead 1 4) (CRead 2 5), 0)] t1 = Some l1 /\
     run_calls ex_oracle 9 [(CSeq (CRead 1 4) (CRead 2 5), 0)] t2 = Some l2 /\ l1 <> l2).
Proof.
  split; [cbv zeta; repeat split; vm_compute; reflexivity |].
  split; [cbv zeta; repeat split; vm_compute; reflexivity |].
  cbv zeta. eexists. eexists. eexists. eexists. eexists. eexists. split.
  - eapply hist_cons with (m := 0); [left; reflexivity | exists 9; vm_compute; reflexivity | apply hist_nil].
  - split; [exists 9; vm_compute; reflexivity |]. split; [exists 9; vm_compute; reflexivity |].
    split; [vm_compute; reflexivity |]. split; [vm_compute; reflexivity |]. discriminate.
Qed.

(* ================================================================== fitted state vs caller arrays
   The analyser of sub-claim (a) also bounds what the fitted state may ALIAS: after any history of
   the object, an attribute outside the computed set [ta (analyse p)] holds no reference to a
   caller-owned cell -- later writes of the caller to his own arrays cannot change it.  The set is
   printed for every class by the generated case file ([unit_tainted]) and cross-validated by the
   dynamic "caller overwrites his arrays after fit" runs. *)
Theorem C09_untainted_attr_not_caller :
  forall p s0 s1 a l c,
    closed_ok p = true -> init_ok p s0 -> run (ctx p ++ body p) s0 s1 ->
    PS.mem a (ta (analyse p)) = false ->
    ats s1 a = Some l -> nth_error (heap s1) l = Some c -> own c <> Caller.
Proof. exact untainted_attr_not_caller. Qed.
Print Assumptions C09_untainted_attr_not_caller.

(* the printed list is exactly the computed set *)
Theorem C09_tainted_attrs_spec :
  forall p a, In a (tainted_attrs p) <-> PS.mem a (ta (analyse p)) = true.
Proof. exact tainted_attrs_spec. Qed.
Print Assumptions C09_tainted_attrs_spec.

(* non-vacuity: fit stores a validated copy-or-same of X in attribute 1 (tainted: it may alias
   X, and an execution exists in which it does) and a fresh array in attribute 2 (not tainted) *)
Example C09_nonvacuous_alias :
  let p := mkProg [1%positive] [] [MayAlias 2 1; StoreAttr 1 2; Fresh 3; StoreAttr 2 3] [] in
  let s0 := mkState (fun x => if Pos.eqb x 1 then Some 0 else None) (fun _ => None)
                    [mkCell Caller 5] (fun _ => 0) in
  unit_tainted [1%positive] [[MayAlias 2 1; StoreAttr 1 2; Fresh 3; StoreAttr 2 3]] = [1; 1] /\
  closed_ok p = true /\ PS.mem 2%positive (ta (analyse p)) = false /\
  exists s1, run (ctx p ++ body p) s0 s1 /\ ats s1 1%positive = Some 0 /\ ats s1 2%positive = Some 1.
Proof.
  cbv zeta. split; [vm_compute; reflexivity |]. split; [vm_compute; reflexivity |].
  split; [vm_compute; reflexivity |].
  eexists. split.
  - eapply run_cons; [cbn; left; reflexivity | apply step_may_same |].
    eapply run_cons; [cbn; right; left; reflexivity | apply step_store |].
    eapply run_cons; [cbn; right; right; left; reflexivity | apply step_fresh with (v := 0) |].
    eapply run_cons; [cbn; right; right; right; left; reflexivity | apply step_store |].
    apply run_nil.
  - split; reflexivity.
Qed.
