(* C09 — calls never modify caller data or hyper-parameters.
   Statements only; proofs are `exact <lemma>` from Proofs/EffectsP.v.  Model: Model/Effects.v.

   A program p (regenerated from /repo's source by harness/effects_translate.py for each
   public entry point, on every run) consists of
     ctx p   the pointer/effect statements of every method of the class (possible histories),
     body p  the statements of the entry point,
     roots p the variables bound to caller-supplied objects (arguments of every method and
             constructor hyper-parameters).
   [run l s s'] executes ANY finite sequence of statements of l (any order, repetition,
   subset: every branch, every loop count, every call history); MayAlias resolves either
   way at each execution.  [safe] is the analyser evaluated by vm_compute in the generated
   file coq/Run/cases_C09_*.v. *)
From Coq Require Import List PArith MSets.MSetPositive.
Import ListNotations.
From Verif Require Import Effects EffectsP.

(* If the analyser accepts p then, from any initial state in which only the declared roots
   reference caller-owned cells, after any history of the object, every execution of the
   entry point leaves every caller-owned cell (owner, content) and the constructor
   hyper-parameter map unchanged. *)
Theorem C09_safe_sound :
  forall p s0 s1 s2,
    safe p = true ->
    init_ok p s0 ->
    run (ctx p ++ body p) s0 s1 ->
    run (body p) s1 s2 ->
    caller_unchanged s1 s2 /\ params_unchanged s1 s2.
Proof. exact safe_sound. Qed.
Print Assumptions C09_safe_sound.

(* the verdict printed by the generated case file is exactly [safe]: a program is accepted
   iff the closure check passes and no offending site is reported *)
Theorem C09_verdict_sites :
  forall p, safe p = true <-> closed_ok p = true /\ bad_sites p = [].
Proof. exact safe_iff_no_sites. Qed.
Print Assumptions C09_verdict_sites.

(* ---- non-vacuity 1: a safe program whose hypotheses are met and which really writes.
   Shape of KernelNormalizer.fit:  K1 = validate(K, copy=True); K1 -= ...; K2 = asarray(K);
   self.a = K2.   Variable 1 = K (root), 2 = K1, 3 = K2, attribute 1. *)
Example C09_nonvacuous_safe :
  let p := mkProg [1%positive] [] []
             [Fresh 2; Write 2 0; MayAlias 3 1; StoreAttr 1 3] in
  let s0 := mkState (fun x => if Pos.eqb x 1 then Some 0 else None) (fun _ => None)
                    [mkCell Caller 5] (fun _ => 0) in
  safe p = true /\ init_ok p s0 /\
  exists s1, run (body p) s0 s1 /\ heap s1 = [mkCell Caller 5; mkCell Local 9] /\ ats s1 1%positive = Some 0.
Proof.
  cbv zeta. split; [vm_compute; reflexivity |]. split.
  - split.
    + intros x l c He Hn Ho. cbv beta iota delta [env] in He.
      destruct (Pos.eqb x 1) eqn:E; [| discriminate He].
      apply Pos.eqb_eq in E. subst x. now left.
    + intros a l c He. discriminate He.
  - eexists. split.
    + eapply run_cons; [cbn; left; reflexivity | apply step_fresh with (v := 0) |].
      eapply run_cons; [cbn; right; left; reflexivity
                       | eapply step_write with (v := 9); cbn; reflexivity |].
      eapply run_cons; [cbn; right; right; left; reflexivity | apply step_may_same |].
      eapply run_cons; [cbn; right; right; right; left; reflexivity | apply step_store |].
      apply run_nil.
    + split; reflexivity.
Qed.

(* ---- non-vacuity 2: an unsafe program is rejected, with the offending site, and the
   rejection is right: an execution changes the caller's cell.
   Shape of SparseKDE.__init__:  self.weights = weights; self.weights /= sum  (site 7).
   Variable 1 = weights (root), 2 = temporary, attribute 1 = weights. *)
Example C09_nonvacuous_unsafe :
  let p := mkProg [1%positive] [] []
             [StoreAttr 1 1; LoadAttr 2 1; Write 2 7] in
  let s0 := mkState (fun x => if Pos.eqb x 1 then Some 0 else None) (fun _ => None)
                    [mkCell Caller 5] (fun _ => 0) in
  safe p = false /\ bad_sites p = [7] /\ init_ok p s0 /\
  exists s1, run (body p) s0 s1 /\ ~ caller_unchanged s0 s1.
Proof.
  cbv zeta. split; [vm_compute; reflexivity |]. split; [vm_compute; reflexivity |]. split.
  - split.
    + intros x l c He Hn Ho. cbv beta iota delta [env] in He.
      destruct (Pos.eqb x 1) eqn:E; [| discriminate He].
      apply Pos.eqb_eq in E. subst x. now left.
    + intros a l c He. discriminate He.
  - eexists. split.
    + eapply run_cons; [cbn; left; reflexivity | apply step_store |].
      eapply run_cons; [cbn; right; left; reflexivity | apply step_load |].
      eapply run_cons; [cbn; right; right; left; reflexivity
                       | eapply step_write with (v := 9); cbn; reflexivity |].
      apply run_nil.
    + intro H. specialize (H 0 (mkCell Caller 5) eq_refl eq_refl). cbn in H. discriminate H.
Qed.

(* ---- non-vacuity 3: MayAlias is resolved both ways; a write through a may-alias of a root
   is rejected, the same write through a fresh copy is accepted *)
Example C09_nonvacuous_mayalias :
  safe (mkProg [1%positive] [] [] [MayAlias 2 1; Write 2 3]) = false /\
  safe (mkProg [1%positive] [] [] [Fresh 2; Write 2 3]) = true /\
  (* a hyper-parameter assignment in the body is always rejected *)
  safe (mkProg [] [] [] [SetParam 4 11]) = false /\
  (* ... but the same statements in the history (other methods, __init__) are not effects
     of the entry point *)
  safe (mkProg [1%positive] [] [MayAlias 2 1; Write 2 3; SetParam 4 11] [Fresh 5; Write 5 0]) = true /\
  (* a reference stored by another method taints what the entry point loads *)
  verdict (entry_prog [1%positive] [[StoreAttr 1 1]; [LoadAttr 2 1; Write 2 8]] 1) = (false, true, [8]).
Proof. repeat split; vm_compute; reflexivity. Qed.
