(* C13 — reconstruction measures (GRE, GRD, LRE) vanish on contained information, are
   isometry invariant, root-mean-square consistent, bounded on the training set.
   Statements only; proofs are `exact <lemma>` from Proofs/ReconP.v (algebra over an arbitrary
   real closed field F, all shapes), Proofs/ReconListP.v (list bookkeeping) and
   Findings/F11_grd_wide_source.v.

   Model: Model/Recon.v.  Programs (columns of pointwise values):
     gre_prog n m p q, grd_prog n m p q r (r = max p q), lre_prog n m p q k (one test point),
     global_prog pw.
   The scaler (StandardFlexibleScaler defaults) is modelled and its facts are PROVED here
   (Proofs/ReconP.v: std_affine, std_orth, std_colsum, std_fro2); the estimator, the
   orthogonal regression and the neighbour choice enter through CONTRACTS on oracle variables
   of the environment (accessors rc_X: rc_W weights, rc_alpha regulariser, rc_Om Procrustes
   rotation, rc_Ep/rc_Eq padding matrices, rc_Sel neighbour selection, rc_ei test-point
   selector, rc_Wi local weights, rc_U/rc_S/rc_V thin SVD):
     ridge contract    eval (ridge_hyp_prog n p q) = 0   i.e.  (Xs^T Xs + alpha I) W = Xs^T Ys
                       (alpha = 0: exact least squares), uniqueness = `gram Xs alpha \in unitmx`
                       (alpha > 0, or full column rank);
     cut-off contract  cutoff_contract: Xs V = U diag S, U^T U = I, W = V diag(1/S) U^T Ys;
     Procrustes        Omega orthogonal and a minimiser of |Xs E_p Omega - Yhat E_q|_F.
   Xs_tr/Xs_te/Ys_tr/Ys_te are the standardised blocks (scaler fitted on the training rows).

   Round 3 (Model/ReconExt.v, Proofs/ReconExtP.v, Proofs/ReconIdxP.v): the CHECKED Procrustes
   contract  proc_contract n p q r env :=  Omega^T Omega = I  /\  Omega^T M = L^T L  (rc_L: oracle
   factor, slot 15; M = (Xs E_p)^T (Xs W E_q)) - both residuals are evaluated per run - from which
   global optimality is PROVED (C13_procrustes_contract_sufficient) and which, for a training
   source of full column rank, determines GRD (C13_grd_determined); GRD under source AND target
   rotation for every pair of widths, LRE under target rotation; the input-check functions
   (guards, index resolution) as layer-D code. *)
From mathcomp Require Import all_ssreflect all_algebra fingroup perm.
From Verif Require Import MExp MExpMx Recon ReconExt ReconListP ReconIdxP ReconP ReconExtP F11_grd_wide_source.
Import GRing.Theory Num.Theory.
Close Scope float_scope.
Local Open Scope ring_scope.

(* all pointwise measures and every global value are non-negative (no contract) *)
Theorem C13_nonneg :
  forall (F : rcfType) (n m p q : nat) (env : env_mx F) (r k : nat),
    [/\ forall i, 0 <= (eval_mx env (gre_prog n m p q)) i ord0,
        forall i, 0 <= (eval_mx env (grd_prog n m p q r)) i ord0,
        0 <= (eval_mx env (lre_prog n m p q k)) ord0 ord0
      & forall (pw : mexp m 1), 0 <= (eval_mx env (global_prog pw)) ord0 ord0].
Proof. exact recon_nonneg. Qed.
Print Assumptions C13_nonneg.

(* each global value is the root mean square of its pointwise values: global^2 * m = sum pw^2 *)
Theorem C13_rms :
  forall (F : rcfType) (m : nat) (env : env_mx F) (pw : mexp m 1),
    (0 < m)%N ->
    ((eval_mx env (global_prog pw)) ord0 ord0) ^+ 2 * m%:R = \sum_i ((eval_mx env pw) i ord0) ^+ 2.
Proof. exact recon_rms. Qed.
Print Assumptions C13_rms.

(* GRE, GRD, LRE - and every contract residual, so oracle values stay valid - are unchanged
   when either space is uniformly rescaled (c > 0) and shifted; no estimator contract *)
Theorem C13_rescale_shift :
  forall (F : rcfType) (n m p q : nat) (cx cy : F) (bx : 'rV[F]_p) (by_ : 'rV[F]_q)
         (r k : nat) (env env' : env_mx F),
    (0 < n)%N -> 0 < cx -> 0 < cy ->
    affine_related n m cx cy bx by_ env env' -> same_oracles n m p q r k env env' ->
    [/\ eval_mx env' (gre_prog n m p q) = eval_mx env (gre_prog n m p q),
        eval_mx env' (grd_prog n m p q r) = eval_mx env (grd_prog n m p q r),
        eval_mx env' (lre_prog n m p q k) = eval_mx env (lre_prog n m p q k)
      & [/\ eval_mx env' (ridge_hyp_prog n p q) = eval_mx env (ridge_hyp_prog n p q),
            eval_mx env' (lre_hyp_prog n p q k) = eval_mx env (lre_hyp_prog n p q k),
            eval_mx env' (proc_m n p q r) = eval_mx env (proc_m n p q r)
          & forall i j, (eval_mx env' (sqdist_prog n m p)) i j = (eval_mx env (sqdist_prog n m p)) i j]].
Proof. exact recon_rescale_shift. Qed.
Print Assumptions C13_rescale_shift.

(* GRE(X, XA) = 0 for every linear map A: exact least squares, standardised training source
   of full column rank, both spaces of positive variance *)
Theorem C13_gre_zero :
  forall (F : rcfType) (n m p q : nat) (env : env_mx F) (A : 'M[F]_(p, q)),
    rc_Ytr env n q = rc_Xtr env n p *m A -> rc_Yte env m q = rc_Xte env m p *m A ->
    0 < varsum (rc_Xtr env n p) -> 0 < varsum (rc_Ytr env n q) ->
    rc_alpha env = 0 -> eval_mx env (ridge_hyp_prog n p q) = 0 ->
    gram (Xs_tr n p env) 0 \in unitmx ->
    eval_mx env (gre_prog n m p q) = 0.
Proof. exact recon_gre_zero. Qed.
Print Assumptions C13_gre_zero.

(* GRD(X, XQ) = 0 for orthogonal Q (equal widths, so no padding): least squares with full
   column rank; Omega a minimiser of the Procrustes problem over the orthogonal matrices *)
Theorem C13_grd_zero :
  forall (F : rcfType) (n m p : nat) (env : env_mx F) (Q : 'M[F]_p),
    Q *m Q^T = 1%:M ->
    rc_Ytr env n p = rc_Xtr env n p *m Q -> rc_Yte env m p = rc_Xte env m p *m Q ->
    0 < varsum (rc_Xtr env n p) ->
    rc_alpha env = 0 -> eval_mx env (ridge_hyp_prog n p p) = 0 ->
    gram (Xs_tr n p env) 0 \in unitmx ->
    rc_Ep env p p = 1%:M -> rc_Eq env p p = 1%:M ->
    (forall Om' : 'M[F]_p, Om'^T *m Om' = 1%:M ->
        fro2 (Xs_tr n p env *m rc_Om env p - Xs_tr n p env *m rc_W env p p)
        <= fro2 (Xs_tr n p env *m Om' - Xs_tr n p env *m rc_W env p p)) ->
    eval_mx env (grd_prog n m p p p) = 0.
Proof. exact recon_grd_zero. Qed.
Print Assumptions C13_grd_zero.

(* GRE is unchanged by a rotation or reflection of the source space (ridge contract with a
   unique solution on the original problem, the same alpha on both sides) *)
Theorem C13_gre_source_rotation :
  forall (F : rcfType) (n m p q : nat) (R : 'M[F]_p) (env env' : env_mx F),
    R *m R^T = 1%:M ->
    rc_Xtr env' n p = rc_Xtr env n p *m R -> rc_Xte env' m p = rc_Xte env m p *m R ->
    rc_Ytr env' n q = rc_Ytr env n q -> rc_Yte env' m q = rc_Yte env m q ->
    rc_alpha env' = rc_alpha env ->
    gram (Xs_tr n p env) (rc_alpha env) \in unitmx ->
    eval_mx env (ridge_hyp_prog n p q) = 0 -> eval_mx env' (ridge_hyp_prog n p q) = 0 ->
    eval_mx env' (gre_prog n m p q) = eval_mx env (gre_prog n m p q).
Proof. exact recon_gre_source_rotation. Qed.
Print Assumptions C13_gre_source_rotation.

(* ... and of the target space, for an estimator with fixed regularisation *)
Theorem C13_gre_target_rotation :
  forall (F : rcfType) (n m p q : nat) (R : 'M[F]_q) (env env' : env_mx F),
    R *m R^T = 1%:M ->
    rc_Xtr env' n p = rc_Xtr env n p -> rc_Xte env' m p = rc_Xte env m p ->
    rc_Ytr env' n q = rc_Ytr env n q *m R -> rc_Yte env' m q = rc_Yte env m q *m R ->
    rc_alpha env' = rc_alpha env ->
    gram (Xs_tr n p env) (rc_alpha env) \in unitmx ->
    eval_mx env (ridge_hyp_prog n p q) = 0 -> eval_mx env' (ridge_hyp_prog n p q) = 0 ->
    eval_mx env' (gre_prog n m p q) = eval_mx env (gre_prog n m p q).
Proof. exact recon_gre_target_rotation. Qed.
Print Assumptions C13_gre_target_rotation.

(* LRE under a source rotation: the squared distances that order the neighbours are
   unchanged (same admissible neighbour sets), and for the same neighbour set the value is
   unchanged (local ridge contract with a unique solution) *)
Theorem C13_lre_source_rotation :
  forall (F : rcfType) (n m p q k : nat) (R : 'M[F]_p) (env env' : env_mx F),
    R *m R^T = 1%:M ->
    rc_Xtr env' n p = rc_Xtr env n p *m R -> rc_Xte env' m p = rc_Xte env m p *m R ->
    rc_Ytr env' n q = rc_Ytr env n q -> rc_Yte env' m q = rc_Yte env m q ->
    rc_alpha env' = rc_alpha env -> rc_Sel env' k n = rc_Sel env k n -> rc_ei env' m = rc_ei env m ->
    gram (center (LX n p env k) (LX n p env k)) (rc_alpha env) \in unitmx ->
    eval_mx env (lre_hyp_prog n p q k) = 0 -> eval_mx env' (lre_hyp_prog n p q k) = 0 ->
    (forall i j, (eval_mx env' (sqdist_prog n m p)) i j = (eval_mx env (sqdist_prog n m p)) i j)
    /\ eval_mx env' (lre_prog n m p q k) = eval_mx env (lre_prog n m p q k).
Proof. exact recon_lre_source_rotation. Qed.
Print Assumptions C13_lre_source_rotation.

(* GRD under a source rotation — PARTIAL; SUPERSEDED by C13_grd_source_rotation below (full
   statement, every pair of widths, under the numerically checked contract instead of the
   uniqueness assumed here); kept because its hypotheses are not comparable.  Full statement: GRD(XR, Y) = GRD(X, Y) for every
   orthogonal R and every pair of widths.  Proved here under the contract that Omega is the
   UNIQUE orthogonal minimiser of the original padded Procrustes problem; that contract is
   satisfiable only where the padded problem has a unique solution (generic for p <= q, never
   for p >= q + 2, where only the row norms - not Omega - are determined).  Missing: the
   invariance of the row norms over the whole solution set for X wider than Y (needs the
   structure of the Procrustes solution set, i.e. an SVD/polar-decomposition theory). *)
Theorem C13_grd_source_rotation_partial :
  forall (F : rcfType) (n m p q : nat) (R : 'M[F]_p) (r : nat) (env env' : env_mx F),
    R *m R^T = 1%:M -> rc_Ep env p r *m (rc_Ep env p r)^T = 1%:M ->
    rc_Xtr env' n p = rc_Xtr env n p *m R -> rc_Xte env' m p = rc_Xte env m p *m R ->
    rc_Ytr env' n q = rc_Ytr env n q -> rc_Yte env' m q = rc_Yte env m q ->
    rc_alpha env' = rc_alpha env ->
    rc_Ep env' p r = rc_Ep env p r -> rc_Eq env' q r = rc_Eq env q r ->
    gram (Xs_tr n p env) (rc_alpha env) \in unitmx ->
    eval_mx env (ridge_hyp_prog n p q) = 0 -> eval_mx env' (ridge_hyp_prog n p q) = 0 ->
    (rc_Om env r)^T *m rc_Om env r = 1%:M -> (rc_Om env' r)^T *m rc_Om env' r = 1%:M ->
    (forall O2 : 'M[F]_r, O2^T *m O2 = 1%:M ->
       fro2 (Xs_tr n p env' *m rc_Ep env' p r *m rc_Om env' r - Xs_tr n p env' *m rc_W env' p q *m rc_Eq env' q r)
       <= fro2 (Xs_tr n p env' *m rc_Ep env' p r *m O2 - Xs_tr n p env' *m rc_W env' p q *m rc_Eq env' q r)) ->
    (forall O2 : 'M[F]_r, O2^T *m O2 = 1%:M ->
       fro2 (Xs_tr n p env *m rc_Ep env p r *m O2 - Xs_tr n p env *m rc_W env p q *m rc_Eq env q r)
       <= fro2 (Xs_tr n p env *m rc_Ep env p r *m rc_Om env r - Xs_tr n p env *m rc_W env p q *m rc_Eq env q r) ->
       O2 = rc_Om env r) ->
    eval_mx env' (grd_prog n m p q r) = eval_mx env (grd_prog n m p q r).
Proof. exact recon_grd_source_rotation_partial. Qed.
Print Assumptions C13_grd_source_rotation_partial.

(* evaluated on the training set the global GRE never exceeds 1: ridge / least squares ... *)
Theorem C13_train_bound :
  forall (F : rcfType) (n p q : nat) (env : env_mx F),
    (0 < n)%N -> rc_Xte env n p = rc_Xtr env n p -> rc_Yte env n q = rc_Ytr env n q ->
    0 < varsum (rc_Ytr env n q) -> 0 <= rc_alpha env ->
    eval_mx env (ridge_hyp_prog n p q) = 0 ->
    (eval_mx env (global_prog (gre_prog n n p q))) ord0 ord0 <= 1.
Proof. exact recon_train_bound_ridge. Qed.
Print Assumptions C13_train_bound.

(* ... and singular-value cut-off estimators (the default Ridge2FoldCV configuration) *)
Theorem C13_train_bound_cutoff :
  forall (F : rcfType) (n p q : nat) (env : env_mx F) (c : nat),
    (0 < n)%N -> rc_Xte env n p = rc_Xtr env n p -> rc_Yte env n q = rc_Ytr env n q ->
    0 < varsum (rc_Ytr env n q) -> cutoff_contract n p q env c ->
    (eval_mx env (global_prog (gre_prog n n p q))) ord0 ord0 <= 1.
Proof. exact recon_train_bound_cutoff. Qed.
Print Assumptions C13_train_bound_cutoff.

(* LRE that uses all n training points as neighbours (the selection is a permutation: every
   training row exactly once, in any order) with an order-independent estimator (ridge
   contract, unique solution) equals the pointwise GRE of the same test point *)
Theorem C13_lre_is_gre :
  forall (F : rcfType) (n m p q : nat) (env : env_mx F) (i : 'I_m),
    (0 < n)%N ->
    (rc_Sel env n n)^T *m rc_Sel env n n = 1%:M -> ones F 1 n *m rc_Sel env n n = ones F 1 n ->
    rc_ei env m = delta_mx ord0 i ->
    gram (Xs_tr n p env) (rc_alpha env) \in unitmx ->
    eval_mx env (ridge_hyp_prog n p q) = 0 -> eval_mx env (lre_hyp_prog n p q n) = 0 ->
    (eval_mx env (lre_prog n m p q n)) ord0 ord0 = (eval_mx env (gre_prog n m p q)) i ord0.
Proof. exact recon_lre_is_gre. Qed.
Print Assumptions C13_lre_is_gre.

(* the selection contract of C13_lre_is_gre holds for every ordering of the training set: a
   neighbour list enumerating a permutation s yields perm_mx s, which meets both hypotheses *)
Theorem C13_selection_is_permutation :
  forall (F : rcfType) (n : nat) (idx : seq nat) (s : 'S_n),
    size idx = n -> (forall t : 'I_n, List.nth t idx 0%N = s t) ->
    bmat_mx F n n (sel_rows n idx) = perm_mx s /\
    ((perm_mx s : 'M[F]_n)^T *m perm_mx s = 1%:M /\ ones F 1 n *m perm_mx s = ones F 1 n).
Proof. exact sel_perm_contract. Qed.
Print Assumptions C13_selection_is_permutation.

(* GRD is defined for every pair of feature dimensions (X wider, equal, narrower than Y):
   both predictions are compared in r columns, zero-padded ([padded], r = max p q in the
   driver); the padding matrices of the driver are the embeddings assumed here *)
Theorem C13_all_widths :
  forall (F : rcfType) (n m p q : nat) (env : env_mx F) (r : nat),
    rc_Ep env p r = embed_mx F p r -> rc_Eq env q r = embed_mx F q r ->
    eval_mx env (grd_prog n m p q r)
    = rownorm (padded r (Xs_te n m p env *m rc_W env p q)
               - padded r (Xs_te n m p env) *m rc_Om env r).
Proof. exact recon_grd_all_widths. Qed.
Print Assumptions C13_all_widths.

Theorem C13_padding_matrices :
  forall (F : rcfType) (p r : nat), bmat_mx F p r (embed_rows p r) = embed_mx F p r.
Proof. exact embed_bridge. Qed.
Print Assumptions C13_padding_matrices.

(* ... which is false for the code as written before fixes/F11_grd_wide_source.diff: the
   unpadded difference (m x q) - (m x max p q) raises for p > q >= 2 *)
Theorem C13_all_widths_refuted : exists p q : nat, (0 < q)%coq_nat /\ old_grd_cols p q = None.
Proof. exact F11_old_grd_refuted. Qed.
Print Assumptions C13_all_widths_refuted.

(* X[train_idx], X[test_idx]: rows in index order; explicit, default and overlapping index
   lists are all just lists *)
Theorem C13_row_selection :
  forall (A : Type) (idx : list nat) (X : list (list A)),
    length (select_rows idx X) = length idx /\
    forall t, (t < length idx)%coq_nat ->
      List.nth t (select_rows idx X) nil = List.nth (List.nth t idx 0%N) X nil.
Proof. exact select_rows_spec. Qed.
Print Assumptions C13_row_selection.

(* non-vacuity: over every real closed field a concrete environment (two samples
   X = Y = [[0],[2]], train = test, W = [[1]], alpha = 0) meets the hypotheses of
   C13_gre_zero, C13_train_bound and the rotation theorems *)
Example C13_nonvacuous :
  forall F : rcfType,
    let env := tiny_recon_env F in
    [/\ rc_Ytr env 2 1 = rc_Xtr env 2 1 *m 1%:M, rc_Yte env 2 1 = rc_Xte env 2 1 *m 1%:M,
        rc_Xte env 2 1 = rc_Xtr env 2 1 /\ rc_Yte env 2 1 = rc_Ytr env 2 1,
        0 < varsum (rc_Xtr env 2 1) /\ 0 < varsum (rc_Ytr env 2 1)
      & [/\ rc_alpha env = 0, eval_mx env (ridge_hyp_prog 2 1 1) = 0
          & gram (Xs_tr 2 1 env) 0 \in unitmx]].
Proof. exact tiny_recon_ok. Qed.

(* ------------------------------------------------------------------ round 3 *)
(* the contract the correspondence evaluates for OrthogonalRegression(use_orthogonal_projector=
   False) - Omega orthogonal, Omega^T M = L^T L - implies that Omega is a GLOBAL minimiser of
   the zero-padded Procrustes problem (no spectral theorem needed) *)
Theorem C13_procrustes_contract_sufficient :
  forall (F : rcfType) (n p q r : nat) (env : env_mx F),
    proc_contract n p q r env ->
    forall O2 : 'M[F]_r, O2^T *m O2 = 1%:M ->
      fro2 (Xs_tr n p env *m rc_Ep env p r *m rc_Om env r - Xs_tr n p env *m rc_W env p q *m rc_Eq env q r)
      <= fro2 (Xs_tr n p env *m rc_Ep env p r *m O2 - Xs_tr n p env *m rc_W env p q *m rc_Eq env q r).
Proof. exact recon_procrustes_sufficient. Qed.
Print Assumptions C13_procrustes_contract_sufficient.

(* GRD is a function of the data: whichever solution of the contract the orthogonal regression
   returns (it is not unique for X wider than Y), the pointwise values are the same - training
   source of full column rank, p <= r *)
Theorem C13_grd_determined :
  forall (F : rcfType) (n m p q r : nat) (env env' : env_mx F),
    rc_Xtr env' n p = rc_Xtr env n p -> rc_Xte env' m p = rc_Xte env m p ->
    rc_W env' p q = rc_W env p q ->
    rc_Ep env' p r = rc_Ep env p r -> rc_Eq env' q r = rc_Eq env q r ->
    rc_Ep env p r *m (rc_Ep env p r)^T = 1%:M ->
    gram (Xs_tr n p env) 0 \in unitmx ->
    proc_contract n p q r env -> proc_contract n p q r env' ->
    eval_mx env' (grd_prog n m p q r) = eval_mx env (grd_prog n m p q r).
Proof. exact recon_grd_determined. Qed.
Print Assumptions C13_grd_determined.

(* GRD is unchanged by a rotation or reflection of the source space - FULL statement: every
   pair of widths (E_p E_p^T = I is p <= r = max p q), no uniqueness assumption on Omega *)
Theorem C13_grd_source_rotation :
  forall (F : rcfType) (n m p q r : nat) (R : 'M[F]_p) (env env' : env_mx F),
    R *m R^T = 1%:M -> rc_Ep env p r *m (rc_Ep env p r)^T = 1%:M ->
    rc_Xtr env' n p = rc_Xtr env n p *m R -> rc_Xte env' m p = rc_Xte env m p *m R ->
    rc_Ytr env' n q = rc_Ytr env n q -> rc_Yte env' m q = rc_Yte env m q ->
    rc_alpha env' = rc_alpha env ->
    rc_Ep env' p r = rc_Ep env p r -> rc_Eq env' q r = rc_Eq env q r ->
    gram (Xs_tr n p env) (rc_alpha env) \in unitmx -> gram (Xs_tr n p env) 0 \in unitmx ->
    eval_mx env (ridge_hyp_prog n p q) = 0 -> eval_mx env' (ridge_hyp_prog n p q) = 0 ->
    proc_contract n p q r env -> proc_contract n p q r env' ->
    eval_mx env' (grd_prog n m p q r) = eval_mx env (grd_prog n m p q r).
Proof. exact recon_grd_source_rotation. Qed.
Print Assumptions C13_grd_source_rotation.

(* ... and of the target space, for an estimator with fixed regularisation (q <= r) *)
Theorem C13_grd_target_rotation :
  forall (F : rcfType) (n m p q r : nat) (R : 'M[F]_q) (env env' : env_mx F),
    R *m R^T = 1%:M ->
    rc_Ep env p r *m (rc_Ep env p r)^T = 1%:M -> rc_Eq env q r *m (rc_Eq env q r)^T = 1%:M ->
    rc_Xtr env' n p = rc_Xtr env n p -> rc_Xte env' m p = rc_Xte env m p ->
    rc_Ytr env' n q = rc_Ytr env n q *m R -> rc_Yte env' m q = rc_Yte env m q *m R ->
    rc_alpha env' = rc_alpha env ->
    rc_Ep env' p r = rc_Ep env p r -> rc_Eq env' q r = rc_Eq env q r ->
    gram (Xs_tr n p env) (rc_alpha env) \in unitmx -> gram (Xs_tr n p env) 0 \in unitmx ->
    eval_mx env (ridge_hyp_prog n p q) = 0 -> eval_mx env' (ridge_hyp_prog n p q) = 0 ->
    proc_contract n p q r env -> proc_contract n p q r env' ->
    eval_mx env' (grd_prog n m p q r) = eval_mx env (grd_prog n m p q r).
Proof. exact recon_grd_target_rotation. Qed.
Print Assumptions C13_grd_target_rotation.

(* LRE under a target rotation: same neighbour-ordering distances (they only see the source),
   same value for the same neighbour set (local ridge contract with a unique solution) *)
Theorem C13_lre_target_rotation :
  forall (F : rcfType) (n m p q k : nat) (R : 'M[F]_q) (env env' : env_mx F),
    R *m R^T = 1%:M ->
    rc_Xtr env' n p = rc_Xtr env n p -> rc_Xte env' m p = rc_Xte env m p ->
    rc_Ytr env' n q = rc_Ytr env n q *m R -> rc_Yte env' m q = rc_Yte env m q *m R ->
    rc_alpha env' = rc_alpha env -> rc_Sel env' k n = rc_Sel env k n -> rc_ei env' m = rc_ei env m ->
    gram (center (LX n p env k) (LX n p env k)) (rc_alpha env) \in unitmx ->
    eval_mx env (lre_hyp_prog n p q k) = 0 -> eval_mx env' (lre_hyp_prog n p q k) = 0 ->
    (forall i j, (eval_mx env' (sqdist_prog n m p)) i j = (eval_mx env (sqdist_prog n m p)) i j)
    /\ eval_mx env' (lre_prog n m p q k) = eval_mx env (lre_prog n m p q k).
Proof. exact recon_lre_target_rotation. Qed.
Print Assumptions C13_lre_target_rotation.

(* GRD(X, XQ) = 0 with the optimality of Omega derived from the checked contract (C13_grd_zero
   assumes it) *)
Theorem C13_grd_zero_checked :
  forall (F : rcfType) (n m p : nat) (env : env_mx F) (Q : 'M[F]_p),
    Q *m Q^T = 1%:M ->
    rc_Ytr env n p = rc_Xtr env n p *m Q -> rc_Yte env m p = rc_Xte env m p *m Q ->
    0 < varsum (rc_Xtr env n p) ->
    rc_alpha env = 0 -> eval_mx env (ridge_hyp_prog n p p) = 0 ->
    gram (Xs_tr n p env) 0 \in unitmx ->
    rc_Ep env p p = 1%:M -> rc_Eq env p p = 1%:M ->
    proc_contract n p p p env ->
    eval_mx env (grd_prog n m p p p) = 0.
Proof. exact recon_grd_zero_checked. Qed.
Print Assumptions C13_grd_zero_checked.

(* check_global_reconstruction_measures_input: explicit indices are passed through, the default
   split is the oracle pair, a missing index set is np.setdiff1d(arange(n), given): increasing,
   exactly the positions below n that the given set omits *)
Theorem C13_index_resolution :
  forall (n : nat) (train test : option (list nat)) (dflt : list nat * list nat),
    let res := resolve_idx n train test dflt in
    match train, test with
    | Some tr, Some te => res = (tr, te)
    | None, None => res = dflt
    | Some tr, None =>
        fst res = tr /\ Sorted.StronglySorted Peano.lt (snd res) /\
        (forall i, List.In i (snd res) <-> ((i < n)%coq_nat /\ ~ List.In i tr))
    | None, Some te =>
        snd res = te /\ Sorted.StronglySorted Peano.lt (fst res) /\
        (forall i, List.In i (fst res) <-> ((i < n)%coq_nat /\ ~ List.In i te))
    end.
Proof. exact resolve_idx_spec. Qed.
Print Assumptions C13_index_resolution.

(* ... so with one index set given, train and test are disjoint and cover range(n) *)
Theorem C13_index_partition :
  forall (n : nat) (idx : list nat) (i : nat),
    (i < n)%coq_nat ->
    (List.In i idx \/ List.In i (complement n idx)) /\ ~ (List.In i idx /\ List.In i (complement n idx)).
Proof. exact resolve_idx_partition. Qed.
Print Assumptions C13_index_partition.

(* the two assertions; argsort(...)[:n_local_points] uses min(n_local_points, n_train) rows *)
Theorem C13_guards :
  forall nX nY k ntrain : nat,
    (global_guard nX nY = true <-> nX = nY) /\
    (local_guard nX nY k = true <-> ((k <= nX)%coq_nat /\ nX = nY)) /\
    (eff_k k ntrain <= ntrain)%coq_nat /\ ((k <= ntrain)%coq_nat -> eff_k k ntrain = k) /\
    ((ntrain <= k)%coq_nat -> eff_k k ntrain = ntrain).
Proof. exact guards_spec. Qed.
Print Assumptions C13_guards.

(* non-vacuity of the Procrustes contract and of the hypotheses of the rotation theorems: the
   tiny environment with Omega = E_p = E_q = 1, L = sqrt 2 (M = Xs^T Xs = 2) *)
Example C13_nonvacuous_procrustes :
  forall F : rcfType,
    let env := tiny_recon_env2 F in
    [/\ proc_contract 2 1 1 1 env, rc_Ep env 1 1 *m (rc_Ep env 1 1)^T = 1%:M,
        rc_Eq env 1 1 *m (rc_Eq env 1 1)^T = 1%:M, gram (Xs_tr 2 1 env) 0 \in unitmx
      & rc_alpha env = 0 /\ eval_mx env (ridge_hyp_prog 2 1 1) = 0].
Proof. exact tiny_recon2_ok. Qed.
