(* C10 — Ridge2FoldCV equals explicit two-fold cross-validated regularised least squares.
   Statements only; every proof is `exact <lemma>` from Proofs/Ridge2FoldP.v.
   Model: Model/Ridge2Fold.v (shared scalar code + mexp programs, run on binary64 against the
   implementation) and Model/Ridge2FoldMx.v (the same code and programs over an arbitrary real
   closed field F).  [c_env c] holds the fold data (vX1, vy1, vX2, vy2), the full data (vX, vy),
   the SVD oracle values (vU.., vS.., vV..) and the matrix passed to predict (vXnew);
   [r2f_hyps c] = the three SVD hypotheses (U^T U = I, V^T V = I, X = U diag(s) V^T, s
   non-increasing and non-negative), rcond >= 0, a non-empty grid of non-negative alphas.
   The scorer [c_scorer c] is an arbitrary function of (y_true, y_pred).

   [reg_solution U sr V y a W]  :=  with Xr = U diag(sr) V^T:
        (Xr^T Xr + a I) W = Xr^T y   and   W = Xr^T z for some z.
   [strunc cutoff rcond alpha s]_i  =  s_i  if s_i > rcond (and s_i > alpha for the cut-off
   method), else 0;   [aeff cutoff alpha] = alpha (Tikhonov) resp. 0 (cut-off). *)
From mathcomp Require Import all_ssreflect all_algebra.
From Verif Require Import MExp MExpMx Ridge2Fold Ridge2FoldMx MxFrobP Ridge2FoldP Ridge2FoldEx.
Set Implicit Arguments.
Unset Strict Implicit.
Unset Printing Implicit Defensive.
Import GRing.Theory Num.Theory.
Local Open Scope ring_scope.

(* The column slices [:n], [:n_alpha] of the code, with n = sum(s > rcond) and
   n_alpha = min(n, sum(s > alpha)), keep exactly the singular directions whose singular
   value exceeds the threshold(s); the filter entries are s/(s^2+alpha) resp. 1/s there. *)
Theorem C10_slices_are_thresholds :
  forall (F : rcfType) k cutoff (rcond alpha : F) (s : 'cV[F]_k) (i : 'I_k),
    (forall i j : 'I_k, (i <= j)%N -> s j ord0 <= s i ord0) ->
    list_col k (gvec (rops F) cutoff (count_gt (rops F) rcond (col_list s)) alpha (col_list s)) i ord0
    = if keep cutoff rcond alpha (s i ord0)
      then (if cutoff then 1 / s i ord0 else s i ord0 / (s i ord0 * s i ord0 + alpha))
      else 0.
Proof. exact: gvecE. Qed.
Print Assumptions C10_slices_are_thresholds.

(* Tikhonov: W = V diag(s/(s^2+alpha))[:n] U^T y solves (Xr^T Xr + alpha I) W = Xr^T y and lies
   in the row space of Xr, the data matrix with the singular values <= rcond removed *)
Theorem C10_tikhonov_fold :
  forall (F : rcfType) (m p k t : nat) (env : env_mx F) (xX xU xS xV xy : nat) (rcond alpha : F),
    [&& xV != vG, xU != vG & xy != vG] ->
    svd_hyp env m p k xX xU xS xV -> 0 <= rcond -> 0 <= alpha ->
    let s := env k 1%N xS in
    let g := list_col k (gvec (rops F) false (count_gt (rops F) rcond (col_list s)) alpha (col_list s)) in
    let W := eval_mx (env_set env vG g) (w_prog m p k t xV vG xU xy) in
    reg_solution (env m k xU) (strunc false rcond alpha s) (env p k xV) (env m t xy) alpha W.
Proof.
  move=> F m p k t env xX xU xS xV xy rcond alpha HG Hs rc0 a0.
  exact: (@fold_reg_solution F m p k t env xX xU xS xV xy false rcond alpha).
Qed.
Print Assumptions C10_tikhonov_fold.

(* cut-off: W = V_r diag(1/s_r) U_r^T y with r = #{s > max(alpha, rcond)} is the least-squares
   solution in the row space (= minimum norm, C10_cutoff_min_norm) for the retained directions *)
Theorem C10_cutoff_fold :
  forall (F : rcfType) (m p k t : nat) (env : env_mx F) (xX xU xS xV xy : nat) (rcond alpha : F),
    [&& xV != vG, xU != vG & xy != vG] ->
    svd_hyp env m p k xX xU xS xV -> 0 <= rcond ->
    let s := env k 1%N xS in
    let g := list_col k (gvec (rops F) true (count_gt (rops F) rcond (col_list s)) alpha (col_list s)) in
    let W := eval_mx (env_set env vG g) (w_prog m p k t xV vG xU xy) in
    reg_solution (env m k xU) (strunc true rcond alpha s) (env p k xV) (env m t xy) 0 W.
Proof.
  move=> F m p k t env xX xU xS xV xy rcond alpha HG Hs rc0.
  exact: (@fold_reg_solution F m p k t env xX xU xS xV xy true rcond alpha).
Qed.
Print Assumptions C10_cutoff_fold.

(* what [reg_solution] means: W minimises |y - Xr w|^2 + a |w|^2 over ALL w ... *)
Theorem C10_reg_solution_minimises :
  forall (F : rcfType) (m p k t : nat) (U : 'M[F]_(m, k)) (sr : 'cV[F]_k) (V : 'M[F]_(p, k))
         (y : 'M[F]_(m, t)) (a : F) (W : 'M[F]_(p, t)),
    reg_solution U sr V y a W -> 0 <= a ->
    let Xr := U *m diag_mx sr^T *m V^T in
    forall w', fn2 (y - Xr *m W) + a * fn2 W <= fn2 (y - Xr *m w') + a * fn2 w'.
Proof. exact: reg_solution_min. Qed.
Print Assumptions C10_reg_solution_minimises.

(* ... is the only solution of the regularised normal equations when a > 0 ... *)
Theorem C10_reg_solution_unique :
  forall (F : rcfType) (m p k t : nat) (U : 'M[F]_(m, k)) (sr : 'cV[F]_k) (V : 'M[F]_(p, k))
         (y : 'M[F]_(m, t)) (a : F) (W : 'M[F]_(p, t)),
    reg_solution U sr V y a W ->
    let Xr := U *m diag_mx sr^T *m V^T in
    forall w', 0 < a -> (Xr^T *m Xr + a%:M) *m w' = Xr^T *m y -> w' = W.
Proof. exact: reg_solution_unique. Qed.
Print Assumptions C10_reg_solution_unique.

(* ... and the minimum-norm least-squares solution when a = 0 (cut-off method) *)
Theorem C10_cutoff_min_norm :
  forall (F : rcfType) (m p k t : nat) (U : 'M[F]_(m, k)) (sr : 'cV[F]_k) (V : 'M[F]_(p, k))
         (y : 'M[F]_(m, t)) (a : F) (W : 'M[F]_(p, t)),
    reg_solution U sr V y a W ->
    let Xr := U *m diag_mx sr^T *m V^T in
    forall w', a = 0 -> Xr^T *m Xr *m w' = Xr^T *m y -> fn2 W <= fn2 w'.
Proof. exact: reg_solution_min_norm. Qed.
Print Assumptions C10_cutoff_min_norm.

(* the truncated matrix is the data matrix itself whenever the dropped singular values are
   exactly zero (exactly rank-deficient or numerically full-rank data, Tikhonov) *)
Theorem C10_truncation_exact :
  forall (F : rcfType) (m p k : nat) (env : env_mx F) (xX xU xS xV : nat) cutoff (rcond alpha : F),
    svd_hyp env m p k xX xU xS xV ->
    (forall i, ~~ keep cutoff rcond alpha (env k 1%N xS i ord0) -> env k 1%N xS i ord0 = 0) ->
    env m k xU *m diag_mx (strunc cutoff rcond alpha (env k 1%N xS))^T *m (env p k xV)^T = env m p xX.
Proof. exact: fold_trunc_exact. Qed.
Print Assumptions C10_truncation_exact.

(* cv_values_[j] is the mean of the scorer on (model fitted on fold 1, data of fold 2) and
   (model fitted on fold 2, data of fold 1), for the j-th scaled alpha *)
Theorem C10_cv_values :
  forall (F : rcfType) (d : r2f_dims) (c : r2f_cfg F (d_t d)) j,
    (j < size (c_alphas c))%N ->
    let a := nth 0 (salphas c) j in
    nth 0 (cv_values c) j =
    (c_scorer c (c_env c (d_n2 d) (d_t d) vy2) (c_env c (d_n2 d) (d_p d) vX2 *m W1 c a)
     + c_scorer c (c_env c (d_n1 d) (d_t d) vy1) (c_env c (d_n1 d) (d_p d) vX1 *m W2 c a)) / 2%:R.
Proof. exact: cv_values_nth. Qed.
Print Assumptions C10_cv_values.

(* ... where the fold models are the explicit regularised fits *)
Theorem C10_fold_models :
  forall (F : rcfType) (d : r2f_dims) (c : r2f_cfg F (d_t d)) a,
    r2f_hyps c -> c_cutoff c || (0 <= a) ->
    reg_solution (c_env c (d_n1 d) (d_k1 d) vU1)
                 (strunc (c_cutoff c) (c_rcond c) a (c_env c (d_k1 d) 1%N vS1))
                 (c_env c (d_p d) (d_k1 d) vV1) (c_env c (d_n1 d) (d_t d) vy1)
                 (aeff (c_cutoff c) a) (W1 c a)
    /\ reg_solution (c_env c (d_n2 d) (d_k2 d) vU2)
                 (strunc (c_cutoff c) (c_rcond c) a (c_env c (d_k2 d) 1%N vS2))
                 (c_env c (d_p d) (d_k2 d) vV2) (c_env c (d_n2 d) (d_t d) vy2)
                 (aeff (c_cutoff c) a) (W2 c a).
Proof. by move=> F d c a H a0; split; [exact: W1_reg_solution | exact: W2_reg_solution]. Qed.
Print Assumptions C10_fold_models.

(* relative alphas are multiplied by the largest singular value of the two folds; all scaled
   alphas are non-negative *)
Theorem C10_scaled_alphas :
  forall (F : rcfType) (d : r2f_dims) (c : r2f_cfg F (d_t d)) j,
    r2f_hyps c -> (j < size (c_alphas c))%N ->
    nth 0 (salphas c) j
    = (if c_relative c
       then nth 0 (c_alphas c) j * Num.max (lmax (rops F) (s1 c)) (lmax (rops F) (s2 c))
       else nth 0 (c_alphas c) j)
    /\ 0 <= nth 0 (salphas c) j.
Proof. by move=> F d c j H Hj; split; [exact: salphas_nth | exact: salphas_ge0]. Qed.
Print Assumptions C10_scaled_alphas.

(* alpha_ is the FIRST grid value whose cv value is maximal; best_score_ is that value *)
Theorem C10_alpha :
  forall (F : rcfType) (d : r2f_dims) (c : r2f_cfg F (d_t d)),
    r2f_hyps c ->
    let r := best_idx c in
    [/\ (r < size (c_alphas c))%N, alpha_ c = nth 0 (c_alphas c) r,
        best_score c = nth 0 (cv_values c) r,
        forall j, (j < size (c_alphas c))%N -> nth 0 (cv_values c) j <= nth 0 (cv_values c) r
      & forall j, (j < r)%N -> nth 0 (cv_values c) j < nth 0 (cv_values c) r].
Proof. exact: alpha_first_argmax. Qed.
Print Assumptions C10_alpha.

(* coef_^T is the explicit regularised fit on the full data for the chosen scaled alpha *)
Theorem C10_coef :
  forall (F : rcfType) (d : r2f_dims) (c : r2f_cfg F (d_t d)),
    r2f_hyps c ->
    let a := best_scaled_alpha c in
    reg_solution (c_env c (d_n d) (d_k d) vU)
                 (strunc (c_cutoff c) (c_rcond c) a (c_env c (d_k d) 1%N vS))
                 (c_env c (d_p d) (d_k d) vV) (c_env c (d_n d) (d_t d) vy)
                 (aeff (c_cutoff c) a) (coef_ c)^T.
Proof. exact: coef_reg_solution. Qed.
Print Assumptions C10_coef.

(* predict(Xnew) = Xnew coef_^T *)
Theorem C10_predict :
  forall (F : rcfType) (d : r2f_dims) (c : r2f_cfg F (d_t d)),
    predict c = c_env c (d_nn d) (d_p d) vXnew *m (coef_ c)^T.
Proof. exact: predict_E. Qed.
Print Assumptions C10_predict.

(* directions below the numerical rank are excluded: coef_ has no component along a right
   singular vector of X whose singular value is <= rcond
   (false for the code as written, see Findings/F06_ridge2fold_rank.v: C10_rank_refuted) *)
Theorem C10_rank_excluded :
  forall (F : rcfType) (d : r2f_dims) (c : r2f_cfg F (d_t d)),
    r2f_hyps c ->
    forall i : 'I_(d_k d), c_env c (d_k d) 1%N vS i ord0 <= c_rcond c ->
    (col i (c_env c (d_p d) (d_k d) vV))^T *m (coef_ c)^T = 0.
Proof. exact: coef_rank_excluded. Qed.
Print Assumptions C10_rank_excluded.

(* ... so the coefficients stay bounded for rank-deficient X: |coef_|_F <= |y|_F / rcond *)
Theorem C10_coef_bounded :
  forall (F : rcfType) (d : r2f_dims) (c : r2f_cfg F (d_t d)),
    r2f_hyps c -> 0 < c_rcond c ->
    c_rcond c ^+ 2 * fn2 (coef_ c) <= fn2 (c_env c (d_n d) (d_t d) vy).
Proof. exact: coef_bounded. Qed.
Print Assumptions C10_coef_bounded.

(* non-vacuity: over every real closed field there is an instance meeting all hypotheses, with
   one singular direction kept and one cut by rcond *)
Example C10_nonvacuous :
  forall F : rcfType, exists (d : r2f_dims) (c : r2f_cfg F (d_t d)),
    [/\ r2f_hyps c,
        exists i : 'I_(d_k d), c_env c (d_k d) 1%N vS i ord0 <= c_rcond c
      & exists i : 'I_(d_k d), c_rcond c < c_env c (d_k d) 1%N vS i ord0].
Proof.
  move=> F; exists ex_d, (ex_c F); split; first exact: ex_hyps.
  - by exists ord_max; exact: ex_cut.
  - by exists ord0; exact: ex_kept.
Qed.

(* ======================================================================================== *)
(* Extension (round 3): fit as ONE function of the data.
   Model/Ridge2FoldFit.v (guards, scoring=None, fold choice, shapes; shared by the binary64 run)
   and Model/Ridge2FoldFitMx.v: [fit_mx a q w] is the result of
   Ridge2FoldCV(alphas, alpha_type, regularization_method, cv, scoring).fit(X, y) followed by
   predict(Xnew): [inl e] when a guard rejects the configuration, otherwise [inr r] with the
   attributes cv_values_, alpha_, best_score_, coef_ and the prediction.
     a : the data X, y, Xnew and how the folds are chosen ([CvKFold k]: the model computes the
         first yield of an unshuffled KFold(k) itself; [CvGiven splits]: what cv.split yields);
         [X_fold1 a] = X[fold1_idx] etc. ([take_rows]);
     q : the np.linalg.svd results (oracle); [data_hyps] says they ARE singular value
         decompositions of X[fold1_idx], X[fold2_idx], X, that rcond >= 0, the grid is non-empty
         and - for alpha_type "absolute" only - non-negative;
     w : scorer (arbitrary function), alphas, regularization_method (0 "tikhonov", 1 "cutoff",
         other numbers: unknown strings), alpha_type (0 "absolute", 1 "relative"), rcond.
   [explicit_fit U S V y cutoff rcond alpha W]: W solves the (regularised) normal equations of
   the rank-truncated matrix and lies in its row space (C10_reg_solution_minimises,
   C10_cutoff_min_norm say what that means; C10_truncation_error how far the truncated matrix
   is from the data). *)
From Verif Require Import Ridge2FoldFit Ridge2FoldFitMx Ridge2FoldFitListP Ridge2FoldFitP Ridge2FoldFitEx.

(* the rejection branches of fit: which configurations raise, and which of the three errors
   (the guards are tested in the order of the code); a relative grid that is accepted lies in
   [0, 1) *)
Theorem C10_fit_outcome :
  forall (F : rcfType) (a : r2f_data F) (q : r2f_oracles a) (w : r2f_params F (a_t a)),
    match fit_mx q w return Prop with
    | inl ErrMethod => (1 < p_method w)%N
    | inl ErrAlphaType => (p_method w <= 1)%N /\ (1 < p_atype w)%N
    | inl ErrRelativeRange =>
        [/\ (p_method w <= 1)%N, p_atype w = 1%N & has (fun x => (x < 0) || (1 <= x)) (p_alphas w)]
    | inr _ =>
        [/\ (p_method w <= 1)%N, (p_atype w <= 1)%N
          & p_atype w = 1%N -> all (fun x => (0 <= x) && (x < 1)) (p_alphas w)]
    end.
Proof. exact: fit_mx_outcome. Qed.
Print Assumptions C10_fit_outcome.

(* fold choice for cv=None/shuffle=False, an integer cv or an unshuffled KFold object: the first
   yield of KFold(k).split on n samples is (fold 1, fold 2) = ([h, n), [0, h)) with
   h = ceil(n / k); every sample occurs exactly once; both folds are non-empty *)
Theorem C10_kfold_first_split :
  forall n k : nat, (2 <= k)%coq_nat -> (k <= n)%coq_nat ->
    let h := kfold_h n k in
    let f1 := fst (kfold_first n k) in
    let f2 := snd (kfold_first n k) in
    f2 = List.seq 0 h /\ f1 = List.seq h (n - h)%coq_nat /\ List.app f2 f1 = List.seq 0 n /\
    List.length f2 = h /\ List.length f1 = (n - h)%coq_nat /\ (0 < h)%coq_nat /\ (h < n)%coq_nat.
Proof. exact: kfold_first_spec. Qed.
Print Assumptions C10_kfold_first_split.

Theorem C10_kfold_h_is_ceiling :
  forall n k : nat, (2 <= k)%coq_nat -> (k <= n)%coq_nat ->
    (n <= kfold_h n k * k)%coq_nat /\ (kfold_h n k * k < n + k)%coq_nat /\
    (0 < kfold_h n k)%coq_nat /\ (kfold_h n k < n)%coq_nat.
Proof. exact: kfold_h_spec. Qed.
Print Assumptions C10_kfold_h_is_ceiling.

(* X[fold_idx]: row i of the fold matrix is row fold_idx[i] of the data *)
Theorem C10_take_rows :
  forall (F : rcfType) n q (idx : seq nat) (A : 'M[F]_(n, q)) (i : 'I_(size idx)) (r : 'I_n) j,
    nth 0%N idx i = r -> take_rows idx A i j = A r j.
Proof. exact: take_rowsE. Qed.
Print Assumptions C10_take_rows.

(* for a >= 0 the explicit regularised fit is unique ... *)
Theorem C10_explicit_fit_unique :
  forall (F : rcfType) (m p k t : nat) (U : 'M[F]_(m, k)) (sr : 'cV[F]_k) (V : 'M[F]_(p, k))
         (y : 'M[F]_(m, t)) (a : F) (W W' : 'M[F]_(p, t)),
    0 <= a -> reg_solution U sr V y a W -> reg_solution U sr V y a W' -> W' = W.
Proof. exact: reg_solution_inj. Qed.
Print Assumptions C10_explicit_fit_unique.

(* ... and exists, for every grid entry, on fold 1, fold 2 and the full data *)
Theorem C10_explicit_fit_exists :
  forall (F : rcfType) (a : r2f_data F) (q : r2f_oracles a) (w : r2f_params F (a_t a))
         (r : r2f_result F (a_t a) (a_p a) (a_nn a)),
    data_hyps q w -> fit_mx q w = inr r ->
    forall j, (j < size (p_alphas w))%N ->
    let al := scaled_alpha q w (nth 0 (p_alphas w) j) in
    [/\ exists W1', explicit_fit (q_U1 q) (q_S1 q) (q_V1 q) (y_fold1 a) (p_method w == 1%N) (p_rcond w) al W1',
        exists W2', explicit_fit (q_U2 q) (q_S2 q) (q_V2 q) (y_fold2 a) (p_method w == 1%N) (p_rcond w) al W2'
      & exists W', explicit_fit (q_U q) (q_S q) (q_V q) (a_y a) (p_method w == 1%N) (p_rcond w) al W'].
Proof. exact: fit_explicit_exists. Qed.
Print Assumptions C10_explicit_fit_exists.

(* THE cv clause over the data: for every grid entry j, cv_values_[j] equals the mean of the
   scorer evaluated on (truth = y[fold2], prediction = X[fold2] W1') and
   (y[fold1], X[fold1] W2') for ANY explicit regularised fits W1' on the rows of fold 1 and W2'
   on the rows of fold 2 with the scaled parameter
   [scaled_alpha] = alpha (absolute) resp. alpha * max(s_fold1[0], s_fold2[0]) (relative) *)
Theorem C10_fit_cv_values_explicit :
  forall (F : rcfType) (a : r2f_data F) (q : r2f_oracles a) (w : r2f_params F (a_t a))
         (r : r2f_result F (a_t a) (a_p a) (a_nn a)),
    data_hyps q w -> fit_mx q w = inr r ->
    forall j (W1' W2' : 'M[F]_(a_p a, a_t a)), (j < size (p_alphas w))%N ->
    let al := scaled_alpha q w (nth 0 (p_alphas w) j) in
    explicit_fit (q_U1 q) (q_S1 q) (q_V1 q) (y_fold1 a) (p_method w == 1%N) (p_rcond w) al W1' ->
    explicit_fit (q_U2 q) (q_S2 q) (q_V2 q) (y_fold2 a) (p_method w == 1%N) (p_rcond w) al W2' ->
    nth 0 (res_cv r) j =
    (p_scorer w (y_fold2 a) (X_fold2 a *m W1') + p_scorer w (y_fold1 a) (X_fold1 a *m W2')) / 2%:R.
Proof. exact: fit_cv_values_explicit. Qed.
Print Assumptions C10_fit_cv_values_explicit.

(* one cv value per alpha; alpha_ is the FIRST grid value with the maximal cv value,
   best_score_ that value *)
Theorem C10_fit_selection :
  forall (F : rcfType) (a : r2f_data F) (q : r2f_oracles a) (w : r2f_params F (a_t a))
         (r : r2f_result F (a_t a) (a_p a) (a_nn a)),
    data_hyps q w -> fit_mx q w = inr r ->
    let b := argmax (rops F) (res_cv r) in
    size (res_cv r) = size (p_alphas w) /\
    [/\ (b < size (p_alphas w))%N,
        res_alpha r = nth 0 (p_alphas w) b, res_best r = nth 0 (res_cv r) b,
        forall j, (j < size (p_alphas w))%N -> nth 0 (res_cv r) j <= nth 0 (res_cv r) b
      & forall j, (j < b)%N -> nth 0 (res_cv r) j < nth 0 (res_cv r) b].
Proof. exact: fit_selection. Qed.
Print Assumptions C10_fit_selection.

(* coef_ is the transpose of ANY explicit regularised fit on the full data for the selected
   scaled alpha, and predict(Xnew) = Xnew times it *)
Theorem C10_fit_coef_explicit :
  forall (F : rcfType) (a : r2f_data F) (q : r2f_oracles a) (w : r2f_params F (a_t a))
         (r : r2f_result F (a_t a) (a_p a) (a_nn a)),
    data_hyps q w -> fit_mx q w = inr r ->
    forall W' : 'M[F]_(a_p a, a_t a),
    let b := argmax (rops F) (res_cv r) in
    let al := scaled_alpha q w (nth 0 (p_alphas w) b) in
    explicit_fit (q_U q) (q_S q) (q_V q) (a_y a) (p_method w == 1%N) (p_rcond w) al W' ->
    res_coef r = W'^T /\ res_predict r = a_Xnew a *m W'.
Proof. exact: fit_coef_explicit. Qed.
Print Assumptions C10_fit_coef_explicit.

(* the DEFAULT fold choice (cv=None, shuffle=True) and shuffled KFold objects: for the
   permutation [perm] of the sample indices drawn by the random state (the only oracle input)
   the first yield is a partition of the samples, fold 2 = the first h = ceil(n/k) entries of the
   permutation, fold 1 = the other samples, of sizes h and n - h, both in ascending order
   (filters of 0..n-1, as produced by sklearn's boolean test masks) *)
From Coq Require Import Permutation.
From Verif Require Import Ridge2FoldShuffle Ridge2FoldShuffleP.
Theorem C10_kfold_shuffled_split :
  forall (n k : nat) (perm : list nat),
    (2 <= k)%coq_nat -> (k <= n)%coq_nat -> Permutation perm (List.seq 0 n) ->
    let h := kfold_h n k in
    let f1 := fst (kfold_first_shuffled n k perm) in
    let f2 := snd (kfold_first_shuffled n k perm) in
    Permutation (List.app f2 f1) (List.seq 0 n) /\
    (forall i, List.In i f2 <-> List.In i (List.firstn h perm)) /\
    (forall i, List.In i f1 <-> (i < n)%coq_nat /\ ~ List.In i (List.firstn h perm)) /\
    List.length f2 = h /\ List.length f1 = (n - h)%coq_nat /\
    (exists g, f2 = List.filter g (List.seq 0 n)) /\ (exists g, f1 = List.filter g (List.seq 0 n)).
Proof. exact: kfold_first_shuffled_spec. Qed.
Print Assumptions C10_kfold_shuffled_split.

(* how far the rank-truncated matrix of the theorems is from the data matrix:
   |X - Xr|_F^2 <= k * thr^2 with thr = rcond (Tikhonov) resp. max(rcond, alpha) (cut-off) *)
Theorem C10_truncation_error :
  forall (F : rcfType) (m p k : nat) (U : 'M[F]_(m, k)) (V : 'M[F]_(p, k)) (s : 'cV[F]_k),
    U^T *m U = 1%:M -> V^T *m V = 1%:M -> (forall i, 0 <= s i ord0) ->
    forall cutoff (rcond alpha : F), 0 <= rcond ->
    fn2 (U *m diag_mx s^T *m V^T - U *m diag_mx (strunc cutoff rcond alpha s)^T *m V^T)
    <= k%:R * thr cutoff rcond alpha ^+ 2.
Proof. exact: trunc_error. Qed.
Print Assumptions C10_truncation_error.

(* non-vacuity of the data-level theorems: over every real closed field there is a data set
   with the model's own KFold(2) split, a relative grid and the cut-off method that meets
   [data_hyps], is accepted by the guards, and has a fold whose singular value is cut *)
Example C10_fit_nonvacuous :
  forall F : rcfType, exists (a : r2f_data F) (q : r2f_oracles a) (w : r2f_params F (a_t a)),
    [/\ data_hyps q w, exists r, fit_mx q w = inr r, a_spec a = CvKFold 2, p_atype w = 1%N
      & exists i, q_S1 q i ord0 <= p_rcond w].
Proof.
  move=> F; exists (fx_a F), (fx_q F), (fx_w F); split=> //.
  - exact: fx_hyps.
  - exact: fx_fit.
  - exact: fx_cut.
Qed.
