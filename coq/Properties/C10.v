(* C10 — Ridge2FoldCV equals explicit two-fold cross-validated regularised least squares.
   Statements only; every proof is `exact <lemma>` from Proofs/Ridge2FoldP.v.
   Model: Model/Ridge2Fold.v (shared scalar code + mexp programs, run on binary64 against the
   implementation) and Model/Ridge2FoldMx.v (the same code and programs over an arbitrary real
   closed field F).  [c_env c] holds the fold data (vX1, vy1, vX2, vy2), the full data (vX, vy),
   the SVD oracle values (vU.., vS.., vV..) and the matrix passed to predict (vXnew);
   [r2f_hyps c] = the three SVD hypotheses (U^T U = I, V^T V = I, X = U diag(s) V^T, s
   non-increasing and non-negative), rcond >= 0, a non-empty grid of non-negative alphas.
   The scorer [c_scorer c] is an arbitrary function of (y_true, y_pred).

   [reg_solution U sr V y a W]  :=  with Xr = U diag(sr) V^T:
        (Xr^T Xr + a I) W = Xr^T y   and   W = Xr^T z for some z.
   [strunc cutoff rcond alpha s]_i  =  s_i  if s_i > rcond (and s_i > alpha for the cut-off
   method), else 0;   [aeff cutoff alpha] = alpha (Tikhonov) resp. 0 (cut-off). *)
From mathcomp Require Import all_ssreflect all_algebra.
From Verif Require Import MExp MExpMx Ridge2Fold Ridge2FoldMx MxFrobP Ridge2FoldP Ridge2FoldEx.
Set Implicit Arguments.
Unset Strict Implicit.
Unset Printing Implicit Defensive.
Import GRing.Theory Num.Theory.
Local Open Scope ring_scope.

(* The column slices [:n], [:n_alpha] of the code, with n = sum(s > rcond) and
   n_alpha = min(n, sum(s > alpha)), keep exactly the singular directions whose singular
   value exceeds the threshold(s); the filter entries are s/(s^2+alpha) resp. 1/s there. *)
Theorem C10_slices_are_thresholds :
  forall (F : rcfType) k cutoff (rcond alpha : F) (s : 'cV[F]_k) (i : 'I_k),
    (forall i j : 'I_k, (i <= j)%N -> s j ord0 <= s i ord0) ->
    list_col k (gvec (rops F) cutoff (count_gt (rops F) rcond (col_list s)) alpha (col_list s)) i ord0
    = if keep cutoff rcond alpha (s i ord0)
      then (if cutoff then 1 / s i ord0 else s i ord0 / (s i ord0 * s i ord0 + alpha))
      else 0.
Proof. exact: gvecE. Qed.
Print Assumptions C10_slices_are_thresholds.

(* Tikhonov: W = V diag(s/(s^2+alpha))[:n] U^T y solves (Xr^T Xr + alpha I) W = Xr^T y and lies
   in the row space of Xr, the data matrix with the singular values <= rcond removed *)
Theorem C10_tikhonov_fold :
  forall (F : rcfType) (m p k t : nat) (env : env_mx F) (xX xU xS xV xy : nat) (rcond alpha : F),
    [&& xV != vG, xU != vG & xy != vG] ->
    svd_hyp env m p k xX xU xS xV -> 0 <= rcond -> 0 <= alpha ->
    let s := env k 1%N xS in
    let g := list_col k (gvec (rops F) false (count_gt (rops F) rcond (col_list s)) alpha (col_list s)) in
    let W := eval_mx (env_set env vG g) (w_prog m p k t xV vG xU xy) in
    reg_solution (env m k xU) (strunc false rcond alpha s) (env p k xV) (env m t xy) alpha W.
Proof.
  move=> F m p k t env xX xU xS xV xy rcond alpha HG Hs rc0 a0.
  exact: (@fold_reg_solution F m p k t env xX xU xS xV xy false rcond alpha).
Qed.
Print Assumptions C10_tikhonov_fold.

(* cut-off: W = V_r diag(1/s_r) U_r^T y with r = #{s > max(alpha, rcond)} is the least-squares
   solution in the row space (= minimum norm, C10_cutoff_min_norm) for the retained directions *)
Theorem C10_cutoff_fold :
  forall (F : rcfType) (m p k t : nat) (env : env_mx F) (xX xU xS xV xy : nat) (rcond alpha : F),
    [&& xV != vG, xU != vG & xy != vG] ->
    svd_hyp env m p k xX xU xS xV -> 0 <= rcond ->
    let s := env k 1%N xS in
    let g := list_col k (gvec (rops F) true (count_gt (rops F) rcond (col_list s)) alpha (col_list s)) in
    let W := eval_mx (env_set env vG g) (w_prog m p k t xV vG xU xy) in
    reg_solution (env m k xU) (strunc true rcond alpha s) (env p k xV) (env m t xy) 0 W.
Proof.
  move=> F m p k t env xX xU xS xV xy rcond alpha HG Hs rc0.
  exact: (@fold_reg_solution F m p k t env xX xU xS xV xy true rcond alpha).
Qed.
Print Assumptions C10_cutoff_fold.

(* what [reg_solution] means: W minimises |y - Xr w|^2 + a |w|^2 over ALL w ... *)
Theorem C10_reg_solution_minimises :
  forall (F : rcfType) (m p k t : nat) (U : 'M[F]_(m, k)) (sr : 'cV[F]_k) (V : 'M[F]_(p, k))
         (y : 'M[F]_(m, t)) (a : F) (W : 'M[F]_(p, t)),
    reg_solution U sr V y a W -> 0 <= a ->
    let Xr := U *m diag_mx sr^T *m V^T in
    forall w', fn2 (y - Xr *m W) + a * fn2 W <= fn2 (y - Xr *m w') + a * fn2 w'.
Proof. exact: reg_solution_min. Qed.
Print Assumptions C10_reg_solution_minimises.

(* ... is the only solution of the regularised normal equations when a > 0 ... *)
Theorem C10_reg_solution_unique :
  forall (F : rcfType) (m p k t : nat) (U : 'M[F]_(m, k)) (sr : 'cV[F]_k) (V : 'M[F]_(p, k))
         (y : 'M[F]_(m, t)) (a : F) (W : 'M[F]_(p, t)),
    reg_solution U sr V y a W ->
    let Xr := U *m diag_mx sr^T *m V^T in
    forall w', 0 < a -> (Xr^T *m Xr + a%:M) *m w' = Xr^T *m y -> w' = W.
Proof. exact: reg_solution_unique. Qed.
Print Assumptions C10_reg_solution_unique.

(* ... and the minimum-norm least-squares solution when a = 0 (cut-off method) *)
Theorem C10_cutoff_min_norm :
  forall (F : rcfType) (m p k t : nat) (U : 'M[F]_(m, k)) (sr : 'cV[F]_k) (V : 'M[F]_(p, k))
         (y : 'M[F]_(m, t)) (a : F) (W : 'M[F]_(p, t)),
    reg_solution U sr V y a W ->
    let Xr := U *m diag_mx sr^T *m V^T in
    forall w', a = 0 -> Xr^T *m Xr *m w' = Xr^T *m y -> fn2 W <= fn2 w'.
Proof. exact: reg_solution_min_norm. Qed.
Print Assumptions C10_cutoff_min_norm.

(* the truncated matrix is the data matrix itself whenever the dropped singular values are
   exactly zero (exactly rank-deficient or numerically full-rank data, Tikhonov) *)
Theorem C10_truncation_exact :
  forall (F : rcfType) (m p k : nat) (env : env_mx F) (xX xU xS xV : nat) cutoff (rcond alpha : F),
    svd_hyp env m p k xX xU xS xV ->
    (forall i, ~~ keep cutoff rcond alpha (env k 1%N xS i ord0) -> env k 1%N xS i ord0 = 0) ->
    env m k xU *m diag_mx (strunc cutoff rcond alpha (env k 1%N xS))^T *m (env p k xV)^T = env m p xX.
Proof. exact: fold_trunc_exact. Qed.
Print Assumptions C10_truncation_exact.

(* cv_values_[j] is the mean of the scorer on (model fitted on fold 1, data of fold 2) and
   (model fitted on fold 2, data of fold 1), for the j-th scaled alpha *)
Theorem C10_cv_values :
  forall (F : rcfType) (d : r2f_dims) (c : r2f_cfg F (d_t d)) j,
    (j < size (c_alphas c))%N ->
    let a := nth 0 (salphas c) j in
    nth 0 (cv_values c) j =
    (c_scorer c (c_env c (d_n2 d) (d_t d) vy2) (c_env c (d_n2 d) (d_p d) vX2 *m W1 c a)
     + c_scorer c (c_env c (d_n1 d) (d_t d) vy1) (c_env c (d_n1 d) (d_p d) vX1 *m W2 c a)) / 2%:R.
Proof. exact: cv_values_nth. Qed.
Print Assumptions C10_cv_values.

(* ... where the fold models are the explicit regularised fits *)
Theorem C10_fold_models :
  forall (F : rcfType) (d : r2f_dims) (c : r2f_cfg F (d_t d)) a,
    r2f_hyps c -> c_cutoff c || (0 <= a) ->
    reg_solution (c_env c (d_n1 d) (d_k1 d) vU1)
                 (strunc (c_cutoff c) (c_rcond c) a (c_env c (d_k1 d) 1%N vS1))
                 (c_env c (d_p d) (d_k1 d) vV1) (c_env c (d_n1 d) (d_t d) vy1)
                 (aeff (c_cutoff c) a) (W1 c a)
    /\ reg_solution (c_env c (d_n2 d) (d_k2 d) vU2)
                 (strunc (c_cutoff c) (c_rcond c) a (c_env c (d_k2 d) 1%N vS2))
                 (c_env c (d_p d) (d_k2 d) vV2) (c_env c (d_n2 d) (d_t d) vy2)
                 (aeff (c_cutoff c) a) (W2 c a).
Proof. by move=> F d c a H a0; split; [exact: W1_reg_solution | exact: W2_reg_solution]. Qed.
Print Assumptions C10_fold_models.

(* relative alphas are multiplied by the largest singular value of the two folds; all scaled
   alphas are non-negative *)
Theorem C10_scaled_alphas :
  forall (F : rcfType) (d : r2f_dims) (c : r2f_cfg F (d_t d)) j,
    r2f_hyps c -> (j < size (c_alphas c))%N ->
    nth 0 (salphas c) j
    = (if c_relative c
       then nth 0 (c_alphas c) j * Num.max (lmax (rops F) (s1 c)) (lmax (rops F) (s2 c))
       else nth 0 (c_alphas c) j)
    /\ 0 <= nth 0 (salphas c) j.
Proof. by move=> F d c j H Hj; split; [exact: salphas_nth | exact: salphas_ge0]. Qed.
Print Assumptions C10_scaled_alphas.

(* alpha_ is the FIRST grid value whose cv value is maximal; best_score_ is that value *)
Theorem C10_alpha :
  forall (F : rcfType) (d : r2f_dims) (c : r2f_cfg F (d_t d)),
    r2f_hyps c ->
    let r := best_idx c in
    [/\ (r < size (c_alphas c))%N, alpha_ c = nth 0 (c_alphas c) r,
        best_score c = nth 0 (cv_values c) r,
        forall j, (j < size (c_alphas c))%N -> nth 0 (cv_values c) j <= nth 0 (cv_values c) r
      & forall j, (j < r)%N -> nth 0 (cv_values c) j < nth 0 (cv_values c) r].
Proof. exact: alpha_first_argmax. Qed.
Print Assumptions C10_alpha.

(* coef_^T is the explicit regularised fit on the full data for the chosen scaled alpha *)
Theorem C10_coef :
  forall (F : rcfType) (d : r2f_dims) (c : r2f_cfg F (d_t d)),
    r2f_hyps c ->
    let a := best_scaled_alpha c in
    reg_solution (c_env c (d_n d) (d_k d) vU)
                 (strunc (c_cutoff c) (c_rcond c) a (c_env c (d_k d) 1%N vS))
                 (c_env c (d_p d) (d_k d) vV) (c_env c (d_n d) (d_t d) vy)
                 (aeff (c_cutoff c) a) (coef_ c)^T.
Proof. exact: coef_reg_solution. Qed.
Print Assumptions C10_coef.

(* predict(Xnew) = Xnew coef_^T *)
Theorem C10_predict :
  forall (F : rcfType) (d : r2f_dims) (c : r2f_cfg F (d_t d)),
    predict c = c_env c (d_nn d) (d_p d) vXnew *m (coef_ c)^T.
Proof. exact: predict_E. Qed.
Print Assumptions C10_predict.

(* directions below the numerical rank are excluded: coef_ has no component along a right
   singular vector of X whose singular value is <= rcond
   (false for the code as written, see Findings/F06_ridge2fold_rank.v: C10_rank_refuted) *)
Theorem C10_rank_excluded :
  forall (F : rcfType) (d : r2f_dims) (c : r2f_cfg F (d_t d)),
    r2f_hyps c ->
    forall i : 'I_(d_k d), c_env c (d_k d) 1%N vS i ord0 <= c_rcond c ->
    (col i (c_env c (d_p d) (d_k d) vV))^T *m (coef_ c)^T = 0.
Proof. exact: coef_rank_excluded. Qed.
Print Assumptions C10_rank_excluded.

(* ... so the coefficients stay bounded for rank-deficient X: |coef_|_F <= |y|_F / rcond *)
Theorem C10_coef_bounded :
  forall (F : rcfType) (d : r2f_dims) (c : r2f_cfg F (d_t d)),
    r2f_hyps c -> 0 < c_rcond c ->
    c_rcond c ^+ 2 * fn2 (coef_ c) <= fn2 (c_env c (d_n d) (d_t d) vy).
Proof. exact: coef_bounded. Qed.
Print Assumptions C10_coef_bounded.

(* non-vacuity: over every real closed field there is an instance meeting all hypotheses, with
   one singular direction kept and one cut by rcond *)
Example C10_nonvacuous :
  forall F : rcfType, exists (d : r2f_dims) (c : r2f_cfg F (d_t d)),
    [/\ r2f_hyps c,
        exists i : 'I_(d_k d), c_env c (d_k d) 1%N vS i ord0 <= c_rcond c
      & exists i : 'I_(d_k d), c_rcond c < c_env c (d_k d) 1%N vS i ord0].
Proof.
  move=> F; exists ex_d, (ex_c F); split; first exact: ex_hyps.
  - by exists ord_max; exact: ex_cut.
  - by exists ord0; exact: ex_kept.
Qed.
