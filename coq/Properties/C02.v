(* C02 — FPS and PCov-FPS pick a farthest candidate each step and report true distances.
   Statements only; every proof is `exact <lemma>` from Proofs/.  Model: Model/FPS.v,
   Model/Greedy.v.  [tabmin dist j s] is the true minimum of dist(j, i) over i in s
   (None = +inf for empty s); [fps_dist cs j l] is the squared Euclidean distance
   between candidates j and l; [pcov_dist X Y a j l] = a*d2_X(j,l) + (4-a)*d2_Y(j,l),
   i.e. 4x the distance induced by the modified Gram matrix at mixing a/4. *)
From Verif Require Import ListX Greedy FPS ListXP GreedyP FPSP FPSInst C02Thm.

(* new_dist = norms_ + norms_[l] - 2 X[l] @ X.T is the vector of squared distances *)
Theorem C02_update_is_sqdist :
  forall cs d, dims d cs -> forall l, (l < length cs)%nat ->
    newdist (fps_norms cs) (fps_cross cs) l
    = map (fun j => sqdist (nth j cs []) (nth l cs [])) (seq 0 (length cs)).
Proof. exact fps_newdist. Qed.
Print Assumptions C02_update_is_sqdist.

(* the reported per-candidate table is the true minimum distance to the selected set,
   after any number of steps, for every input, initialisation and threshold *)
Theorem C02_table_true :
  forall cs d ycand, dims d cs -> forall inits t niter g' st,
    NoDup inits -> in_range (length cs) inits ->
    fps_fit cs ycand inits t niter = (g', st) ->
    haus (sst g') = map (fun j => tabmin (fps_dist cs) j (sel g')) (seq 0 (length cs)).
Proof. exact fps_table_true. Qed.
Print Assumptions C02_table_true.

(* every selection made by the loop is a candidate whose minimum distance to all earlier
   selections is maximal (first such index), and is not yet selected *)
Theorem C02_step_farthest :
  forall cs d ycand, dims d cs -> forall inits t niter g' st,
    NoDup inits -> in_range (length cs) inits ->
    fps_fit cs ycand inits t niter = (g', st) -> inits <> [] ->
    exists new, sel g' = inits ++ new /\ farthest_seq cs (fps_dist cs) inits new.
Proof. exact fps_steps_farthest. Qed.
Print Assumptions C02_step_farthest.

(* get_select_distance()[k] is the true minimum distance of the k-th selection to the
   selections before it *)
Theorem C02_select_distance :
  forall cs d ycand, dims d cs -> forall inits t niter g' st,
    NoDup inits -> in_range (length cs) inits ->
    fps_fit cs ycand inits t niter = (g', st) ->
    forall k, (k < length (sel g'))%nat ->
      nth k (select_distance g') None
      = tabmin (fps_dist cs) (nth k (sel g') O) (firstn k (sel g')).
Proof. exact fps_select_distance_true. Qed.
Print Assumptions C02_select_distance.

(* ... and those distances never increase along the selections made by the loop *)
Theorem C02_distances_nonincreasing :
  forall cs dist s new, farthest_seq cs dist s new -> nonincreasing (dists dist s new).
Proof. exact farthest_dists_nonincreasing. Qed.
Print Assumptions C02_distances_nonincreasing.

(* the first selections are exactly the requested initial indices *)
Theorem C02_initial :
  forall cs d ycand, dims d cs -> forall inits t niter g' st,
    NoDup inits -> in_range (length cs) inits ->
    fps_fit cs ycand inits t niter = (g', st) ->
    firstn (length inits) (sel g') = inits.
Proof. exact fps_initial. Qed.
Print Assumptions C02_initial.

(* sample FPS on X and feature FPS on X^T select identically: feature selection runs the
   same loop on the columns of its argument, and the columns of X^T are the rows of X *)
Theorem C02_duality :
  forall w X ycand inits t niter, dims w X ->
    fps_fit (transpose (length X) (transpose w X)) ycand inits t niter
    = fps_fit X ycand inits t niter.
Proof. intros w X ycand inits t niter H. now rewrite (transpose_involutive w X H). Qed.
Print Assumptions C02_duality.

(* PCov-FPS, sample direction, mixing a/4: the distance read off the modified Gram matrix
   is the mixed squared distance, the table is true for it and every step is farthest *)
Theorem C02_pcov_sample_distance :
  forall X Y dx dy a, dims dx X -> dims dy Y -> length Y = length X ->
    forall j l, (j < length X)%nat -> (l < length X)%nat ->
    kentry a X Y j j + kentry a X Y l l - 2 * kentry a X Y l j = pcov_dist X Y a j l.
Proof. exact kentry_dist. Qed.
Print Assumptions C02_pcov_sample_distance.

Theorem C02_pcov_table_true :
  forall X Y dx dy a ycand,
    dims dx X -> dims dy Y -> length Y = length X ->
    forall i0 t niter g' st, (i0 < length X)%nat ->
    pcov_fit false (kernel4 a X Y) X ycand i0 t niter = (g', st) ->
    haus (sst g') = map (fun j => tabmin (pcov_dist X Y a) j (sel g')) (seq 0 (length X)).
Proof. exact pcov_table_true. Qed.
Print Assumptions C02_pcov_table_true.

Theorem C02_pcov_step_farthest :
  forall X Y dx dy a ycand, 0 <= a <= 4 ->
    dims dx X -> dims dy Y -> length Y = length X ->
    forall i0 t niter g' st, (i0 < length X)%nat ->
    pcov_fit false (kernel4 a X Y) X ycand i0 t niter = (g', st) ->
    exists new, sel g' = [i0] ++ new /\ farthest_seq X (pcov_dist X Y a) [i0] new.
Proof. exact pcov_steps_farthest. Qed.
Print Assumptions C02_pcov_step_farthest.

(* non-vacuity: a concrete input with exact ties meets the hypotheses and is non-trivial *)
Example C02_nonvacuous :
  let cs := [[0;0];[3;0];[0;3];[3;3];[1;1]] in
  dims 2 cs /\ NoDup [4%nat] /\ in_range 5 [4%nat] /\
  sel (fst (fps_fit cs None [4%nat] NoThr 4)) = [4; 3; 1; 2]%nat /\
  select_distance (fst (fps_fit cs None [4%nat] NoThr 4)) = [None; Some 8; Some 5; Some 5].
Proof.
  cbv zeta. split; [repeat constructor|]. split; [repeat constructor; intros []|].
  split; [repeat constructor|]. split; vm_compute; reflexivity.
Qed.
