(* C02 — FPS and PCov-FPS pick a farthest candidate each step and report true distances.
   Statements only; every proof is `exact <lemma>` from Proofs/.  Model: Model/FPS.v,
   Model/Greedy.v.  [tabmin dist j s] is the true minimum of dist(j, i) over i in s
   (None = +inf for empty s); [fps_dist cs j l] is the squared Euclidean distance
   between candidates j and l; [pcov_dist X Y a j l] = a*d2_X(j,l) + (4-a)*d2_Y(j,l),
   i.e. 4x the distance induced by the modified Gram matrix at mixing a/4. *)
From Verif Require Import ListX Greedy FPS ListXP GreedyP FPSP FPSInst C02Thm.

(* new_dist = norms_ + norms_[l] - 2 X[l] @ X.T is the vector of squared distances *)
Theorem C02_update_is_sqdist :
  forall cs d, dims d cs -> forall l, (l < length cs)%nat ->
    newdist (fps_norms cs) (fps_cross cs) l
    = map (fun j => sqdist (nth j cs []) (nth l cs [])) (seq 0 (length cs)).
Proof. exact fps_newdist. Qed.
Print Assumptions C02_update_is_sqdist.

(* the reported per-candidate table is the true minimum distance to the selected set,
   after any number of steps, for every input, initialisation and threshold *)
Theorem C02_table_true :
  forall cs d ycand, dims d cs -> forall inits t niter g' st,
    NoDup inits -> in_range (length cs) inits ->
    fps_fit cs ycand inits t niter = (g', st) ->
    haus (sst g') = map (fun j => tabmin (fps_dist cs) j (sel g')) (seq 0 (length cs)).
Proof. exact fps_table_true. Qed.
Print Assumptions C02_table_true.

(* every selection made by the loop is a candidate whose minimum distance to all earlier
   selections is maximal (first such index), and is not yet selected *)
Theorem C02_step_farthest :
  forall cs d ycand, dims d cs -> forall inits t niter g' st,
    NoDup inits -> in_range (length cs) inits ->
    fps_fit cs ycand inits t niter = (g', st) -> inits <> [] ->
    exists new, sel g' = inits ++ new /\ farthest_seq cs (fps_dist cs) inits new.
Proof. exact fps_steps_farthest. Qed.
Print Assumptions C02_step_farthest.

(* get_select_distance()[k] is the true minimum distance of the k-th selection to the
   selections before it *)
Theorem C02_select_distance :
  forall cs d ycand, dims d cs -> forall inits t niter g' st,
    NoDup inits -> in_range (length cs) inits ->
    fps_fit cs ycand inits t niter = (g', st) ->
    forall k, (k < length (sel g'))%nat ->
      nth k (select_distance g') None
      = tabmin (fps_dist cs) (nth k (sel g') O) (firstn k (sel g')).
Proof. exact fps_select_distance_true. Qed.
Print Assumptions C02_select_distance.

(* ... and those distances never increase along the selections made by the loop *)
Theorem C02_distances_nonincreasing :
  forall cs dist s new, farthest_seq cs dist s new -> nonincreasing (dists dist s new).
Proof. exact farthest_dists_nonincreasing. Qed.
Print Assumptions C02_distances_nonincreasing.

(* the first selections are exactly the requested initial indices *)
Theorem C02_initial :
  forall cs d ycand, dims d cs -> forall inits t niter g' st,
    NoDup inits -> in_range (length cs) inits ->
    fps_fit cs ycand inits t niter = (g', st) ->
    firstn (length inits) (sel g') = inits.
Proof. exact fps_initial. Qed.
Print Assumptions C02_initial.

(* sample FPS on X and feature FPS on X^T select identically: feature selection runs the
   same loop on the columns of its argument, and the columns of X^T are the rows of X *)
Theorem C02_duality :
  forall w X ycand inits t niter, dims w X ->
    fps_fit (transpose (length X) (transpose w X)) ycand inits t niter
    = fps_fit X ycand inits t niter.
Proof. intros w X ycand inits t niter H. now rewrite (transpose_involutive w X H). Qed.
Print Assumptions C02_duality.

(* PCov-FPS, sample direction, mixing a/4: the distance read off the modified Gram matrix
   is the mixed squared distance, the table is true for it and every step is farthest *)
Theorem C02_pcov_sample_distance :
  forall X Y dx dy a, dims dx X -> dims dy Y -> length Y = length X ->
    forall j l, (j < length X)%nat -> (l < length X)%nat ->
    kentry a X Y j j + kentry a X Y l l - 2 * kentry a X Y l j = pcov_dist X Y a j l.
Proof. exact kentry_dist. Qed.
Print Assumptions C02_pcov_sample_distance.

Theorem C02_pcov_table_true :
  forall X Y dx dy a ycand,
    dims dx X -> dims dy Y -> length Y = length X ->
    forall i0 t niter g' st, (i0 < length X)%nat ->
    pcov_fit false (kernel4 a X Y) X ycand i0 t niter = (g', st) ->
    haus (sst g') = map (fun j => tabmin (pcov_dist X Y a) j (sel g')) (seq 0 (length X)).
Proof. exact pcov_table_true. Qed.
Print Assumptions C02_pcov_table_true.

Theorem C02_pcov_step_farthest :
  forall X Y dx dy a ycand, 0 <= a <= 4 ->
    dims dx X -> dims dy Y -> length Y = length X ->
    forall i0 t niter g' st, (i0 < length X)%nat ->
    pcov_fit false (kernel4 a X Y) X ycand i0 t niter = (g', st) ->
    exists new, sel g' = [i0] ++ new /\ farthest_seq X (pcov_dist X Y a) [i0] new.
Proof. exact pcov_steps_farthest. Qed.
Print Assumptions C02_pcov_step_farthest.

(* non-vacuity: a concrete input with exact ties meets the hypotheses and is non-trivial *)
Example C02_nonvacuous :
  let cs := [[0;0];[3;0];[0;3];[3;3];[1;1]] in
  dims 2 cs /\ NoDup [4%nat] /\ in_range 5 [4%nat] /\
  sel (fst (fps_fit cs None [4%nat] NoThr 4)) = [4; 3; 1; 2]%nat /\
  select_distance (fst (fps_fit cs None [4%nat] NoThr 4)) = [None; Some 8; Some 5; Some 5].
Proof.
  cbv zeta. split; [repeat constructor|]. split; [repeat constructor; intros []|].
  split; [repeat constructor|]. split; vm_compute; reflexivity.
Qed.

(* ======================================================================================
   Extension (round 3).  Model/FPSExt.v, Proofs/FPSExtP.v (layer D), Proofs/PCovDistP.v
   (layer A).

   [mdist axis1 D j l] = D_jj + D_ll - 2 * (axis1 ? D_jl : D_lj) is the distance that
   _PCovFPS._update_hausdorff forms from the matrix pcovr_distance_ (np.take(D, l, axis));
   [fps_chain] / [pcov_chain] = a cold fit followed by warm-started continuations
   (fit(warm_start=True)), any number of stages, any thresholds. *)
From Verif Require Import FPSExt FPSExtP.

(* PCov-FPS, BOTH directions, ANY square matrix in pcovr_distance_: the reported table and the
   reported select distances are the true minima of the distance induced by that matrix *)
Theorem C02_pcov_matrix_table_true :
  forall (axis1 : bool) (D cs : list (list Z)) ycand, sqmat (length cs) D ->
    forall i0 t niter g' st, (i0 < length cs)%nat ->
    pcov_fit axis1 D cs ycand i0 t niter = (g', st) ->
    haus (sst g') = map (fun j => tabmin (mdist axis1 D) j (sel g')) (seq 0 (length cs)).
Proof. exact mat_table_true. Qed.
Print Assumptions C02_pcov_matrix_table_true.

Theorem C02_pcov_matrix_select_distance :
  forall (axis1 : bool) (D cs : list (list Z)) ycand, sqmat (length cs) D ->
    forall i0 t niter g' st, (i0 < length cs)%nat ->
    pcov_fit axis1 D cs ycand i0 t niter = (g', st) ->
    forall k, (k < length (sel g'))%nat ->
      nth k (select_distance g') None
      = tabmin (mdist axis1 D) (nth k (sel g') O) (firstn k (sel g')).
Proof. exact mat_select_distance_true. Qed.
Print Assumptions C02_pcov_matrix_select_distance.

(* PCov-FPS, FEATURE direction (and again the sample direction: [axis1] is arbitrary).  With F the
   feature vectors (columns of X) and CY the rows of C_Y = (X^T X)^(-1/2) X^T Y, the modified
   covariance at mixing a/4 is 4 C~ = a X^T X + (4-a) C_Y C_Y^T = [kernel4 a F CY]; reading its
   COLUMNS (axis 1) the table is the true minimum of the mixed squared distance
   a |x_j - x_l|^2 + (4-a) |cy_j - cy_l|^2 and every step is farthest for it. *)
Theorem C02_pcov_feature_table_true :
  forall (axis1 : bool) F CY dx dy a ycand,
    dims dx F -> dims dy CY -> length CY = length F ->
    forall i0 t niter g' st, (i0 < length F)%nat ->
    pcov_fit axis1 (kernel4 a F CY) F ycand i0 t niter = (g', st) ->
    haus (sst g') = map (fun j => tabmin (pcov_dist F CY a) j (sel g')) (seq 0 (length F)).
Proof. exact feat_table_true. Qed.
Print Assumptions C02_pcov_feature_table_true.

Theorem C02_pcov_feature_select_distance :
  forall (axis1 : bool) F CY dx dy a ycand,
    dims dx F -> dims dy CY -> length CY = length F ->
    forall i0 t niter g' st, (i0 < length F)%nat ->
    pcov_fit axis1 (kernel4 a F CY) F ycand i0 t niter = (g', st) ->
    forall k, (k < length (sel g'))%nat ->
      nth k (select_distance g') None
      = tabmin (pcov_dist F CY a) (nth k (sel g') O) (firstn k (sel g')).
Proof. exact feat_select_distance_true. Qed.
Print Assumptions C02_pcov_feature_select_distance.

Theorem C02_pcov_feature_step_farthest :
  forall (axis1 : bool) F CY dx dy a ycand, 0 <= a <= 4 ->
    dims dx F -> dims dy CY -> length CY = length F ->
    forall i0 t niter g' st, (i0 < length F)%nat ->
    pcov_fit axis1 (kernel4 a F CY) F ycand i0 t niter = (g', st) ->
    exists new, sel g' = [i0] ++ new /\ farthest_seq F (pcov_dist F CY a) [i0] new.
Proof. exact feat_steps_farthest. Qed.
Print Assumptions C02_pcov_feature_step_farthest.

(* Histories: after a cold fit and ANY number of warm-started continuations (any thresholds, any
   n_to_select per stage) the table is still the true minimum distance to everything selected so
   far, the select distances are the true minima at selection time, nothing is selected twice and
   EVERY selection after the initial ones - in whichever stage it was made - was a farthest
   candidate w.r.t. all earlier selections. *)
Theorem C02_warm_chain :
  forall cs d ycand, dims d cs -> forall inits stages,
    NoDup inits -> in_range (length cs) inits -> inits <> [] ->
    let g := fps_chain cs ycand inits stages in
    haus (sst g) = map (fun j => tabmin (fps_dist cs) j (sel g)) (seq 0 (length cs)) /\
    (forall k, (k < length (sel g))%nat ->
       nth k (select_distance g) None = tabmin (fps_dist cs) (nth k (sel g) O) (firstn k (sel g))) /\
    NoDup (sel g) /\
    exists new, sel g = inits ++ new /\ farthest_seq cs (fps_dist cs) inits new.
Proof. exact fps_chain_true. Qed.
Print Assumptions C02_warm_chain.

Theorem C02_pcov_warm_chain :
  forall (axis1 : bool) F CY dx dy a ycand, 0 <= a <= 4 ->
    dims dx F -> dims dy CY -> length CY = length F ->
    forall i0 stages, (i0 < length F)%nat ->
    let g := pcov_chain axis1 (kernel4 a F CY) F ycand i0 stages in
    haus (sst g) = map (fun j => tabmin (pcov_dist F CY a) j (sel g)) (seq 0 (length F)) /\
    (forall k, (k < length (sel g))%nat ->
       nth k (select_distance g) None
       = tabmin (pcov_dist F CY a) (nth k (sel g) O) (firstn k (sel g))) /\
    NoDup (sel g) /\
    exists new, sel g = [i0] ++ new /\ farthest_seq F (pcov_dist F CY a) [i0] new.
Proof. exact pcov_chain_true. Qed.
Print Assumptions C02_pcov_warm_chain.

(* non-vacuity: a feature-direction run on a Gram matrix with ties, continued warm; and a
   non-symmetric matrix on which the two axes induce different distances *)
Example C02_ext_nonvacuous :
  let F := [[2;0];[0;2];[2;2];[1;1]] in let CY := [[1];[0];[3];[1]] in
  dims 2 F /\ dims 1 CY /\ length CY = length F /\
  sel (pcov_chain true (kernel4 2 F CY) F None 0 [(NoThr, 2%nat); (NoThr, 4%nat)]) = [0; 1; 2; 3]%nat /\
  select_distance (pcov_chain true (kernel4 2 F CY) F None 0 [(NoThr, 2%nat); (NoThr, 4%nat)])
    = [None; Some 18; Some 16; Some 4] /\
  sel (fps_chain F None [3%nat] [(NoThr, 2%nat); (NoThr, 3%nat)]) = [3; 0; 1]%nat /\
  mdist true [[0;1];[5;0]] 0 1 <> mdist false [[0;1];[5;0]] 0 1.
Proof.
  cbv zeta. split; [repeat constructor|]. split; [repeat constructor|]. split; [reflexivity|].
  split; [vm_compute; reflexivity|]. split; [vm_compute; reflexivity|].
  split; [vm_compute; reflexivity|]. vm_compute. discriminate.
Qed.

(* ======================================================================================
   Extension (session 4).  Proofs/FPSNetP.v, Proofs/FPSNetInstP.v: the selections form an
   r-net, r = the distance at which the last selection was made. *)
From Verif Require Import FPSNetP FPSNetInstP.

(* covering: just before its last selection i the loop had every candidate within
   r = tabmin i (s ++ new) of the selected set; ANY distance, ANY farthest sequence *)
Theorem C02_net_covering :
  forall cs dist s new i, farthest_seq cs dist s (new ++ [i]) ->
    forall j, (j < length cs)%nat ->
      ext_le (tabmin dist j (s ++ new)) (tabmin dist i (s ++ new)).
Proof. exact farthest_net_covering. Qed.
Print Assumptions C02_net_covering.

(* packing: every selection of the loop was made at distance >= r from all earlier ones *)
Theorem C02_net_packing :
  forall cs dist s new i, farthest_seq cs dist s (new ++ [i]) ->
    Forall (fun d => ext_le (tabmin dist i (s ++ new)) d) (dists dist s (new ++ [i])).
Proof. exact farthest_net_packing. Qed.
Print Assumptions C02_net_packing.

(* ... as the fitted object reports it: get_distance() is nowhere above
   get_select_distance()[-1], and no selection made by the loop has a smaller select
   distance than the last one; every input, initialisation, threshold and iteration count *)
Theorem C02_net_reported :
  forall cs d ycand, dims d cs -> forall inits t niter g' st,
    NoDup inits -> in_range (length cs) inits ->
    fps_fit cs ycand inits t niter = (g', st) -> inits <> [] ->
    (length inits < length (sel g'))%nat ->
    let r := nth (length (sel g') - 1)%nat (select_distance g') None in
    Forall (fun h => ext_le h r) (haus (sst g')) /\
    forall k, (length inits <= k < length (sel g'))%nat ->
      ext_le r (nth k (select_distance g') None).
Proof. exact fps_net. Qed.
Print Assumptions C02_net_reported.

(* non-vacuity: the run of C02_nonvacuous ([4] -> [4;3;1;2], distances [inf;8;5;5]) meets
   the hypotheses; r = 5 and the table it reports is [2;0;0;0;0] *)
Example C02_net_nonvacuous :
  let cs := [[0;0];[3;0];[0;3];[3;3];[1;1]] in
  let g := fst (fps_fit cs None [4%nat] NoThr 4) in
  (length [4%nat] < length (sel g))%nat /\
  nth (length (sel g) - 1)%nat (select_distance g) None = Some 5 /\
  haus (sst g) = [Some 2; Some 0; Some 0; Some 0; Some 0].
Proof. cbv zeta. split; [vm_compute; lia|]. split; vm_compute; reflexivity. Qed.

(* ---- layer A: the distance induced by pcovr_covariance / pcovr_kernel ----------------------
   [idist M i j] = M_ii + M_jj - 2 M_ij.  cov_prog / kern_prog / cy_prog are the programs of
   Model/PCovR.v that the correspondence check runs against pcovr_distance_ on float data
   (Model/PCovFPSDist.v); eval_mx is their value over an ARBITRARY real closed field, for ALL
   shapes.  No oracle hypothesis is needed: whatever eigh returned, the induced distance is a
   mixed squared Euclidean distance (that C_Y is built from the inverse square root of X^T X
   when eigh is right is Properties/C03.v, C03_isqrt_spec). *)
From mathcomp Require Import all_ssreflect all_algebra.
From Verif Require Import MExp MExpMx PCovR PCovRP PCovRProg PCovDistP.
Import GRing.Theory Num.Theory.
Local Open Scope ring_scope.

Theorem C02_cov_distance :
  forall (F : rcfType) (n m p : nat) (env : env_mx F), 0 <= e_a env <= 1 ->
    forall i j : 'I_m,
      let Ct := eval_mx env (cov_prog n m p) in
      let CY := eval_mx env (cy_prog n m p) in
      let X := e_X n m env in
      [/\ idist Ct i j = e_a env * (\sum_q (X q i - X q j) ^+ 2)
                         + (1 - e_a env) * (\sum_q (CY i q - CY j q) ^+ 2),
          0 <= idist Ct i j, idist Ct i i = 0 & Ct i j = Ct j i].
Proof. exact cov_distance_spec. Qed.
Print Assumptions C02_cov_distance.

Theorem C02_kernel_distance :
  forall (F : rcfType) (n m p : nat) (env : env_mx F), 0 <= e_a env <= 1 ->
    forall i j : 'I_n,
      let Kt := eval_mx env (kern_prog n m p) in
      let X := e_X n m env in let Y := e_Yh n p env in
      [/\ idist Kt i j = e_a env * (\sum_q (X i q - X j q) ^+ 2)
                         + (1 - e_a env) * (\sum_q (Y i q - Y j q) ^+ 2),
          0 <= idist Kt i j, idist Kt i i = 0 & Kt i j = Kt j i].
Proof. exact kern_distance_spec. Qed.
Print Assumptions C02_kernel_distance.

Example C02_distance_nonvacuous :
  forall F : rcfType, exists env : env_mx F,
    [/\ 0 <= e_a env <= 1, e_X 2 1 env != 0
      & idist (eval_mx env (kern_prog 2 1 1)) ord0 (lift ord0 ord0) = 4%:R].
Proof. exact dist_example. Qed.
