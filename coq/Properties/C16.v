(* C16 — QuickShift returns the basin partition of the density-ascent graph.
   Statements only; every proof is `exact <lemma>` from Proofs/QuickShiftP.v.
   Model: Model/QuickShift.v.  [D] is the squared distance matrix after
   np.fill_diagonal(D, inf) (None = +inf), [w] the weights, [wt w i] = w[i], [dget D i j] = D[i][j];
   [fit_cut D w cut] / [fit_gab D w shell] are QuickShift.fit with per-point cut-offs resp. with
   gabriel_shell (result: idxroot, None = the inner while loop ran out of fuel n);
   [next_cut D w cut c] = _qs_next(c, idmindist[c], w, D, cut[c]), [next_gab D w shell c] =
   _gs_next(c, w, D, gabriel); [oget R i] = labels_[i]; [centres R] = cluster_centers_idx_.
   [sq_mat n D]: D is n x n.  [ext_lt] is < on Z + {inf}; [ext_le a b] := not (b < a).
   All theorems hold for every n, every matrix, all weights, cut-offs and shell depths. *)
From Verif Require Import ListX QuickShift QuickShiftP QSSession QSSessionP QSPermP QSFast QSFastP.
Close Scope Z_scope.
Open Scope nat_scope.

(* fuel n suffices: the out-of-fuel value is unreachable *)
Theorem C16_terminates :
  forall n D w cut shell, sq_mat n D -> length w = n ->
    fit_cut D w cut <> None /\ fit_gab D w shell <> None.
Proof. exact (fun n D w cut shell HD Hw => fit_terminates n D w HD Hw cut shell). Qed.
Print Assumptions C16_terminates.

(* every point is labelled with a cluster centre, and every centre labels itself *)
Theorem C16_labels_are_roots :
  forall n D w cut shell R, sq_mat n D -> length w = n ->
    fit_cut D w cut = Some R \/ fit_gab D w shell = Some R ->
    length R = n /\ forall i, i < n -> exists r, oget R i = Some r /\ r < n /\ oget R r = Some r.
Proof.
  exact (fun n D w cut shell R HD Hw E =>
    match E with
    | or_introl E =>
        let (HL, HS) := cut_labels n D w HD Hw cut R E in
        conj HL (fun i Hi => match HS i Hi with
                             | ex_intro _ r (conj A (conj B (conj _ (conj C _)))) => ex_intro _ r (conj A (conj B C)) end)
    | or_intror E =>
        let (HL, HS) := gab_labels n D w HD Hw shell R E in
        conj HL (fun i Hi => match HS i Hi with
                             | ex_intro _ r (conj A (conj B (conj _ (conj C _)))) => ex_intro _ r (conj A (conj B C)) end)
    end).
Qed.
Print Assumptions C16_labels_are_roots.

(* labels_[i] is the fixed point reached from i by iterating the successor rule: path
   propagation attaches every path to its FINAL root.  First part: it is such a limit;
   second part: any fixed point reachable from i is the label (the limit is unique). *)
Theorem C16_label_is_ascent_limit_cut :
  forall n D w cut R, sq_mat n D -> length w = n -> fit_cut D w cut = Some R ->
    forall i, i < n ->
      (exists r k, oget R i = Some r /\ r = Nat.iter k (next_cut D w cut) i /\ next_cut D w cut r = r) /\
      (forall r k, r = Nat.iter k (next_cut D w cut) i -> next_cut D w cut r = r -> oget R i = Some r).
Proof.
  exact (fun n D w cut R HD Hw E i Hi =>
    conj (match proj2 (cut_labels n D w HD Hw cut R E) i Hi with
          | ex_intro _ r (conj A (conj _ (conj B (conj _ (ex_intro _ k K))))) =>
              ex_intro _ r (ex_intro _ k (conj A (conj K B))) end)
         (fun r k Hr Hf => cut_limit n D w HD Hw cut R i r k E Hi Hr Hf)).
Qed.
Print Assumptions C16_label_is_ascent_limit_cut.

Theorem C16_label_is_ascent_limit_gab :
  forall n D w shell R, sq_mat n D -> length w = n -> fit_gab D w shell = Some R ->
    forall i, i < n ->
      (exists r k, oget R i = Some r /\ r = Nat.iter k (next_gab D w shell) i /\ next_gab D w shell r = r) /\
      (forall r k, r = Nat.iter k (next_gab D w shell) i -> next_gab D w shell r = r -> oget R i = Some r).
Proof.
  exact (fun n D w shell R HD Hw E i Hi =>
    conj (match proj2 (gab_labels n D w HD Hw shell R E) i Hi with
          | ex_intro _ r (conj A (conj _ (conj B (conj _ (ex_intro _ k K))))) =>
              ex_intro _ r (ex_intro _ k (conj A (conj K B))) end)
         (fun r k Hr Hf => gab_limit n D w HD Hw shell R i r k E Hi Hr Hf)).
Qed.
Print Assumptions C16_label_is_ascent_limit_gab.

(* cluster_centers_idx_ is exactly the set of fixed points of the successor rule *)
Theorem C16_centres_are_fixed_points :
  forall n D w cut shell R c, sq_mat n D -> length w = n ->
    (fit_cut D w cut = Some R -> (In c (centres R) <-> c < n /\ next_cut D w cut c = c)) /\
    (fit_gab D w shell = Some R -> (In c (centres R) <-> c < n /\ next_gab D w shell c = c)).
Proof.
  exact (fun n D w cut shell R c HD Hw =>
    conj (cut_centres n D w HD Hw cut R c) (gab_centres n D w HD Hw shell R c)).
Qed.
Print Assumptions C16_centres_are_fixed_points.

(* idmindist[c] = np.argmin(D[c]) is the first index of the row minimum *)
Theorem C16_nearest_neighbour :
  forall row, row <> [] ->
    let nn := argmin_row row in
    nn < length row /\
    forall j, j < length row ->
      ext_le (nth nn row None) (nth j row None) /\ (j < nn -> ext_lt (nth nn row None) (nth j row None) = true).
Proof. exact argmin_row_spec. Qed.
Print Assumptions C16_nearest_neighbour.

(* cut-off rule.  A point j is admissible for c if it has higher weight and lies within c's
   cut-off.  If some point is admissible the successor is a nearest admissible point, the
   first in index order among equally near ones; otherwise it is the nearest neighbour if
   that has higher weight, else c itself. *)
Theorem C16_next_spec_cut :
  forall n D w cut c, sq_mat n D -> length w = n ->
    let adm j := j < n /\ (wt w c < wt w j)%Z /\ ext_lt (dget D c j) (Some (nth c cut 0%Z)) = true in
    let nn := argmin_row (nth c D []) in
    let nx := next_cut D w cut c in
    ((exists j, adm j) ->
       adm nx /\ forall j, adm j -> ext_le (dget D c nx) (dget D c j) /\ (dget D c j = dget D c nx -> nx <= j)) /\
    ((forall j, ~ adm j) -> nx = if (wt w c <? wt w nn)%Z then nn else c).
Proof. exact (fun n D w cut c HD Hw => next_cut_spec n D w Hw cut c). Qed.
Print Assumptions C16_next_spec_cut.

(* c is a centre iff no higher-weight point lies within c's cut-off and c's nearest
   neighbour is not higher *)
Theorem C16_centre_spec_cut :
  forall n D w cut c, sq_mat n D -> length w = n ->
    (next_cut D w cut c = c <->
     (forall j, ~ (j < n /\ (wt w c < wt w j)%Z /\ ext_lt (dget D c j) (Some (nth c cut 0%Z)) = true)) /\
     ~ (wt w c < wt w (argmin_row (nth c D [])))%Z).
Proof. exact (fun n D w cut c HD Hw => centre_spec_cut n D w Hw cut c). Qed.
Print Assumptions C16_centre_spec_cut.

(* Gabriel rule: admissible = higher weight, inside the shell of c (neighs after
   gabriel_shell - 1 expansions of row c of the Gabriel graph), at finite distance *)
Theorem C16_next_spec_gab :
  forall n D w shell c, sq_mat n D -> length w = n ->
    let adm j := j < n /\ (wt w c < wt w j)%Z /\ ext_lt (dget D c j) None = true /\
                 nth j (shell_set (gabriel D) shell c) false = true in
    let nx := next_gab D w shell c in
    ((exists j, adm j) ->
       adm nx /\ forall j, adm j -> ext_le (dget D c nx) (dget D c j) /\ (dget D c j = dget D c nx -> nx <= j)) /\
    ((forall j, ~ adm j) -> nx = c).
Proof. exact (fun n D w shell c HD Hw => next_gab_spec n D w Hw shell c). Qed.
Print Assumptions C16_next_spec_gab.

Theorem C16_centre_spec_gab :
  forall n D w shell c, sq_mat n D -> length w = n ->
    (next_gab D w shell c = c <->
     forall j, ~ (j < n /\ (wt w c < wt w j)%Z /\ ext_lt (dget D c j) None = true /\
                  nth j (shell_set (gabriel D) shell c) false = true)).
Proof. exact (fun n D w shell c HD Hw => centre_spec_gab n D w Hw shell c). Qed.
Print Assumptions C16_centre_spec_gab.

(* the shell used by _gs_next -- neighs after `for _ in range(1, gabriel_shell)` -- is the set
   of points reachable from c by a walk of 1 .. max(1, gabriel_shell) Gabriel edges
   ([gpath n G k c b]: a walk of k edges from c to b in G through points < n) *)
Theorem C16_shell_is_graph_ball :
  forall n D shell c b, length D = n -> c < n ->
    (nth b (shell_set (gabriel D) shell c) false = true <->
     exists k, 1 <= k <= Nat.max 1 shell /\ gpath n (gabriel D) k c b).
Proof. exact (fun n D shell c b HL Hc => shell_set_spec n (gabriel D) (gabriel_sq n D HL) shell c b Hc). Qed.
Print Assumptions C16_shell_is_graph_ball.

(* a point of maximal weight is always a centre *)
Theorem C16_max_weight_is_centre :
  forall n D w cut shell R c, sq_mat n D -> length w = n -> c < n ->
    (forall j, j < n -> (wt w j <= wt w c)%Z) ->
    fit_cut D w cut = Some R \/ fit_gab D w shell = Some R -> oget R c = Some c.
Proof.
  exact (fun n D w cut shell R c HD Hw Hc Hmax E =>
    match E with
    | or_introl E => cut_max_weight n D w HD Hw cut shell R c E Hc Hmax
    | or_intror E => gab_max_weight n D w HD Hw cut shell R c E Hc Hmax
    end).
Qed.
Print Assumptions C16_max_weight_is_centre.

(* the graph produced by the double loop of _get_gabriel_graph (j starting at i, both
   triangles written from row i) is the brute-force Gabriel graph: i -- j iff no third
   point lies strictly inside the ball with diameter ij *)
Theorem C16_gabriel_bruteforce :
  forall n D i j, length D = n ->
    (forall a b, a < n -> b < n -> dget D a b = dget D b a) -> i < n -> j < n ->
    (nth j (nth i (gabriel D) []) false = true <->
     i <> j /\ ~ exists k, k < n /\ ext_lt (ext_add (dget D i k) (dget D j k)) (dget D i j) = true).
Proof. exact gabriel_bruteforce. Qed.
Print Assumptions C16_gabriel_bruteforce.

(* weights enter only through <: any strictly increasing re-mapping leaves the labels unchanged *)
Theorem C16_weight_remap :
  forall (f : Z -> Z) n D w cut shell,
    (forall a b, (a < b)%Z <-> (f a < f b)%Z) -> sq_mat n D -> length w = n ->
    fit_cut D (map f w) cut = fit_cut D w cut /\ fit_gab D (map f w) shell = fit_gab D w shell.
Proof.
  exact (fun f n D w cut shell Hf HD Hw =>
    conj (fit_cut_remap f Hf n D w cut HD Hw) (fit_gab_remap f Hf n D w shell HD Hw)).
Qed.
Print Assumptions C16_weight_remap.

(* Order independence, part 1: the outer loop may visit the points in ANY order that covers them
   all -- the labels are those of `for i in range(n)`.  (Kept under its round-1 name; the full
   statement -- renaming the points renames the labels -- is C16_permutation_cut /
   C16_permutation_gab below.) *)
Theorem C16_permutation_partial :
  forall n D w cut shell order, sq_mat n D -> length w = n ->
    (forall i, In i order -> i < n) -> (forall i, i < n -> In i order) ->
    fold_left (fit_step n (next_cut D w cut)) order (Some (repeat None n)) = fit_cut D w cut /\
    fold_left (fit_step n (next_gab D w shell)) order (Some (repeat None n)) = fit_gab D w shell.
Proof. exact fit_any_order_both. Qed.
Print Assumptions C16_permutation_partial.

(* Order independence, full statement.  [p] renames the points ([p'] its inverse on 0..n-1); the
   renamed input is (D', w', cut') with D'[p i][p j] = D[i][j], w'[p i] = w[i], cut'[p i] = cut[i].
   Under the hypotheses that switch the two index tie-breaks off --
     [no_dist_ties n D w]: no two strictly heavier points lie at the same distance from a point
                           (C16_next_spec_*: "the first in index order among equally near ones"),
     [unique_nn n D]:      every point's nearest neighbour is unique (np.argmin = first minimum) --
   the labels of the renamed input are the renamed labels:  labels'[p i] = p (labels[i]).
   With ties the partition legitimately depends on the index order, which is why they are
   hypotheses.  First the rule-independent core: ANY two successor maps conjugated by p give
   conjugated labels. *)
Theorem C16_permutation_of_conjugate_successor :
  forall n (next next' : nat -> nat) w w' (p : nat -> nat),
    (forall i, i < n -> next i < n) -> (forall i, i < n -> next i = i \/ (wt w i < wt w (next i))%Z) ->
    (forall i, i < n -> next' i < n) -> (forall i, i < n -> next' i = i \/ (wt w' i < wt w' (next' i))%Z) ->
    (forall i, i < n -> p i < n) -> (forall i, i < n -> next' (p i) = p (next i)) ->
    forall R R', fit_with n next = Some R -> fit_with n next' = Some R' ->
    forall i, i < n -> oget R' (p i) = option_map p (oget R i).
Proof. exact fit_with_conj. Qed.
Print Assumptions C16_permutation_of_conjugate_successor.

Theorem C16_permutation_cut :
  forall n D D' w w' cut cut' (p p' : nat -> nat) R R',
    sq_mat n D -> sq_mat n D' -> length w = n -> length w' = n ->
    (forall i, i < n -> p i < n) -> (forall j, j < n -> p' j < n) -> (forall j, j < n -> p (p' j) = j) ->
    (forall i j, i < n -> j < n -> dget D' (p i) (p j) = dget D i j) ->
    (forall i, i < n -> wt w' (p i) = wt w i) ->
    (forall i, i < n -> nth (p i) cut' 0%Z = nth i cut 0%Z) ->
    no_dist_ties n D w -> unique_nn n D ->
    fit_cut D w cut = Some R -> fit_cut D' w' cut' = Some R' ->
    forall i, i < n -> oget R' (p i) = option_map p (oget R i).
Proof. exact fit_cut_perm. Qed.
Print Assumptions C16_permutation_cut.

(* Gabriel rule (D symmetric): the graph, the shells and the successor map are all renamed by p *)
Theorem C16_permutation_gab :
  forall n D D' w w' shell (p p' : nat -> nat) R R',
    sq_mat n D -> sq_mat n D' -> length w = n -> length w' = n ->
    (forall i, i < n -> p i < n) -> (forall j, j < n -> p' j < n) ->
    (forall j, j < n -> p (p' j) = j) -> (forall i, i < n -> p' (p i) = i) ->
    (forall i j, i < n -> j < n -> dget D' (p i) (p j) = dget D i j) ->
    (forall i, i < n -> wt w' (p i) = wt w i) ->
    (forall a b, a < n -> b < n -> dget D a b = dget D b a) -> no_dist_ties n D w ->
    fit_gab D w shell = Some R -> fit_gab D' w' shell = Some R' ->
    forall i, i < n -> oget R' (p i) = option_map p (oget R i).
Proof. exact fit_gab_perm. Qed.
Print Assumptions C16_permutation_gab.

(* ... and the Gabriel graph itself is renamed (no tie hypothesis needed) *)
Theorem C16_gabriel_permutation :
  forall n D D' (p p' : nat -> nat),
    sq_mat n D -> sq_mat n D' ->
    (forall i, i < n -> p i < n) -> (forall j, j < n -> p' j < n) ->
    (forall j, j < n -> p (p' j) = j) -> (forall i, i < n -> p' (p i) = i) ->
    (forall i j, i < n -> j < n -> dget D' (p i) (p j) = dget D i j) ->
    (forall a b, a < n -> b < n -> dget D a b = dget D b a) ->
    forall i j, i < n -> j < n -> bget (gabriel D') (p i) (p j) = bget (gabriel D) i j.
Proof. exact gabriel_perm. Qed.
Print Assumptions C16_gabriel_permutation.

(* non-vacuity of the permutation theorems: four points on a line at 0,1,3,7 (all six distances
   distinct), weights 1,3,2,4, cut-offs 5: labels 1,1,1,3; reversed input (p i = 3 - i): labels
   0,2,2,2 = the reversed renamed labels; every hypothesis of C16_permutation_cut/_gab holds *)
Example C16_permutation_nonvacuous :
  let D := [[None; Some 1; Some 9; Some 49]; [Some 1; None; Some 4; Some 36];
            [Some 9; Some 4; None; Some 16]; [Some 49; Some 36; Some 16; None]]%Z in
  let D' := [[None; Some 16; Some 36; Some 49]; [Some 16; None; Some 4; Some 9];
             [Some 36; Some 4; None; Some 1]; [Some 49; Some 9; Some 1; None]]%Z in
  let w := [1; 3; 2; 4]%Z in let w' := [4; 2; 3; 1]%Z in
  let p := fun i => 3 - i in
  sq_mat 4 D /\ sq_mat 4 D' /\
  (forall i j, i < 4 -> j < 4 -> dget D' (p i) (p j) = dget D i j) /\
  (forall i, i < 4 -> wt w' (p i) = wt w i) /\
  (forall j, j < 4 -> p (p j) = j) /\
  (forall a b, a < 4 -> b < 4 -> dget D a b = dget D b a) /\
  no_dist_ties 4 D w /\ unique_nn 4 D /\
  fit_cut D w [5; 5; 5; 5]%Z = Some (map Some [1; 1; 1; 3]) /\
  fit_cut D' w' [5; 5; 5; 5]%Z = Some (map Some [0; 2; 2; 2]) /\
  fit_gab D w 1 = Some (map Some [1; 1; 1; 3]) /\ fit_gab D' w' 1 = Some (map Some [0; 2; 2; 2]).
Proof.
  cbv zeta.
  split; [split; [reflexivity|repeat constructor]|].
  split; [split; [reflexivity|repeat constructor]|].
  split; [intros i j Hi Hj; destruct i as [|[|[|[|i]]]]; try lia; destruct j as [|[|[|[|j]]]]; try lia; reflexivity|].
  split; [intros i Hi; destruct i as [|[|[|[|i]]]]; try lia; reflexivity|].
  split; [intros j Hj; lia|].
  split; [intros a b Ha Hb; destruct a as [|[|[|[|a]]]]; try lia; destruct b as [|[|[|[|b]]]]; try lia; reflexivity|].
  split; [intros c j j' Hc Hj Hj'; destruct c as [|[|[|[|c]]]]; try lia; destruct j as [|[|[|[|j]]]]; try lia;
          destruct j' as [|[|[|[|j']]]]; try lia; vm_compute; intros; try reflexivity; discriminate|].
  split; [intros c j Hc Hj; destruct c as [|[|[|[|c]]]]; try lia; destruct j as [|[|[|[|j]]]]; try lia;
          vm_compute; intros; try reflexivity; discriminate|].
  repeat split; vm_compute; reflexivity.
Qed.

(* non-vacuity: six points on a line at 0,1,2,10,11,12 with weights 1,5,3,2,9,4 (squared
   distances); cut-off 5 gives the basins {0,1,2} -> 1 and {3,4,5} -> 4, a huge cut-off
   merges everything into the heaviest point through the chain 0 -> 1 -> 4; the Gabriel graph
   of collinear points is the path 0-1-2-3-4-5, so shell 1 gives the two basins, shell 3 one *)
Example C16_nonvacuous :
  let D := [[None; Some 1; Some 4; Some 100; Some 121; Some 144];
            [Some 1; None; Some 1; Some 81; Some 100; Some 121];
            [Some 4; Some 1; None; Some 64; Some 81; Some 100];
            [Some 100; Some 81; Some 64; None; Some 1; Some 4];
            [Some 121; Some 100; Some 81; Some 1; None; Some 1];
            [Some 144; Some 121; Some 100; Some 4; Some 1; None]]%Z in
  let w := [1; 5; 3; 2; 9; 4]%Z in
  sq_mat 6 D /\ length w = 6 /\
  fit_cut D w [5; 5; 5; 5; 5; 5]%Z = Some (map Some [1; 1; 1; 4; 4; 4]) /\
  fit_cut D w [500; 500; 500; 500; 500; 500]%Z = Some (map Some [4; 4; 4; 4; 4; 4]) /\
  next_cut D w [500; 500; 500; 500; 500; 500]%Z 0 = 1 /\
  fit_gab D w 1 = Some (map Some [1; 1; 1; 4; 4; 4]) /\ fit_gab D w 3 = Some (map Some [4; 4; 4; 4; 4; 4]) /\
  nth 3 (nth 2 (gabriel D) []) false = true /\ nth 3 (nth 1 (gabriel D) []) false = false /\
  centres (map Some [1; 1; 1; 4; 4; 4]) = [1; 4].
Proof.
  cbv zeta. split; [split; [reflexivity|repeat constructor]|]. repeat split; vm_compute; reflexivity.
Qed.

(* What the correspondence evaluates for point sets of a few hundred points (Model/QSFast.v): the
   Gabriel test walking the two rows in parallel, and the graph built ONCE per fit and handed to
   every _gs_next call (as the code does).  Both are the model's own [gabriel] / [fit_gab] -- so all
   theorems above apply to what is evaluated -- only cheaper under vm_compute (n^3 instead of n^4). *)
Theorem C16_fast_model_equal :
  forall n D w shell, sq_mat n D ->
    gabriel_fast D = gabriel D /\ fit_gab_fast D w shell = fit_gab D w shell.
Proof. exact (fun n D w shell HD => conj (gabriel_fast_eq n D HD) (fit_gab_fast_eq n D w shell HD)). Qed.
Print Assumptions C16_fast_model_equal.

Example C16_fast_model_nonvacuous :
  let D := [[None; Some 1; Some 9; Some 49]; [Some 1; None; Some 4; Some 36];
            [Some 9; Some 4; None; Some 16]; [Some 49; Some 36; Some 16; None]]%Z in
  sq_mat 4 D /\ fit_gab_fast D [1; 3; 2; 4]%Z 1 = Some (map Some [1; 1; 1; 3]) /\
  map row_idx (gabriel_fast D) = [[1]; [0; 2]; [1; 3]; [2]].
Proof. cbv zeta. split; [split; [reflexivity|repeat constructor]|]. split; vm_compute; reflexivity. Qed.

(* ---------------------------------------------------------------------------------------------
   Sessions (Model/QSSession.v): estimator objects as a state machine.  [qrun S ops] runs a history
   of calls from state S (the caller's cut-off arrays [s_cuts], cell arrays [s_cells] (lengths),
   data sets [s_data], estimator objects [s_est]):
     New e c s2 sh cell : est[e] = QuickShift(cuts[c] | None, sh, scale = s2/2,
                                              metric_params = {"cell_length": cells[cell] | None})
     Fit e d            : est[e].fit(X_d, w_d)
     SetShell e sh      : est[e].set_params(gabriel_shell = sh)
     SetCell e cell     : est[e].set_params(metric_params = {"cell_length": cells[cell] | None})
     SetCut e c         : est[e].set_params(dist_cutoff_sq = cuts[c] | None)   (stored as given)
     SetScale e s2      : est[e].set_params(scale = s2/2)                      (never read again)
     SetW d w           : the caller rewrites w_d in place;      Read e : est[e].labels_
   [reconf e o]: o is New e .. / SetShell e .. / SetCell e .. / SetCut e ..;  [cfg_step cuts x o]:
   the effect of such a call on the estimator record x;  [dsel q cell]: the squared distance matrix
   of data q under the metric with that cell;  [fit_guard cells x q]: fit raises ValueError (the
   cell recorded by __init__, or the cell in force inside the metric, does not have the data's
   dimension);  [fit_obs r] = what fit shows (labels_, cluster_centers_idx_) or that it raised. *)

(* no call ever writes the caller's cut-off arrays, whatever the history *)
Theorem C16_session_cuts_unchanged :
  forall S ops, s_cuts (fst (qrun S ops)) = s_cuts S.
Proof. exact session_cuts_unchanged. Qed.
Print Assumptions C16_session_cuts_unchanged.

(* ... and the caller's data change through the caller's own writes only *)
Theorem C16_session_data_caller_only :
  forall S ops, s_data (fst (qrun S ops)) = fold_left caller_step ops (s_data S).
Proof. exact session_data_caller_only. Qed.
Print Assumptions C16_session_data_caller_only.

(* fit reads EVERY hyper-parameter when it runs.  After an arbitrary history [ops] the parameters
   of est[e] are those produced by the configuration calls addressed to est[e] alone, in order
   (last write wins per parameter; fits, refits, reads, set_params(scale=..), calls on other
   estimators, rejected calls are all irrelevant), and est[e].fit on data d shows exactly the fresh
   fit for them: cut-offs in force, shell in force, and the distance matrix of d under the cell in
   force when fit runs. *)
Theorem C16_session_fit_reads_parameters_in_force :
  forall S0 ops e d,
    e < length (s_est S0) ->
    let S := fst (qrun S0 ops) in
    let x := fold_left (cfg_step (s_cuts S0)) (filter (reconf e) ops) (get_est S0 e) in
    let q := get_data S d in
    fit_guard (s_cells S0) x q = false ->
    snd (qstep S (Fit e d)) = fit_obs (fit_of_params (e_cut x) (e_shell x) (dsel q (e_cell x)) (q_w q)).
Proof. exact session_fit_params_in_force. Qed.
Print Assumptions C16_session_fit_reads_parameters_in_force.

(* A fit is a FRESH fit.  Let est[e] be constructed from the caller's cut-off array c with scale
   s2/2 and cell [cell] after an arbitrary history [pre] (which may have handed the same array to
   any number of constructors, fitted, refitted, ...), followed by an arbitrary history [mid] that
   does not re-configure est[e].  Then est[e].fit on data d shows exactly [quickshift]
   (Model/QuickShift.v, to which every theorem above applies) of d's distance matrix under that
   cell and d's current weights for the cut-offs  ORIGINAL array c * (s2/2)^2. *)
Theorem C16_session_fit_is_fresh_fit_cut :
  forall S0 pre mid e c s2 sh cell d,
    e < length (s_est S0) ->
    forallb (fun o => negb (reconf e o)) mid = true ->
    let S := fst (qrun S0 (pre ++ New e (Some c) s2 sh cell :: mid)) in
    let q := get_data S d in
    cell_mismatch (s_cells S0) cell (q_dim q) = false ->
    snd (qstep S (Fit e d)) = fit_obs (quickshift (dsel q cell) (q_w q) (Cut (nth c (s_cuts S0) []) s2)).
Proof. exact session_fit_fresh_cut. Qed.
Print Assumptions C16_session_fit_is_fresh_fit_cut.

Theorem C16_session_fit_is_fresh_fit_gab :
  forall S0 pre mid e s2 sh cell d,
    e < length (s_est S0) ->
    forallb (fun o => negb (reconf e o)) mid = true ->
    let S := fst (qrun S0 (pre ++ New e None s2 (Some sh) cell :: mid)) in
    let q := get_data S d in
    cell_mismatch (s_cells S0) cell (q_dim q) = false ->
    snd (qstep S (Fit e d)) = fit_obs (quickshift (dsel q cell) (q_w q) (Gab sh)).
Proof. exact session_fit_fresh_gab. Qed.
Print Assumptions C16_session_fit_is_fresh_fit_gab.

(* set_params, parameter by parameter ([x1] = est[e] just before the call; [mid] does not
   re-configure est[e]).  gabriel_shell: the fit is that of the new shell *)
Theorem C16_session_fit_after_setshell :
  forall S0 pre mid e sh' d,
    e < length (s_est S0) ->
    forallb (fun o => negb (reconf e o)) mid = true ->
    let x1 := get_est (fst (qrun S0 pre)) e in
    e_cut x1 = None ->
    let S := fst (qrun S0 (pre ++ SetShell e sh' :: mid)) in
    let q := get_data S d in
    fit_guard (s_cells S0) x1 q = false ->
    snd (qstep S (Fit e d)) = fit_obs (quickshift (dsel q (e_cell x1)) (q_w q) (Gab sh')).
Proof. exact session_fit_after_setshell. Qed.
Print Assumptions C16_session_fit_after_setshell.

(* metric_params: the distances are those of the cell given to set_params, not of the cell the
   estimator was constructed with (the metric closure reads metric_params when fit calls it) *)
Theorem C16_session_fit_after_setcell :
  forall S0 pre mid e cell' d,
    e < length (s_est S0) ->
    forallb (fun o => negb (reconf e o)) mid = true ->
    let x1 := get_est (fst (qrun S0 pre)) e in
    let S := fst (qrun S0 (pre ++ SetCell e cell' :: mid)) in
    let q := get_data S d in
    cell_mismatch (s_cells S0) (e_cell0 x1) (q_dim q) = false ->
    cell_mismatch (s_cells S0) cell' (q_dim q) = false ->
    snd (qstep S (Fit e d)) = fit_obs (fit_of_params (e_cut x1) (e_shell x1) (dsel q cell') (q_w q)).
Proof. exact session_fit_after_setcell. Qed.
Print Assumptions C16_session_fit_after_setcell.

(* dist_cutoff_sq: the array given to set_params is used as given -- `scale` is applied by
   __init__ only -- i.e. the fit is that of a construction with scale 1 (s2 = 2) *)
Theorem C16_session_fit_after_setcut :
  forall S0 pre mid e c d,
    e < length (s_est S0) ->
    forallb (fun o => negb (reconf e o)) mid = true ->
    let x1 := get_est (fst (qrun S0 pre)) e in
    let S := fst (qrun S0 (pre ++ SetCut e (Some c) :: mid)) in
    let q := get_data S d in
    fit_guard (s_cells S0) x1 q = false ->
    snd (qstep S (Fit e d)) = fit_obs (quickshift (dsel q (e_cell x1)) (q_w q) (Cut (nth c (s_cuts S0) []) 2)).
Proof. exact session_fit_after_setcut. Qed.
Print Assumptions C16_session_fit_after_setcut.

(* the rejection branches (constructor with neither rule; fit on data whose dimension is not the
   cell's) raise and leave the whole state -- estimators, their labels_, the caller's arrays --
   as it was *)
Theorem C16_session_rejections :
  forall S e s2 cell d,
    qstep S (New e None s2 None cell) = (S, ObsErr) /\
    (fit_guard (s_cells S) (get_est S e) (get_data S d) = true -> qstep S (Fit e d) = (S, ObsErr)).
Proof. exact session_rejections. Qed.
Print Assumptions C16_session_rejections.

(* labels_ read after a successful fit is that fit's result *)
Theorem C16_session_read_after_fit :
  forall S e d R c,
    e < length (s_est S) ->
    qstep S (Fit e d) = (fst (qstep S (Fit e d)), ObsFit R c) ->
    snd (qstep (fst (qstep S (Fit e d))) (Read e)) = ObsRead (Some R).
Proof. exact session_read_after_fit. Qed.
Print Assumptions C16_session_read_after_fit.

(* non-vacuity: the line of C16_nonvacuous (points 0,1,2,10,11,12), without a cell (matrix D) and
   in a cell of length 13 (matrix Dp: 0 and 12 become neighbours).  ONE caller array of cut-offs
   5/8 .. is handed with scale 2 (s2 = 4) to est[0] and est[1]: both see 40 * 16 / 32 = 20 (basins
   0,1,2 -> 1 and 3,4,5 -> 4), also after a rejected constructor call, and the array is as it was.
   Then est[1].set_params(metric_params = cell): the same estimator now merges everything into
   point 4 (1 -> 4 at periodic distance 9 < 20, 0 -> 1); set_params(scale) changes nothing;
   set_params(dist_cutoff_sq = the same array) uses it unscaled, 40 * 4 / 32 = 5: two basins again. *)
Example C16_session_nonvacuous :
  let D := [[None; Some 1; Some 4; Some 100; Some 121; Some 144];
            [Some 1; None; Some 1; Some 81; Some 100; Some 121];
            [Some 4; Some 1; None; Some 64; Some 81; Some 100];
            [Some 100; Some 81; Some 64; None; Some 1; Some 4];
            [Some 121; Some 100; Some 81; Some 1; None; Some 1];
            [Some 144; Some 121; Some 100; Some 4; Some 1; None]]%Z in
  let Dp := [[None; Some 1; Some 4; Some 9; Some 4; Some 1];
             [Some 1; None; Some 1; Some 16; Some 9; Some 4];
             [Some 4; Some 1; None; Some 25; Some 16; Some 9];
             [Some 9; Some 16; Some 25; None; Some 1; Some 4];
             [Some 4; Some 9; Some 16; Some 1; None; Some 1];
             [Some 1; Some 4; Some 9; Some 4; Some 1; None]]%Z in
  let S0 := mkState [[40; 40; 40; 40; 40; 40]%Z] [1] [mkData 1 [D; Dp] [1; 5; 3; 2; 9; 4]%Z] [no_est; no_est] in
  let ops := [New 0 (Some 0) 4%Z None None; New 1 (Some 0) 4%Z (Some 2) None; Fit 0 0; Fit 1 0;
              New 1 None 4%Z None None; Fit 1 0; Read 1;
              SetCell 1 (Some 0); Fit 1 0; SetScale 1 6%Z; Fit 1 0; SetCut 1 (Some 0); Fit 1 0] in
  let R := map Some [1; 1; 1; 4; 4; 4] in
  let Rp := map Some [4; 4; 4; 4; 4; 4] in
  snd (qrun S0 ops) =
    [ObsNew (Some [640; 640; 640; 640; 640; 640]%Z); ObsNew (Some [640; 640; 640; 640; 640; 640]%Z);
     ObsFit R [1; 4]; ObsFit R [1; 4]; ObsErr; ObsFit R [1; 4]; ObsRead (Some R);
     ObsUnit; ObsFit Rp [4]; ObsUnit; ObsFit Rp [4];
     ObsNew (Some [160; 160; 160; 160; 160; 160]%Z); ObsFit R [1; 4]] /\
  s_cuts (fst (qrun S0 ops)) = s_cuts S0 /\
  forallb (fun o => negb (reconf 0 o)) [New 1 (Some 0) 4%Z (Some 2) None; Fit 0 0; Fit 1 0] = true.
Proof. cbv zeta. repeat split; vm_compute; reflexivity. Qed.
