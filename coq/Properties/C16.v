(* C16 — QuickShift returns the basin partition of the density-ascent graph.
   Statements only; every proof is `exact <lemma>` from Proofs/QuickShiftP.v.
   Model: Model/QuickShift.v.  [D] is the squared distance matrix after
   np.fill_diagonal(D, inf) (None = +inf), [w] the weights, [wt w i] = w[i], [dget D i j] = D[i][j];
   [fit_cut D w cut] / [fit_gab D w shell] are QuickShift.fit with per-point cut-offs resp. with
   gabriel_shell (result: idxroot, None = the inner while loop ran out of fuel n);
   [next_cut D w cut c] = _qs_next(c, idmindist[c], w, D, cut[c]), [next_gab D w shell c] =
   _gs_next(c, w, D, gabriel); [oget R i] = labels_[i]; [centres R] = cluster_centers_idx_.
   [sq_mat n D]: D is n x n.  [ext_lt] is < on Z + {inf}; [ext_le a b] := not (b < a).
   All theorems hold for every n, every matrix, all weights, cut-offs and shell depths. *)
From Verif Require Import ListX QuickShift QuickShiftP.
Close Scope Z_scope.
Open Scope nat_scope.

(* fuel n suffices: the out-of-fuel value is unreachable *)
Theorem C16_terminates :
  forall n D w cut shell, sq_mat n D -> length w = n ->
    fit_cut D w cut <> None /\ fit_gab D w shell <> None.
Proof. exact (fun n D w cut shell HD Hw => fit_terminates n D w HD Hw cut shell). Qed.
Print Assumptions C16_terminates.

(* every point is labelled with a cluster centre, and every centre labels itself *)
Theorem C16_labels_are_roots :
  forall n D w cut shell R, sq_mat n D -> length w = n ->
    fit_cut D w cut = Some R \/ fit_gab D w shell = Some R ->
    length R = n /\ forall i, i < n -> exists r, oget R i = Some r /\ r < n /\ oget R r = Some r.
Proof.
  exact (fun n D w cut shell R HD Hw E =>
    match E with
    | or_introl E =>
        let (HL, HS) := cut_labels n D w HD Hw cut R E in
        conj HL (fun i Hi => match HS i Hi with
                             | ex_intro _ r (conj A (conj B (conj _ (conj C _)))) => ex_intro _ r (conj A (conj B C)) end)
    | or_intror E =>
        let (HL, HS) := gab_labels n D w HD Hw shell R E in
        conj HL (fun i Hi => match HS i Hi with
                             | ex_intro _ r (conj A (conj B (conj _ (conj C _)))) => ex_intro _ r (conj A (conj B C)) end)
    end).
Qed.
Print Assumptions C16_labels_are_roots.

(* labels_[i] is the fixed point reached from i by iterating the successor rule: path
   propagation attaches every path to its FINAL root.  First part: it is such a limit;
   second part: any fixed point reachable from i is the label (the limit is unique). *)
Theorem C16_label_is_ascent_limit_cut :
  forall n D w cut R, sq_mat n D -> length w = n -> fit_cut D w cut = Some R ->
    forall i, i < n ->
      (exists r k, oget R i = Some r /\ r = Nat.iter k (next_cut D w cut) i /\ next_cut D w cut r = r) /\
      (forall r k, r = Nat.iter k (next_cut D w cut) i -> next_cut D w cut r = r -> oget R i = Some r).
Proof.
  exact (fun n D w cut R HD Hw E i Hi =>
    conj (match proj2 (cut_labels n D w HD Hw cut R E) i Hi with
          | ex_intro _ r (conj A (conj _ (conj B (conj _ (ex_intro _ k K))))) =>
              ex_intro _ r (ex_intro _ k (conj A (conj K B))) end)
         (fun r k Hr Hf => cut_limit n D w HD Hw cut R i r k E Hi Hr Hf)).
Qed.
Print Assumptions C16_label_is_ascent_limit_cut.

Theorem C16_label_is_ascent_limit_gab :
  forall n D w shell R, sq_mat n D -> length w = n -> fit_gab D w shell = Some R ->
    forall i, i < n ->
      (exists r k, oget R i = Some r /\ r = Nat.iter k (next_gab D w shell) i /\ next_gab D w shell r = r) /\
      (forall r k, r = Nat.iter k (next_gab D w shell) i -> next_gab D w shell r = r -> oget R i = Some r).
Proof.
  exact (fun n D w shell R HD Hw E i Hi =>
    conj (match proj2 (gab_labels n D w HD Hw shell R E) i Hi with
          | ex_intro _ r (conj A (conj _ (conj B (conj _ (ex_intro _ k K))))) =>
              ex_intro _ r (ex_intro _ k (conj A (conj K B))) end)
         (fun r k Hr Hf => gab_limit n D w HD Hw shell R i r k E Hi Hr Hf)).
Qed.
Print Assumptions C16_label_is_ascent_limit_gab.

(* cluster_centers_idx_ is exactly the set of fixed points of the successor rule *)
Theorem C16_centres_are_fixed_points :
  forall n D w cut shell R c, sq_mat n D -> length w = n ->
    (fit_cut D w cut = Some R -> (In c (centres R) <-> c < n /\ next_cut D w cut c = c)) /\
    (fit_gab D w shell = Some R -> (In c (centres R) <-> c < n /\ next_gab D w shell c = c)).
Proof.
  exact (fun n D w cut shell R c HD Hw =>
    conj (cut_centres n D w HD Hw cut R c) (gab_centres n D w HD Hw shell R c)).
Qed.
Print Assumptions C16_centres_are_fixed_points.

(* idmindist[c] = np.argmin(D[c]) is the first index of the row minimum *)
Theorem C16_nearest_neighbour :
  forall row, row <> [] ->
    let nn := argmin_row row in
    nn < length row /\
    forall j, j < length row ->
      ext_le (nth nn row None) (nth j row None) /\ (j < nn -> ext_lt (nth nn row None) (nth j row None) = true).
Proof. exact argmin_row_spec. Qed.
Print Assumptions C16_nearest_neighbour.

(* cut-off rule.  A point j is admissible for c if it has higher weight and lies within c's
   cut-off.  If some point is admissible the successor is a nearest admissible point, the
   first in index order among equally near ones; otherwise it is the nearest neighbour if
   that has higher weight, else c itself. *)
Theorem C16_next_spec_cut :
  forall n D w cut c, sq_mat n D -> length w = n ->
    let adm j := j < n /\ (wt w c < wt w j)%Z /\ ext_lt (dget D c j) (Some (nth c cut 0%Z)) = true in
    let nn := argmin_row (nth c D []) in
    let nx := next_cut D w cut c in
    ((exists j, adm j) ->
       adm nx /\ forall j, adm j -> ext_le (dget D c nx) (dget D c j) /\ (dget D c j = dget D c nx -> nx <= j)) /\
    ((forall j, ~ adm j) -> nx = if (wt w c <? wt w nn)%Z then nn else c).
Proof. exact (fun n D w cut c HD Hw => next_cut_spec n D w Hw cut c). Qed.
Print Assumptions C16_next_spec_cut.

(* c is a centre iff no higher-weight point lies within c's cut-off and c's nearest
   neighbour is not higher *)
Theorem C16_centre_spec_cut :
  forall n D w cut c, sq_mat n D -> length w = n ->
    (next_cut D w cut c = c <->
     (forall j, ~ (j < n /\ (wt w c < wt w j)%Z /\ ext_lt (dget D c j) (Some (nth c cut 0%Z)) = true)) /\
     ~ (wt w c < wt w (argmin_row (nth c D [])))%Z).
Proof. exact (fun n D w cut c HD Hw => centre_spec_cut n D w Hw cut c). Qed.
Print Assumptions C16_centre_spec_cut.

(* Gabriel rule: admissible = higher weight, inside the shell of c (neighs after
   gabriel_shell - 1 expansions of row c of the Gabriel graph), at finite distance *)
Theorem C16_next_spec_gab :
  forall n D w shell c, sq_mat n D -> length w = n ->
    let adm j := j < n /\ (wt w c < wt w j)%Z /\ ext_lt (dget D c j) None = true /\
                 nth j (shell_set (gabriel D) shell c) false = true in
    let nx := next_gab D w shell c in
    ((exists j, adm j) ->
       adm nx /\ forall j, adm j -> ext_le (dget D c nx) (dget D c j) /\ (dget D c j = dget D c nx -> nx <= j)) /\
    ((forall j, ~ adm j) -> nx = c).
Proof. exact (fun n D w shell c HD Hw => next_gab_spec n D w Hw shell c). Qed.
Print Assumptions C16_next_spec_gab.

Theorem C16_centre_spec_gab :
  forall n D w shell c, sq_mat n D -> length w = n ->
    (next_gab D w shell c = c <->
     forall j, ~ (j < n /\ (wt w c < wt w j)%Z /\ ext_lt (dget D c j) None = true /\
                  nth j (shell_set (gabriel D) shell c) false = true)).
Proof. exact (fun n D w shell c HD Hw => centre_spec_gab n D w Hw shell c). Qed.
Print Assumptions C16_centre_spec_gab.

(* the shell used by _gs_next -- neighs after `for _ in range(1, gabriel_shell)` -- is the set
   of points reachable from c by a walk of 1 .. max(1, gabriel_shell) Gabriel edges
   ([gpath n G k c b]: a walk of k edges from c to b in G through points < n) *)
Theorem C16_shell_is_graph_ball :
  forall n D shell c b, length D = n -> c < n ->
    (nth b (shell_set (gabriel D) shell c) false = true <->
     exists k, 1 <= k <= Nat.max 1 shell /\ gpath n (gabriel D) k c b).
Proof. exact (fun n D shell c b HL Hc => shell_set_spec n (gabriel D) (gabriel_sq n D HL) shell c b Hc). Qed.
Print Assumptions C16_shell_is_graph_ball.

(* a point of maximal weight is always a centre *)
Theorem C16_max_weight_is_centre :
  forall n D w cut shell R c, sq_mat n D -> length w = n -> c < n ->
    (forall j, j < n -> (wt w j <= wt w c)%Z) ->
    fit_cut D w cut = Some R \/ fit_gab D w shell = Some R -> oget R c = Some c.
Proof.
  exact (fun n D w cut shell R c HD Hw Hc Hmax E =>
    match E with
    | or_introl E => cut_max_weight n D w HD Hw cut shell R c E Hc Hmax
    | or_intror E => gab_max_weight n D w HD Hw cut shell R c E Hc Hmax
    end).
Qed.
Print Assumptions C16_max_weight_is_centre.

(* the graph produced by the double loop of _get_gabriel_graph (j starting at i, both
   triangles written from row i) is the brute-force Gabriel graph: i -- j iff no third
   point lies strictly inside the ball with diameter ij *)
Theorem C16_gabriel_bruteforce :
  forall n D i j, length D = n ->
    (forall a b, a < n -> b < n -> dget D a b = dget D b a) -> i < n -> j < n ->
    (nth j (nth i (gabriel D) []) false = true <->
     i <> j /\ ~ exists k, k < n /\ ext_lt (ext_add (dget D i k) (dget D j k)) (dget D i j) = true).
Proof. exact gabriel_bruteforce. Qed.
Print Assumptions C16_gabriel_bruteforce.

(* weights enter only through <: any strictly increasing re-mapping leaves the labels unchanged *)
Theorem C16_weight_remap :
  forall (f : Z -> Z) n D w cut shell,
    (forall a b, (a < b)%Z <-> (f a < f b)%Z) -> sq_mat n D -> length w = n ->
    fit_cut D (map f w) cut = fit_cut D w cut /\ fit_gab D (map f w) shell = fit_gab D w shell.
Proof.
  exact (fun f n D w cut shell Hf HD Hw =>
    conj (fit_cut_remap f Hf n D w cut HD Hw) (fit_gab_remap f Hf n D w shell HD Hw)).
Qed.
Print Assumptions C16_weight_remap.

(* Order independence, the part that concerns the algorithm (PARTIAL with respect to the planned
   C16_permutation: "for a permutation pi of the points, without distance ties among admissible
   candidates, labels (pi . input) = pi . labels input").  Proved: the outer loop may visit
   the points in ANY order that covers them all -- the labels are those of `for i in range(n)`.
   Missing for the full statement: equivariance of next_cut / next_gab / gabriel under renaming
   the points (rows and columns of D, w, cut permuted), which holds exactly when the index
   tie-break of C16_next_spec_* never fires; that part is sampled (all n! orders, n <= 7). *)
Theorem C16_permutation_partial :
  forall n D w cut shell order, sq_mat n D -> length w = n ->
    (forall i, In i order -> i < n) -> (forall i, i < n -> In i order) ->
    fold_left (fit_step n (next_cut D w cut)) order (Some (repeat None n)) = fit_cut D w cut /\
    fold_left (fit_step n (next_gab D w shell)) order (Some (repeat None n)) = fit_gab D w shell.
Proof. exact fit_any_order_both. Qed.
Print Assumptions C16_permutation_partial.

(* non-vacuity: six points on a line at 0,1,2,10,11,12 with weights 1,5,3,2,9,4 (squared
   distances); cut-off 5 gives the basins {0,1,2} -> 1 and {3,4,5} -> 4, a huge cut-off
   merges everything into the heaviest point through the chain 0 -> 1 -> 4; the Gabriel graph
   of collinear points is the path 0-1-2-3-4-5, so shell 1 gives the two basins, shell 3 one *)
Example C16_nonvacuous :
  let D := [[None; Some 1; Some 4; Some 100; Some 121; Some 144];
            [Some 1; None; Some 1; Some 81; Some 100; Some 121];
            [Some 4; Some 1; None; Some 64; Some 81; Some 100];
            [Some 100; Some 81; Some 64; None; Some 1; Some 4];
            [Some 121; Some 100; Some 81; Some 1; None; Some 1];
            [Some 144; Some 121; Some 100; Some 4; Some 1; None]]%Z in
  let w := [1; 5; 3; 2; 9; 4]%Z in
  sq_mat 6 D /\ length w = 6 /\
  fit_cut D w [5; 5; 5; 5; 5; 5]%Z = Some (map Some [1; 1; 1; 4; 4; 4]) /\
  fit_cut D w [500; 500; 500; 500; 500; 500]%Z = Some (map Some [4; 4; 4; 4; 4; 4]) /\
  next_cut D w [500; 500; 500; 500; 500; 500]%Z 0 = 1 /\
  fit_gab D w 1 = Some (map Some [1; 1; 1; 4; 4; 4]) /\ fit_gab D w 3 = Some (map Some [4; 4; 4; 4; 4; 4]) /\
  nth 3 (nth 2 (gabriel D) []) false = true /\ nth 3 (nth 1 (gabriel D) []) false = false /\
  centres (map Some [1; 1; 1; 4; 4; 4]) = [1; 4].
Proof.
  cbv zeta. split; [split; [reflexivity|repeat constructor]|]. repeat split; vm_compute; reflexivity.
Qed.
