From Verif Require Import QuickShift.
