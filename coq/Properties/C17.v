(* C17 — SparseKDE is a well-formed mixture consistent with its Voronoi assignment.
   Statements only; every proof is `exact <lemma>`: first the exact layer D (Model/SparseKDE.v,
   Proofs/SparseKDEP.v, stdlib), then the numerical part (Model/SparseKDEA.v, Proofs/SparseKDEAP.v,
   mathcomp) in the second half of this file.

   [predict cell G D sw] is _NearestGridAssigner.predict on grid G, descriptors D, sample
   weights sw under the metric periodic_pairwise_euclidean_distances(squared=True,
   cell_length=cell) ([pdist]); None models the exception numpy raises for an empty grid.
   [assign cell G D w] feeds it the constructor-normalised weights. *)
From Verif Require Import ListX ListXP SparseKDE SparseKDEP.
From Coq Require Import QArith Permutation.
Open Scope Z_scope.

(* ---- layer D ---------------------------------------------------------------------------------- *)

(* each descriptor is labelled with a grid point of minimal distance under the (periodic)
   metric, the first such index on ties *)
Theorem C17_assignment_nearest :
  forall cell G D sw s, predict cell G D sw = Some s ->
    length (labels s) = length D /\
    forall i, (i < length D)%nat ->
      let j := nth i (labels s) O in
      let p := nth i D [] in
      (j < length G)%nat /\
      (forall k, (k < length G)%nat -> pdist cell p (nth j G []) <= pdist cell p (nth k G [])) /\
      (forall k, (k < j)%nat -> pdist cell p (nth j G []) < pdist cell p (nth k G [])).
Proof. exact assignment_nearest. Qed.
Print Assumptions C17_assignment_nearest.

(* the member lists are exactly the label classes (in increasing order), they partition the
   descriptors, the counts are their lengths, grid_weight[j] is the sum of the weights of the
   descriptors assigned to j, and the grid weights total the descriptor weights *)
Theorem C17_weights_partition :
  forall cell G D sw s, predict cell G D sw = Some s -> length sw = length D ->
    length (members s) = length G /\ length (gweight s) = length G /\
    length (npoints s) = length G /\
    (forall j, (j < length G)%nat ->
       nth j (members s) [] = members_of (labels s) j /\
       nth j (npoints s) 0 = Z.of_nat (length (nth j (members s) [])) /\
       (nth j (gweight s) 0 == qsum (map (fun i => nth i sw 0%Q) (nth j (members s) [])))%Q) /\
    (forall i, (i < length D)%nat ->
       exists j, (j < length G)%nat /\ In i (nth j (members s) []) /\
                 forall j', (j' < length G)%nat -> In i (nth j' (members s) []) -> j' = j) /\
    Permutation (concat (members s)) (seq 0 (length D)) /\
    (qsum (gweight s) == qsum sw)%Q.
Proof. exact weights_partition. Qed.
Print Assumptions C17_weights_partition.

(* after the constructor's normalisation (weights / sum, or ones / n) the descriptor weights
   and the grid weights total one, whenever the raw total is not zero *)
Theorem C17_weights_total :
  forall cell G D w s,
    (forall l, w = Some l -> length l = length D) ->
    ~ (qsum (raw_weights w (length D)) == 0)%Q ->
    assign cell G D w = Some s ->
    (qsum (norm_weights w (length D)) == 1)%Q /\ (qsum (gweight s) == 1)%Q.
Proof. exact weights_total. Qed.
Print Assumptions C17_weights_total.

(* translating grid and descriptors by the same vector changes nothing in the assignment
   (labels, counts, grid weights, member lists), free space or periodic *)
Theorem C17_translation_assignment :
  forall cell d t G D sw, length t = d -> dimsZ d G -> dimsZ d D ->
    predict cell (map (vaddZ t) G) (map (vaddZ t) D) sw = predict cell G D sw.
Proof. exact assignment_translation. Qed.
Print Assumptions C17_translation_assignment.

(* with a cell: replacing every grid point and every descriptor by an arbitrary periodic image
   (each its own integer multiples of the cell lengths) changes nothing in the assignment *)
Theorem C17_images_assignment :
  forall c d G G' D D' sw,
    cell_pos c -> length c = d -> dimsZ d G -> dimsZ d D ->
    Forall2 (image_of c) G G' -> Forall2 (image_of c) D D' ->
    predict (Some c) G' D' sw = predict (Some c) G D sw.
Proof. exact assignment_images. Qed.
Print Assumptions C17_images_assignment.

(* the wrapped displacement is a minimum image: congruent to x modulo c and within half a cell *)
Theorem C17_minimum_image :
  forall c x, 0 < c -> - c <= 2 * wrap c x <= c /\ exists k, wrap c x = x - k * c.
Proof. exact wrap_bound. Qed.
Print Assumptions C17_minimum_image.

(* homogeneity (justifies feeding dyadic data as scaled integers) *)
Theorem C17_scale_assignment :
  forall k cell G D sw, 0 < k -> (forall c, cell = Some c -> cell_pos c) ->
    predict (cscale k cell) (map (vscale k) G) (map (vscale k) D) sw = predict cell G D sw.
Proof. exact assignment_scale. Qed.
Print Assumptions C17_scale_assignment.

(* non-vacuity: a periodic instance with a distance tie (descriptor [2;0] is at squared distance
   4 from both grid points: first index wins), a wrap across the cell boundary (descriptor [7;7]
   is nearest to [0;0] through the boundary of the 8x8 cell) and unequal weights *)
Example C17_nonvacuous_assignment :
  let c := [8; 8] in
  let G := [[0; 0]; [4; 0]] in
  let D := [[2; 0]; [7; 7]; [5; 1]; [3; 0]] in
  let w := Some [1#1; 2#1; 4#1; 1#1]%Q in
  cell_pos c /\ dimsZ 2 G /\ dimsZ 2 D /\
  exists s, assign (Some c) G D w = Some s /\
    labels s = [0; 0; 1; 1]%nat /\ members s = [[0; 1]; [2; 3]]%nat /\ npoints s = [2; 2] /\
    ql_eqb (gweight s) [3#8; 5#8]%Q = true /\
    pdist (Some c) [2; 0] [0; 0] = 4 /\ pdist (Some c) [2; 0] [4; 0] = 4 /\
    pdist (Some c) [7; 7] [0; 0] = 2.
Proof.
  cbv zeta. split; [repeat constructor|]. split; [repeat constructor|]. split; [repeat constructor|].
  eexists. split; [vm_compute; reflexivity|]. repeat split; vm_compute; reflexivity.
Qed.

(* ---- the chosen metric (round 3, follow-up) ------------------------------------------------------ *)
(* _NearestGridAssigner.predict sees positions only through self.metric: [predict_rows ng rows sw] is
   the same loop fed with the metric's own rows, rows[i][k] = metric(descriptor i, grid point k), for
   an ARBITRARY metric (Model/SparseKDEM.v). *)
From Verif Require Import SparseKDEM SparseKDEMP.

(* each descriptor is labelled with a grid point of minimal distance UNDER THE CHOSEN METRIC, the first
   such index on ties *)
Theorem C17_assignment_nearest_metric :
  forall ng rows sw s, predict_rows ng rows sw = Some s -> rows_ok ng rows ->
    length (labels s) = length rows /\
    forall i, (i < length rows)%nat ->
      let j := nth i (labels s) O in
      let r := nth i rows [] in
      (j < ng)%nat /\
      (forall k, (k < ng)%nat -> nth j r 0 <= nth k r 0) /\
      (forall k, (k < j)%nat -> nth j r 0 < nth k r 0).
Proof. exact assignment_nearest_metric. Qed.
Print Assumptions C17_assignment_nearest_metric.

(* member lists = label classes, a partition of the descriptors; counts; grid weights = sums of the
   assigned weights, totalling the descriptor weights - whatever the metric *)
Theorem C17_weights_partition_metric :
  forall ng rows sw s, predict_rows ng rows sw = Some s -> rows_ok ng rows -> length sw = length rows ->
    length (members s) = ng /\ length (gweight s) = ng /\ length (npoints s) = ng /\
    (forall j, (j < ng)%nat ->
       nth j (members s) [] = members_of (labels s) j /\
       nth j (npoints s) 0 = Z.of_nat (length (nth j (members s) [])) /\
       (nth j (gweight s) 0 == qsum (map (fun i => nth i sw 0%Q) (nth j (members s) [])))%Q) /\
    (forall i, (i < length rows)%nat ->
       exists j, (j < ng)%nat /\ In i (nth j (members s) []) /\
                 forall j', (j' < ng)%nat -> In i (nth j' (members s) []) -> j' = j) /\
    Permutation (concat (members s)) (seq 0 (length rows)) /\
    (qsum (gweight s) == qsum sw)%Q.
Proof. exact weights_partition_metric. Qed.
Print Assumptions C17_weights_partition_metric.

(* the default metric is the instance: rows of the (periodic) squared Euclidean distance *)
Theorem C17_default_metric_instance :
  forall cell G D sw,
    predict cell G D sw = predict_rows (length G) (map (drow cell G) D) sw /\
    rows_ok (length G) (map (drow cell G) D).
Proof. exact predict_is_predict_rows. Qed.
Print Assumptions C17_default_metric_instance.

(* non-vacuity: the rows decide, not positions.  Two grid points, three descriptors with metric rows
   [7; 3], [2; 2] (a tie: first index), [5; 9] and weights 1, 1, 2: labels [1; 0; 0], member lists
   [[1; 2]; [0]], grid weights 3/4 and 1/4 *)
Example C17_nonvacuous_metric :
  exists s, assign_rows 2 [[7; 3]; [2; 2]; [5; 9]] (Some [1#1; 1#1; 2#1]%Q) = Some s /\
    rows_ok 2 [[7; 3]; [2; 2]; [5; 9]] /\
    labels s = [1; 0; 0]%nat /\ members s = [[1; 2]; [0]]%nat /\ npoints s = [2; 1] /\
    ql_eqb (gweight s) [3#4; 1#4]%Q = true.
Proof.
  eexists. split; [vm_compute; reflexivity|]. split; [repeat constructor|].
  repeat split; vm_compute; reflexivity.
Qed.

(* ================================================================================================ *)
(* The numerical part (Model/SparseKDEA.v, proofs in Proofs/SparseKDEAP.v).  The routines are         *)
(* written once over a record of scalar operations; [rops fexp flog frnd] interprets them over an     *)
(* arbitrary real closed field F with UNINTERPRETED exp, log and np.round, [fops] over binary64      *)
(* (what the correspondence check runs).  -inf is None.                                               *)
(* ================================================================================================ *)
Close Scope Z_scope.
From mathcomp Require Import all_ssreflect all_algebra.
From Coq Require Import PrimFloat.
From Verif Require Import MExp MExpMx SparseKDEA SparseKDEAP.
Import GRing.Theory Num.Theory.
Local Open Scope ring_scope.

(* score_samples(x) is the logarithm of the documented mixture
     mixture x = ( sum_j  [far x j]  W_j * gauss_j(x - g_j)
                        + [near x j] sum_{i in cell j, D_i <> x} w_i * gauss_j(D_i - x) ) / sum_j W_j
   (far = squared Mahalanobis distance of x to grid point j under bandwidth j beyond the cut-off
   (3(sqrt(dim)+1))^2; gauss_j(v) = exp(-(normkernel_j + v^T Hinv_j v)/2), v a minimum image when
   there is a cell), and -inf when the mixture vanishes.  exp and log enter only through the four
   laws assumed here (they hold for the real functions; no instance is constructed in Coq). *)
Theorem C17_mixture_formula :
  forall (F : rcfType) (fexp flog frnd : F -> F),
    (forall a b : F, fexp (a + b) = fexp a * fexp b) ->
    (forall a : F, 0 < fexp a) ->
    (forall a : F, 0 < a -> fexp (flog a) = a) ->
    (forall a : F, flog (fexp a) = a) ->
    forall (cell : option (seq F)) (G D : seq (seq F)) (w W : seq F) (mem : seq (seq nat))
           (Hinv : seq (seq (seq F))) (nk : seq F) (dim : BinNums.Z),
    (forall i : nat, 0 <= List.nth i w 0) ->
    (forall j : nat, 0 <= List.nth j W 0) ->
    forall x : seq F,
    0 < \sum_(v <- W) v ->
    score_point (rops fexp flog frnd) cell G D w W mem Hinv nk dim x =
    (if mixture fexp flog frnd cell G D w W mem Hinv nk dim x == 0 then None
     else Some (flog (mixture fexp flog frnd cell G D w W mem Hinv nk dim x))).
Proof. exact mixture_formula. Qed.
Print Assumptions C17_mixture_formula.

(* score is the sum of score_samples (-inf as soon as one of them is -inf) *)
Theorem C17_score_is_sum :
  forall (F : rcfType) (fexp flog frnd : F -> F) (cell : option (seq F)) (G D : seq (seq F))
         (w W : seq F) (mem : seq (seq nat)) (Hinv : seq (seq (seq F))) (nk : seq F)
         (dim : BinNums.Z) (Q : seq (seq F)),
    let l := score_samples (rops fexp flog frnd) cell G D w W mem Hinv nk dim Q in
    score (rops fexp flog frnd) cell G D w W mem Hinv nk dim Q =
    (if List.forallb (fun o : option F => match o with Some _ => true | None => false end) l
     then Some (\sum_(v <- somes l) v) else None).
Proof. exact score_sum. Qed.
Print Assumptions C17_score_is_sum.

(* the free-space _covariance (mexp program cov_prog; variables 0 := X, 1 := local weights) is the
   weighted Gram matrix of the centred positions: symmetric, and positive semi-definite when the
   normalised weights are non-negative and 1 - sum p^2 > 0 *)
Theorem C17_covariance_psd :
  forall (F : rcfType) (n D : nat) (env : env_mx F),
    (eval_mx env (cov_prog n D))^T = eval_mx env (cov_prog n D) /\
    ((forall i : 'I_n, 0 <= eval_mx env (cp_p n) i ord0) ->
     0 < eval_mx env (cp_c n) ord0 ord0 -> psd (eval_mx env (cov_prog n D))).
Proof. exact covariance_psd. Qed.
Print Assumptions C17_covariance_psd.

(* "the localisation reaches at least one other grid point": two positive normalised local weights
   make the denominator 1 - sum p^2 of the covariance positive *)
Theorem C17_reach_positive :
  forall (F : rcfType) (n : nat) (p : 'I_n -> F) (i0 j0 : 'I_n),
    (forall i : 'I_n, 0 <= p i) -> \sum_i p i = 1 -> i0 != j0 -> 0 < p i0 -> 0 < p j0 ->
    0 < 1 - \sum_i p i * p i.
Proof. exact reach_pos. Qed.
Print Assumptions C17_reach_positive.

(* the bandwidth  h = s * ((1 - phi) cov + phi tr(cov)/D I)  produced by the repaired oas
   (phi = min(1, num/den) if den > 0 else 1; mexp program oas_prog, variables 0 := local covariance,
   1 := local population, 2 := Silverman factor s): the repaired shrinkage weight satisfies
   0 < phi <= 1 and h is symmetric positive definite for every local population, provided the local
   covariance is symmetric positive semi-definite with positive trace and s > 0 (s is an exponential).
   The effective dimension enters only through s. *)
Theorem C17_bandwidth_spd :
  forall (F : rcfType) (D : nat) (env : env_mx F),
    (2 <= D)%N ->
    (env D D 0%N)^T = env D D 0%N -> psd (env D D 0%N) -> 0 < \tr (env D D 0%N) ->
    0 < (env 1%N 1%N 2%N) ord0 ord0 ->
    0 <= oas_psi D env < 1 /\
    eval_mx env (oas_prog D) =
      (env 1%N 1%N 2%N) ord0 ord0 *:
        (oas_psi D env *: env D D 0%N
         + ((1 - oas_psi D env) * (\tr (env D D 0%N) / D%:R)) *: 1%:M) /\
    (eval_mx env (oas_prog D))^T = eval_mx env (oas_prog D) /\ pd (eval_mx env (oas_prog D)).
Proof. exact bandwidth_spd_full. Qed.
Print Assumptions C17_bandwidth_spd.

(* one dimension: h = s * cov *)
Theorem C17_bandwidth_spd_dim1 :
  forall (F : rcfType) (env : env_mx F),
    0 < (env 1%N 1%N 0%N) ord0 ord0 -> 0 < (env 1%N 1%N 2%N) ord0 ord0 ->
    (eval_mx env (oas_prog 1))^T = eval_mx env (oas_prog 1) /\ pd (eval_mx env (oas_prog 1)).
Proof. exact bandwidth_spd_1. Qed.
Print Assumptions C17_bandwidth_spd_dim1.

(* free space, from the raw local weights: non-negative weights two of which are positive, the
   covariance computed by cov_prog having positive trace *)
Theorem C17_bandwidth_spd_free :
  forall (F : rcfType) (n D : nat) (envC envO : env_mx F) (i0 j0 : 'I_n),
    (forall i, 0 <= (envC n 1%N 1%N) i ord0) -> i0 != j0 ->
    0 < (envC n 1%N 1%N) i0 ord0 -> 0 < (envC n 1%N 1%N) j0 ord0 ->
    envO D D 0%N = eval_mx envC (cov_prog n D) ->
    (2 <= D)%N -> 0 < \tr (envO D D 0%N) -> 0 < (envO 1%N 1%N 2%N) ord0 ord0 ->
    (eval_mx envO (oas_prog D))^T = eval_mx envO (oas_prog D) /\ pd (eval_mx envO (oas_prog D)).
Proof. exact bandwidth_spd_free. Qed.
Print Assumptions C17_bandwidth_spd_free.

(* non-vacuity of the bandwidth hypotheses, over every real closed field: identity covariance in
   two dimensions, s = 1 *)
Example C17_nonvacuous_bandwidth :
  forall F : rcfType, exists env : env_mx F,
    (env 2%N 2%N 0%N)^T = env 2%N 2%N 0%N /\ psd (env 2%N 2%N 0%N) /\ 0 < \tr (env 2%N 2%N 0%N) /\
    0 < (env 1%N 1%N 2%N) ord0 ord0.
Proof. exact nonvacuous_bandwidth. Qed.

(* non-vacuity of the mixture model: a run of the very same definition on binary64.  One dimension,
   unit bandwidths; the query is descriptor 0 (excluded by the descriptor <> query filter), grid
   point 0 is near (member 1 contributes), grid point 1 is far (d2 = 100 > 36): the value is
   log(0.25 N(1) + 0.5 N(10)) = -2.80523289432456... *)
Example C17_nonvacuous_mixture :
  let nk := 0x1.d67f1c864beb4p+0%float in
  match score_point fops None [:: [:: 0%float]; [:: 10%float]]
          [:: [:: 0%float]; [:: 1%float]; [:: 10%float]]
          [:: 0.25%float; 0.25%float; 0.5%float] [:: 0.5%float; 0.5%float]
          [:: [:: 0%N; 1%N]; [:: 2%N]] [:: [:: [:: 1%float]]; [:: [:: 1%float]]]
          [:: nk; nk] (BinNums.Zpos BinNums.xH) [:: 0%float] with
  | Some v => close1 0x1p-40 0 v (-0x1.6711df1964ca5p+1)%float
  | None => false
  end = true.
Proof. by vm_compute. Qed.

(* ================================================================================================ *)
(* Extension (round 3)                                                                              *)
(* ================================================================================================ *)
From Verif Require Import SparseKDEBP SparseKDEH SparseKDEHP.
Local Open Scope ring_scope.

(* ---- bandwidths: the proviso of the statement discharges every hypothesis on the covariance ------ *)

(* the weighted Gram matrix both branches of _covariance end with (mexp program gram_prog; variables
   0 := the displacements xxm from WHATEVER centre, wrapped into the cell or not, 1 := local weights)
   is symmetric, positive semi-definite, and has positive trace as soon as one point of positive
   weight is displaced.  This covers the periodic branch: nothing is assumed about its circular mean. *)
Theorem C17_covariance_psd_any_centre :
  forall (F : rcfType) (n D : nat) (env : env_mx F),
    (eval_mx env (gram_prog n D))^T = eval_mx env (gram_prog n D) /\
    ((forall i : 'I_n, 0 <= eval_mx env (cp_p n) i ord0) -> 0 < eval_mx env (cp_c n) ord0 ord0 ->
     psd (eval_mx env (gram_prog n D)) /\
     forall i : 'I_n, 0 < eval_mx env (cp_p n) i ord0 -> row i (env n D 0%N) != 0 ->
       0 < \tr (eval_mx env (gram_prog n D))).
Proof. exact covariance_psd_any_centre. Qed.
Print Assumptions C17_covariance_psd_any_centre.

(* free space, from the raw local weights and the grid positions alone: non-negative local weights,
   two grid points of positive local weight at DIFFERENT positions ("the localisation reaches at least
   one other grid point"), at least two dimensions, a positive Silverman factor (an exponential):
   the bandwidth is symmetric positive definite, for every local population and effective dimension.
   No hypothesis on the covariance (PSD, trace) is left. *)
Theorem C17_bandwidth_spd_reach :
  forall (F : rcfType) (n D : nat) (envC envO : env_mx F) (i0 j0 : 'I_n),
    (forall i, 0 <= (envC n 1%N 1%N) i ord0) ->
    0 < (envC n 1%N 1%N) i0 ord0 -> 0 < (envC n 1%N 1%N) j0 ord0 ->
    row i0 (envC n D 0%N) != row j0 (envC n D 0%N) ->
    envO D D 0%N = eval_mx envC (cov_prog n D) ->
    (2 <= D)%N -> 0 < (envO 1%N 1%N 2%N) ord0 ord0 ->
    (eval_mx envO (oas_prog D))^T = eval_mx envO (oas_prog D) /\ pd (eval_mx envO (oas_prog D)).
Proof. exact bandwidth_spd_reach. Qed.
Print Assumptions C17_bandwidth_spd_reach.

(* with a cell: the local covariance is gram_prog on the wrapped displacements from the circular mean
   (variable 0 of envC), whatever that mean is: two positive local weights and one reached grid point
   that does not sit on the centre make the bandwidth symmetric positive definite *)
Theorem C17_bandwidth_spd_periodic :
  forall (F : rcfType) (n D : nat) (envC envO : env_mx F) (i0 j0 k0 : 'I_n),
    (forall i, 0 <= (envC n 1%N 1%N) i ord0) -> i0 != j0 ->
    0 < (envC n 1%N 1%N) i0 ord0 -> 0 < (envC n 1%N 1%N) j0 ord0 ->
    0 < (envC n 1%N 1%N) k0 ord0 -> row k0 (envC n D 0%N) != 0 ->
    envO D D 0%N = eval_mx envC (gram_prog n D) ->
    (2 <= D)%N -> 0 < (envO 1%N 1%N 2%N) ord0 ord0 ->
    (eval_mx envO (oas_prog D))^T = eval_mx envO (oas_prog D) /\ pd (eval_mx envO (oas_prog D)).
Proof. exact bandwidth_spd_periodic. Qed.
Print Assumptions C17_bandwidth_spd_periodic.

(* non-vacuity of C17_bandwidth_spd_reach over every real closed field: three grid points in the
   plane, (0,0), (1,0), (0,1), unit local weights, unit Silverman factor *)
Example C17_nonvacuous_reach :
  forall F : rcfType, exists (envC : env_mx F) (i0 j0 : 'I_3),
    (forall i, 0 <= (envC 3%N 1%N 1%N) i ord0) /\
    0 < (envC 3%N 1%N 1%N) i0 ord0 /\ 0 < (envC 3%N 1%N 1%N) j0 ord0 /\
    row i0 (envC 3%N 2%N 0%N) != row j0 (envC 3%N 2%N 0%N).
Proof.
  move=> F.
  exists (fun (m n k : nat) => if k is 0%N then \matrix_(i, j) (((i : nat) == (j : nat).+1)%:R)
                               else const_mx 1).
  exists ord0, (lift ord0 ord0).
  split; first by move=> i; rewrite mxE ler01.
  split; first by rewrite mxE ltr01.
  split; first by rewrite mxE ltr01.
  apply/eqP => /rowP /(_ ord0). rewrite !mxE /=. move/eqP. by rewrite eq_sym oner_eq0.
Qed.

(* ---- translation in free space ------------------------------------------------------------------- *)
(* score_samples depends on the positions only through differences: adding one vector t to every grid
   point, every descriptor and the query changes nothing, for the same fitted weights, member lists,
   inverse bandwidths and normalisations (rows no longer than t, i.e. of the dimension of t).
   With C17_translation_assignment (labels, member lists, grid weights unchanged) this leaves the
   bandwidths as the only part of the invariance clause without a theorem. *)
Theorem C17_translation_mixture :
  forall (F : rcfType) (fexp flog frnd : F -> F) (G D : seq (seq F)) (w W : seq F)
         (mem : seq (seq nat)) (Hinv : seq (seq (seq F))) (nk : seq F) (dim : BinNums.Z) (t : seq F),
    (forall r, List.In r G -> (size r <= size t)%N) ->
    (forall r, List.In r D -> (size r <= size t)%N) ->
    forall x : seq F,
    score_point (rops fexp flog frnd) None (List.map (vaddF t) G) (List.map (vaddF t) D) w W mem
                Hinv nk dim (vaddF t x)
    = score_point (rops fexp flog frnd) None G D w W mem Hinv nk dim x.
Proof. exact score_point_translate. Qed.
Print Assumptions C17_translation_mixture.

(* ---- the estimator OBJECT: histories of calls (Model/SparseKDEH.v) --------------------------------- *)
(* [krun fitf invf nkf needs_nk scoref peekf (kinit p) ops] runs the operations ops (OFit g = fit(g);
   OScore q = score_samples(q)/score(q); OPeek = reading bandwidth_/_sample_weights; OSet p' =
   assigning the public attributes) on an object constructed with parameters p, for ARBITRARY
   functions computing a fit, the cached inverse bandwidths / normalisations, and the score. *)

(* in every reachable state the lazily filled caches _bandwidth_inv_ / _normkernels_ are empty or
   hold what the CURRENT fit determines *)
Theorem C17_cache_coherent :
  forall (P G S CI CN Qy O : Type) (fitf : P -> G -> S) (invf : S -> CI) (nkf : S -> CN)
         (needs_nk : S -> Qy -> bool) (scoref : P -> S -> CI -> CN -> Qy -> O) (peekf : S -> O)
         (p : P) (ops : seq (@kop P G Qy)),
    coherent invf nkf (krun fitf invf nkf needs_nk scoref peekf (kinit p) ops).1.
Proof. exact reachable_coherent. Qed.
Print Assumptions C17_cache_coherent.

(* after ANY history, score_samples answers from the parameters in force, the LAST fit and the
   inverse / normalisation belonging to that fit (never from earlier fits, queries or caches);
   on an object that was never fitted it raises (None) *)
Theorem C17_score_after_history :
  forall (P G S CI CN Qy O : Type) (fitf : P -> G -> S) (invf : S -> CI) (nkf : S -> CN)
         (needs_nk : S -> Qy -> bool) (scoref : P -> S -> CI -> CN -> Qy -> O) (peekf : S -> O)
         (p0 : P) (h : seq (@kop P G Qy)) (q : Qy),
    (kstep fitf invf nkf needs_nk scoref peekf
           (krun fitf invf nkf needs_nk scoref peekf (kinit p0) h).1 (OScore q)).2 =
    let pf := last_fit fitf p0 None h in
    omap (fun f => scoref pf.1 f (invf f) (nkf f) q) pf.2.
Proof. exact score_after_history. Qed.
Print Assumptions C17_score_after_history.

(* re-fitting an object is fitting a fresh object constructed with the parameters in force: the
   complete states coincide, so everything observable afterwards (any continuation h') coincides *)
Theorem C17_refit_is_fresh_fit :
  forall (P G S CI CN Qy O : Type) (fitf : P -> G -> S) (invf : S -> CI) (nkf : S -> CN)
         (needs_nk : S -> Qy -> bool) (scoref : P -> S -> CI -> CN -> Qy -> O) (peekf : S -> O)
         (p0 : P) (h : seq (@kop P G Qy)) (g : G) (h' : seq (@kop P G Qy)),
    let run := krun fitf invf nkf needs_nk scoref peekf in
    let s := (run (kinit p0) h).1 in
    run (kinit p0) (h ++ OFit g :: h') =
    ((run (kinit (k_pars s)) (OFit g :: h')).1,
     (run (kinit p0) h).2 ++ (run (kinit (k_pars s)) (OFit g :: h')).2).
Proof. exact refit_is_fresh_fit. Qed.
Print Assumptions C17_refit_is_fresh_fit.

(* the instance with the routines of Model/SparseKDEA.v over a real closed field: after ANY history
   whose last fit produced f under parameters p, score_samples(q) is, query by query, the logarithm
   of the documented mixture of THAT fit (C17_mixture_formula), and score is the model's score *)
Theorem C17_history_mixture :
  forall (F : rcfType) (fexp flog frnd : F -> F),
    (forall a b : F, fexp (a + b) = fexp a * fexp b) ->
    (forall a : F, 0 < fexp a) ->
    (forall a : F, 0 < a -> fexp (flog a) = a) ->
    (forall a : F, flog (fexp a) = a) ->
    let N := rops fexp flog frnd in
    forall (Gt : Type) (fitf : kpars N -> Gt -> kfit N) (invf : kfit N -> seq (seq (seq F)))
           (nkf : kfit N -> seq F) (p0 : kpars N) (h : seq (@kop (kpars N) Gt (seq (seq F))))
           (q : seq (seq F)) (p : kpars N) (f : kfit N),
    last_fit fitf p0 None h = (p, Some f) ->
    (forall i : nat, 0 <= List.nth i (kp_w N p) 0) ->
    (forall j : nat, 0 <= List.nth j (kf_W N f) 0) ->
    0 < \sum_(v <- kf_W N f) v ->
    (kstep fitf invf nkf (@kde_needs_nk N) (@kde_scoref N) (@kde_peekf N)
           (krun fitf invf nkf (@kde_needs_nk N) (@kde_scoref N) (@kde_peekf N) (kinit p0) h).1
           (OScore q)).2
    = Some (@KScores N (List.map (log_mixture invf nkf p f) q)
              (score N (kp_cell N p) (kf_G N f) (kp_D N p) (kp_w N p) (kf_W N f) (kf_mem N f)
                     (invf f) (nkf f) (kp_dim N p) q)).
Proof. exact history_mixture. Qed.
Print Assumptions C17_history_mixture.

(* non-vacuity of the machine: fit(1), score(5), fit(2), score(7) on an object with parameter 10;
   a fit is p + g, the caches are 2 * fit and 3 * fit.  The second score shows the caches of the
   SECOND fit (24, 36), not those filled after the first one (22, 33). *)
Example C17_nonvacuous_history :
  (krun (fun p g : nat => (p + g)%N) (fun f => (2 * f)%N) (fun f => (3 * f)%N) (fun _ _ : nat => true)
        (fun p f ci cn q : nat => [:: p; f; ci; cn; q]) (fun f => [:: f])
        (kinit 10%N) [:: OFit 1%N; OScore 5%N; OFit 2%N; OPeek; OScore 7%N]).2
  = [:: None; Some [:: 10; 11; 22; 33; 5]%N; None; Some [:: 12%N]; Some [:: 10; 12; 24; 36; 7]%N].
Proof. by vm_compute. Qed.
