(* C17 — SparseKDE is a well-formed mixture consistent with its Voronoi assignment.
   Statements only; every proof is `exact <lemma>` from Proofs/SparseKDEP.v (layer D, exact,
   Model/SparseKDE.v).

   [predict cell G D sw] is _NearestGridAssigner.predict on grid G, descriptors D, sample
   weights sw under the metric periodic_pairwise_euclidean_distances(squared=True,
   cell_length=cell) ([pdist]); None models the exception numpy raises for an empty grid.
   [assign cell G D w] feeds it the constructor-normalised weights. *)
From Verif Require Import ListX ListXP SparseKDE SparseKDEP.
From Coq Require Import QArith Permutation.
Open Scope Z_scope.

(* ---- layer D ---------------------------------------------------------------------------------- *)

(* each descriptor is labelled with a grid point of minimal distance under the (periodic)
   metric, the first such index on ties *)
Theorem C17_assignment_nearest :
  forall cell G D sw s, predict cell G D sw = Some s ->
    length (labels s) = length D /\
    forall i, (i < length D)%nat ->
      let j := nth i (labels s) O in
      let p := nth i D [] in
      (j < length G)%nat /\
      (forall k, (k < length G)%nat -> pdist cell p (nth j G []) <= pdist cell p (nth k G [])) /\
      (forall k, (k < j)%nat -> pdist cell p (nth j G []) < pdist cell p (nth k G [])).
Proof. exact assignment_nearest. Qed.
Print Assumptions C17_assignment_nearest.

(* the member lists are exactly the label classes (in increasing order), they partition the
   descriptors, the counts are their lengths, grid_weight[j] is the sum of the weights of the
   descriptors assigned to j, and the grid weights total the descriptor weights *)
Theorem C17_weights_partition :
  forall cell G D sw s, predict cell G D sw = Some s -> length sw = length D ->
    length (members s) = length G /\ length (gweight s) = length G /\
    length (npoints s) = length G /\
    (forall j, (j < length G)%nat ->
       nth j (members s) [] = members_of (labels s) j /\
       nth j (npoints s) 0 = Z.of_nat (length (nth j (members s) [])) /\
       (nth j (gweight s) 0 == qsum (map (fun i => nth i sw 0%Q) (nth j (members s) [])))%Q) /\
    (forall i, (i < length D)%nat ->
       exists j, (j < length G)%nat /\ In i (nth j (members s) []) /\
                 forall j', (j' < length G)%nat -> In i (nth j' (members s) []) -> j' = j) /\
    Permutation (concat (members s)) (seq 0 (length D)) /\
    (qsum (gweight s) == qsum sw)%Q.
Proof. exact weights_partition. Qed.
Print Assumptions C17_weights_partition.

(* after the constructor's normalisation (weights / sum, or ones / n) the descriptor weights
   and the grid weights total one, whenever the raw total is not zero *)
Theorem C17_weights_total :
  forall cell G D w s,
    (forall l, w = Some l -> length l = length D) ->
    ~ (qsum (raw_weights w (length D)) == 0)%Q ->
    assign cell G D w = Some s ->
    (qsum (norm_weights w (length D)) == 1)%Q /\ (qsum (gweight s) == 1)%Q.
Proof. exact weights_total. Qed.
Print Assumptions C17_weights_total.

(* translating grid and descriptors by the same vector changes nothing in the assignment
   (labels, counts, grid weights, member lists), free space or periodic *)
Theorem C17_translation_assignment :
  forall cell d t G D sw, length t = d -> dimsZ d G -> dimsZ d D ->
    predict cell (map (vaddZ t) G) (map (vaddZ t) D) sw = predict cell G D sw.
Proof. exact assignment_translation. Qed.
Print Assumptions C17_translation_assignment.

(* with a cell: replacing every grid point and every descriptor by an arbitrary periodic image
   (each its own integer multiples of the cell lengths) changes nothing in the assignment *)
Theorem C17_images_assignment :
  forall c d G G' D D' sw,
    cell_pos c -> length c = d -> dimsZ d G -> dimsZ d D ->
    Forall2 (image_of c) G G' -> Forall2 (image_of c) D D' ->
    predict (Some c) G' D' sw = predict (Some c) G D sw.
Proof. exact assignment_images. Qed.
Print Assumptions C17_images_assignment.

(* the wrapped displacement is a minimum image: congruent to x modulo c and within half a cell *)
Theorem C17_minimum_image :
  forall c x, 0 < c -> - c <= 2 * wrap c x <= c /\ exists k, wrap c x = x - k * c.
Proof. exact wrap_bound. Qed.
Print Assumptions C17_minimum_image.

(* homogeneity (justifies feeding dyadic data as scaled integers) *)
Theorem C17_scale_assignment :
  forall k cell G D sw, 0 < k -> (forall c, cell = Some c -> cell_pos c) ->
    predict (cscale k cell) (map (vscale k) G) (map (vscale k) D) sw = predict cell G D sw.
Proof. exact assignment_scale. Qed.
Print Assumptions C17_scale_assignment.

(* non-vacuity: a periodic instance with a distance tie (descriptor [2;0] is at squared distance
   4 from both grid points: first index wins), a wrap across the cell boundary (descriptor [7;7]
   is nearest to [0;0] through the boundary of the 8x8 cell) and unequal weights *)
Example C17_nonvacuous_assignment :
  let c := [8; 8] in
  let G := [[0; 0]; [4; 0]] in
  let D := [[2; 0]; [7; 7]; [5; 1]; [3; 0]] in
  let w := Some [1#1; 2#1; 4#1; 1#1]%Q in
  cell_pos c /\ dimsZ 2 G /\ dimsZ 2 D /\
  exists s, assign (Some c) G D w = Some s /\
    labels s = [0; 0; 1; 1]%nat /\ members s = [[0; 1]; [2; 3]]%nat /\ npoints s = [2; 2] /\
    ql_eqb (gweight s) [3#8; 5#8]%Q = true /\
    pdist (Some c) [2; 0] [0; 0] = 4 /\ pdist (Some c) [2; 0] [4; 0] = 4 /\
    pdist (Some c) [7; 7] [0; 0] = 2.
Proof.
  cbv zeta. split; [repeat constructor|]. split; [repeat constructor|]. split; [repeat constructor|].
  eexists. split; [vm_compute; reflexivity|]. repeat split; vm_compute; reflexivity.
Qed.
