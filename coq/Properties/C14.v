(* C14 - PCovR's projectors form a consistent, orthogonal decomposition.
   Statements only; every proof is `exact <lemma>` from Proofs/.

   Model: Model/PCovR.v - the programs pxt_prog / ptx_prog / pty_prog / pxy_prog /
   transform_prog / inverse_prog / predict_x_prog / predict_t_prog / score_prog of the
   matrix-expression language [mexp]; [eval_mx env prog] is their value over an ARBITRARY
   real closed field F, for ALL shapes n (samples), m (features), p (targets), k (components),
   q (rows of new data); [sp] selects the space (true = sample, false = feature).
   [env] holds the inputs and the LAPACK oracle answers; what the theorems assume about the
   oracles is spelled out by C14_hypotheses_sample / _feature below (validated numerically on every run of
   the correspondence check).  [retained_mask k env] = diag(1 if S_i > tol else 0): the
   code zeroes the components whose eigenvalue does not exceed tol. *)

(* ======================================================================================
   Part D (extension, round 3) - control flow and shape book-keeping of PCovR.fit.
   Model: Model/PCovRFit.v (layer D, exact: nat / Z / Q / lists), mirrors fit,
   _decompose_full, _decompose_truncated and the reshape / matmul chain of both _fit_* routines
   statement by statement.  [fit_ctrl n m nc sv sp rg] = what fit does with n_components = nc,
   svd_solver = sv, space = sp, regressor kind rg on an n x m X: the ValueError it raises or
   (n_components_, fit_svd_solver_, space_).  [fit_shapes] = the shapes of W, Yhat, pxt_, ptx_,
   pty_, pxy_, components_, singular_values_ ; [method_shapes] = the shapes returned by
   transform, inverse_transform, predict(X), predict(T=T) on q rows.
   Stated before mathcomp is loaded so that <=, [ _ ; _ ] ... are the standard library's.     *)
From Coq Require Import ZArith QArith List Bool.
Import ListNotations.
From Verif Require Import PCovRFit PCovRFitP.

(* what an admissible integer n_components is, given the resolved solver *)
Theorem C14_int_ok_meaning :
  forall (n m : nat) (sv : solver) (z : Z),
    int_ok n m sv z <->
    match fit_solver n m sv (VInt z) with
    | SvFull => (0 <= z <= mn n m)%Z
    | SvRandomized => (1 <= z <= mn n m)%Z
    | SvArpack => (1 <= z < mn n m)%Z
    | _ => False
    end.
Proof. intros; reflexivity. Qed.
Print Assumptions C14_int_ok_meaning.

(* fit accepts an integer n_components exactly under these conditions, and then
   n_components_ = it, fit_svd_solver_ and space_ are as resolved *)
Theorem C14_fit_accepts :
  forall (n m : nat) (z : Z) (sv : solver) (sp : spacep) (rg : regk),
    sp <> SpOther -> rg <> RgOther -> int_ok n m sv z ->
    fit_ctrl n m (NCInt z) sv sp rg
    = Ok (mk_ctrl (Z.to_nat z) (fit_solver n m sv (VInt z)) (fit_space n m sp)).
Proof. exact fit_ctrl_int_accepts. Qed.
Print Assumptions C14_fit_accepts.

Theorem C14_fit_rejects :
  forall (n m : nat) (z : Z) (sv : solver) (sp : spacep) (rg : regk) (c : ctrl),
    fit_ctrl n m (NCInt z) sv sp rg = Ok c ->
    sp <> SpOther /\ rg <> RgOther /\ int_ok n m sv z.
Proof. exact fit_ctrl_int_rejects. Qed.
Print Assumptions C14_fit_rejects.

(* the order in which the code tests: space, then regressor type, then the solver dispatch *)
Theorem C14_fit_error_order :
  forall (n m : nat) (nc : ncomp) (sv : solver) (sp : spacep) (rg : regk),
    (sp = SpOther -> fit_ctrl n m nc sv sp rg = Err ErrSpace)
    /\ (sp <> SpOther -> rg = RgOther -> fit_ctrl n m nc sv sp rg = Err ErrRegressor)
    /\ (sp <> SpOther -> rg <> RgOther -> sv = SvOther -> fit_ctrl n m nc sv sp rg = Err ErrSolver).
Proof. exact fit_ctrl_error_order. Qed.
Print Assumptions C14_fit_error_order.

(* every k of the property's quantifier is accepted, with n_components_ = k *)
Theorem C14_fit_quantifier :
  forall (n m k : nat) (sv : solver) (sp : spacep) (rg : regk),
    (1 <= k <= Nat.min n m)%nat -> sp <> SpOther -> rg <> RgOther ->
    sv = SvAuto \/ sv = SvFull \/ sv = SvRandomized \/ (sv = SvArpack /\ (k < Nat.min n m)%nat) ->
    exists fs, fit_ctrl n m (NCInt (Z.of_nat k)) sv sp rg = Ok (mk_ctrl k fs (fit_space n m sp))
               /\ fs <> SvAuto /\ fs <> SvOther /\ (sv <> SvAuto -> fs = sv).
Proof. exact fit_ctrl_quantifier. Qed.
Print Assumptions C14_fit_quantifier.

(* n_components = None *)
Theorem C14_fit_default_components :
  forall (n m : nat) (sv : solver) (sp : spacep) (rg : regk),
    (1 <= Nat.min n m)%nat -> sp <> SpOther -> rg <> RgOther ->
    sv = SvAuto \/ sv = SvFull \/ sv = SvRandomized ->
    exists fs, fit_ctrl n m NCNone sv sp rg = Ok (mk_ctrl (Nat.min n m) fs (fit_space n m sp)).
Proof. exact fit_ctrl_default. Qed.
Print Assumptions C14_fit_default_components.

Theorem C14_fit_default_components_arpack :
  forall (n m : nat) (sp : spacep) (rg : regk),
    (2 <= Nat.min n m)%nat -> sp <> SpOther -> rg <> RgOther ->
    fit_ctrl n m NCNone SvArpack sp rg
    = Ok (mk_ctrl (Nat.min n m - 1) SvArpack (fit_space n m sp)).
Proof. exact fit_ctrl_default_arpack. Qed.
Print Assumptions C14_fit_default_components_arpack.

Theorem C14_auto_solver_small :
  forall (n m : nat) (v : ncv), (Nat.max n m <= 500)%nat -> fit_solver n m SvAuto v = SvFull.
Proof. exact fit_solver_small. Qed.
Print Assumptions C14_auto_solver_small.

Theorem C14_auto_space :
  forall (n m : nat) (sp : spacep), sp = SpNone \/ sp = SpAuto ->
    fit_space n m sp = false <-> (m < n)%nat.
Proof. exact fit_space_auto. Qed.
Print Assumptions C14_auto_space.

(* shapes: every reshape / product in fit succeeds and gives these shapes, for both spaces, a
   1-D or 2-D target and every admissible way for the weights to arrive *)
Theorem C14_fit_shapes :
  forall (n m : nat) (c : ctrl) (y : yform) (w : wform),
    (0 < n)%nat -> (0 < m)%nat -> (c_k c <= Nat.min n m)%nat -> w_ok m y w ->
    fit_shapes n m c y w
    = Some (mk_fitted c [m; pcols y] [n; pcols y] [m; c_k c] [c_k c; m] (c_k c :: ytail y)
                      (m :: ytail y) [c_k c; m] [c_k c]).
Proof. exact fit_shapes_spec. Qed.
Print Assumptions C14_fit_shapes.

Theorem C14_shape_vocabulary :
  forall (m p : nat) (s : shape),
    (pcols Y1 = 1%nat /\ pcols (Y2 p) = p) /\ (ytail Y1 = [] /\ ytail (Y2 p) = [p])
    /\ (w_ok m (Y2 p) (WGiven s) <-> s = [m; p] \/ (p = 1%nat /\ s = [m]))
    /\ (w_ok m Y1 (WGiven s) <-> s = [m; 1%nat] \/ (1%nat = 1%nat /\ s = [m]))
    /\ (forall y, w_ok m y WRegressor /\ w_ok m y WLstsq).
Proof. intros; repeat split; auto. Qed.
Print Assumptions C14_shape_vocabulary.

(* the clause: a one-dimensional y yields one-dimensional predictions and coefficient vectors
   (ytail Y1 = []), a two-dimensional y two-dimensional ones (ytail (Y2 p) = [p]) *)
Theorem C14_shapes_1d :
  forall (n m k : nat) (sv : solver) (sp : spacep) (rg : regk) (w : wform) (q : nat),
    (1 <= k <= Nat.min n m)%nat -> sp <> SpOther -> rg <> RgOther ->
    sv = SvAuto \/ sv = SvFull \/ sv = SvRandomized \/ (sv = SvArpack /\ (k < Nat.min n m)%nat) ->
    forall y, w_ok m y w ->
    exists f, fit_model n m (NCInt (Z.of_nat k)) sv sp rg y w = Ok f
      /\ c_k (f_ctrl f) = k
      /\ f_pxt f = [m; k] /\ f_ptx f = [k; m]
      /\ f_pxy f = m :: ytail y /\ f_pty f = k :: ytail y
      /\ method_shapes m f q = Some [[q; k]; [q; m]; q :: ytail y; q :: ytail y].
Proof. exact shapes_1d. Qed.
Print Assumptions C14_shapes_1d.

Example C14_nonvacuous_fit_model :
  fit_model 6 3 (NCInt 2) SvAuto SpNone RgNone Y1 WRegressor
  = Ok (mk_fitted (mk_ctrl 2 SvFull false) [3; 1]%nat [6; 1]%nat [3; 2]%nat [2; 3]%nat [2]%nat [3]%nat
                  [2; 3]%nat [2]%nat).
Proof. exact fit_model_example_1d. Qed.
Print Assumptions C14_nonvacuous_fit_model.

Example C14_nonvacuous_rejections :
  fit_model 6 3 (NCInt 4) SvFull SpNone RgNone Y1 WRegressor = Err ErrNCompRange
  /\ fit_model 6 3 (NCInt 3) SvArpack SpNone RgNone Y1 WRegressor = Err ErrArpackAll
  /\ fit_model 6 3 (NCFloat 2.5) SvFull SpNone RgNone Y1 WRegressor = Err ErrNCompType
  /\ fit_model 6 3 (NCInt 9) SvOther SpNone RgNone Y1 WRegressor = Err ErrSolver
  /\ fit_model 6 3 (NCInt 9) SvOther SpOther RgOther Y1 WRegressor = Err ErrSpace
  /\ fit_model 6 3 (NCInt 2) SvFull SpSample RgPrecomputed (Y2 2) (WGiven [3]%nat) = Err ErrReshape.
Proof. exact fit_model_example_rejections. Qed.
Print Assumptions C14_nonvacuous_rejections.

(* ======================================================================================
   Part A - the algebra of the projectors (layer A, over an arbitrary real closed field)    *)
From mathcomp Require Import all_ssreflect all_algebra.
From Verif Require Import MExp MExpMx PCovR PCovRP PCovRProg KyFan C14Thm C04Thm PCovRNested PCovRExample C14ExtP C14ExtExample.
Import GRing.Theory Num.Theory.
Local Open Scope ring_scope.

(* ---- what the hypotheses say ---------------------------------------------------------- *)
Theorem C14_hypotheses_sample :
  forall (F : rcfType) (n m p k : nat) (env : env_mx F),
    fit_oracle n m p k env true <->
    [/\ 0 <= e_tol env,
        (* regressor contract *) e_Yh n p env = e_X n m env *m e_W m p env
      & (* top-k eigenpairs of K~ *)
        (e_Vs n k env)^T *m e_Vs n k env = 1%:M /\
        eval_mx env (kern_prog n m p) *m e_Vs n k env = e_Vs n k env *m diag_mx (e_S k env)^T].
Proof. by []. Qed.
Print Assumptions C14_hypotheses_sample.

Theorem C14_hypotheses_feature :
  forall (F : rcfType) (n m p k : nat) (env : env_mx F),
    fit_oracle n m p k env false <->
    [/\ 0 <= e_tol env,
        (* eigh(X^T X); the eigenvalues discarded by rcond are exactly zero *)
        [/\ (e_UC m env)^T *m e_UC m env = 1%:M,
            eval_mx env (xtx_prog n m) *m e_UC m env = e_UC m env *m diag_mx (e_vC m env)^T
          & forall i, e_vC m env i 0 <= e_tol env -> e_vC m env i 0 = 0],
        (* lstsq(C^-1/2, I) satisfies the four Penrose equations *)
        penrose (eval_mx env (cisqrt_prog m)) (e_Csq m env)
      & (* top-k eigenpairs of C~ *)
        (e_Vf m k env)^T *m e_Vf m k env = 1%:M /\
        eval_mx env (cov_prog n m p) *m e_Vf m k env = e_Vf m k env *m diag_mx (e_S k env)^T].
Proof. by []. Qed.
Print Assumptions C14_hypotheses_feature.

Theorem C14_hypothesis_centred :
  forall (F : rcfType) (n m : nat) (env : env_mx F),
    centred n m env <-> (const_mx 1 : 'rV[F]_n) *m e_X n m env = 0.
Proof. by []. Qed.
Print Assumptions C14_hypothesis_centred.

Theorem C14_mask_meaning :
  forall (F : rcfType) (k : nat) (env : env_mx F) i j,
    retained_mask k env i j = (if e_tol env < e_S k env i 0 then 1 else 0) *+ (i == j).
Proof. exact mask_meaning. Qed.
Print Assumptions C14_mask_meaning.

(* ---- round trip: ptx_ @ pxt_ is the identity on the retained components, both spaces -- *)
Theorem C14_roundtrip :
  forall (F : rcfType) (n m p k : nat) (env : env_mx F) (sp : bool),
    fit_oracle n m p k env sp ->
    eval_mx env (ptx_prog n m k sp) *m eval_mx env (pxt_prog n m p k sp) = retained_mask k env.
Proof. exact roundtrip_prog. Qed.
Print Assumptions C14_roundtrip.

Theorem C14_roundtrip_identity :
  forall (F : rcfType) (n m p k : nat) (env : env_mx F) (sp : bool),
    fit_oracle n m p k env sp -> (forall i, e_tol env < e_S k env i 0) ->
    eval_mx env (ptx_prog n m k sp) *m eval_mx env (pxt_prog n m p k sp) = 1%:M.
Proof. exact roundtrip_prog_id. Qed.
Print Assumptions C14_roundtrip_identity.

(* transform(inverse_transform(T)) = T for every T = transform(Z), Z arbitrary new data
   (also when some components are masked) *)
Theorem C14_roundtrip_transform :
  forall (F : rcfType) (n m p k : nat) (env : env_mx F) (sp : bool) (q : nat) (Z : mexp q m),
    centred n m env -> fit_oracle n m p k env sp ->
    let T := transform_prog n m p k sp Z in
    eval_mx env (transform_prog n m p k sp (inverse_prog n m k sp T)) = eval_mx env T.
Proof. exact roundtrip_idempotent. Qed.
Print Assumptions C14_roundtrip_transform.

(* ---- the training scores are orthogonal, squared norms = retained eigenvalues ----------- *)
Theorem C14_orthogonal_scores :
  forall (F : rcfType) (n m p k : nat) (env : env_mx F) (sp : bool),
    centred n m env -> fit_oracle n m p k env sp ->
    let T := eval_mx env (transform_prog n m p k sp (eX n m)) in
    T^T *m T = diag_mx (\row_i (if e_tol env < e_S k env i 0 then e_S k env i 0 else 0)).
Proof. exact orthogonal_scores. Qed.
Print Assumptions C14_orthogonal_scores.

(* ---- transform(Z) = Z pxt_ and predict(Z) = predict(T = transform(Z)) on centred data --- *)
Theorem C14_transform_is_projection :
  forall (F : rcfType) (n m p k : nat) (env : env_mx F) (sp : bool) (q : nat) (Z : mexp q m),
    centred n m env ->
    eval_mx env (transform_prog n m p k sp Z)
    = eval_mx env Z *m eval_mx env (pxt_prog n m p k sp).
Proof. exact transform_is_projection. Qed.
Print Assumptions C14_transform_is_projection.

Theorem C14_predict_consistent :
  forall (F : rcfType) (n m p k : nat) (env : env_mx F) (sp : bool) (q : nat) (Z : mexp q m),
    centred n m env ->
    eval_mx env (predict_t_prog n m p k sp (transform_prog n m p k sp Z))
    = eval_mx env (predict_x_prog n m p k sp Z).
Proof. exact predict_consistent. Qed.
Print Assumptions C14_predict_consistent.

(* without centring the two differ exactly by the mean term (transform subtracts mean_,
   predict(X) does not - as the code is written) *)
Theorem C14_predict_consistent_general :
  forall (F : rcfType) (n m p k : nat) (env : env_mx F) (sp : bool) (q : nat) (Z : mexp q m),
    eval_mx env (predict_t_prog n m p k sp (transform_prog n m p k sp Z))
    = eval_mx env (predict_x_prog n m p k sp Z)
      - const_mx 1 *m (e_mean n m env *m eval_mx env (pxy_prog n m p k sp)).
Proof. exact predict_consistent_general. Qed.
Print Assumptions C14_predict_consistent_general.

(* ---- score = -(l_X + l_Y), the two relative squared Frobenius losses -------------------- *)
Theorem C14_score :
  forall (F : rcfType) (n m p k : nat) (env : env_mx F) (sp : bool) (q : nat)
         (Z : mexp q m) (Yz : mexp q p),
    let T := transform_prog n m p k sp Z in
    let lx := fro2 (eval_mx env Z - eval_mx env (inverse_prog n m k sp T)) / fro2 (eval_mx env Z) in
    let ly := fro2 (eval_mx env Yz - eval_mx env (predict_t_prog n m p k sp T))
              / fro2 (eval_mx env Yz) in
    (eval_mx env (score_prog n m p k sp Z Yz)) ord0 ord0 = - (lx + ly).
Proof. exact score_formula. Qed.
Print Assumptions C14_score.

(* ---- nestedness (full solver): the oracle answer for k components is the truncation
   U[:, :k], S[:k], Vt[:k] of the answer for k+1 (as _decompose_full does); then the
   projectors for k are the first k columns / rows of those for k+1, both spaces ------------ *)
Theorem C14_nested_hypothesis :
  forall (F : rcfType) (n m k : nat) (env : env_mx F),
    nested_oracle n m k env <->
    [/\ e_Vs n k env = lsubmx (e_Vs n (k + 1) env), e_Vf m k env = lsubmx (e_Vf m (k + 1) env)
      & e_S k env = usubmx (e_S (k + 1) env)].
Proof. by []. Qed.
Print Assumptions C14_nested_hypothesis.

Theorem C14_nested :
  forall (F : rcfType) (n m p k : nat) (env : env_mx F) (sp : bool),
    nested_oracle n m k env ->
    [/\ eval_mx env (pxt_prog n m p k sp) = lsubmx (eval_mx env (pxt_prog n m p (k + 1) sp)),
        eval_mx env (ptx_prog n m k sp) = usubmx (eval_mx env (ptx_prog n m (k + 1) sp))
      & eval_mx env (pty_prog n m p k sp) = usubmx (eval_mx env (pty_prog n m p (k + 1) sp))].
Proof. exact nested_all. Qed.
Print Assumptions C14_nested.

(* ... so the training losses |X - inverse_transform(T)|^2 and |Y - predict(T=T)|^2 never
   increase from k to k+1 (Pythagoras on the orthonormal eigenvectors) *)
Theorem C14_losses_monotone_in_k :
  forall (F : rcfType) (n m p k : nat) (env : env_mx F),
    centred n m env -> nested_oracle n m k env -> fit_oracle n m p (k + 1) env true ->
    (forall i, e_tol env < e_S (k + 1) env i 0) ->
    train_loss_x n m p env (k + 1) <= train_loss_x n m p env k
    /\ train_loss_y n m p env (k + 1) <= train_loss_y n m p env k.
Proof. exact losses_monotone_in_k. Qed.
Print Assumptions C14_losses_monotone_in_k.

Theorem C14_train_loss_meaning :
  forall (F : rcfType) (n m p : nat) (env : env_mx F) (j : nat),
    let T := transform_prog n m p j true (eX n m) in
    train_loss_x n m p env j = fro2 (e_X n m env - eval_mx env (inverse_prog n m j true T))
    /\ train_loss_y n m p env j = fro2 (e_Y n p env - eval_mx env (predict_t_prog n m p j true T)).
Proof. by []. Qed.
Print Assumptions C14_train_loss_meaning.

Example C14_nonvacuous_nested :
  forall (F : rcfType) (mix : F), exists env : env_mx F,
    [/\ nested_oracle 2 1 0 env, fit_oracle 2 1 1 (0 + 1) env true, centred 2 1 env
      & forall i, e_tol env < e_S (0 + 1) env i 0].
Proof. exact (fun F mix => ex_intro _ (ex_env mix) (ex_nested mix)). Qed.
Print Assumptions C14_nonvacuous_nested.

(* ---- the hypotheses are satisfiable, non-trivially, in both spaces, over every field and
   for every value of the mixing ------------------------------------------------------------ *)
Example C14_nonvacuous :
  forall (F : rcfType) (mix : F), exists env : env_mx F,
    [/\ centred 2 1 env, fit_oracle 2 1 1 1 env true, fit_oracle 2 1 1 1 env false
      & [/\ forall i, e_tol env < e_S 1 env i 0, e_a env = mix & e_X 2 1 env != 0]].
Proof. exact (fun F mix => ex_intro _ (ex_env mix) (ex_nonvacuous mix)). Qed.
Print Assumptions C14_nonvacuous.

(* ======================================================================================
   Extension (round 3), layer A                                                            *)

(* sklearn's transform on data that is NOT centred: the training mean is subtracted first *)
Theorem C14_transform_general :
  forall (F : rcfType) (n m p k : nat) (env : env_mx F) (sp : bool) (q : nat) (Z : mexp q m),
    eval_mx env (transform_prog n m p k sp Z)
    = (eval_mx env Z - const_mx 1 *m e_mean n m env) *m eval_mx env (pxt_prog n m p k sp).
Proof. exact transform_general. Qed.
Print Assumptions C14_transform_general.

(* round trip for an ARBITRARY latent T (not only one produced by transform): retained
   coordinates come back, masked ones are zeroed; all retained => exactly T *)
Theorem C14_roundtrip_any_T :
  forall (F : rcfType) (n m p k : nat) (env : env_mx F) (sp : bool) (q : nat) (T : mexp q k),
    centred n m env -> fit_oracle n m p k env sp ->
    eval_mx env (transform_prog n m p k sp (inverse_prog n m k sp T))
    = eval_mx env T *m retained_mask k env.
Proof. exact roundtrip_any. Qed.
Print Assumptions C14_roundtrip_any_T.

Theorem C14_roundtrip_any_T_retained :
  forall (F : rcfType) (n m p k : nat) (env : env_mx F) (sp : bool) (q : nat) (T : mexp q k),
    centred n m env -> fit_oracle n m p k env sp -> (forall i, e_tol env < e_S k env i 0) ->
    eval_mx env (transform_prog n m p k sp (inverse_prog n m k sp T)) = eval_mx env T.
Proof. exact roundtrip_any_retained. Qed.
Print Assumptions C14_roundtrip_any_T_retained.

(* the training reconstruction and prediction are Q M Q^T X and Q M Q^T Y, M the retained
   mask and Q = V (sample space) or X C^-1/2 V (feature space), whose retained columns are
   orthonormal: an orthogonal projection in BOTH spaces, masked components included *)
Theorem C14_own_projector :
  forall (F : rcfType) (n m p k : nat) (env : env_mx F) (sp : bool),
    centred n m env -> fit_oracle n m p k env sp ->
    let T := transform_prog n m p k sp (eX n m) in
    let Q := own_Q n m k env sp in
    let P := Q *m retained_mask k env *m Q^T in
    [/\ eval_mx env (inverse_prog n m k sp T) = P *m e_X n m env,
        eval_mx env (predict_t_prog n m p k sp T) = P *m e_Y n p env
      & Q^T *m Q *m retained_mask k env = retained_mask k env].
Proof.
  exact (fun F n m p k env sp hc ho =>
           let: conj hx hy := own_projector hc ho in And3 hx hy (own_QM ho)).
Qed.
Print Assumptions C14_own_projector.

Theorem C14_own_Q_meaning :
  forall (F : rcfType) (n m k : nat) (env : env_mx F),
    own_Q n m k env true = e_Vs n k env
    /\ own_Q n m k env false
       = e_X n m env *m eval_mx env (cisqrt_prog m) *m e_Vf m k env.
Proof. by move=> F n m k env; rewrite cisqrt_formula. Qed.
Print Assumptions C14_own_Q_meaning.

(* truncating an oracle answer (U[:, :k], S[:k], Vt[:k]) gives an oracle answer, both spaces *)
Theorem C14_truncation_is_oracle :
  forall (F : rcfType) (n m p : nat) (env : env_mx F) (sp : bool) (d j : nat),
    nested_chain n m env j d -> fit_oracle n m p (j + d) env sp -> fit_oracle n m p j env sp.
Proof. exact fit_oracle_chain. Qed.
Print Assumptions C14_truncation_is_oracle.

Theorem C14_nested_chain_meaning :
  forall (F : rcfType) (n m : nat) (env : env_mx F) (j d : nat),
    (nested_chain n m env j 0 <-> True)
    /\ (nested_chain n m env j d.+1 <-> nested_oracle n m j env /\ nested_chain n m env (j + 1) d).
Proof. by []. Qed.
Print Assumptions C14_nested_chain_meaning.

(* losses never increase from k to k+1: BOTH spaces, no assumption that the components are
   retained (supersedes C14_losses_monotone_in_k, which is the case sp = true, all retained) *)
Theorem C14_losses_monotone_both_spaces :
  forall (F : rcfType) (n m p : nat) (env : env_mx F) (k : nat) (sp : bool),
    centred n m env -> nested_oracle n m k env -> fit_oracle n m p (k + 1) env sp ->
    train_loss_x_in n m p env sp (k + 1) <= train_loss_x_in n m p env sp k
    /\ train_loss_y_in n m p env sp (k + 1) <= train_loss_y_in n m p env sp k.
Proof. exact losses_monotone_all. Qed.
Print Assumptions C14_losses_monotone_both_spaces.

(* ... and hence from any j to any j + d (induction on d) *)
Theorem C14_losses_antitone :
  forall (F : rcfType) (n m p : nat) (env : env_mx F) (sp : bool) (d j : nat),
    centred n m env -> nested_chain n m env j d -> fit_oracle n m p (j + d) env sp ->
    train_loss_x_in n m p env sp (j + d) <= train_loss_x_in n m p env sp j
    /\ train_loss_y_in n m p env sp (j + d) <= train_loss_y_in n m p env sp j.
Proof. exact losses_antitone. Qed.
Print Assumptions C14_losses_antitone.

Theorem C14_train_loss_in_meaning :
  forall (F : rcfType) (n m p : nat) (env : env_mx F) (sp : bool) (j : nat),
    let T := transform_prog n m p j sp (eX n m) in
    train_loss_x_in n m p env sp j = fro2 (e_X n m env - eval_mx env (inverse_prog n m j sp T))
    /\ train_loss_y_in n m p env sp j
       = fro2 (e_Y n p env - eval_mx env (predict_t_prog n m p j sp T)).
Proof. by []. Qed.
Print Assumptions C14_train_loss_in_meaning.

(* non-vacuity of the new hypotheses: feature space, a chain of length one *)
Example C14_nonvacuous_feature_chain :
  forall (F : rcfType) (mix : F), exists env : env_mx F,
    [/\ nested_chain 2 1 env 0 1, fit_oracle 2 1 1 (0 + 1) env false, centred 2 1 env
      & e_X 2 1 env != 0].
Proof.
  exact (fun F mix =>
    let: And4 hn _ hc _ := ex_nested mix in
    let: And4 _ _ hf (And3 _ _ hx) := ex_nonvacuous mix in
    ex_intro _ (ex_env mix) (And4 (conj hn I) hf hc hx)).
Qed.
Print Assumptions C14_nonvacuous_feature_chain.

(* ... and of the MASKED branch: tol = S_1, the component is zeroed by the code, every
   hypothesis of C14_losses_monotone_both_spaces / C14_roundtrip_any_T still holds *)
Example C14_nonvacuous_masked :
  forall (F : rcfType) (mix : F), exists env : env_mx F,
    [/\ nested_chain 2 1 env 0 1, fit_oracle 2 1 1 (0 + 1) env true, centred 2 1 env
      & (forall i, ~~ (e_tol env < e_S (0 + 1) env i 0)) /\ e_X 2 1 env != 0].
Proof. exact (fun F mix => ex_intro _ (ex_env_masked mix) (ex_masked mix)). Qed.
Print Assumptions C14_nonvacuous_masked.
