(* C14 - PCovR's projectors form a consistent, orthogonal decomposition.
   Statements only; every proof is `exact <lemma>` from Proofs/.

   Model: Model/PCovR.v - the programs pxt_prog / ptx_prog / pty_prog / pxy_prog /
   transform_prog / inverse_prog / predict_x_prog / predict_t_prog / score_prog of the
   matrix-expression language [mexp]; [eval_mx env prog] is their value over an ARBITRARY
   real closed field F, for ALL shapes n (samples), m (features), p (targets), k (components),
   q (rows of new data); [sp] selects the space (true = sample, false = feature).
   [env] holds the inputs and the LAPACK oracle answers; what the theorems assume about the
   oracles is spelled out by C14_hypotheses_sample / _feature below (validated numerically on every run of
   the correspondence check).  [retained_mask k env] = diag(1 if S_i > tol else 0): the
   code zeroes the components whose eigenvalue does not exceed tol. *)
From mathcomp Require Import all_ssreflect all_algebra.
From Verif Require Import MExp MExpMx PCovR PCovRP PCovRProg KyFan C14Thm C04Thm PCovRNested PCovRExample.
Import GRing.Theory Num.Theory.
Local Open Scope ring_scope.

(* ---- what the hypotheses say ---------------------------------------------------------- *)
Theorem C14_hypotheses_sample :
  forall (F : rcfType) (n m p k : nat) (env : env_mx F),
    fit_oracle n m p k env true <->
    [/\ 0 <= e_tol env,
        (* regressor contract *) e_Yh n p env = e_X n m env *m e_W m p env
      & (* top-k eigenpairs of K~ *)
        (e_Vs n k env)^T *m e_Vs n k env = 1%:M /\
        eval_mx env (kern_prog n m p) *m e_Vs n k env = e_Vs n k env *m diag_mx (e_S k env)^T].
Proof. by []. Qed.
Print Assumptions C14_hypotheses_sample.

Theorem C14_hypotheses_feature :
  forall (F : rcfType) (n m p k : nat) (env : env_mx F),
    fit_oracle n m p k env false <->
    [/\ 0 <= e_tol env,
        (* eigh(X^T X); the eigenvalues discarded by rcond are exactly zero *)
        [/\ (e_UC m env)^T *m e_UC m env = 1%:M,
            eval_mx env (xtx_prog n m) *m e_UC m env = e_UC m env *m diag_mx (e_vC m env)^T
          & forall i, e_vC m env i 0 <= e_tol env -> e_vC m env i 0 = 0],
        (* lstsq(C^-1/2, I) satisfies the four Penrose equations *)
        penrose (eval_mx env (cisqrt_prog m)) (e_Csq m env)
      & (* top-k eigenpairs of C~ *)
        (e_Vf m k env)^T *m e_Vf m k env = 1%:M /\
        eval_mx env (cov_prog n m p) *m e_Vf m k env = e_Vf m k env *m diag_mx (e_S k env)^T].
Proof. by []. Qed.
Print Assumptions C14_hypotheses_feature.

Theorem C14_hypothesis_centred :
  forall (F : rcfType) (n m : nat) (env : env_mx F),
    centred n m env <-> (const_mx 1 : 'rV[F]_n) *m e_X n m env = 0.
Proof. by []. Qed.
Print Assumptions C14_hypothesis_centred.

Theorem C14_mask_meaning :
  forall (F : rcfType) (k : nat) (env : env_mx F) i j,
    retained_mask k env i j = (if e_tol env < e_S k env i 0 then 1 else 0) *+ (i == j).
Proof. exact mask_meaning. Qed.
Print Assumptions C14_mask_meaning.

(* ---- round trip: ptx_ @ pxt_ is the identity on the retained components, both spaces -- *)
Theorem C14_roundtrip :
  forall (F : rcfType) (n m p k : nat) (env : env_mx F) (sp : bool),
    fit_oracle n m p k env sp ->
    eval_mx env (ptx_prog n m k sp) *m eval_mx env (pxt_prog n m p k sp) = retained_mask k env.
Proof. exact roundtrip_prog. Qed.
Print Assumptions C14_roundtrip.

Theorem C14_roundtrip_identity :
  forall (F : rcfType) (n m p k : nat) (env : env_mx F) (sp : bool),
    fit_oracle n m p k env sp -> (forall i, e_tol env < e_S k env i 0) ->
    eval_mx env (ptx_prog n m k sp) *m eval_mx env (pxt_prog n m p k sp) = 1%:M.
Proof. exact roundtrip_prog_id. Qed.
Print Assumptions C14_roundtrip_identity.

(* transform(inverse_transform(T)) = T for every T = transform(Z), Z arbitrary new data
   (also when some components are masked) *)
Theorem C14_roundtrip_transform :
  forall (F : rcfType) (n m p k : nat) (env : env_mx F) (sp : bool) (q : nat) (Z : mexp q m),
    centred n m env -> fit_oracle n m p k env sp ->
    let T := transform_prog n m p k sp Z in
    eval_mx env (transform_prog n m p k sp (inverse_prog n m k sp T)) = eval_mx env T.
Proof. exact roundtrip_idempotent. Qed.
Print Assumptions C14_roundtrip_transform.

(* ---- the training scores are orthogonal, squared norms = retained eigenvalues ----------- *)
Theorem C14_orthogonal_scores :
  forall (F : rcfType) (n m p k : nat) (env : env_mx F) (sp : bool),
    centred n m env -> fit_oracle n m p k env sp ->
    let T := eval_mx env (transform_prog n m p k sp (eX n m)) in
    T^T *m T = diag_mx (\row_i (if e_tol env < e_S k env i 0 then e_S k env i 0 else 0)).
Proof. exact orthogonal_scores. Qed.
Print Assumptions C14_orthogonal_scores.

(* ---- transform(Z) = Z pxt_ and predict(Z) = predict(T = transform(Z)) on centred data --- *)
Theorem C14_transform_is_projection :
  forall (F : rcfType) (n m p k : nat) (env : env_mx F) (sp : bool) (q : nat) (Z : mexp q m),
    centred n m env ->
    eval_mx env (transform_prog n m p k sp Z)
    = eval_mx env Z *m eval_mx env (pxt_prog n m p k sp).
Proof. exact transform_is_projection. Qed.
Print Assumptions C14_transform_is_projection.

Theorem C14_predict_consistent :
  forall (F : rcfType) (n m p k : nat) (env : env_mx F) (sp : bool) (q : nat) (Z : mexp q m),
    centred n m env ->
    eval_mx env (predict_t_prog n m p k sp (transform_prog n m p k sp Z))
    = eval_mx env (predict_x_prog n m p k sp Z).
Proof. exact predict_consistent. Qed.
Print Assumptions C14_predict_consistent.

(* without centring the two differ exactly by the mean term (transform subtracts mean_,
   predict(X) does not - as the code is written) *)
Theorem C14_predict_consistent_general :
  forall (F : rcfType) (n m p k : nat) (env : env_mx F) (sp : bool) (q : nat) (Z : mexp q m),
    eval_mx env (predict_t_prog n m p k sp (transform_prog n m p k sp Z))
    = eval_mx env (predict_x_prog n m p k sp Z)
      - const_mx 1 *m (e_mean n m env *m eval_mx env (pxy_prog n m p k sp)).
Proof. exact predict_consistent_general. Qed.
Print Assumptions C14_predict_consistent_general.

(* ---- score = -(l_X + l_Y), the two relative squared Frobenius losses -------------------- *)
Theorem C14_score :
  forall (F : rcfType) (n m p k : nat) (env : env_mx F) (sp : bool) (q : nat)
         (Z : mexp q m) (Yz : mexp q p),
    let T := transform_prog n m p k sp Z in
    let lx := fro2 (eval_mx env Z - eval_mx env (inverse_prog n m k sp T)) / fro2 (eval_mx env Z) in
    let ly := fro2 (eval_mx env Yz - eval_mx env (predict_t_prog n m p k sp T))
              / fro2 (eval_mx env Yz) in
    (eval_mx env (score_prog n m p k sp Z Yz)) ord0 ord0 = - (lx + ly).
Proof. exact score_formula. Qed.
Print Assumptions C14_score.

(* ---- nestedness (full solver): the oracle answer for k components is the truncation
   U[:, :k], S[:k], Vt[:k] of the answer for k+1 (as _decompose_full does); then the
   projectors for k are the first k columns / rows of those for k+1, both spaces ------------ *)
Theorem C14_nested_hypothesis :
  forall (F : rcfType) (n m k : nat) (env : env_mx F),
    nested_oracle n m k env <->
    [/\ e_Vs n k env = lsubmx (e_Vs n (k + 1) env), e_Vf m k env = lsubmx (e_Vf m (k + 1) env)
      & e_S k env = usubmx (e_S (k + 1) env)].
Proof. by []. Qed.
Print Assumptions C14_nested_hypothesis.

Theorem C14_nested :
  forall (F : rcfType) (n m p k : nat) (env : env_mx F) (sp : bool),
    nested_oracle n m k env ->
    [/\ eval_mx env (pxt_prog n m p k sp) = lsubmx (eval_mx env (pxt_prog n m p (k + 1) sp)),
        eval_mx env (ptx_prog n m k sp) = usubmx (eval_mx env (ptx_prog n m (k + 1) sp))
      & eval_mx env (pty_prog n m p k sp) = usubmx (eval_mx env (pty_prog n m p (k + 1) sp))].
Proof. exact nested_all. Qed.
Print Assumptions C14_nested.

(* ... so the training losses |X - inverse_transform(T)|^2 and |Y - predict(T=T)|^2 never
   increase from k to k+1 (Pythagoras on the orthonormal eigenvectors) *)
Theorem C14_losses_monotone_in_k :
  forall (F : rcfType) (n m p k : nat) (env : env_mx F),
    centred n m env -> nested_oracle n m k env -> fit_oracle n m p (k + 1) env true ->
    (forall i, e_tol env < e_S (k + 1) env i 0) ->
    train_loss_x n m p env (k + 1) <= train_loss_x n m p env k
    /\ train_loss_y n m p env (k + 1) <= train_loss_y n m p env k.
Proof. exact losses_monotone_in_k. Qed.
Print Assumptions C14_losses_monotone_in_k.

Theorem C14_train_loss_meaning :
  forall (F : rcfType) (n m p : nat) (env : env_mx F) (j : nat),
    let T := transform_prog n m p j true (eX n m) in
    train_loss_x n m p env j = fro2 (e_X n m env - eval_mx env (inverse_prog n m j true T))
    /\ train_loss_y n m p env j = fro2 (e_Y n p env - eval_mx env (predict_t_prog n m p j true T)).
Proof. by []. Qed.
Print Assumptions C14_train_loss_meaning.

Example C14_nonvacuous_nested :
  forall (F : rcfType) (mix : F), exists env : env_mx F,
    [/\ nested_oracle 2 1 0 env, fit_oracle 2 1 1 (0 + 1) env true, centred 2 1 env
      & forall i, e_tol env < e_S (0 + 1) env i 0].
Proof. exact (fun F mix => ex_intro _ (ex_env mix) (ex_nested mix)). Qed.
Print Assumptions C14_nonvacuous_nested.

(* ---- the hypotheses are satisfiable, non-trivially, in both spaces, over every field and
   for every value of the mixing ------------------------------------------------------------ *)
Example C14_nonvacuous :
  forall (F : rcfType) (mix : F), exists env : env_mx F,
    [/\ centred 2 1 env, fit_oracle 2 1 1 1 env true, fit_oracle 2 1 1 1 env false
      & [/\ forall i, e_tol env < e_S 1 env i 0, e_a env = mix & e_X 2 1 env != 0]].
Proof. exact (fun F mix => ex_intro _ (ex_env mix) (ex_nonvacuous mix)). Qed.
Print Assumptions C14_nonvacuous.
