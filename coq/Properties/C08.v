(* C08 — greedy selection is history independent (prefix, restart, warm start).
   The loop theorems are generic in the scorer (any state type, score function and update
   with an invariant [P] that keeps one score per candidate); they are then instantiated for
   plain FPS / PCov-FPS (exact distance-table model), Voronoi FPS (cell bookkeeping included)
   and oracle-stream scorers (CUR family: conditional on the restart presenting the same
   scores, which the correspondence run checks on the implementation). Equality below is
   equality of the WHOLE selector state: selections, stored rows/columns and targets,
   distance tables, distances at selection. *)
From Verif Require Import ListX Greedy FPS Voronoi Select ListXP GreedyP FPSP FPSInst GeomP
  VoronoiP SimP SelectP HistoryP C02Thm C01Thm C08Thm SelSession SelSessionP CURWarm CURWarmP.

(* requesting a+b selections = requesting a, then continuing with b more (any scorer) *)
Theorem C08_run_add :
  forall S score upd cand ycand a b g,
    fst (run S score upd cand ycand NoThr (a + b) g)
    = fst (run S score upd cand ycand NoThr b (fst (run S score upd cand ycand NoThr a g))).
Proof. exact run_add. Qed.
Print Assumptions C08_run_add.

(* the first selections do not depend on how many more are requested *)
Theorem C08_prefix :
  forall S score upd cand ycand (P : S -> Prop),
    (forall s, P s -> length (score s) = length cand) ->
    (forall s i, P s -> (i < length cand)%nat -> P (upd s i)) ->
    forall a b g, GInv S cand ycand P g ->
    exists new, sel (fst (run S score upd cand ycand NoThr (a + b) g))
                = sel (fst (run S score upd cand ycand NoThr a g)) ++ new.
Proof. exact prefix_independent. Qed.
Print Assumptions C08_prefix.

(* EVERY non-decreasing schedule of warm-started fits n1 <= ... <= nr ends in exactly the state
   of the single fit with nr (induction over the schedule; no bound on its length) *)
Theorem C08_chain_equals_cold :
  forall S score upd cand ycand (P : S -> Prop),
    (forall s, P s -> length (score s) = length cand) ->
    (forall s i, P s -> (i < length cand)%nat -> P (upd s i)) ->
    forall g sched nr, GInv S cand ycand P g ->
    nondecreasing_from (length (sel g)) (sched ++ [nr]) -> (nr <= length cand)%nat ->
    chain S score upd cand ycand g (sched ++ [nr])
    = fst (run S score upd cand ycand NoThr (nr - length (sel g)) g).
Proof. exact chain_equals_cold. Qed.
Print Assumptions C08_chain_equals_cold.

(* thresholds that are set but never reached do not change the outcome *)
Theorem C08_threshold_unreached :
  forall S score upd cand ycand t k g h g',
    same4 S g h -> run S score upd cand ycand t k g = (g', false) ->
    same4 S g' (fst (run S score upd cand ycand NoThr k h)).
Proof. exact thr_unreached. Qed.
Print Assumptions C08_threshold_unreached.

(* instances *)
Theorem C08_fps_chain :
  forall cs d ycand, dims d cs -> forall g sched nr,
    GInv dst cs ycand (FP cs) g -> nondecreasing_from (length (sel g)) (sched ++ [nr]) ->
    (nr <= length cs)%nat ->
    fps_chain cs ycand g (sched ++ [nr]) = fst (fps_run cs ycand NoThr nr g).
Proof. exact fps_chain_equals_cold. Qed.
Print Assumptions C08_fps_chain.

Theorem C08_voronoi_chain :
  forall cs d ycand, dims d cs -> forall br g sched nr,
    GInv vst cs ycand (VP cs) g -> nondecreasing_from (length (sel g)) (sched ++ [nr]) ->
    (nr <= length cs)%nat ->
    vor_chain cs ycand br g (sched ++ [nr]) = fst (vor_run cs br ycand NoThr nr g).
Proof. exact vor_chain_equals_cold. Qed.
Print Assumptions C08_voronoi_chain.

Theorem C08_stream_chain :
  forall cand ycand g sched nr,
    GInv stream cand ycand (SP cand) g ->
    nondecreasing_from (length (sel g)) (sched ++ [nr]) -> (nr <= length cand)%nat ->
    s_chain cand ycand g (sched ++ [nr])
    = fst (s_run cand ycand NoThr (nr - length (sel g)) g).
Proof. exact stream_chain_equals_cold. Qed.
Print Assumptions C08_stream_chain.

(* FPS initialised with the prefix it selected itself is in exactly the state the cold fit
   had at that point, hence continues identically *)
Theorem C08_fps_init_prefix :
  forall cs ycand i0 k,
    let g := fst (fps_fit cs ycand [i0] NoThr k) in fps_init cs ycand (sel g) = g.
Proof. exact fps_init_prefix. Qed.
Print Assumptions C08_fps_init_prefix.

Theorem C08_fps_init_prefix_continues :
  forall cs ycand i0 k m,
    let g := fst (fps_fit cs ycand [i0] NoThr k) in
    fst (fps_fit cs ycand (sel g) NoThr m) = fst (fps_run cs ycand NoThr m g).
Proof. exact fps_init_prefix_continues. Qed.
Print Assumptions C08_fps_init_prefix_continues.

(* warm_start on a never-fitted selector (or one without selections) is rejected *)
Theorem C08_warm_unfitted_rejected :
  forall cand ycand prev c inits str,
    c_warm c = true -> (prev = None \/ exists g0, prev = Some g0 /\ sel g0 = []) ->
    sfit cand ycand prev c inits str = Rejected.
Proof.
  exact (fun cand ycand prev c inits str Hw Hp =>
           c01_rejections cand ycand prev c inits str (or_intror (or_intror (conj Hw Hp)))).
Qed.
Print Assumptions C08_warm_unfitted_rejected.

Example C08_nonvacuous :
  let cs := [[0;0];[3;0];[0;4];[1;1];[5;5]] in
  fps_chain cs None (fps_init cs None [0%nat]) [2; 3; 5]%nat
  = fst (fps_run cs None NoThr 5 (fps_init cs None [0%nat])) /\
  sel (fst (fps_run cs None NoThr 5 (fps_init cs None [0%nat]))) = [0; 4; 2; 1; 3]%nat.
Proof. cbv zeta. split; vm_compute; reflexivity. Qed.

(* ==== Extension (round 3) ======================================================================
   (1) SESSIONS: any sequence of calls on one object -- cold fits, warm starts, calls that raise,
       set_params in between (Model/SelSession.v).
   (2) The CUR family as an object with its residual matrix, INCLUDING the warm-start path
       (_continue_greedy_search: guarded re-orthogonalisation loop, score recomputation) and a
       change of recompute_every between two fits (Model/CURWarm.v; the linear algebra is
       abstract and enters through the stated laws). *)

(* calls of fit that are rejected leave no trace: deleting them from a session does not change
   the state it ends in (so a chain of warm starts interleaved with failed calls is a chain) *)
Theorem C08_session_rejected_calls_leave_no_trace :
  forall cand ycand evs o,
    sess_run cand ycand o (sess_kept cand ycand o evs) = sess_run cand ycand o evs.
Proof. exact sess_drop_rejected. Qed.
Print Assumptions C08_session_rejected_calls_leave_no_trace.

(* warm_start is rejected after ANY history in which no call of fit has returned with a
   selection: a new object, calls rejected by validation, cold fits that raised while making
   their initial selections, set_params in between -- sessions of any length *)
Theorem C08_session_never_fitted_rejected :
  forall cand ycand evs c r str,
    never_returned cand ycand None evs = true -> Select.c_warm c = true ->
    sess_fit cand ycand (sess_run cand ycand None evs) c r str
    = (sess_run cand ycand None evs, RPre).
Proof. exact sess_never_fitted_rejected. Qed.
Print Assumptions C08_session_never_fitted_rejected.

(* ... in particular directly after a cold fit that raised inside _init_greedy_search, also on
   an object that had been fitted before *)
Theorem C08_session_failed_init_then_warm_rejected :
  forall cand ycand o c r str c' r' str',
    snd (sess_fit cand ycand o c r str) = RInit -> Select.c_warm c' = true ->
    snd (sess_fit cand ycand (fst (sess_fit cand ycand o c r str)) c' r' str') = RPre.
Proof. exact sess_failed_init_then_warm. Qed.
Print Assumptions C08_session_failed_init_then_warm_rejected.

(* a warm start whose request resolves to FEWER items than are already selected is rejected and
   leaves the object as it was *)
Theorem C08_session_shrinking_warm_rejected :
  forall cand ycand g c r str k,
    c_full c && has_thr (c_thr c) = false -> resolve_n (length cand) (c_nts c) = Some k ->
    Select.c_warm c = true -> (k < length (sel g))%nat ->
    sess_fit cand ycand (Some g) c r str = (Some g, RPre).
Proof. exact sess_shrinking_warm_rejected. Qed.
Print Assumptions C08_session_shrinking_warm_rejected.

(* a cold fit does not see the history of the object (what it returns, and the state it leaves
   unless it is rejected before touching the object) *)
Theorem C08_session_cold_fit_history_free :
  forall cand ycand o c r str,
    Select.c_warm c = false ->
    snd (sess_fit cand ycand o c r str) = snd (sess_fit cand ycand None c r str) /\
    (snd (sess_fit cand ycand o c r str) <> RPre ->
     fst (sess_fit cand ycand o c r str) = fst (sess_fit cand ycand None c r str)).
Proof. exact sess_cold_history_free. Qed.
Print Assumptions C08_session_cold_fit_history_free.

(* CUR family, recompute_every in {0,1}: cold fit with k0, then EVERY non-decreasing schedule of
   warm-started fits -- each running the guarded re-orthogonalisation loop over the selected
   items and recomputing the scores -- ends equivalent to the single cold fit with the last
   value: same selections, stored data, first_score_, residual matrix, counters, and the same
   score on every item that can still be selected ([g_equiv]). *)
Theorem C08_cur_fits_equal_cold :
  forall (M : Type) (orth : M -> list nat -> nat -> M) (pi_of : M -> list Z)
         (stale : M -> nat -> bool) cand ycand,
    (forall x, length (pi_of x) = length cand) ->
    (forall x l i, stale (orth x l i) i = false) ->
    (forall x l i c, stale x c = false -> stale (orth x l i) c = false) ->
    forall re X k0 sched nr,
      (re <= 1)%nat -> nondecreasing_from k0 (sched ++ [nr]) -> (nr <= length cand)%nat ->
      g_equiv M
        (cu_chain M orth pi_of stale cand ycand re
           (fst (cu_run M orth pi_of cand ycand re NoThr k0 (cu_g0 M pi_of X))) (sched ++ [nr]))
        (fst (cu_run M orth pi_of cand ycand re NoThr nr (cu_g0 M pi_of X))).
Proof. exact cur_fits_equal_cold. Qed.
Print Assumptions C08_cur_fits_equal_cold.

(* the same from any reachable pair of equivalent objects (the invariant [J]: the scores held
   are those of the residual off the selected items; no selected item is stale) *)
Theorem C08_cur_chain_equals_cold :
  forall (M : Type) (orth : M -> list nat -> nat -> M) (pi_of : M -> list Z)
         (stale : M -> nat -> bool) cand ycand,
    (forall x, length (pi_of x) = length cand) ->
    (forall x l i, stale (orth x l i) i = false) ->
    (forall x l i c, stale x c = false -> stale (orth x l i) c = false) ->
    forall re, (re <= 1)%nat ->
    forall sched g h nr,
      g_equiv M g h -> GInv (cur M) cand ycand (CP M cand) h ->
      J M pi_of stale cand re (sst h) (sel h) ->
      nondecreasing_from (length (sel h)) (sched ++ [nr]) -> (nr <= length cand)%nat ->
      g_equiv M (cu_chain M orth pi_of stale cand ycand re g (sched ++ [nr]))
                (fst (cu_run M orth pi_of cand ycand re NoThr (nr - length (sel h)) h)).
Proof. exact cur_chain_equals_cold. Qed.
Print Assumptions C08_cur_chain_equals_cold.

(* equivalent objects make the same further selections, for every recompute_every and threshold *)
Theorem C08_cur_equivalent_objects_continue_alike :
  forall (M : Type) (orth : M -> list nat -> nat -> M) (pi_of : M -> list Z) cand ycand
         re t k g1 g2,
    g_equiv M g1 g2 ->
    g_equiv M (fst (cu_run M orth pi_of cand ycand re t k g1))
              (fst (cu_run M orth pi_of cand ycand re t k g2)) /\
    snd (cu_run M orth pi_of cand ycand re t k g1) = snd (cu_run M orth pi_of cand ycand re t k g2).
Proof. exact run_equiv. Qed.
Print Assumptions C08_cur_equivalent_objects_continue_alike.

(* set_params(recompute_every=1) after a fit with recompute_every=0, then a warm start: the
   selector continues exactly as a recompute_every=1 selector that had made the same selections
   (the CUR analogue of initialising FPS with the selected prefix).  [orth] must not read the
   result buffers (true of _CUR; _PCovCUR reads X_selected_/y_selected_ for y_current_). *)
Theorem C08_cur_switch_recompute_every :
  forall (M : Type) (orth : M -> list nat -> nat -> M) (pi_of : M -> list Z)
         (stale : M -> nat -> bool) cand ycand,
    (forall x, length (pi_of x) = length cand) ->
    (forall x l l' c, orth x l c = orth x l' c) ->
    (forall x l c, stale x c = false -> orth x l c = x) ->
    forall X k0 k,
      let g0 := fst (cu_run M orth pi_of cand ycand 0 NoThr k0 (cu_g0 M pi_of X)) in
      g_equiv M (cu_warm_fit M orth pi_of stale cand ycand 1 k g0)
                (fst (cu_run M orth pi_of cand ycand 1 NoThr (k - length (sel g0))
                             (cu_forced M orth pi_of cand ycand 1 X (sel g0)))).
Proof. exact switch_fit. Qed.
Print Assumptions C08_cur_switch_recompute_every.

(* non-vacuity.  Sessions: warm start on a new object; a cold fit whose initialisation list is
   longer than n_to_select; the warm start after it; the cold fit after that equals a fresh one. *)
Example C08_session_nonvacuous :
  let cs := [[0;0];[3;0];[0;4];[1;1];[5;5]] in
  let warm k := mk_cfg (NtsInt k) NoThr false true in
  let cold k := mk_cfg (NtsInt k) NoThr false false in
  let str := [[0;9;16;2;50];[0;0;16;2;25]] in
  let evs := [EFit (warm 3) (InitIdx [0]) str; ESet; EFit (cold 2) (InitIdx [0;1;2]) str; EPre;
              EFit (warm 4) (InitIdx [0]) str] in
  never_returned cs None None evs = true /\
  sess_run cs None None evs = Some g_reset /\
  (exists g, sess_fit cs None (sess_run cs None None evs) (cold 3) (InitIdx [0]) str
             = (Some g, ROk g false) /\ sel g = [0; 4; 2]%nat).
Proof. cbv zeta. split; [vm_compute; reflexivity|]. split; [vm_compute; reflexivity|].
       eexists. split; vm_compute; reflexivity. Qed.

(* CUR object: the toy instance of the laws (Proofs/CURWarmP.v); a chain with recompute_every=1
   and the switch 0 -> 1 evaluated *)
Example C08_cur_nonvacuous :
  let cs := [[1];[2];[3];[4];[5]] in
  let X := [3; 9; 4; 7; 5] in
  let fit re k := fst (cu_run (list Z) toy_orth (fun x => x) cs None re NoThr k (cu_g0 (list Z) (fun x => x) X)) in
  sel (cu_chain (list Z) toy_orth (fun x => x) toy_stale cs None 1 (fit 1%nat 1%nat) [2; 4]%nat) = [1; 3; 4; 2]%nat /\
  sel (fit 1%nat 4%nat) = [1; 3; 4; 2]%nat /\
  sel (cu_warm_fit (list Z) toy_orth (fun x => x) toy_stale cs None 1 4 (fit 0%nat 2%nat)) = [1; 3; 4; 2]%nat /\
  xc (sst (cu_warm_fit (list Z) toy_orth (fun x => x) toy_stale cs None 1 4 (fit 0%nat 2%nat))) = [3; 0; 0; 0; 0].
Proof. cbv zeta. repeat split; vm_compute; reflexivity. Qed.
