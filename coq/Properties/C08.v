(* C08 — greedy selection is history independent (prefix, restart, warm start).
   The loop theorems are generic in the scorer (any state type, score function and update
   with an invariant [P] that keeps one score per candidate); they are then instantiated for
   plain FPS / PCov-FPS (exact distance-table model), Voronoi FPS (cell bookkeeping included)
   and oracle-stream scorers (CUR family: conditional on the restart presenting the same
   scores, which the correspondence run checks on the implementation). Equality below is
   equality of the WHOLE selector state: selections, stored rows/columns and targets,
   distance tables, distances at selection. *)
From Verif Require Import ListX Greedy FPS Voronoi Select ListXP GreedyP FPSP FPSInst GeomP
  VoronoiP SimP SelectP HistoryP C02Thm C01Thm C08Thm.

(* requesting a+b selections = requesting a, then continuing with b more (any scorer) *)
Theorem C08_run_add :
  forall S score upd cand ycand a b g,
    fst (run S score upd cand ycand NoThr (a + b) g)
    = fst (run S score upd cand ycand NoThr b (fst (run S score upd cand ycand NoThr a g))).
Proof. exact run_add. Qed.
Print Assumptions C08_run_add.

(* the first selections do not depend on how many more are requested *)
Theorem C08_prefix :
  forall S score upd cand ycand (P : S -> Prop),
    (forall s, P s -> length (score s) = length cand) ->
    (forall s i, P s -> (i < length cand)%nat -> P (upd s i)) ->
    forall a b g, GInv S cand ycand P g ->
    exists new, sel (fst (run S score upd cand ycand NoThr (a + b) g))
                = sel (fst (run S score upd cand ycand NoThr a g)) ++ new.
Proof. exact prefix_independent. Qed.
Print Assumptions C08_prefix.

(* EVERY non-decreasing schedule of warm-started fits n1 <= ... <= nr ends in exactly the state
   of the single fit with nr (induction over the schedule; no bound on its length) *)
Theorem C08_chain_equals_cold :
  forall S score upd cand ycand (P : S -> Prop),
    (forall s, P s -> length (score s) = length cand) ->
    (forall s i, P s -> (i < length cand)%nat -> P (upd s i)) ->
    forall g sched nr, GInv S cand ycand P g ->
    nondecreasing_from (length (sel g)) (sched ++ [nr]) -> (nr <= length cand)%nat ->
    chain S score upd cand ycand g (sched ++ [nr])
    = fst (run S score upd cand ycand NoThr (nr - length (sel g)) g).
Proof. exact chain_equals_cold. Qed.
Print Assumptions C08_chain_equals_cold.

(* thresholds that are set but never reached do not change the outcome *)
Theorem C08_threshold_unreached :
  forall S score upd cand ycand t k g h g',
    same4 S g h -> run S score upd cand ycand t k g = (g', false) ->
    same4 S g' (fst (run S score upd cand ycand NoThr k h)).
Proof. exact thr_unreached. Qed.
Print Assumptions C08_threshold_unreached.

(* instances *)
Theorem C08_fps_chain :
  forall cs d ycand, dims d cs -> forall g sched nr,
    GInv dst cs ycand (FP cs) g -> nondecreasing_from (length (sel g)) (sched ++ [nr]) ->
    (nr <= length cs)%nat ->
    fps_chain cs ycand g (sched ++ [nr]) = fst (fps_run cs ycand NoThr nr g).
Proof. exact fps_chain_equals_cold. Qed.
Print Assumptions C08_fps_chain.

Theorem C08_voronoi_chain :
  forall cs d ycand, dims d cs -> forall br g sched nr,
    GInv vst cs ycand (VP cs) g -> nondecreasing_from (length (sel g)) (sched ++ [nr]) ->
    (nr <= length cs)%nat ->
    vor_chain cs ycand br g (sched ++ [nr]) = fst (vor_run cs br ycand NoThr nr g).
Proof. exact vor_chain_equals_cold. Qed.
Print Assumptions C08_voronoi_chain.

Theorem C08_stream_chain :
  forall cand ycand g sched nr,
    GInv stream cand ycand (SP cand) g ->
    nondecreasing_from (length (sel g)) (sched ++ [nr]) -> (nr <= length cand)%nat ->
    s_chain cand ycand g (sched ++ [nr])
    = fst (s_run cand ycand NoThr (nr - length (sel g)) g).
Proof. exact stream_chain_equals_cold. Qed.
Print Assumptions C08_stream_chain.

(* FPS initialised with the prefix it selected itself is in exactly the state the cold fit
   had at that point, hence continues identically *)
Theorem C08_fps_init_prefix :
  forall cs ycand i0 k,
    let g := fst (fps_fit cs ycand [i0] NoThr k) in fps_init cs ycand (sel g) = g.
Proof. exact fps_init_prefix. Qed.
Print Assumptions C08_fps_init_prefix.

Theorem C08_fps_init_prefix_continues :
  forall cs ycand i0 k m,
    let g := fst (fps_fit cs ycand [i0] NoThr k) in
    fst (fps_fit cs ycand (sel g) NoThr m) = fst (fps_run cs ycand NoThr m g).
Proof. exact fps_init_prefix_continues. Qed.
Print Assumptions C08_fps_init_prefix_continues.

(* warm_start on a never-fitted selector (or one without selections) is rejected *)
Theorem C08_warm_unfitted_rejected :
  forall cand ycand prev c inits str,
    c_warm c = true -> (prev = None \/ exists g0, prev = Some g0 /\ sel g0 = []) ->
    sfit cand ycand prev c inits str = Rejected.
Proof.
  exact (fun cand ycand prev c inits str Hw Hp =>
           c01_rejections cand ycand prev c inits str (or_intror (or_intror (conj Hw Hp)))).
Qed.
Print Assumptions C08_warm_unfitted_rejected.

Example C08_nonvacuous :
  let cs := [[0;0];[3;0];[0;4];[1;1];[5;5]] in
  fps_chain cs None (fps_init cs None [0%nat]) [2; 3; 5]%nat
  = fst (fps_run cs None NoThr 5 (fps_init cs None [0%nat])) /\
  sel (fst (fps_run cs None NoThr 5 (fps_init cs None [0%nat]))) = [0; 4; 2; 1; 3]%nat.
Proof. cbv zeta. split; vm_compute; reflexivity. Qed.
