(* C07 - CUR and PCov-CUR select by leverage score on the orthogonalised residual.
   Statements only; every proof is `exact <lemma>` from Proofs/CURSchedP.v (layer D, stdlib
   style) or Proofs/CURLoopP.v (layer A, ssreflect style).

   Layer D (Model/CURSched.v): the refresh schedule, the zeroing pi_[last] = 0 and the masked
   first arg-max of _CUR / _PCovCUR as a scorer of the generic greedy loop [run] of
   Model/Greedy.v.  The importance vectors computed by _compute_pi are an arbitrary stream [R]
   of integer vectors (order-preserving codes of the binary64 scores).
     [c_run re cand t k g]  the loop `for n in range(k)` with recompute_every = re and score
                            threshold t, from state g;  [g_cold R] = state after
                            _init_greedy_search;  [g_warm g] = after _continue_greedy_search
     [best_wrt n V chosen i]  i < n is not in [chosen] and is the FIRST maximiser of V among the
                            items not in [chosen]
     [force_idx re j]       = j / re (re <> 0), 0 (re = 0): number of the refresh vector in force
                            when the j-th selection of a cold start is made
     [idx_steps re m c k]   the same for a loop that starts with m selections and vector number c

   Layer A (Model/CURLoop.v, Model/CURLoopMx.v): X_orthogonalizer, Y_feature_orthogonalizer,
   Y_sample_orthogonalizer and the importance score as [mexp] programs; the theorems are about
   their interpretation [eval_mx] over an ARBITRARY real closed field F and ALL shapes.
   LAPACK / ARPACK answers (pinv, lstsq, eigh, svds, eigsh) are variables constrained by the
   hypotheses spelled out in each statement; the correspondence check validates them numerically
   on every run. *)
From Verif Require Import ListX Greedy GreedyP CURSched CURSchedP.

(* ---- layer D --------------------------------------------------------------------------- *)

(* Cold start, EVERY number of candidates n, EVERY recompute_every, EVERY score threshold, ANY
   number of steps k: the j-th selection is the first maximiser, among the items not selected
   before it, of the refresh vector number j / recompute_every (0 when recompute_every = 0) -
   i.e. of the importance score as of the most recent refresh - and the stream is never
   exhausted (c_ok). *)
Theorem C07_step_argmax :
  forall (n re : nat) (R : list (list Z)) (t : thr) (k : nat) (g' : gst cst) (st : bool),
    Forall (fun r => length r = n) R ->
    (force_idx re k < length R)%nat ->
    c_run re (repeat [] n) t k (g_cold R) = (g', st) ->
    (length (sel g') <= k)%nat /\ (st = false -> length (sel g') = k) /\
    c_ok (sst g') = true /\
    forall j, (j < length (sel g'))%nat ->
      best_wrt n (nth (force_idx re j) R []) (firstn j (sel g')) (nth j (sel g') O).
Proof. exact step_argmax_cold. Qed.
Print Assumptions C07_step_argmax.

(* Warm start from any consistent state: the next refresh vector is loaded (whatever
   recompute_every is, nothing is zeroed) and the same schedule continues, counting ALL
   selections made so far. *)
Theorem C07_step_argmax_warm :
  forall (n re : nat) (t : thr) (k : nat) (g g' : gst cst) (st : bool),
    let cand := repeat (@nil Z) n in
    let R := c_vec (c_warm (sst g)) :: c_rest (c_warm (sst g)) in
    GInv cst cand None (cP cand) g -> c_nsel (sst g) = length (sel g) ->
    c_rest (sst g) <> [] ->
    (idx_after re (length (sel g)) 0 k < length R)%nat ->
    c_run re cand t k (g_warm g) = (g', st) ->
    exists new, sel g' = sel g ++ new /\ (length new <= k)%nat /\ (st = false -> length new = k) /\
      c_ok (sst g') = c_ok (sst g) /\
      forall j, (j < length new)%nat ->
        best_wrt n (nth (nth j (idx_steps re (length (sel g)) 0 k) O) R [])
                 (sel g ++ firstn j new) (nth j new O).
Proof. exact step_argmax_warm. Qed.
Print Assumptions C07_step_argmax_warm.

(* the schedule in closed form *)
Theorem C07_schedule_closed_form :
  forall re m k, re <> O ->
    idx_steps re m (m / re) k = map (fun j => ((m + j) / re)%nat) (seq 0 k) /\
    idx_after re m (m / re) k = ((m + k) / re)%nat.
Proof. exact schedule_closed_form. Qed.
Print Assumptions C07_schedule_closed_form.

Theorem C07_schedule_never :
  forall m c k, idx_steps 0 m c k = repeat c k /\ idx_after 0 m c k = c.
Proof. exact schedule_never. Qed.
Print Assumptions C07_schedule_never.

(* non-vacuity: three candidates, recompute_every = 2, three steps; the second selection is taken
   on the stale first vector (item 0, 7 > 5 although the later vector prefers item 2) *)
Example C07_nonvacuous_schedule :
  let R := [[5; 9; 7]; [1; 0; 3]] in
  Forall (fun r => length r = 3%nat) R /\ (force_idx 2 3 < length R)%nat /\
  sel (fst (c_run 2 (repeat [] 3) NoThr 3 (g_cold R))) = [1; 2; 0]%nat /\
  c_trace 2 (repeat [] 3) NoThr 3 (g_cold R) = [[5; 9; 7]; [5; 0; 7]; [1; 0; 0]].
Proof. exact nonvacuous_schedule. Qed.


(* ---- layer D, histories on ONE estimator object (Model/CURHistSched.v) ---------------------
   A history is a list of stages (recompute_every, n_to_select): the first is a cold fit, every
   later one is  set_params(recompute_every=re, n_to_select=k); fit(X, y, warm_start=True).
     [h_fit cand R sts]  final loop state and everything presented to the arg-max
     [h_idx sts]         number (in the stream R of refresh vectors) of the vector in force at each
                         selection: within a fit the schedule of THAT fit's recompute_every on the
                         global counter n_selected_; every warm start loads the next vector
     [h_last sts]        number of the last vector consumed
     [stages_ok n 0 sts] the n_to_select never decrease and never exceed the number of candidates
   EVERY number of candidates, EVERY history (any number of fits, any recompute_every per fit,
   incl. 0 -> non-zero and back, warm starts that add no selection): each selection is the first
   maximiser, among the items not selected before it, of the vector in force; all fits complete;
   exactly the vectors 0 .. h_last are consumed. *)
From Verif Require Import CURHistSched CURHistSchedP.

Theorem C07_history_argmax :
  forall (n : nat) (R : list (list Z)) (sts : list (nat * nat)) (g' : gst cst) (tr : list (list Z)),
    Forall (fun r => length r = n) R ->
    sts <> [] -> stages_ok n 0 sts ->
    (h_last sts < length R)%nat ->
    h_fit (repeat [] n) R sts = (g', tr) ->
    length (sel g') = length (h_idx sts) /\
    c_ok (sst g') = true /\
    c_rest (sst g') = skipn (S (h_last sts)) R /\
    forall j, (j < length (sel g'))%nat ->
      best_wrt n (nth (nth j (h_idx sts) O) R []) (firstn j (sel g')) (nth j (sel g') O).
Proof. exact history_argmax. Qed.
Print Assumptions C07_history_argmax.

(* non-vacuity: fit 1 with recompute_every = 0 selects two items on the first vector (the second
   on the stale score); set_params(recompute_every=1, n_to_select=3) + warm start loads the
   second vector (nothing zeroed: [1; 0; 3] is presented as it is) and selects the third item *)
Example C07_nonvacuous_history :
  let R := [[5; 9; 7]; [1; 0; 3]; [0; 0; 0]] in
  let sts := [(0, 2); (1, 3)]%nat in
  Forall (fun r => length r = 3%nat) R /\ stages_ok 3 0 sts /\ (h_last sts < length R)%nat /\
  sel (fst (h_fit (repeat [] 3) R sts)) = [1; 2; 0]%nat /\
  h_idx sts = [0; 0; 1]%nat /\
  snd (h_fit (repeat [] 3) R sts) = [[5; 9; 7]; [5; 0; 7]; [1; 0; 3]].
Proof. exact nonvacuous_history. Qed.

(* ---- layer A --------------------------------------------------------------------------- *)
From mathcomp Require Import all_ssreflect all_algebra.
From Verif Require Import MExp MExpMx MxBox PCovR CURLoop CURLoopMx CURLoopP CURLoopEx.
Import GRing.Theory Num.Theory.
Local Open Scope ring_scope.

(* X_orthogonalizer folded over the selected columns [sel] (in selection order, any length, with
   repetitions allowed), every pivot taking the normalising branch (its norm is at least the
   tolerance tol > 0):  Xc = orth_fold_mx tol X sel satisfies
     (i)   Xc^T X[:, j] = 0 for every selected j,
     (ii)  X - Xc = X B with the rows of B outside the selection zero, i.e. X - Xc = X[:, sel] B',
     (iii) the selected columns of Xc vanish (so the warm-start guard `norm > tolerance` of
           _continue_greedy_search never fires in exact arithmetic).
   (i) and (ii) characterise Xc = (I - Pi_sel) X: see C07_residual_unique.
   Sample selection applies the same program to X^T (resid_samp_mx). *)
Theorem C07_residual_is_projection :
  forall (F : rcfType) (r c : nat) (X : 'M[F]_(r, c)) (tol : F) (sel : seq 'I_c),
    0 < tol -> pivots_ok tol X sel ->
    let Xc := orth_fold_mx tol X sel in
    [/\ forall j, j \in sel -> Xc^T *m col j X = 0,
        exists B : 'M[F]_c, X - Xc = X *m B /\ forall i, i \notin sel -> row i B = 0
      & forall j, j \in sel -> col j Xc = 0].
Proof. exact residual_is_projection. Qed.
Print Assumptions C07_residual_is_projection.

(* consequence of (iii): the re-orthogonalisation guard of a warm start,
   norm(X_current_[:, j]) > tolerance * norm(X[:, j]), is false for every selected j *)
Theorem C07_warm_guard_quiet :
  forall (F : rcfType) (r c : nat) (X : 'M[F]_(r, c)) (tol : F) (sel : seq 'I_c) (j : 'I_c) (a : F),
    0 < tol -> pivots_ok tol X sel -> j \in sel -> 0 <= a ->
    ~~ (tol * a < pivot_norm_mx (orth_fold_mx tol X sel) j).
Proof. exact warm_guard_quiet. Qed.
Print Assumptions C07_warm_guard_quiet.

Theorem C07_residual_unique :
  forall (F : rcfType) (r c : nat) (X : 'M[F]_(r, c)) (D : pred 'I_c) (Xc Xc' : 'M[F]_(r, c)),
    orth_to X D Xc -> in_span X D Xc -> orth_to X D Xc' -> in_span X D Xc' -> Xc = Xc'.
Proof. exact residual_unique. Qed.
Print Assumptions C07_residual_unique.

(* what one step is, as a formula: with pivot norm nu >= tol > 0 the program subtracts the
   outer product of the unit pivot direction u = col / nu, u^T u = 1
   ((c / nu)(c / nu)^T = c c^T / (c^T c)) *)
Theorem C07_step_formula :
  forall (F : rcfType) (r c : nat) (X : 'M[F]_(r, c)) (tol : F) (j : 'I_c),
    0 < tol -> tol <= pivot_norm_mx X j ->
    let nu := Num.sqrt (((col j X)^T *m col j X) ord0 ord0) in
    let u := nu^-1 *: col j X in
    [/\ pivot_norm_mx X j = nu, u^T *m u = 1%:M
      & orth_step_mx tol X j = X - u *m (u^T *m X)].
Proof. exact step_formula_full. Qed.
Print Assumptions C07_step_formula.

(* Y_feature_orthogonalizer applied after every selection to the running y with the whole
   zero-padded X_selected_ buffer (width K_s, any K_s > s - 1) and ANY symmetric generalised
   inverse V_s handed back by pinv (hypotheses hints_ok: G V G = G, V^T = V for G = Xs^T Xs):
   the result z is THE least-squares residual of y on the selected columns Xs = buf T T
   (unpadded): Xs^T z = 0 and y - z = Xs b; hence z = y - Xs (Xs^T Xs)^+ Xs^T y for every
   symmetric generalised inverse.  Neither the padding nor the intermediate inverses matter. *)
Theorem C07_y_feature :
  forall (F : rcfType) (n m p : nat) (X : 'M[F]_(n, m)) (sel : seq nat) (y : 'M[F]_(n, p))
         (hs : seq (hintV F)),
    hints_ok X sel y 0 hs ->
    let T := size hs in
    let Xs := buf_mx X sel T T in
    let z := yfeat_fold_mx X sel 0 hs y in
    (Xs^T *m z = 0 /\ exists b : 'M[F]_(T, p), y - z = Xs *m b) /\
    forall V' : 'M[F]_T,
      Xs^T *m Xs *m V' *m (Xs^T *m Xs) = Xs^T *m Xs -> V'^T = V' ->
      z = y - Xs *m V' *m Xs^T *m y.
Proof. exact y_feature. Qed.
Print Assumptions C07_y_feature.

Theorem C07_y_feature_unique :
  forall (F : rcfType) (n m p : nat) (X : 'M[F]_(n, m)) (sel : seq nat) (y : 'M[F]_(n, p)) t z z',
    lsq X sel y t z -> lsq X sel y t z' -> z = z'.
Proof. exact lsq_unique. Qed.
Print Assumptions C07_y_feature_unique.

(* Y_sample_orthogonalizer: y_cur = y - X W where W is constrained ONLY through the selected
   samples Xr = X_selected_[:t], Yr = y_selected_[:t] (normal equations + minimum norm
   W = Xr^T Z): the residual of the selected samples is orthogonal to them, it vanishes when the
   selected samples are linearly independent, and W (hence y_cur) is determined by the
   hypotheses. *)
Theorem C07_y_sample :
  forall (F : rcfType) (n m p t : nat) (X : 'M[F]_(n, m)) (y : 'M[F]_(n, p))
         (Xr : 'M[F]_(t, m)) (Yr : 'M[F]_(t, p)) (W : 'M[F]_(m, p)) (Z : 'M[F]_(t, p)),
    lstsq_ok X y Xr Yr W Z ->
    let ycur := eval_mx (ysamp_env_mx X y W Xr Yr Z) (ysamp_prog n m p) in
    [/\ ycur = y - X *m W,
        Xr^T *m (Yr - Xr *m W) = 0
      & Xr *m Xr^T \in unitmx -> Yr - Xr *m W = 0].
Proof. exact y_sample. Qed.
Print Assumptions C07_y_sample.

Theorem C07_y_sample_hypotheses :
  forall (F : rcfType) (n m p t : nat) (X : 'M[F]_(n, m)) (y : 'M[F]_(n, p))
         (Xr : 'M[F]_(t, m)) (Yr : 'M[F]_(t, p)) (W : 'M[F]_(m, p)) (Z : 'M[F]_(t, p)),
    lstsq_ok X y Xr Yr W Z <-> Xr^T *m (Xr *m W) = Xr^T *m Yr /\ W = Xr^T *m Z.
Proof. exact lstsq_okP. Qed.
Print Assumptions C07_y_sample_hypotheses.

Theorem C07_y_sample_unique :
  forall (F : rcfType) (n m p t : nat) (X : 'M[F]_(n, m)) (y : 'M[F]_(n, p))
         (Xr : 'M[F]_(t, m)) (Yr : 'M[F]_(t, p)) W Z W' Z',
    lstsq_ok X y Xr Yr W Z -> lstsq_ok X y Xr Yr W' Z' -> W = W'.
Proof. exact lstsq_unique. Qed.
Print Assumptions C07_y_sample_unique.

(* the rows of y - X W at the selected samples are y[sel] - X[sel] W *)
Theorem C07_y_sample_rows :
  forall (F : rcfType) (n m p : nat) (X : 'M[F]_(n, m)) (y : 'M[F]_(n, p)) (W : 'M[F]_(m, p)) sel t,
    rows_mx (y - X *m W) sel t = rows_mx y sel t - rows_mx X sel t *m W.
Proof. exact rows_mx_resid. Qed.
Print Assumptions C07_y_sample_rows.

(* pi = (V o V) d as the code computes it depends on the eigenvector matrix V only through
   V diag(d) V^T; for d = d_k (k ones) that is V_k V_k^T, V_k = the first k columns:
   pi_j = (V_k V_k^T)_jj. *)
Theorem C07_pi_basis_independent :
  forall (F : rcfType) (N : nat) (V V' : 'M[F]_N) (d : 'cV[F]_N),
    V *m diag_mx d^T *m V^T = V' *m diag_mx d^T *m V'^T ->
    eval_mx (pi_env_mx V d) (pi_prog N) = eval_mx (pi_env_mx V' d) (pi_prog N).
Proof. exact pi_basis_independent. Qed.
Print Assumptions C07_pi_basis_independent.

Theorem C07_pi_is_projector_diagonal :
  forall (F : rcfType) (N : nat) (V : 'M[F]_N) (k : nat) (i : 'I_N),
    let Vk : 'M[F]_(N, k) := V *m Esel F N k in
    eval_mx (pi_env_mx V (dk_mx F N k)) (pi_prog N) i ord0 = (Vk *m Vk^T) i i /\
    V *m diag_mx (dk_mx F N k)^T *m V^T = Vk *m Vk^T.
Proof. exact pi_projector_diagonal. Qed.
Print Assumptions C07_pi_is_projector_diagonal.

(* the oracle's freedom does not matter: two complete orthonormal eigenbases V, V' of the same
   symmetric matrix M for the same eigenvalue vector lam, with a gap between the k-th and the
   (k+1)-th eigenvalue, have the same leading projector, hence give the same importance vector.
   (That lam itself is determined by M is not proved here; the check evaluates the model with
   numpy's decomposition and compares with ARPACK's through pi, gating gaps below 1e-6.) *)
Theorem C07_spectral_projector_unique :
  forall (F : rcfType) (N : nat) (M V V' : 'M[F]_N) (lam : 'cV[F]_N) (k : nat),
    M^T = M -> V^T *m V = 1%:M -> V'^T *m V' = 1%:M ->
    M *m V = V *m diag_mx lam^T -> M *m V' = V' *m diag_mx lam^T ->
    (forall i j : 'I_N, (i < k)%N -> (k <= j)%N -> lam j ord0 < lam i ord0) ->
    V *m diag_mx (dk_mx F N k)^T *m V^T = V' *m diag_mx (dk_mx F N k)^T *m V'^T.
Proof. exact spectral_projector_unique. Qed.
Print Assumptions C07_spectral_projector_unique.

Theorem C07_pi_oracle_independent :
  forall (F : rcfType) (N : nat) (M V V' : 'M[F]_N) (lam : 'cV[F]_N) (k : nat),
    M^T = M -> V^T *m V = 1%:M -> V'^T *m V' = 1%:M ->
    M *m V = V *m diag_mx lam^T -> M *m V' = V' *m diag_mx lam^T ->
    (forall i j : 'I_N, (i < k)%N -> (k <= j)%N -> lam j ord0 < lam i ord0) ->
    eval_mx (pi_env_mx V (dk_mx F N k)) (pi_prog N)
    = eval_mx (pi_env_mx V' (dk_mx F N k)) (pi_prog N).
Proof. exact pi_oracle_independent. Qed.
Print Assumptions C07_pi_oracle_independent.

(* mixing = 1: PCov-CUR decomposes X X^T (samples) resp. X^T X (features), the matrices of CUR,
   whatever y and the inner eigh oracle are.
   PARTIAL w.r.t. the full statement "PCov-CUR with mixing = 1 SELECTS what CUR selects": proved
   are the equality of the decomposed matrices (here; the residual X is computed by the same
   program for both), that the importance vector is the same for every valid eigen-oracle answer
   with the same eigenvalues (C07_pi_oracle_independent) and that the selections are a function of
   the importance vectors (C07_step_argmax: c_run is a Gallina function).  Missing: that two sorted
   eigendecompositions of one matrix have the same eigenvalue vector. *)
Theorem C07_mixing_one_partial :
  forall (F : rcfType) (n m p : nat) (env : env_mx F),
    env 1%N 1%N va ord0 ord0 = 1 ->
    eval_mx env (kern_prog n m p) = eval_mx env (gram_prog n m) /\
    eval_mx env (cov_prog n m p) = eval_mx env (xtx_prog n m).
Proof. exact mixing_one. Qed.
Print Assumptions C07_mixing_one_partial.

(* sample CUR on X = feature CUR on X^T: the residuals are transposes of each other for every
   selection sequence, and the matrix sample CUR decomposes for a residual Y (Y Y^T) is the one
   feature CUR decomposes for Y^T; the importance vectors, hence by C07_step_argmax the
   selections, then coincide.  Singular vectors = eigenvectors of these matrices: C07_svd_gram.
   PARTIAL in the same sense as C07_mixing_one_partial (equal matrices and residuals are proved; the
   end-to-end equality of the selections additionally needs the uniqueness of the eigenvalues). *)
Theorem C07_duality_partial :
  forall (F : rcfType) (n m : nat) (tol : F) (X : 'M[F]_(n, m)) (sel : seq 'I_n),
    resid_samp_mx tol X sel = (resid_feat_mx tol X^T sel)^T /\
    forall Y : 'M[F]_(n, m),
      eval_mx (envX Y) (gram_prog n m) = eval_mx (envXt Y) (xtx_prog m n).
Proof. exact duality. Qed.
Print Assumptions C07_duality_partial.

Theorem C07_svd_gram :
  forall (F : rcfType) (n m k : nat) (X : 'M[F]_(n, m)) (U : 'M[F]_(n, k)) (V : 'M[F]_(m, k))
         (s : 'rV[F]_k),
    X = U *m diag_mx s *m V^T -> U^T *m U = 1%:M -> V^T *m V = 1%:M ->
    (X *m X^T) *m U = U *m (diag_mx s *m diag_mx s) /\
    (X^T *m X) *m V = V *m (diag_mx s *m diag_mx s).
Proof. exact svd_gram. Qed.
Print Assumptions C07_svd_gram.

(* ---- non-vacuity of the layer-A hypotheses (over every real closed field) ---------------- *)
Example C07_nonvacuous_pivots :
  forall F : rcfType,
    (0 < (1 : F) /\ pivots_ok 1 (exX F) [:: ord0]) /\ orth_fold_mx 1 (exX F) [:: ord0] != exX F.
Proof. exact (fun F => conj (ex_pivots F) (ex_residual_moves F)). Qed.

Example C07_nonvacuous_spectral :
  forall F : rcfType,
    let M := diag_mx (exlam F)^T in
    [/\ M^T = M, (1%:M : 'M[F]_2)^T *m 1%:M = 1%:M, (exV' F)^T *m exV' F = 1%:M,
        M *m 1%:M = 1%:M *m diag_mx (exlam F)^T & M *m exV' F = exV' F *m diag_mx (exlam F)^T]
    /\ (forall i j : 'I_2, (i < 1)%N -> (1 <= j)%N -> exlam F j ord0 < exlam F i ord0)
    /\ exV' F != 1%:M.
Proof. exact ex_spectral. Qed.

Example C07_nonvacuous_hints :
  forall (F : rcfType) (y0 : 'M[F]_(1, 1)),
    hints_ok (1%:M : 'M[F]_1) [:: 0%N] y0 0 [:: existT _ 1%N (1%:M : 'M[F]_1)].
Proof. exact ex_hints. Qed.

Example C07_nonvacuous_lstsq :
  forall (F : rcfType) n p t (X : 'M[F]_(n, t)) (y : 'M[F]_(n, p)) (Yr : 'M[F]_(t, p)),
    lstsq_ok X y (1%:M : 'M[F]_t) Yr Yr Yr.
Proof. exact ex_lstsq. Qed.

(* ---- layer A, histories (Model/CURHistMx.v) ------------------------------------------------- *)
From Verif Require Import CURHistMx CURHistP CURHistEx.

(* The re-orthogonalisation loop of _continue_greedy_search WITH its guard
     for c in selected_idx_: if norm(X_current_[:, c]) > tolerance * norm(X[:, c]): orthogonalize(c)
   ([warm_fold_mx]; guard_mx is the comparison).  s1 = the items already projected out of
   X_current_ (selected while recompute_every != 0, pivots normalised); s2 = the items selected
   afterwards while recompute_every was 0: they are still in the residual, and each of them, at its
   turn, exceeds the relative tolerance ([stale_live]).  Then the loop over selected_idx_ =
   s1 ++ s2 leaves the s1 part alone and projects the s2 items out ONE AFTER THE OTHER, each from
   the residual left by the previous one: the result is X_orthogonalizer folded over ALL selections
   in selection order, i.e. (C07_residual_is_projection) the projection residual.  s1 = [] is
   `fit with recompute_every = 0, set_params(recompute_every != 0), warm start`. *)
Theorem C07_warm_catches_up :
  forall (F : rcfType) (r c : nat) (X : 'M[F]_(r, c)) (tol : F),
    0 < tol -> forall s1 s2 : seq 'I_c, pivots_ok tol X s1 ->
    stale_live tol X (orth_fold_mx tol X s1) s2 ->
    warm_fold_mx tol X (orth_fold_mx tol X s1) (s1 ++ s2) = orth_fold_mx tol X (s1 ++ s2).
Proof. exact warm_catches_up. Qed.
Print Assumptions C07_warm_catches_up.

Theorem C07_warm_catches_up_projection :
  forall (F : rcfType) (r c : nat) (X : 'M[F]_(r, c)) (tol : F),
    0 < tol -> forall s1 s2 : seq 'I_c, pivots_ok tol X (s1 ++ s2) ->
    stale_live tol X (orth_fold_mx tol X s1) s2 ->
    let Xc := warm_fold_mx tol X (orth_fold_mx tol X s1) (s1 ++ s2) in
    [/\ forall j, j \in s1 ++ s2 -> Xc^T *m col j X = 0,
        exists B : 'M[F]_c, X - Xc = X *m B /\ forall i, i \notin s1 ++ s2 -> row i B = 0
      & forall j, j \in s1 ++ s2 -> col j Xc = 0].
Proof. exact warm_catches_up_projection. Qed.
Print Assumptions C07_warm_catches_up_projection.

(* a warm start on an up-to-date residual changes nothing *)
Theorem C07_warm_idempotent :
  forall (F : rcfType) (r c : nat) (X : 'M[F]_(r, c)) (tol : F),
    0 < tol -> forall s : seq 'I_c, pivots_ok tol X s ->
    warm_fold_mx tol X (orth_fold_mx tol X s) s = orth_fold_mx tol X s.
Proof. exact warm_idempotent. Qed.
Print Assumptions C07_warm_idempotent.

(* Y_feature_orthogonalizer over ANY sequence of calls of a history: call number i uses the
   X_selected_ buffer at fill level t_i and width K_i >= t_i with t_1 <= t_2 <= ... (equal levels:
   one call per re-orthogonalised item at a warm start; jumps: selections made while
   recompute_every = 0 triggered no call) and ANY symmetric generalised inverse.  The running y is
   THE least-squares residual of y on the first T = t_last selected columns.  C07_y_feature is the
   special case t_i = i. *)
Theorem C07_y_feature_events :
  forall (F : rcfType) (n m p : nat) (X : 'M[F]_(n, m)) (sel : seq nat) (y : 'M[F]_(n, p))
         (evs : seq (nat * hintV F)),
    events_ok X sel y 0 evs -> evs != [::] ->
    let T := last 0%N (map fst evs) in
    let Xs := buf_mx X sel T T in
    let z := yfeat_events_mx X sel evs y in
    (Xs^T *m z = 0 /\ exists b : 'M[F]_(T, p), y - z = Xs *m b) /\
    forall V' : 'M[F]_T,
      Xs^T *m Xs *m V' *m (Xs^T *m Xs) = Xs^T *m Xs -> V'^T = V' ->
      z = y - Xs *m V' *m Xs^T *m y.
Proof. exact y_feature_events. Qed.
Print Assumptions C07_y_feature_events.

Example C07_nonvacuous_warm :
  forall F : rcfType,
    [/\ 0 < (2%:R^-1 : F), pivots_ok 2%:R^-1 (exX F) [::]
      & stale_live 2%:R^-1 (exX F) (orth_fold_mx 2%:R^-1 (exX F) [::]) [:: ord0]] /\
    warm_fold_mx 2%:R^-1 (exX F) (orth_fold_mx 2%:R^-1 (exX F) [::]) ([::] ++ [:: ord0]) != exX F.
Proof. exact (fun F => conj (ex_warm F) (ex_warm_moves F)). Qed.

Example C07_nonvacuous_events :
  forall (F : rcfType) (y0 : 'M[F]_(1, 1)),
    let ev : nat * hintV F := (1%N, existT _ 1%N (1%:M : 'M[F]_1)) in
    events_ok (1%:M : 'M[F]_1) [:: 0%N] y0 0 [:: ev; ev] /\ [:: ev; ev] != [::].
Proof. exact ex_events. Qed.
