(* C06 — Voronoi FPS is an exact accelerator: it selects what plain FPS selects.
   Model: Model/Voronoi.v (cell bookkeeping, pruning, full/sparse update), Model/FPS.v
   (plain FPS), Model/VorCalib.v (timing calibration with arbitrary comparison outcomes).
   [br : step -> |active| -> bool] is an ARBITRARY branch oracle: every theorem below holds
   for every schedule of full/sparse updates, hence for every full_fraction in (0,1], every
   n_trial_calculation and every outcome of the wall-clock calibration. *)
From Verif Require Import ListX Greedy FPS Voronoi VorCalib VorObj ListXP GreedyP FPSP FPSInst GeomP
  VoronoiP SimP C02Thm C06Thm VorObjP.

Theorem C06_cauchy_schwarz :
  forall u v : list Z, length u = length v -> dot u v * dot u v <= sqn u * sqn v.
Proof. exact cauchy_schwarz. Qed.
Print Assumptions C06_cauchy_schwarz.

(* the squared-form triangle inequality behind the pruning rule d(S,L)/4 >= d(X,S) *)
Theorem C06_prune_sound :
  forall a b c : list Z, length a = length b -> length a = length c ->
    4 * sqdist c a <= sqdist b a -> sqdist c a <= sqdist c b.
Proof. exact prune_sound. Qed.
Print Assumptions C06_prune_sound.

(* identical selections, stored data, distance table, select distances and stop flag as
   plain FPS started from the same point — for every branch oracle *)
Theorem C06_selection_equals_fps :
  forall cs d, dims d cs -> forall br ycand i0 t niter, (i0 < length cs)%nat ->
    let rv := vor_fit cs br ycand i0 t niter in
    let rf := fps_fit cs ycand [i0] t niter in
    sel (fst rv) = sel (fst rf) /\ xsel (fst rv) = xsel (fst rf) /\ ysel (fst rv) = ysel (fst rf) /\
    v_haus (sst (fst rv)) = haus (sst (fst rf)) /\
    vor_select_distance (fst rv) = select_distance (fst rf) /\
    snd rv = snd rf.
Proof. exact voronoi_equals_fps. Qed.
Print Assumptions C06_selection_equals_fps.

(* after every fit: the table is the true minimum-distance table (VInv clause 6), every
   candidate's recorded cell is a selected point realising its table entry (clause 7) — so
   no candidate skipped by the pruning rule could have lowered its distance *)
Theorem C06_cell_invariant :
  forall cs d, dims d cs -> forall br ycand i0 t niter, (i0 < length cs)%nat ->
    let g := fst (vor_fit cs br ycand i0 t niter) in VInv cs (sst g) (sel g).
Proof. exact voronoi_cells. Qed.
Print Assumptions C06_cell_invariant.

(* warm-started continuation keeps VoronoiFPS and plain FPS in step (any chain of fits) *)
Theorem C06_warm_start :
  forall cs d, dims d cs -> forall br ycand g1 g2 t niter,
    gsim vst dst (VR cs) g1 g2 ->
    gsim vst dst (VR cs) (fst (vor_run cs br ycand t niter g1)) (fst (fps_run cs ycand t niter g2)) /\
    snd (vor_run cs br ycand t niter g1) = snd (fps_run cs ycand t niter g2).
Proof. exact voronoi_warm. Qed.
Print Assumptions C06_warm_start.

(* whatever the timings, the bisection ends at lower = lo/128 with 0 <= lo < 128 *)
Theorem C06_calibration_range :
  forall outs : nat -> bool, let '(k, lo) := calibrate outs in k = 7%nat /\ 0 <= lo < 128.
Proof. exact calibrate_range. Qed.
Print Assumptions C06_calibration_range.

(* non-vacuity: clustered points, sparse branch forced, pruning active *)
Example C06_nonvacuous :
  let cs := [[0;0];[1;0];[0;1];[100;100];[101;100];[100;101];[50;0]] in
  dims 2 cs /\
  sel (fst (vor_fit cs (fun _ _ => false) None 0 NoThr 4)) = [0; 4; 6; 5]%nat /\
  sel (fst (fps_fit cs None [0%nat] NoThr 4)) = [0; 4; 6; 5]%nat /\
  count_true (active cs (sst (fst (vor_fit cs (fun _ _ => false) None 0 NoThr 3))) 5) = 2%nat.
Proof. cbv zeta. split; [repeat constructor|]. repeat split; vm_compute; reflexivity. Qed.

(* ---- extension (round 3) ----------------------------------------------------------------- *)
(* what is STORED in full_fraction (lower if lower > 0 else top, /repo 0a955d1) is v/128 with
   0 < v < 128: strictly inside (0,1), whatever the timings *)
Theorem C06_calibration_stored_range :
  forall outs : nat -> bool, let '(k, v) := calibrate_stored outs in k = 7%nat /\ 0 < v < 128.
Proof. exact calibrate_stored_range. Qed.
Print Assumptions C06_calibration_stored_range.

(* ... and therefore passes the check `0 < full_fraction <= 1` of every later fit of the object *)
Theorem C06_calibrated_value_accepted :
  forall (outs : nat -> bool) (nt : ntp),
    let '(k, v) := calibrate_stored outs in ff_check (FFReal v (2 ^ Z.of_nat k)) nt = None.
Proof. exact calibrated_value_accepted. Qed.
Print Assumptions C06_calibrated_value_accepted.

(* the cold fit accepts exactly the parameter region the property quantifies over
   (n_to_select resolving to >= 1, switching point None with n_trial_calculation >= 1 or a real in
   (0,1], initialize an index < n or 'random'); everything else raises *)
Theorem C06_validation_spec :
  forall n p ff nt ini, (forall num den, ff = FFReal num den -> 0 < den) ->
    vor_validate n p ff nt ini = None <-> in_quantifier n p ff nt ini.
Proof. exact vor_validate_spec. Qed.
Print Assumptions C06_validation_spec.

(* OBJECT level (Model/VorObj.v: norms_, X_selected_, selected_idx_, the dSL_ buffer, new_dist_ ...
   are attributes that earlier calls left behind).  One _update_post_selection on the object is one
   step of the data-level model, as long as the attributes describe the data of this call *)
Theorem C06_object_step :
  forall X d, dims d X -> forall br o v sl i,
    OR X o v sl -> (i < length X)%nat -> OR X (oupd X br o i) (vupd X br v i) (sl ++ [i]).
Proof. exact oupd_sim. Qed.
Print Assumptions C06_object_step.

(* a cold fit on an object with ANY past [prev] (fitted on other data of the same or another
   shape, warm-started, ...) gives plain FPS's outputs on the data of THIS call, and re-establishes
   the attributes (norms_ = squared norms of this X, ...) — for every branch oracle *)
Theorem C06_object_cold_fit_equals_fps :
  forall X d br ycand prev i0 t k, dims d X -> (i0 < length X)%nat ->
    let rv := obj_fit_cold X br ycand prev i0 t k in
    let rf := fps_fit X ycand [i0] t k in
    sel (fst rv) = sel (fst rf) /\ xsel (fst rv) = xsel (fst rf) /\ ysel (fst rv) = ysel (fst rf) /\
    o_haus (sst (fst rv)) = haus (sst (fst rf)) /\
    obj_select_distance (fst rv) = select_distance (fst rf) /\
    snd rv = snd rf /\
    o_norms (sst (fst rv)) = fps_norms X /\
    o_sel (sst (fst rv)) = sel (fst rv) /\
    o_xs (sst (fst rv)) = map (fun i => nth i X []) (sel (fst rv)).
Proof. exact obj_cold_outputs. Qed.
Print Assumptions C06_object_cold_fit_equals_fps.

(* warm start on the object (np.pad of dSL_, everything else kept) stays in step with plain FPS *)
Theorem C06_object_warm_start :
  forall X d, dims d X -> forall br ycand g1 g2 t k,
    gsim ost dst (ORF X) g1 g2 ->
    gsim ost dst (ORF X) (fst (obj_fit_warm X br ycand g1 t k)) (fst (fps_run X ycand t k g2)) /\
    snd (obj_fit_warm X br ycand g1 t k) = snd (fps_run X ycand t k g2).
Proof. exact obj_warm_equals_fps. Qed.
Print Assumptions C06_object_warm_start.

(* no numpy shape / index error inside a fit: the dSL_ buffer (capacity n_to_select) is never
   overrun by the slice assignment and dSL_[vlocation_of_idx] never reads outside it *)
Theorem C06_object_cold_no_error :
  forall X d, dims d X -> forall br ycand prev i0 t k, (i0 < length X)%nat -> (1 <= k)%nat ->
    let g := fst (obj_fit_cold X br ycand prev i0 t k) in
    o_ok (sst g) = true /\ length (o_dsl (sst g)) = k.
Proof. exact obj_cold_no_error. Qed.
Print Assumptions C06_object_cold_no_error.

Theorem C06_object_warm_no_error :
  forall X d, dims d X -> forall br ycand g1 g2 t k,
    gsim ost dst (ORF X) g1 g2 -> o_ok (sst g1) = true ->
    (length (sel g1) <= length (o_dsl (sst g1)))%nat ->
    let g := fst (obj_fit_warm X br ycand g1 t k) in
    o_ok (sst g) = true /\ (k <= length (o_dsl (sst g)))%nat.
Proof. exact obj_warm_no_error. Qed.
Print Assumptions C06_object_warm_no_error.

(* SESSIONS (any list of fit calls on one object).  An accepted cold fit forgets the whole history:
   the state after it is the same from any two earlier states (new_dist_, the one attribute the
   code does not reset, is rewritten by the first step) — or the call fails from both *)
Theorem C06_cold_fit_forgets_history :
  forall s1 s2 X br i0 p k, shape_ok X = true -> resolve_n (length X) p = Some k ->
    sess_step s1 (VCold X br i0 p) = sess_step s2 (VCold X br i0 p) \/
    (fst (sess_step s1 (VCold X br i0 p)) = None /\ fst (sess_step s2 (VCold X br i0 p)) = None).
Proof. exact sess_cold_history_independent. Qed.
Print Assumptions C06_cold_fit_forgets_history.

(* session invariant: after an accepted cold fit — whatever came before — the object is in plain
   FPS's state on that data, error-free, with room in the buffer; accepted warm fits keep it *)
Theorem C06_session_cold_fit :
  forall s X d br i0 p k, dims d X -> shape_ok X = true -> resolve_n (length X) p = Some k ->
    (i0 < length X)%nat -> (1 <= k)%nat ->
    snd (sess_step s (VCold X br i0 p)) = true /\
    sess_inv X (fst (sess_step s (VCold X br i0 p))) (fst (fps_fit X None [i0] NoThr k)).
Proof. exact sess_cold_equals_fps. Qed.
Print Assumptions C06_session_cold_fit.

Theorem C06_session_warm_fit :
  forall s g2 X d br p k, dims d X -> shape_ok X = true -> resolve_n (length X) p = Some k ->
    sess_inv X s g2 -> (length (sel g2) <= k)%nat ->
    snd (sess_step s (VWarm X br p)) = true /\
    sess_inv X (fst (sess_step s (VWarm X br p))) (fst (fps_run X None NoThr k g2)).
Proof. exact sess_warm_equals_fps. Qed.
Print Assumptions C06_session_warm_fit.

(* non-vacuity: one object, fitted on clustered data, refitted cold on OTHER data with the same
   number of samples (and once rejected in between), then warm-started: plain FPS on the second
   data; the stored norms are those of the second data; a stale norms_ would differ *)
Example C06_session_nonvacuous :
  let X1 := [[0;0];[1;0];[0;1];[100;100];[101;100];[100;101];[50;0]] in
  let X2 := [[3;3];[40;41];[2;3];[41;41];[3;2];[40;40];[90;0]] in
  let sp := fun _ _ => false in
  let s := sess_run None [VCold X1 sp 0 (NtsInt 4); VWarm X1 sp (NtsInt 2);
                          VCold X2 sp 2 (NtsInt 2); VWarm X2 sp (NtsInt 4)] in
  dims 2 X2 /\ shape_ok X2 = true /\
  option_map sel s = Some (sel (fst (fps_fit X2 None [2%nat] NoThr 4))) /\
  option_map sel s = Some [2; 6; 3; 4]%nat /\
  option_map (fun g => o_norms (sst g)) s = Some (fps_norms X2) /\
  fps_norms X1 <> fps_norms X2 /\
  option_map (fun g => o_ok (sst g)) s = Some true /\
  snd (sess_step None (VWarm X1 sp (NtsInt 2))) = false.
Proof.
  cbv zeta. split; [repeat constructor|].
  repeat split; try (vm_compute; reflexivity). vm_compute. discriminate.
Qed.

Example C06_validation_nonvacuous :
  vor_validate 7 (NtsInt 3) (FFReal 1 2) (NTInt 4) (InInt 6) = None /\
  vor_validate 7 (NtsInt 3) (FFReal 3 2) (NTInt 4) (InInt 6) = Some EValueError /\
  vor_validate 7 (NtsInt 3) FFNone NTOther (InInt 6) = Some ETypeError /\
  vor_validate 7 (NtsInt 3) FFNone (NTInt 4) (InInt 7) = Some EIndexError /\
  calibrate_stored (fun _ => false) = (7%nat, 1) /\ calibrate (fun _ => false) = (7%nat, 0) /\
  calibrate_stored (fun k => Nat.even k) = (7%nat, 85).
Proof. repeat split; vm_compute; reflexivity. Qed.

(* follow-up (round 3, /repo ac09377): a cold fit rejected for its switching-point parameters
   (full_fraction outside (0,1] / not a real, n_trial_calculation not a positive integer) leaves the
   WHOLE object unchanged, from any state *)
Theorem C06_session_rejected_fit_keeps_state :
  forall s X ff nt br i0 p e,
    ff_check ff nt = Some e -> sess_step s (VColdFF X ff nt br i0 p) = (s, false).
Proof. exact sess_rejected_keeps_state. Qed.
Print Assumptions C06_session_rejected_fit_keeps_state.

(* ... so "fitted object -> rejected cold fit (on any data X') -> parameter corrected -> warm start"
   continues plain FPS on the data of the last accepted cold fit *)
Theorem C06_session_rejected_then_warm :
  forall s g2 X d X' ff nt br' i0 p' e br p k,
    dims d X -> shape_ok X = true -> resolve_n (length X) p = Some k ->
    sess_inv X s g2 -> (length (sel g2) <= k)%nat -> ff_check ff nt = Some e ->
    let s1 := fst (sess_step s (VColdFF X' ff nt br' i0 p')) in
    snd (sess_step s1 (VWarm X br p)) = true /\
    sess_inv X (fst (sess_step s1 (VWarm X br p))) (fst (fps_run X None NoThr k g2)).
Proof. exact sess_rejected_then_warm. Qed.
Print Assumptions C06_session_rejected_then_warm.

(* with accepted switching-point parameters VColdFF is the ordinary cold fit *)
Theorem C06_session_coldff_accepted :
  forall s X ff nt br i0 p,
    ff_check ff nt = None -> sess_step s (VColdFF X ff nt br i0 p) = sess_step s (VCold X br i0 p).
Proof. exact sess_coldff_accepted. Qed.
Print Assumptions C06_session_coldff_accepted.

(* non-vacuity: fit 3 of 7 clustered points, a refit with full_fraction = 2 is rejected, the parameter
   is corrected and the object warm-started to 5: plain FPS's 5 selections, pruning was active (sparse
   branch forced), and the rejected call changed nothing; same with n_trial_calculation = 0 *)
Example C06_rejected_fit_nonvacuous :
  let X1 := [[0;0];[1;0];[0;1];[100;100];[101;100];[100;101];[50;0]] in
  let X2 := [[3;3];[40;41];[2;3];[41;41];[3;2];[40;40];[90;0]] in
  let sp := fun _ _ => false in
  let s0 := sess_run None [VCold X1 sp 0 (NtsInt 3)] in
  let s1 := sess_run s0 [VColdFF X2 (FFReal 2 1) (NTInt 4) sp 1 (NtsInt 4)] in
  let s2 := sess_run s1 [VWarm X1 sp (NtsInt 5)] in
  ff_check (FFReal 2 1) (NTInt 4) = Some EValueError /\ ff_check FFNone (NTInt 0) = Some EValueError /\
  ff_check FFNone NTOther = Some ETypeError /\
  option_map sel s1 = option_map sel s0 /\ option_map (fun g => o_vloc (sst g)) s1 = Some [0; 0; 0; 1; 1; 1; 2]%nat /\
  option_map sel s2 = Some (sel (fst (fps_fit X1 None [0%nat] NoThr 5))) /\
  option_map sel s2 = Some [0; 4; 6; 5; 1]%nat /\
  option_map sel (sess_run s0 [VColdFF X2 FFNone (NTInt 0) sp 1 (NtsInt 4); VWarm X1 sp (NtsInt 5)])
    = Some [0; 4; 6; 5; 1]%nat.
Proof. cbv zeta. repeat split; vm_compute; reflexivity. Qed.

(* follow-up 2 (round 3): score thresholds.  For EVERY threshold t (none, absolute, relative, any
   value) the object stops exactly when plain FPS stops, after the same selections, with the same
   table and the same latched first score: the threshold is consulted only by the arg-max step
   (best_new) the two share — _get_active and the update (oupd) do not take it at all. *)
Theorem C06_threshold_stop_equals_fps :
  forall X d br ycand prev i0 (t : thr) k, dims d X -> (i0 < length X)%nat ->
    let rv := obj_fit_cold X br ycand prev i0 t k in
    let rf := fps_fit X ycand [i0] t k in
    snd rv = snd rf /\ length (sel (fst rv)) = length (sel (fst rf)) /\
    sel (fst rv) = sel (fst rf) /\ o_haus (sst (fst rv)) = haus (sst (fst rf)) /\
    first (fst rv) = first (fst rf).
Proof. exact obj_threshold_stop. Qed.
Print Assumptions C06_threshold_stop_equals_fps.

(* non-vacuity: a relative threshold that is reached (stop after 3 of 7, first score 20201, the
   remaining candidates at squared distance <= 2 — far below the raw number 1/100 * anything —
   keep their TRUE distances), an absolute one reached later, a relative one never reached *)
Example C06_threshold_nonvacuous :
  let X1 := [[0;0];[1;0];[0;1];[100;100];[101;100];[100;101];[50;0]] in
  let sp := fun _ _ => false in
  let r := obj_fit_cold X1 sp None None 0 (RelThr 1 100) 7 in
  sel (fst r) = [0; 4; 6]%nat /\ snd r = true /\ first (fst r) = Some 20201 /\
  o_haus (sst (fst r)) = [Some 0; Some 1; Some 1; Some 1; Some 0; Some 2; Some 0] /\
  sel (fst (fps_fit X1 None [0%nat] (RelThr 1 100) 7)) = [0; 4; 6]%nat /\
  sel (fst (obj_fit_cold X1 sp None None 0 (AbsThr 2 1) 7)) = [0; 4; 6; 5]%nat /\
  snd (obj_fit_cold X1 sp None None 0 (RelThr 1 100000) 5) = false.
Proof. cbv zeta. repeat split; vm_compute; reflexivity. Qed.
