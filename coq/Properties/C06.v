(* C06 — Voronoi FPS is an exact accelerator: it selects what plain FPS selects.
   Model: Model/Voronoi.v (cell bookkeeping, pruning, full/sparse update), Model/FPS.v
   (plain FPS), Model/VorCalib.v (timing calibration with arbitrary comparison outcomes).
   [br : step -> |active| -> bool] is an ARBITRARY branch oracle: every theorem below holds
   for every schedule of full/sparse updates, hence for every full_fraction in (0,1], every
   n_trial_calculation and every outcome of the wall-clock calibration. *)
From Verif Require Import ListX Greedy FPS Voronoi VorCalib ListXP GreedyP FPSP FPSInst GeomP
  VoronoiP SimP C02Thm C06Thm.

Theorem C06_cauchy_schwarz :
  forall u v : list Z, length u = length v -> dot u v * dot u v <= sqn u * sqn v.
Proof. exact cauchy_schwarz. Qed.
Print Assumptions C06_cauchy_schwarz.

(* the squared-form triangle inequality behind the pruning rule d(S,L)/4 >= d(X,S) *)
Theorem C06_prune_sound :
  forall a b c : list Z, length a = length b -> length a = length c ->
    4 * sqdist c a <= sqdist b a -> sqdist c a <= sqdist c b.
Proof. exact prune_sound. Qed.
Print Assumptions C06_prune_sound.

(* identical selections, stored data, distance table, select distances and stop flag as
   plain FPS started from the same point — for every branch oracle *)
Theorem C06_selection_equals_fps :
  forall cs d, dims d cs -> forall br ycand i0 t niter, (i0 < length cs)%nat ->
    let rv := vor_fit cs br ycand i0 t niter in
    let rf := fps_fit cs ycand [i0] t niter in
    sel (fst rv) = sel (fst rf) /\ xsel (fst rv) = xsel (fst rf) /\ ysel (fst rv) = ysel (fst rf) /\
    v_haus (sst (fst rv)) = haus (sst (fst rf)) /\
    vor_select_distance (fst rv) = select_distance (fst rf) /\
    snd rv = snd rf.
Proof. exact voronoi_equals_fps. Qed.
Print Assumptions C06_selection_equals_fps.

(* after every fit: the table is the true minimum-distance table (VInv clause 6), every
   candidate's recorded cell is a selected point realising its table entry (clause 7) — so
   no candidate skipped by the pruning rule could have lowered its distance *)
Theorem C06_cell_invariant :
  forall cs d, dims d cs -> forall br ycand i0 t niter, (i0 < length cs)%nat ->
    let g := fst (vor_fit cs br ycand i0 t niter) in VInv cs (sst g) (sel g).
Proof. exact voronoi_cells. Qed.
Print Assumptions C06_cell_invariant.

(* warm-started continuation keeps VoronoiFPS and plain FPS in step (any chain of fits) *)
Theorem C06_warm_start :
  forall cs d, dims d cs -> forall br ycand g1 g2 t niter,
    gsim vst dst (VR cs) g1 g2 ->
    gsim vst dst (VR cs) (fst (vor_run cs br ycand t niter g1)) (fst (fps_run cs ycand t niter g2)) /\
    snd (vor_run cs br ycand t niter g1) = snd (fps_run cs ycand t niter g2).
Proof. exact voronoi_warm. Qed.
Print Assumptions C06_warm_start.

(* whatever the timings, the calibrated switching point is lo/128 with 0 <= lo < 128 *)
Theorem C06_calibration_range :
  forall outs : nat -> bool, let '(k, lo) := calibrate outs in k = 7%nat /\ 0 <= lo < 128.
Proof. exact calibrate_range. Qed.
Print Assumptions C06_calibration_range.

(* non-vacuity: clustered points, sparse branch forced, pruning active *)
Example C06_nonvacuous :
  let cs := [[0;0];[1;0];[0;1];[100;100];[101;100];[100;101];[50;0]] in
  dims 2 cs /\
  sel (fst (vor_fit cs (fun _ _ => false) None 0 NoThr 4)) = [0; 4; 6; 5]%nat /\
  sel (fst (fps_fit cs None [0%nat] NoThr 4)) = [0; 4; 6; 5]%nat /\
  count_true (active cs (sst (fst (vor_fit cs (fun _ _ => false) None 0 NoThr 3))) 5) = 2%nat.
Proof. cbv zeta. split; [repeat constructor|]. repeat split; vm_compute; reflexivity. Qed.
