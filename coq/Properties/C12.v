(* C12 — kernel centring and normalisation equal centring and scaling in feature space.
   Statements only; every proof is `exact <lemma>` from Proofs/KernelNormP.v.

   Model: Model/KernelNorm.v (mexp programs of KernelNormalizer.fit/transform/fit_transform,
   the explicit feature route, SparseKernelCenterer.fit/transform; run on binary64 against
   /repo by the check) and Model/KernelNormMx.v (the same programs run by [eval_mx] over an
   arbitrary real closed field F):
     kn_fit_mx cfg K w            = (K_fit_rows_, K_fit_all_, scale_)   [scale_ a 1x1 matrix]
     kn_transform_mx cfg w st Kt  = transform of a k x n kernel with the fitted state
     kn_fit_transform_mx cfg K w  = the single-term program of fit_transform
     kf_transform_mx cfg w Phi Psi = the feature route: centre explicit features, Gram, scale
     sk_fit_mx cfg Knm w Kmm P    = (K_fit_rows_, scale_), P standing for pinv(Kmm, rcond)
     sk_transform_mx st Kt        = (Kt - K_fit_rows_) / scale_
   cfg = (with_center, with_trace, sample_weight given).  Vocabulary (Model/ScalerMx.v):
   wsum, wmean w A (row of weighted column means), rows_of k r (k copies of the row r);
   kn_effw cfg w = w, or all ones when no weights are given; kn_wok cfg w = these weights
   have a non-zero sum.  All theorems: any real closed field, any n, p, k, m, any such
   weights (non-negative or not), every flag combination unless a flag is a hypothesis.

   Extension (second half of the file):
   Model/KernelCut.v + KernelCutMx.v — the cut-off of np.linalg.pinv(Kmm, rcond) as a program:
     pc_P_mx t U v = the program [pc_P] on the spectral data Kmm = U diag(v) U^T with the
     cut-off t on |eigenvalue| (numpy: t = rcond * max|v|; [is_vmax x v]: x is that maximum);
   Model/KernelObj.v — both classes as objects with a history (attributes assigned / read by
     each method, rejection branches, set_params, re-fit), parametric in the numerics:
     kn_run / sk_run o ops = (final object, result of every call). *)
From Coq Require Import PrimFloat.
From mathcomp Require Import all_ssreflect all_algebra.
From Verif Require Import MExp MExpMx MxBox ScalerMx KernelNorm KernelNormMx KernelNormP.
From Verif Require Import ScalerP KernelCut KernelCutMx KernelCutP KernelObj KernelObjP KernelHeap KernelHeapP.
Set Implicit Arguments.
Unset Strict Implicit.
Unset Printing Implicit Defensive.
Import GRing.Theory Num.Theory.
Local Open Scope ring_scope.

(* For features Phi (training, n x p) and K = Phi Phi^T: the fitted scale_ is trace/n of the
   Gram matrix of the features centred by the weighted training mean mu (mu = 0 when
   centring is off; 1 when trace scaling is off), and transforming ANY test-train kernel
   Psi Phi^T (in particular the training kernel, Psi = Phi) gives the Gram matrix of the
   centred test and training features divided by that one scale. *)
Theorem C12_center_feature_space :
  forall (F : rcfType) (cfg : kn_cfg) (n : nat) (w : 'cV[F]_n),
    kn_wok cfg w ->
    forall (p : nat) (Phi : 'M[F]_(n, p)),
    let K := Phi *m Phi^T in
    let mu := if kn_center cfg then wmean (kn_effw cfg w) Phi else 0 in
    let st := kn_fit_mx cfg K w in
    st.2 = (if kn_trace cfg
            then (\tr ((Phi - rows_of n mu) *m (Phi - rows_of n mu)^T) / n%:R)%:M else 1%:M)
    /\ forall (k : nat) (Psi : 'M[F]_(k, p)),
         kn_transform_mx cfg w st (Psi *m Phi^T)
         = (st.2 ord0 ord0)^-1 *: ((Psi - rows_of k mu) *m (Phi - rows_of n mu)^T).
Proof. exact kn_center_feature_space. Qed.
Print Assumptions C12_center_feature_space.

(* the same in program form: the kernel-route programs on (Phi Phi^T, Psi Phi^T) and the
   feature-route program on (Phi, Psi) evaluate to the same matrix *)
Theorem C12_feature_route :
  forall (F : rcfType) (cfg : kn_cfg) (n p k : nat) (w : 'cV[F]_n)
         (Phi : 'M[F]_(n, p)) (Psi : 'M[F]_(k, p)),
    kn_wok cfg w ->
    kf_transform_mx cfg w Phi Psi
    = kn_transform_mx cfg w (kn_fit_mx cfg (Phi *m Phi^T) w) (Psi *m Phi^T).
Proof. exact kf_transform_eq. Qed.
Print Assumptions C12_feature_route.

(* trace scaling on: the transformed training kernel has trace n — for ANY square K
   (symmetric or not, Gram or not), weighted or not, centred or not *)
Theorem C12_trace_n :
  forall (F : rcfType) (cfg : kn_cfg) (n : nat) (w : 'cV[F]_n),
    kn_wok cfg w ->
    forall K : 'M[F]_(n, n), kn_trace cfg ->
    let st := kn_fit_mx cfg K w in
    st.2 ord0 ord0 != 0 -> \tr (kn_transform_mx cfg w st K) = n%:R.
Proof. exact kn_trace_n. Qed.
Print Assumptions C12_trace_n.

(* with_center=False switches off exactly the centring: no means are stored and transform
   only divides by scale_ = trace(K)/n (or 1) *)
Theorem C12_flags_no_center :
  forall (F : rcfType) (cfg : kn_cfg) (n : nat) (w : 'cV[F]_n),
    kn_wok cfg w ->
    forall K : 'M[F]_(n, n), ~~ kn_center cfg ->
    let st := kn_fit_mx cfg K w in
    [/\ st.1.1 = 0, st.1.2 = 0,
        st.2 = (if kn_trace cfg then (\tr K / n%:R)%:M else 1%:M)
      & forall (k : nat) (Kt : 'M[F]_(k, n)),
          kn_transform_mx cfg w st Kt = (st.2 ord0 ord0)^-1 *: Kt].
Proof. exact kn_no_center. Qed.
Print Assumptions C12_flags_no_center.

(* with_trace=False switches off exactly the scaling: same stored means, scale_ = 1, and
   the output is the with_trace=True output multiplied back by that scale *)
Theorem C12_flags_no_trace :
  forall (F : rcfType) (c h : bool) (n : nat) (w : 'cV[F]_n) (K : 'M[F]_(n, n)),
    let cfg1 := KnCfg c true h in
    let cfg0 := KnCfg c false h in
    kn_wok cfg1 w ->
    let st1 := kn_fit_mx cfg1 K w in
    let st0 := kn_fit_mx cfg0 K w in
    [/\ st0.1 = st1.1, st0.2 = 1%:M
      & st1.2 ord0 ord0 != 0 ->
        forall (k : nat) (Kt : 'M[F]_(k, n)),
          kn_transform_mx cfg0 w st0 Kt = st1.2 ord0 ord0 *: kn_transform_mx cfg1 w st1 Kt].
Proof. exact kn_trace_only_scales. Qed.
Print Assumptions C12_flags_no_trace.

(* fit_transform (one program) equals fit followed by transform *)
Theorem C12_fit_transform :
  forall (F : rcfType) (cfg : kn_cfg) (n : nat) (w : 'cV[F]_n),
    kn_wok cfg w ->
    forall K : 'M[F]_(n, n),
      kn_fit_transform_mx cfg K w = kn_transform_mx cfg w (kn_fit_mx cfg K w) K.
Proof. exact kn_fit_transform_eq. Qed.
Print Assumptions C12_fit_transform.

(* sparse variant, centring on: the weighted column means of the transformed training
   block vanish (any rectangular Knm, any Kmm, any P) *)
Theorem C12_sparse_column_means_zero :
  forall (F : rcfType) (cfg : kn_cfg) (n m : nat) (w : 'cV[F]_n)
         (Knm : 'M[F]_(n, m)) (Kmm P : 'M[F]_(m, m)),
    kn_wok cfg w -> kn_center cfg ->
    let st := sk_fit_mx cfg Knm w Kmm P in
    st.2 ord0 ord0 != 0 ->
    wmean (kn_effw cfg w) (sk_transform_mx st Knm) = 0.
Proof. exact sk_column_means_zero. Qed.
Print Assumptions C12_sparse_column_means_zero.

(* sparse variant, trace scaling on: the centred Nystrom kernel T P T^T of the transformed
   training block T has trace n, whenever the trace the scale was computed from is positive *)
Theorem C12_sparse_nystrom_trace_n :
  forall (F : rcfType) (cfg : kn_cfg) (n m : nat) (w : 'cV[F]_n)
         (Knm : 'M[F]_(n, m)) (Kmm P : 'M[F]_(m, m)),
    kn_wok cfg w -> kn_trace cfg ->
    let st := sk_fit_mx cfg Knm w Kmm P in
    0 < \tr ((Knm - rows_of n st.1) *m P *m (Knm - rows_of n st.1)^T) ->
    let T := sk_transform_mx st Knm in
    \tr (T *m P *m T^T) = n%:R.
Proof. exact sk_nystrom_trace_n. Qed.
Print Assumptions C12_sparse_nystrom_trace_n.

(* sparse variant in feature space, with the pseudo-inverse as an oracle: if Knm = Phi A^T,
   Kmm = A A^T (A = features of the active set) and P satisfies the four Penrose equations
   for Kmm, then Knm_centered = (centred features) A^T, the centred Nystrom kernel is the
   Gram matrix of the centred features projected by Pi = A^T P A, its trace is >= 0 (so the
   square root in scale_ is taken of a non-negative number) and scale_ is as stated *)
Theorem C12_sparse_feature_space :
  forall (F : rcfType) (cfg : kn_cfg) (n m p : nat) (w : 'cV[F]_n)
         (Phi : 'M[F]_(n, p)) (A : 'M[F]_(m, p)) (P : 'M[F]_(m, m)),
    kn_wok cfg w -> penrose (A *m A^T) P ->
    let mu := if kn_center cfg then wmean (kn_effw cfg w) Phi else 0 in
    let Pi := A^T *m P *m A in
    let st := sk_fit_mx cfg (Phi *m A^T) w (A *m A^T) P in
    let Kc := Phi *m A^T - rows_of n st.1 in
    [/\ Kc = (Phi - rows_of n mu) *m A^T,
        Kc *m P *m Kc^T = ((Phi - rows_of n mu) *m Pi) *m ((Phi - rows_of n mu) *m Pi)^T,
        0 <= \tr (Kc *m P *m Kc^T)
      & st.2 = if kn_trace cfg
               then (Num.sqrt (\tr (((Phi - rows_of n mu) *m Pi) *m ((Phi - rows_of n mu) *m Pi)^T)
                               / n%:R))%:M
               else 1%:M].
Proof. exact sk_feature_space. Qed.
Print Assumptions C12_sparse_feature_space.

(* ... where Pi is the orthogonal projector onto the span of the active features:
   idempotent, symmetric, and it fixes every active feature vector *)
Theorem C12_sparse_projector :
  forall (F : rcfType) (m p : nat) (A : 'M[F]_(m, p)) (P : 'M[F]_(m, m)),
    penrose (A *m A^T) P ->
    let Pi := A^T *m P *m A in
    [/\ Pi *m Pi = Pi, Pi^T = Pi & A *m Pi = A].
Proof. exact Pi_projector. Qed.
Print Assumptions C12_sparse_projector.

(* the Penrose equations determine the oracle uniquely (so the hypothesis pins down
   np.linalg.pinv), and the pseudo-inverse of a symmetric matrix is symmetric *)
Theorem C12_pinv_unique :
  forall (F : rcfType) (m : nat) (K P Q : 'M[F]_(m, m)),
    penrose K P -> penrose K Q -> P = Q.
Proof. exact penrose_unique. Qed.
Print Assumptions C12_pinv_unique.

(* non-vacuity: over every real closed field, features (0, 2) (n = 2, p = 1), unweighted,
   centring and trace scaling on: the weights are usable, scale_ = 1 (non-zero); the
   1 x 1 identity is its own pseudo-inverse; and with the active feature 1 the sparse
   trace hypothesis holds (the trace is 2 > 0) *)
Example C12_nonvacuous :
  forall F : rcfType,
    let cfg := KnCfg true true false in
    let Phi : 'M[F]_(2, 1) := \matrix_(i, j) (i : nat)%:R *+ 2 in
    let w : 'cV[F]_2 := 0 in
    [/\ kn_wok cfg w,
        (kn_fit_mx cfg (Phi *m Phi^T) w).2 = 1%:M,
        penrose (1%:M : 'M[F]_1) 1%:M
      & let st := sk_fit_mx cfg (Phi *m (1%:M : 'M[F]_1)^T) w 1%:M 1%:M in
        \tr ((Phi *m (1%:M)^T - rows_of 2 st.1) *m 1%:M *m (Phi *m (1%:M)^T - rows_of 2 st.1)^T)
        = 2%:R].
Proof. exact kn_nonvacuous. Qed.

(* the binary64 run of the same programs on the same data: K = Phi Phi^T = [[0,0],[0,4]] *)
Example C12_nonvacuous_float :
  let K := cons (cons 0%float (cons 0%float nil)) (cons (cons 0%float (cons 4%float nil)) nil) in
  st_scale (kn_fit_f (KnCfg true true false) 2 K nil) = cons (cons 1%float nil) nil
  /\ kn_fit_transform_f (KnCfg true true false) 2 K nil
     = cons (cons 1%float (cons (-1)%float nil)) (cons (cons (-1)%float (cons 1%float nil)) nil).
Proof. split; vm_compute; reflexivity. Qed.

(* ============================ extension ============================ *)

(* ---- the sparse class: flags and the test block ------------------------------------------- *)

(* with_center=False (sparse): no means are stored, scale_ comes from the uncentred Nystrom
   trace, transform only divides by scale_ *)
Theorem C12_sparse_flags_no_center :
  forall (F : rcfType) (cfg : kn_cfg) (n m : nat) (w : 'cV[F]_n)
         (Knm : 'M[F]_(n, m)) (Kmm P : 'M[F]_(m, m)),
    kn_wok cfg w -> ~~ kn_center cfg ->
    let st := sk_fit_mx cfg Knm w Kmm P in
    [/\ st.1 = 0,
        st.2 = (if kn_trace cfg then (Num.sqrt (\tr (Knm *m P *m Knm^T) / n%:R))%:M else 1%:M)
      & forall k (Kt : 'M[F]_(k, m)), sk_transform_mx st Kt = (st.2 ord0 ord0)^-1 *: Kt].
Proof. exact sk_no_center. Qed.
Print Assumptions C12_sparse_flags_no_center.

(* with_trace=False (sparse): same stored means, scale_ = 1, output = with_trace output times
   its scale *)
Theorem C12_sparse_flags_no_trace :
  forall (F : rcfType) (c h : bool) (n m : nat) (w : 'cV[F]_n)
         (Knm : 'M[F]_(n, m)) (Kmm P : 'M[F]_(m, m)),
    let cfg1 := KnCfg c true h in
    let cfg0 := KnCfg c false h in
    kn_wok cfg1 w ->
    let st1 := sk_fit_mx cfg1 Knm w Kmm P in
    let st0 := sk_fit_mx cfg0 Knm w Kmm P in
    [/\ st0.1 = st1.1, st0.2 = 1%:M
      & st1.2 ord0 ord0 != 0 ->
        forall k (Kt : 'M[F]_(k, m)),
          sk_transform_mx st0 Kt = st1.2 ord0 ord0 *: sk_transform_mx st1 Kt].
Proof. exact sk_trace_only_scales. Qed.
Print Assumptions C12_sparse_flags_no_trace.

(* any (test) block is transformed with the weighted column means of the TRAINING block and
   the one common scale *)
Theorem C12_sparse_test_block :
  forall (F : rcfType) (cfg : kn_cfg) (n m : nat) (w : 'cV[F]_n)
         (Knm : 'M[F]_(n, m)) (Kmm P : 'M[F]_(m, m)),
    kn_wok cfg w ->
    forall k (Kt : 'M[F]_(k, m)),
    let st := sk_fit_mx cfg Knm w Kmm P in
    sk_transform_mx st Kt
    = (st.2 ord0 ord0)^-1 *: (Kt - rows_of k (if kn_center cfg then wmean (kn_effw cfg w) Knm else 0)).
Proof. exact sk_test_block. Qed.
Print Assumptions C12_sparse_test_block.

(* ---- sample weights: only their direction matters --------------------------------------------- *)

(* a common non-zero factor a on the sample weights (units, Boltzmann prefactors, 2^-60 ...)
   changes nothing: the weights stay usable, fit of both classes stores the same attributes and
   transform of KernelNormalizer (which reads the stored weights) returns the same matrix *)
Theorem C12_weight_scale_invariant :
  forall (F : rcfType) (cfg : kn_cfg) (n : nat) (w : 'cV[F]_n) (a : F),
    a != 0 -> kn_wok cfg w ->
    [/\ kn_wok cfg (a *: w),
        forall K : 'M[F]_(n, n), kn_fit_mx cfg K (a *: w) = kn_fit_mx cfg K w,
        forall k (st : kn_st F n) (Kt : 'M[F]_(k, n)),
          kn_transform_mx cfg (a *: w) st Kt = kn_transform_mx cfg w st Kt
      & forall m (Knm : 'M[F]_(n, m)) (Kmm P : 'M[F]_m),
          sk_fit_mx cfg Knm (a *: w) Kmm P = sk_fit_mx cfg Knm w Kmm P].
Proof. exact weight_scale_invariant. Qed.
Print Assumptions C12_weight_scale_invariant.

(* non-vacuity: given weights (1, 1) are usable and 2 is a non-zero factor, in every field *)
Example C12_weight_scale_nonvacuous :
  forall F : rcfType,
    kn_wok (KnCfg true true true) (const_mx 1 : 'cV[F]_2) /\ (2%:R : F) != 0.
Proof. by move=> F; rewrite /kn_wok /kn_effw /= wsum_ones pnatr_eq0. Qed.

(* ---- the cut-off of pinv(Kmm, rcond) inside the model ----------------------------------------- *)

(* the program computes U diag(f) U^T, f_j = 1/v_j above the cut-off and 0 below, and this is
   the Moore-Penrose pseudo-inverse of the matrix truncated at the cut-off *)
Theorem C12_pinv_cutoff_program :
  forall (F : rcfType) (m : nat) (t : F) (U : 'M[F]_m) (v : 'rV[F]_m),
    0 <= t ->
    pc_P_mx t U v = U *m diag_mx (cut_inv t v) *m U^T
    /\ (U^T *m U = 1%:M -> penrose (U *m diag_mx (cut_keep t v) *m U^T) (pc_P_mx t U v)).
Proof. by move=> F m t U v t0; split; [exact: pc_P_mxE | exact: pinv_cut_penrose]. Qed.
Print Assumptions C12_pinv_cutoff_program.

(* ... hence THE pseudo-inverse of Kmm (the oracle hypothesis of C12_sparse_feature_space is
   met by the model's own pinv) whenever no non-zero eigenvalue is discarded *)
Theorem C12_pinv_cutoff_penrose :
  forall (F : rcfType) (m : nat) (t : F) (K U : 'M[F]_m) (v : 'rV[F]_m),
    0 <= t -> spectral K U v ->
    (forall j, v ord0 j != 0 -> t < `|v ord0 j|) ->
    penrose K (pc_P_mx t U v).
Proof. exact pinv_cut_penrose_full. Qed.
Print Assumptions C12_pinv_cutoff_penrose.

(* the cut-off is RELATIVE (rcond * largest |eigenvalue|): multiplying Kmm by c > 0 divides
   the pseudo-inverse by c — no eigenvalue changes side *)
Theorem C12_pinv_cutoff_homogeneous :
  forall (F : rcfType) (m : nat) (c rc x : F) (U : 'M[F]_m) (v : 'rV[F]_m),
    0 < c -> 0 <= rc -> is_vmax x v ->
    is_vmax (c * x) (c *: v)
    /\ pc_P_mx (rc * (c * x)) U (c *: v) = c^-1 *: pc_P_mx (rc * x) U v.
Proof.
  by move=> F m c rc x U v c0 rc0 vm; split; [exact: is_vmax_scale | exact: pinv_cut_homog].
Qed.
Print Assumptions C12_pinv_cutoff_homogeneous.

(* ... so the result of SparseKernelCenterer does not depend on the magnitude of the kernels:
   kernels multiplied by c > 0 (features by sqrt c) give means times c, scale_ times sqrt c,
   transformed blocks times sqrt c (times c without trace scaling), and the SAME centred
   Nystrom kernel of the transformed training block *)
Theorem C12_sparse_magnitude_invariant :
  forall (F : rcfType) (cfg : kn_cfg) (n m : nat) (w : 'cV[F]_n)
         (Knm : 'M[F]_(n, m)) (Kmm U : 'M[F]_m) (v : 'rV[F]_m) (rc x c : F),
    kn_wok cfg w -> 0 < c -> 0 <= rc -> is_vmax x v ->
    let P := pc_P_mx (rc * x) U v in
    let P' := pc_P_mx (rc * (c * x)) U (c *: v) in
    let st := sk_fit_mx cfg Knm w Kmm P in
    let st' := sk_fit_mx cfg (c *: Knm) w (c *: Kmm) P' in
    let f := if kn_trace cfg then Num.sqrt c else 1 in
    [/\ P' = c^-1 *: P,
        st'.1 = c *: st.1 /\ st'.2 = f *: st.2,
        st.2 ord0 ord0 != 0 ->
        forall k (Kt : 'M[F]_(k, m)),
          sk_transform_mx st' (c *: Kt)
          = (if kn_trace cfg then Num.sqrt c else c) *: sk_transform_mx st Kt
      & kn_trace cfg -> st.2 ord0 ord0 != 0 ->
        let T := sk_transform_mx st Knm in
        let T' := sk_transform_mx st' (c *: Knm) in
        T' *m P' *m T'^T = T *m P *m T^T].
Proof. exact sk_magnitude_invariant. Qed.
Print Assumptions C12_sparse_magnitude_invariant.

(* non-vacuity: Kmm = diag(4, 0), U = 1, any 0 <= rcond < 1 *)
Example C12_cutoff_nonvacuous :
  forall (F : rcfType) (rc : F),
    0 <= rc -> rc < 1 ->
    let v : 'rV[F]_2 := \row_j (if j == ord0 then 4%:R else 0) in
    [/\ is_vmax 4%:R v, spectral (diag_mx v) 1%:M v,
        (forall j, v ord0 j != 0 -> rc * 4%:R < `|v ord0 j|)
      & pc_P_mx (rc * 4%:R) 1%:M v = diag_mx (\row_j (if j == ord0 then 4%:R^-1 else 0))].
Proof. exact cut_nonvacuous. Qed.

(* ---- the estimators as objects: histories ------------------------------------------------------ *)

(* KernelNormalizer: after ANY history h, a successful fit leaves the object — and therefore the
   result of every later call — exactly as a NEW estimator with the flags currently in force would
   be after the same fit.  For every interpretation of the numerics (T, norm_w, fit_num, tr_num). *)
Theorem C12_refit_is_fresh_fit :
  forall (T : Type) (nrows ncols : T -> nat) (norm_w : T -> T)
         (fit_num : bool -> bool -> T -> option T -> T * T * T)
         (tr_num : bool -> option T -> T -> T -> T -> T -> T)
         (h tail : list (kn_op T)) (o0 : kn_obj T) (K : T) (w : option T),
    kn_w_ok T nrows K w = true ->
    let o := fst (kn_run T nrows ncols norm_w fit_num tr_num o0 h) in
    kn_run T nrows ncols norm_w fit_num tr_num o (OFit K w :: tail)
    = kn_run T nrows ncols norm_w fit_num tr_num (kn_new T (o_center T o) (o_trace T o)) (OFit K w :: tail).
Proof. exact kn_history_irrelevant. Qed.
Print Assumptions C12_refit_is_fresh_fit.

(* a rejected fit (weights of the wrong length: ValueError) leaves fitted attributes and flags
   as they were; transform never changes the object; an estimator without fitted attributes
   rejects transform *)
Theorem C12_rejected_calls :
  forall (T : Type) (nrows ncols : T -> nat) (norm_w : T -> T)
         (fit_num : bool -> bool -> T -> option T -> T * T * T)
         (tr_num : bool -> option T -> T -> T -> T -> T -> T) (o : kn_obj T) (K : T) (w : option T),
    (kn_w_ok T nrows K w = false ->
     let (o1, r) := kn_do_fit T nrows ncols norm_w fit_num o K w in
     r = RRaise /\ o_attrs T o1 = o_attrs T o /\ o_center T o1 = o_center T o /\ o_trace T o1 = o_trace T o)
    /\ fst (kn_do_transform T nrows ncols tr_num o K) = o
    /\ (o_attrs T o = None -> snd (kn_do_transform T nrows ncols tr_num o K) = RRaise).
Proof.
  move=> T nrows ncols norm_w fit_num tr_num o K w; split; first exact: kn_rejected_fit.
  by split; [exact: kn_transform_pure | exact: kn_unfitted_raises].
Qed.
Print Assumptions C12_rejected_calls.

(* fit_transform is fit followed by transform of the same kernel, as a statement about the
   object: same final object, same returned value *)
Theorem C12_obj_fit_transform :
  forall (T : Type) (nrows ncols : T -> nat) (norm_w : T -> T)
         (fit_num : bool -> bool -> T -> option T -> T * T * T)
         (tr_num : bool -> option T -> T -> T -> T -> T -> T) (o : kn_obj T) (K : T) (w : option T),
    kn_w_ok T nrows K w = true ->
    let (o2, rs) := kn_run T nrows ncols norm_w fit_num tr_num o (cons (OFit K w) (cons (OTransform K) nil)) in
    kn_run T nrows ncols norm_w fit_num tr_num o (cons (OFitTransform K w) nil)
    = (o2, cons (List.last rs RDone) nil).
Proof. exact kn_fit_transform_steps. Qed.
Print Assumptions C12_obj_fit_transform.

(* SparseKernelCenterer: the same three statements (re-fit = fresh fit with the flags and rcond
   in force; the three shape checks precede every assignment, so a rejected fit changes nothing;
   fit_transform = fit then transform), and transform accepts exactly the kernels with
   n_active_ columns of the LAST fit *)
Theorem C12_sparse_refit_is_fresh_fit :
  forall (T C H : Type) (nrows ncols : T -> nat)
         (sfit_num : bool -> bool -> C -> T -> T -> H -> option T -> T * T) (str_num : T -> T -> T -> T)
         (hist tail : list (sk_op T C H)) (o0 : sk_obj T C) (Knm Kmm : T) (h : H) (w : option T),
    sk_fit_ok T nrows ncols Knm Kmm w = true ->
    let o := fst (sk_run T C nrows ncols H sfit_num str_num o0 hist) in
    sk_run T C nrows ncols H sfit_num str_num o (SFit Knm Kmm h w :: tail)
    = sk_run T C nrows ncols H sfit_num str_num
             (sk_new T C (so_center T C o) (so_trace T C o) (so_rcond T C o)) (SFit Knm Kmm h w :: tail).
Proof. exact sk_history_irrelevant. Qed.
Print Assumptions C12_sparse_refit_is_fresh_fit.

Theorem C12_sparse_rejected_calls :
  forall (T C H : Type) (nrows ncols : T -> nat)
         (sfit_num : bool -> bool -> C -> T -> T -> H -> option T -> T * T) (str_num : T -> T -> T -> T)
         (o : sk_obj T C) (Knm Kmm Kt : T) (h : H) (w : option T),
    (sk_fit_ok T nrows ncols Knm Kmm w = false ->
     sk_do_fit T C nrows ncols H sfit_num o Knm Kmm h w = (o, RRaise))
    /\ fst (sk_do_transform T C ncols str_num o Kt) = o
    /\ (forall a, so_attrs T C o = Some a ->
        snd (sk_do_transform T C ncols str_num o Kt)
        = if Nat.eqb (ncols Kt) (s_nact T a) then ROut (str_num (s_rows T a) (s_scale T a) Kt) else RRaise)
    /\ (sk_fit_ok T nrows ncols Knm Kmm w = true ->
        let (o2, rs) := sk_run T C nrows ncols H sfit_num str_num o
                               (cons (SFit Knm Kmm h w) (cons (STransform Knm) nil)) in
        sk_run T C nrows ncols H sfit_num str_num o (cons (SFitTransform Knm Kmm h w) nil)
        = (o2, cons (List.last rs RDone) nil)).
Proof.
  move=> T C H nrows ncols sfit_num str_num o Knm Kmm Kt h w.
  split; first exact: sk_rejected_fit.
  split; first exact: sk_transform_pure.
  by split; [move=> a; exact: sk_transform_accepts | exact: sk_fit_transform_steps].
Qed.
Print Assumptions C12_sparse_rejected_calls.

(* non-vacuity, on the binary64 instantiation the check runs: one KernelNormalizer object fitted
   with weights (1, 3) on K1, then re-fitted WITHOUT weights on K2 = [[0,0],[0,4]]; the re-fit
   is accepted, the object equals a freshly fitted one, and transform(K2) is the matrix of
   C12_nonvacuous_float *)
Example C12_history_nonvacuous_float :
  let K1 := cons (cons 1%float (cons 2%float nil)) (cons (cons 2%float (cons 5%float nil)) nil) in
  let K2 := cons (cons 0%float (cons 0%float nil)) (cons (cons 0%float (cons 4%float nil)) nil) in
  let w := cons (cons 1%float nil) (cons (cons 3%float nil) nil) in
  let run := kn_run fmat f_nrows f_ncols f_norm_w f_fit_num f_tr_num in
  kn_w_ok fmat f_nrows K2 None = true
  /\ fst (run (kn_new fmat true true) (cons (fOFit K1 (Some w)) (cons (fOFit K2 wNone) nil)))
     = fst (run (kn_new fmat true true) (cons (fOFit K2 wNone) nil))
  /\ snd (run (kn_new fmat true true)
               (cons (fOFit K1 (Some w)) (cons (fOFit K2 wNone) (cons (fOTransform K2) nil))))
     = cons RDone (cons RDone (cons (ROut
         (cons (cons 1%float (cons (-1)%float nil)) (cons (cons (-1)%float (cons 1%float nil)) nil))) nil)).
Proof. by split; [|split]; vm_compute. Qed.

(* ---- the caller's arrays: the object holds values, not references --------------------------- *)

(* Model/KernelHeap.v: the caller owns arrays (addresses in a heap), may overwrite them between
   calls (HWrite), and transform(K, copy=False) writes into the caller's array.  Object and
   results of ANY such history are those of the value-level machine on the calls resolved to the
   values the arrays held when each call was made *)
Theorem C12_object_holds_values :
  forall (T : Type) (nrows ncols : T -> nat) (norm_w : T -> T)
         (fit_num : bool -> bool -> T -> option T -> T * T * T)
         (tr_num : bool -> option T -> T -> T -> T -> T -> T)
         (cen_num : bool -> option T -> T -> T -> T -> T)
         (ops : list (kh_op T)) (o : kn_obj T) (h : heap T),
    let '(o2, _, rs) := kh_run T nrows ncols norm_w fit_num tr_num cen_num o h ops in
    (o2, rs) = kn_run T nrows ncols norm_w fit_num tr_num o
                      (kh_resolve T nrows ncols norm_w fit_num tr_num cen_num o h ops).
Proof. move=> T nrows ncols norm_w fit_num tr_num cen_num ops o h; exact: kh_run_resolved. Qed.
Print Assumptions C12_object_holds_values.

(* fit copies: after any prefix of calls, the caller may overwrite ANY of its arrays — those it
   passed to fit included — and neither the object nor the result of any later call changes,
   as long as no later call is itself handed the overwritten array *)
Theorem C12_fit_copies :
  forall (T : Type) (nrows ncols : T -> nat) (norm_w : T -> T)
         (fit_num : bool -> bool -> T -> option T -> T * T * T)
         (tr_num : bool -> option T -> T -> T -> T -> T -> T)
         (cen_num : bool -> option T -> T -> T -> T -> T)
         (pre tail : list (kh_op T)) (o : kn_obj T) (h : heap T) (a : nat) (v : T),
    (forall op, List.In op tail -> ~ List.In a (kh_reads T op)) ->
    let '(o1, _, rs1) := kh_run T nrows ncols norm_w fit_num tr_num cen_num o h (pre ++ HWrite a v :: tail) in
    let '(o2, _, rs2) := kh_run T nrows ncols norm_w fit_num tr_num cen_num o h (pre ++ tail) in
    o1 = o2 /\ rs1 = rs2.
Proof.
  move=> T nrows ncols norm_w fit_num tr_num cen_num pre tail o h a v; exact: kh_write_irrelevant.
Qed.
Print Assumptions C12_fit_copies.

(* fit_transform(K, w, copy=False), on the heap machine: same object, same RETURNED matrix and same
   contents of the caller's array afterwards as fit(K, w) followed by transform(K, copy=False) — the
   returned matrix is the fit-then-transform of the values the array held when the call was made
   (fit copies them first), the array afterwards holds the centred kernel the transform left *)
Theorem C12_fit_transform_inplace :
  forall (T : Type) (nrows ncols : T -> nat) (norm_w : T -> T)
         (fit_num : bool -> bool -> T -> option T -> T * T * T)
         (tr_num : bool -> option T -> T -> T -> T -> T -> T)
         (cen_num : bool -> option T -> T -> T -> T -> T)
         (o : kn_obj T) (h : heap T) (aK : nat) (aw : option nat),
    kn_w_ok T nrows (h aK) (hrd T h aw) = true ->
    let '(o2, h2, rs) := kh_run T nrows ncols norm_w fit_num tr_num cen_num o h
                                (cons (HFit aK aw) (cons (HTransformIP aK) nil)) in
    kh_run T nrows ncols norm_w fit_num tr_num cen_num o h (cons (HFitTransformIP aK aw) nil)
    = (o2, h2, cons (List.last rs RDone) nil).
Proof.
  move=> T nrows ncols norm_w fit_num tr_num cen_num o h aK aw; exact: kh_fit_transform_inplace.
Qed.
Print Assumptions C12_fit_transform_inplace.

(* non-vacuity on the binary64 instantiation: fit(K1 at address 0, weights at address 1), the
   caller overwrites both arrays, transform(copy=False) of the array at address 2: the result
   is the one obtained without the writes, and the array at address 2 now holds the centred,
   unscaled kernel *)
Example C12_fit_copies_nonvacuous_float :
  let K1 := cons (cons 1%float (cons 2%float nil)) (cons (cons 2%float (cons 5%float nil)) nil) in
  let w := cons (cons 1%float nil) (cons (cons 3%float nil) nil) in
  let junk := cons (cons 7%float (cons 7%float nil)) (cons (cons 7%float (cons 7%float nil)) nil) in
  let h : heap fmat := fun a => match a with O => K1 | S O => w | _ => K1 end in
  let r1 := fkh_run (kn_new fmat true true) h
              (cons (HFit 0%N (Some 1%N)) (cons (HWrite 1%N junk) (cons (HWrite 0%N junk) (cons (HTransformIP 2%N) nil)))) in
  let r2 := fkh_run (kn_new fmat true true) h (cons (HFit 0%N (Some 1%N)) (cons (HTransformIP 2%N) nil)) in
  snd r1 = snd r2 /\ fst (fst r1) = fst (fst r2)
  /\ (exists X, snd r1 = cons RDone (cons (ROut X) nil))
  /\ fclose_ref 0%float 0%float (snd (fst r1) 2%N) K1 = false
  /\ (let r3 := fkh_run (kn_new fmat true true) h (cons (HFitTransformIP 0%N (Some 1%N)) nil) in
      let r4 := fkh_run (kn_new fmat true true) h (cons (HFitTransform 0%N (Some 1%N)) nil) in
      snd r3 = snd r4 /\ fclose_ref 0%float 0%float (snd (fst r3) 0%N) K1 = false
      /\ snd (fst r4) 0%N = K1).
Proof.
  split; [by vm_compute|split; [by vm_compute|split; [|split]]].
  - by eexists; vm_compute.
  - by vm_compute.
  - by vm_compute.
Qed.
