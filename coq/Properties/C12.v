(* C12 — kernel centring and normalisation equal centring and scaling in feature space.
   Statements only; every proof is `exact <lemma>` from Proofs/KernelNormP.v.

   Model: Model/KernelNorm.v (mexp programs of KernelNormalizer.fit/transform/fit_transform,
   the explicit feature route, SparseKernelCenterer.fit/transform; run on binary64 against
   /repo by the check) and Model/KernelNormMx.v (the same programs run by [eval_mx] over an
   arbitrary real closed field F):
     kn_fit_mx cfg K w            = (K_fit_rows_, K_fit_all_, scale_)   [scale_ a 1x1 matrix]
     kn_transform_mx cfg w st Kt  = transform of a k x n kernel with the fitted state
     kn_fit_transform_mx cfg K w  = the single-term program of fit_transform
     kf_transform_mx cfg w Phi Psi = the feature route: centre explicit features, Gram, scale
     sk_fit_mx cfg Knm w Kmm P    = (K_fit_rows_, scale_), P standing for pinv(Kmm, rcond)
     sk_transform_mx st Kt        = (Kt - K_fit_rows_) / scale_
   cfg = (with_center, with_trace, sample_weight given).  Vocabulary (Model/ScalerMx.v):
   wsum, wmean w A (row of weighted column means), rows_of k r (k copies of the row r);
   kn_effw cfg w = w, or all ones when no weights are given; kn_wok cfg w = these weights
   have a non-zero sum.  All theorems: any real closed field, any n, p, k, m, any such
   weights (non-negative or not), every flag combination unless a flag is a hypothesis. *)
From Coq Require Import PrimFloat.
From mathcomp Require Import all_ssreflect all_algebra.
From Verif Require Import MExp MExpMx MxBox ScalerMx KernelNorm KernelNormMx KernelNormP.
Set Implicit Arguments.
Unset Strict Implicit.
Unset Printing Implicit Defensive.
Import GRing.Theory Num.Theory.
Local Open Scope ring_scope.

(* For features Phi (training, n x p) and K = Phi Phi^T: the fitted scale_ is trace/n of the
   Gram matrix of the features centred by the weighted training mean mu (mu = 0 when
   centring is off; 1 when trace scaling is off), and transforming ANY test-train kernel
   Psi Phi^T (in particular the training kernel, Psi = Phi) gives the Gram matrix of the
   centred test and training features divided by that one scale. *)
Theorem C12_center_feature_space :
  forall (F : rcfType) (cfg : kn_cfg) (n : nat) (w : 'cV[F]_n),
    kn_wok cfg w ->
    forall (p : nat) (Phi : 'M[F]_(n, p)),
    let K := Phi *m Phi^T in
    let mu := if kn_center cfg then wmean (kn_effw cfg w) Phi else 0 in
    let st := kn_fit_mx cfg K w in
    st.2 = (if kn_trace cfg
            then (\tr ((Phi - rows_of n mu) *m (Phi - rows_of n mu)^T) / n%:R)%:M else 1%:M)
    /\ forall (k : nat) (Psi : 'M[F]_(k, p)),
         kn_transform_mx cfg w st (Psi *m Phi^T)
         = (st.2 ord0 ord0)^-1 *: ((Psi - rows_of k mu) *m (Phi - rows_of n mu)^T).
Proof. exact kn_center_feature_space. Qed.
Print Assumptions C12_center_feature_space.

(* the same in program form: the kernel-route programs on (Phi Phi^T, Psi Phi^T) and the
   feature-route program on (Phi, Psi) evaluate to the same matrix *)
Theorem C12_feature_route :
  forall (F : rcfType) (cfg : kn_cfg) (n p k : nat) (w : 'cV[F]_n)
         (Phi : 'M[F]_(n, p)) (Psi : 'M[F]_(k, p)),
    kn_wok cfg w ->
    kf_transform_mx cfg w Phi Psi
    = kn_transform_mx cfg w (kn_fit_mx cfg (Phi *m Phi^T) w) (Psi *m Phi^T).
Proof. exact kf_transform_eq. Qed.
Print Assumptions C12_feature_route.

(* trace scaling on: the transformed training kernel has trace n — for ANY square K
   (symmetric or not, Gram or not), weighted or not, centred or not *)
Theorem C12_trace_n :
  forall (F : rcfType) (cfg : kn_cfg) (n : nat) (w : 'cV[F]_n),
    kn_wok cfg w ->
    forall K : 'M[F]_(n, n), kn_trace cfg ->
    let st := kn_fit_mx cfg K w in
    st.2 ord0 ord0 != 0 -> \tr (kn_transform_mx cfg w st K) = n%:R.
Proof. exact kn_trace_n. Qed.
Print Assumptions C12_trace_n.

(* with_center=False switches off exactly the centring: no means are stored and transform
   only divides by scale_ = trace(K)/n (or 1) *)
Theorem C12_flags_no_center :
  forall (F : rcfType) (cfg : kn_cfg) (n : nat) (w : 'cV[F]_n),
    kn_wok cfg w ->
    forall K : 'M[F]_(n, n), ~~ kn_center cfg ->
    let st := kn_fit_mx cfg K w in
    [/\ st.1.1 = 0, st.1.2 = 0,
        st.2 = (if kn_trace cfg then (\tr K / n%:R)%:M else 1%:M)
      & forall (k : nat) (Kt : 'M[F]_(k, n)),
          kn_transform_mx cfg w st Kt = (st.2 ord0 ord0)^-1 *: Kt].
Proof. exact kn_no_center. Qed.
Print Assumptions C12_flags_no_center.

(* with_trace=False switches off exactly the scaling: same stored means, scale_ = 1, and
   the output is the with_trace=True output multiplied back by that scale *)
Theorem C12_flags_no_trace :
  forall (F : rcfType) (c h : bool) (n : nat) (w : 'cV[F]_n) (K : 'M[F]_(n, n)),
    let cfg1 := KnCfg c true h in
    let cfg0 := KnCfg c false h in
    kn_wok cfg1 w ->
    let st1 := kn_fit_mx cfg1 K w in
    let st0 := kn_fit_mx cfg0 K w in
    [/\ st0.1 = st1.1, st0.2 = 1%:M
      & st1.2 ord0 ord0 != 0 ->
        forall (k : nat) (Kt : 'M[F]_(k, n)),
          kn_transform_mx cfg0 w st0 Kt = st1.2 ord0 ord0 *: kn_transform_mx cfg1 w st1 Kt].
Proof. exact kn_trace_only_scales. Qed.
Print Assumptions C12_flags_no_trace.

(* fit_transform (one program) equals fit followed by transform *)
Theorem C12_fit_transform :
  forall (F : rcfType) (cfg : kn_cfg) (n : nat) (w : 'cV[F]_n),
    kn_wok cfg w ->
    forall K : 'M[F]_(n, n),
      kn_fit_transform_mx cfg K w = kn_transform_mx cfg w (kn_fit_mx cfg K w) K.
Proof. exact kn_fit_transform_eq. Qed.
Print Assumptions C12_fit_transform.

(* sparse variant, centring on: the weighted column means of the transformed training
   block vanish (any rectangular Knm, any Kmm, any P) *)
Theorem C12_sparse_column_means_zero :
  forall (F : rcfType) (cfg : kn_cfg) (n m : nat) (w : 'cV[F]_n)
         (Knm : 'M[F]_(n, m)) (Kmm P : 'M[F]_(m, m)),
    kn_wok cfg w -> kn_center cfg ->
    let st := sk_fit_mx cfg Knm w Kmm P in
    st.2 ord0 ord0 != 0 ->
    wmean (kn_effw cfg w) (sk_transform_mx st Knm) = 0.
Proof. exact sk_column_means_zero. Qed.
Print Assumptions C12_sparse_column_means_zero.

(* sparse variant, trace scaling on: the centred Nystrom kernel T P T^T of the transformed
   training block T has trace n, whenever the trace the scale was computed from is positive *)
Theorem C12_sparse_nystrom_trace_n :
  forall (F : rcfType) (cfg : kn_cfg) (n m : nat) (w : 'cV[F]_n)
         (Knm : 'M[F]_(n, m)) (Kmm P : 'M[F]_(m, m)),
    kn_wok cfg w -> kn_trace cfg ->
    let st := sk_fit_mx cfg Knm w Kmm P in
    0 < \tr ((Knm - rows_of n st.1) *m P *m (Knm - rows_of n st.1)^T) ->
    let T := sk_transform_mx st Knm in
    \tr (T *m P *m T^T) = n%:R.
Proof. exact sk_nystrom_trace_n. Qed.
Print Assumptions C12_sparse_nystrom_trace_n.

(* sparse variant in feature space, with the pseudo-inverse as an oracle: if Knm = Phi A^T,
   Kmm = A A^T (A = features of the active set) and P satisfies the four Penrose equations
   for Kmm, then Knm_centered = (centred features) A^T, the centred Nystrom kernel is the
   Gram matrix of the centred features projected by Pi = A^T P A, its trace is >= 0 (so the
   square root in scale_ is taken of a non-negative number) and scale_ is as stated *)
Theorem C12_sparse_feature_space :
  forall (F : rcfType) (cfg : kn_cfg) (n m p : nat) (w : 'cV[F]_n)
         (Phi : 'M[F]_(n, p)) (A : 'M[F]_(m, p)) (P : 'M[F]_(m, m)),
    kn_wok cfg w -> penrose (A *m A^T) P ->
    let mu := if kn_center cfg then wmean (kn_effw cfg w) Phi else 0 in
    let Pi := A^T *m P *m A in
    let st := sk_fit_mx cfg (Phi *m A^T) w (A *m A^T) P in
    let Kc := Phi *m A^T - rows_of n st.1 in
    [/\ Kc = (Phi - rows_of n mu) *m A^T,
        Kc *m P *m Kc^T = ((Phi - rows_of n mu) *m Pi) *m ((Phi - rows_of n mu) *m Pi)^T,
        0 <= \tr (Kc *m P *m Kc^T)
      & st.2 = if kn_trace cfg
               then (Num.sqrt (\tr (((Phi - rows_of n mu) *m Pi) *m ((Phi - rows_of n mu) *m Pi)^T)
                               / n%:R))%:M
               else 1%:M].
Proof. exact sk_feature_space. Qed.
Print Assumptions C12_sparse_feature_space.

(* ... where Pi is the orthogonal projector onto the span of the active features:
   idempotent, symmetric, and it fixes every active feature vector *)
Theorem C12_sparse_projector :
  forall (F : rcfType) (m p : nat) (A : 'M[F]_(m, p)) (P : 'M[F]_(m, m)),
    penrose (A *m A^T) P ->
    let Pi := A^T *m P *m A in
    [/\ Pi *m Pi = Pi, Pi^T = Pi & A *m Pi = A].
Proof. exact Pi_projector. Qed.
Print Assumptions C12_sparse_projector.

(* the Penrose equations determine the oracle uniquely (so the hypothesis pins down
   np.linalg.pinv), and the pseudo-inverse of a symmetric matrix is symmetric *)
Theorem C12_pinv_unique :
  forall (F : rcfType) (m : nat) (K P Q : 'M[F]_(m, m)),
    penrose K P -> penrose K Q -> P = Q.
Proof. exact penrose_unique. Qed.
Print Assumptions C12_pinv_unique.

(* non-vacuity: over every real closed field, features (0, 2) (n = 2, p = 1), unweighted,
   centring and trace scaling on: the weights are usable, scale_ = 1 (non-zero); the
   1 x 1 identity is its own pseudo-inverse; and with the active feature 1 the sparse
   trace hypothesis holds (the trace is 2 > 0) *)
Example C12_nonvacuous :
  forall F : rcfType,
    let cfg := KnCfg true true false in
    let Phi : 'M[F]_(2, 1) := \matrix_(i, j) (i : nat)%:R *+ 2 in
    let w : 'cV[F]_2 := 0 in
    [/\ kn_wok cfg w,
        (kn_fit_mx cfg (Phi *m Phi^T) w).2 = 1%:M,
        penrose (1%:M : 'M[F]_1) 1%:M
      & let st := sk_fit_mx cfg (Phi *m (1%:M : 'M[F]_1)^T) w 1%:M 1%:M in
        \tr ((Phi *m (1%:M)^T - rows_of 2 st.1) *m 1%:M *m (Phi *m (1%:M)^T - rows_of 2 st.1)^T)
        = 2%:R].
Proof. exact kn_nonvacuous. Qed.

(* the binary64 run of the same programs on the same data: K = Phi Phi^T = [[0,0],[0,4]] *)
Example C12_nonvacuous_float :
  let K := cons (cons 0%float (cons 0%float nil)) (cons (cons 0%float (cons 4%float nil)) nil) in
  st_scale (kn_fit_f (KnCfg true true false) 2 K nil) = cons (cons 1%float nil) nil
  /\ kn_fit_transform_f (KnCfg true true false) 2 K nil
     = cons (cons 1%float (cons (-1)%float nil)) (cons (cons (-1)%float (cons 1%float nil)) nil).
Proof. split; vm_compute; reflexivity. Qed.
