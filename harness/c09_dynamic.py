"""Dynamic part of C09: pure Python against the implementation (failing-input search and
cross-validation of the static translator).  Every case is regenerated from
(scenario name, variant, layout, dseed), so reports are replayable."""
import os
import warnings

os.environ.setdefault("TQDM_DISABLE", "1")      # QuickShift / SparseKDE print progress bars to stderr

import numpy as np

LAYOUTS = ["C", "F", "RO", "VIEW"]
RTOL, ATOL = 1e-6, 1e-9


# ------------------------------------------------------------------ layouts and snapshots
def lay(a, layout):
    """same values, requested memory layout"""
    a = np.array(a)
    if a.ndim == 0:
        return a
    if layout == "C":
        return np.ascontiguousarray(a).copy()
    if layout == "F":
        return np.asfortranarray(a).copy() if a.ndim > 1 else a.copy()
    if layout == "RO":
        b = a.copy()
        b.setflags(write=False)
        return b
    big = np.zeros(tuple(2 * s + 1 for s in a.shape), dtype=a.dtype)
    view = big[tuple(slice(1, None, 2) for _ in a.shape)]
    view[...] = a
    return view


class Arr:
    """marks a value to which the layout of the case applies"""
    def __init__(self, a):
        self.a = a


def realise(v, layout):
    if isinstance(v, Arr):
        return lay(v.a, layout)
    if isinstance(v, list):
        return [realise(x, layout) for x in v]
    if isinstance(v, tuple):
        return tuple(realise(x, layout) for x in v)
    if isinstance(v, dict):
        return {k: realise(x, layout) for k, x in v.items()}
    return v


def snap(v, depth=0):
    """structural, byte-wise digest of a value"""
    if isinstance(v, np.ndarray):
        base = v.base if isinstance(v.base, np.ndarray) else None
        return ("nd", v.dtype.str, v.shape, v.tobytes(), base.tobytes() if base is not None and base.dtype != object else None)
    if isinstance(v, (list, tuple)):
        return (type(v).__name__,) + tuple(snap(x, depth + 1) for x in v)
    if isinstance(v, dict):
        return ("dict",) + tuple((repr(k), snap(x, depth + 1)) for k, x in sorted(v.items(), key=lambda kv: repr(kv[0])))
    if isinstance(v, np.generic):
        return ("val", repr(v.item()))
    if v is None or isinstance(v, (bool, int, float, complex, str, bytes)):
        return ("val", repr(v))
    if isinstance(v, np.random.RandomState):
        return ("rng",)
    if callable(v) and not hasattr(v, "get_params"):
        return ("callable", getattr(v, "__name__", type(v).__name__))
    if hasattr(v, "__dict__") and depth < 4:
        return ("obj", type(v).__name__, snap(vars(v), depth + 1))
    return ("repr", type(v).__name__)


def close(a, b):
    """digests equal up to rounding in float arrays"""
    if a == b:
        return True
    if type(a) is not type(b) or len(a) != len(b) or a[0] != b[0]:
        return False
    if a[0] == "nd":
        if a[1] != b[1] or a[2] != b[2]:
            return False
        x, y = np.frombuffer(a[3], dtype=a[1]), np.frombuffer(b[3], dtype=b[1])
        if x.dtype.kind in "fc":
            return bool(np.allclose(x, y, rtol=RTOL, atol=ATOL, equal_nan=True))
        return bool(np.array_equal(x, y))
    if a[0] == "val":
        try:
            return bool(np.isclose(float(a[1]), float(b[1]), rtol=RTOL, atol=ATOL, equal_nan=True))
        except (TypeError, ValueError):
            return False
    if a[0] == "dict":
        return all(x[0] == y[0] and close(x[1], y[1]) for x, y in zip(a[1:], b[1:]))
    if a[0] == "obj":
        return a[1] == b[1] and close(a[2], b[2])
    return all(close(x, y) if isinstance(x, tuple) else x == y for x, y in zip(a[1:], b[1:]))


def state(est):
    """{attribute: digest} of an estimator (callables compared by name only)"""
    return {k: snap(v, 1) for k, v in vars(est).items()}


def state_diff(s1, s2, ignore=()):
    out = []
    for k in sorted(set(s1) | set(s2)):
        if k in ignore:
            continue
        if k not in s1:
            out.append("%s only in the fresh estimator" % k)
        elif k not in s2:
            out.append("%s left over in the refitted estimator" % k)
        elif not close(s1[k], s2[k]):
            out.append("%s differs" % k)
    return out


def params_digest(est):
    if hasattr(est, "get_params"):
        try:
            return {k: snap(v, 2) for k, v in est.get_params(deep=False).items()}
        except Exception:
            pass
    return {}


# ------------------------------------------------------------------ data
N_EXTRA = 0          # extra samples added to every generated data set (thorough tier varies the shape)


def base_data(dseed, n=14, d=5, t=2):
    n = n + N_EXTRA
    rs = np.random.RandomState(dseed)
    X = rs.normal(size=(n, d))
    X -= X.mean(axis=0)
    W = rs.normal(size=(d, t))
    Y = X @ W + 0.1 * rs.normal(size=(n, t))
    Y -= Y.mean(axis=0)
    return rs, X, Y


def imp(path):
    mod, _, name = path.rpartition(".")
    import importlib
    return getattr(importlib.import_module("skmatter." + mod), name)


# ------------------------------------------------------------------ scenarios
# A class scenario returns dict(ctor=dict, steps=[(method, kwargs)], fit=(kwargs), alt_fits={history: kwargs},
#                               fresh_steps=[...] run on a new estimator, ignore=set of attributes)
def sc_selector(pkg, cls):
    feature = pkg == "feature_selection"
    pcov = cls.startswith("PCov")
    fps = "FPS" in cls

    def make(variant, dseed):
        rs, X, Y = base_data(dseed)
        _, XB, YB = base_data(dseed + 101)
        _, XS, YS = base_data(dseed + 202, n=9, d=4)
        ctor = dict(n_to_select=3)
        if variant == 0:
            if fps and not pcov:
                ctor["initialize"] = [0, 2]
        elif variant == 1:
            if fps:
                ctor.update(initialize="random", random_state=3)
            else:
                ctor.update(k=2, recompute_every=2)
            ctor["score_threshold"] = 1e-12
        elif variant == 4:
            # a relative score threshold that IS reached before n_to_select (early-stop path of fit)
            ctor.update(n_to_select=4, score_threshold=0.9, score_threshold_type="relative")
        elif variant == 3:
            # random choices under the DEFAULT random_state (0, falsy) and under an explicit 0
            if fps:
                ctor.update(initialize="random")
            else:
                # k=2 with two selections only: after more orthogonalisations the top-2 eigenspace of the 4-feature
                # data set degenerates and pi_ is not a function of the inputs any more (ARPACK start vector)
                ctor.update(k=2, random_state=0, n_to_select=2)
        else:
            if fps and not pcov:
                ctor["initialize"] = Arr(np.array([1, 3]))
            if pcov:
                ctor["mixing"] = 0.25
            ctor["n_to_select"] = 0.5
        y = Arr(Y) if pcov or variant not in (1, 3) else None
        fit = dict(X=Arr(X), y=y)
        steps = [("fit", fit), ("score", dict(X=Arr(X), y=y)), ("get_support", dict(indices=True, ordered=True))]
        if feature:
            steps.append(("transform", dict(X=Arr(X))))
            steps.append(("inverse_transform", dict(X=Arr(X[:, :3 if variant != 2 and (fps or variant != 3) else 2]))))
        else:       # documented as unsupported for sample selection (ValueError); exercised all the same
            steps += [("transform", dict(X=Arr(X))), ("inverse_transform", dict(X=Arr(X[:3])))]
        if fps:
            steps += [("get_distance", {}), ("get_select_distance", {})]
        if variant == 0:
            steps += [("set_params", dict(n_to_select=5)), ("fit", dict(X=Arr(X), y=y, warm_start=True))]
        out = dict(ctor=ctor, steps=steps, fit=fit, fresh_steps=[("fit_transform", dict(X=Arr(X), y=y))],
                   alt_fits={"A_then_B": dict(X=Arr(XB), y=Arr(YB) if y is not None else None),
                             "larger_then_smaller": dict(X=Arr(XS), y=Arr(YS) if y is not None else None)})
        if not pcov:
            out["alt_fits"]["with_y_then_without"] = (dict(X=Arr(X), y=Arr(Y)), dict(X=Arr(XB), y=None))
            out["alt_fits"]["without_y_then_with"] = (dict(X=Arr(X), y=None), dict(X=Arr(XB), y=Arr(YB)))
        out["param_histories"] = {"n_to_select": (dict(n_to_select=2), None),
                                  "threshold": (dict(score_threshold=1e-3, score_threshold_type="relative"), None)}
        return out
    return dict(unit="%s.%s" % (pkg, cls), cls="%s.%s" % (pkg, cls), variants=5, make=make)


def sc_voronoi():
    def make(variant, dseed):
        rs, X, Y = base_data(dseed, n=16)
        _, XB, YB = base_data(dseed + 101, n=16)
        _, XS, YS = base_data(dseed + 202, n=9, d=4)
        ctor = dict(n_to_select=4)
        if variant == 1:
            ctor.update(full_fraction=0.6, initialize="random", random_state=1)
        if variant == 2:
            ctor.update(full_fraction=0.3, n_to_select=5)
        if variant == 3:
            ctor.update(full_fraction=0.5, initialize="random")          # DEFAULT random_state
        y = Arr(Y) if variant == 2 else None
        fit = dict(X=Arr(X), y=y)
        steps = [("fit", fit), ("score", dict(X=Arr(X), y=y)), ("get_distance", {}), ("get_select_distance", {}),
                 ("get_support", dict(indices=True)), ("transform", dict(X=Arr(X))), ("inverse_transform", dict(X=Arr(X[:4])))]
        alt = {"A_then_B": dict(X=Arr(XB), y=Arr(YB) if y is not None else None),
               "larger_then_smaller": dict(X=Arr(XS), y=Arr(YS) if y is not None else None),
               "with_y_then_without": (dict(X=Arr(X), y=Arr(Y)), dict(X=Arr(XB), y=None)),
               "without_y_then_with": (dict(X=Arr(X), y=None), dict(X=Arr(XB), y=Arr(YB)))}
        # with full_fraction=None the calibrated value depends on wall-clock timings
        return dict(ctor=ctor, steps=steps, fit=fit, fresh_steps=[("fit_transform", {})], alt_fits=alt if variant else {}, ignore={"full_fraction"} if variant == 0 else set(),
                    nondeterministic=variant == 0)
    return dict(unit="sample_selection.VoronoiFPS", cls="sample_selection.VoronoiFPS", variants=4, make=make)


def sc_dch():
    def make(variant, dseed):
        rs, X, Y = base_data(dseed, n=16, d=4)
        _, XB, YB = base_data(dseed + 101, n=16, d=4)
        _, XS, YS = base_data(dseed + 202, n=10, d=3)
        ctor = dict(low_dim_idx=[0]) if variant == 0 else dict(low_dim_idx=[0, 1], tolerance=1e-10)
        fit = dict(X=Arr(X), y=Arr(Y[:, 0]))
        steps = [("fit", fit), ("score_samples", dict(X=Arr(X), y=Arr(Y[:, 0]))), ("score_feature_matrix", dict(X=Arr(X)))]
        return dict(ctor=ctor, steps=steps, fit=fit,
                    alt_fits={"A_then_B": dict(X=Arr(XB), y=Arr(YB[:, 0])),
                              "larger_then_smaller": dict(X=Arr(XS), y=Arr(YS[:, 0]))},
                    param_histories={"tolerance": (dict(tolerance=1e-8), None)})
    return dict(unit="sample_selection.DirectionalConvexHull", cls="sample_selection.DirectionalConvexHull", variants=2, make=make)


def sc_pcovr():
    def make(variant, dseed):
        from sklearn.linear_model import Ridge
        rs, X, Y = base_data(dseed)
        _, XB, YB = base_data(dseed + 101)
        _, XS, YS = base_data(dseed + 202, n=9, d=4)
        ctor = dict(mixing=0.5, n_components=2)
        fitkw = dict(X=Arr(X), Y=Arr(Y))
        if variant == 1:
            ctor.update(space="sample", mixing=0.3)
        elif variant == 2:
            ctor.update(regressor=Ridge(alpha=1e-6, fit_intercept=False, tol=1e-12).fit(X, Y), space="feature")
        elif variant == 3:
            ctor.update(regressor="precomputed", space="sample")
            W = np.linalg.lstsq(X, Y, rcond=None)[0]
            fitkw = dict(X=Arr(X), Y=Arr(X @ W), W=Arr(W))
        elif variant == 4:
            ctor.update(svd_solver="randomized", random_state=0, n_components=2)
        elif variant == 5:
            ctor.update(svd_solver="arpack", random_state=0, n_components=2, regressor=Ridge(alpha=1e-3, fit_intercept=False))
        T = rs.normal(size=(4, 2))
        steps = [("fit", fitkw), ("transform", dict(X=Arr(X))), ("inverse_transform", dict(T=Arr(T))),
                 ("predict", dict(X=Arr(X))), ("predict", dict(T=Arr(T))), ("score", dict(X=Arr(X), Y=Arr(Y)))]
        alt = {} if variant in (2, 3) else {"A_then_B": dict(X=Arr(XB), Y=Arr(YB)),
                                            "larger_then_smaller": dict(X=Arr(XS), Y=Arr(YS))}
        ph = {}
        if variant in (0, 1, 4):
            ph = {"mixing": (dict(mixing=0.8), None),
                  "space": (dict(space="sample" if variant != 1 else "feature"), None),
                  "n_components": (dict(n_components=3), None)}
        return dict(ctor=ctor, steps=steps, fit=fitkw, fresh_steps=[("fit_transform", dict(X=Arr(X), y=Arr(Y)))] if variant != 3 else [],
                    alt_fits=alt, param_histories=ph)
    return dict(unit="decomposition.PCovR", cls="decomposition.PCovR", variants=6, make=make)


def sc_kpcovr():
    def make(variant, dseed):
        from sklearn.kernel_ridge import KernelRidge
        rs, X, Y = base_data(dseed, n=12, d=4)
        _, XB, YB = base_data(dseed + 101, n=12, d=4)
        _, XS, YS = base_data(dseed + 202, n=9, d=3)
        ctor = dict(mixing=0.5, n_components=2, kernel="rbf", gamma=0.1, fit_inverse_transform=True)
        fitkw = dict(X=Arr(X), Y=Arr(Y))
        if variant == 1:
            ctor.update(center=True, kernel="linear", gamma=None)
        elif variant == 2:
            ctor.update(regressor=KernelRidge(kernel="rbf", gamma=0.1).fit(X, Y))
        elif variant == 3:
            ctor.update(regressor=KernelRidge(kernel="rbf", gamma=0.1), svd_solver="randomized", random_state=0)
        T = rs.normal(size=(4, 2))
        steps = [("fit", fitkw), ("transform", dict(X=Arr(X))), ("inverse_transform", dict(T=Arr(T))),
                 ("predict", dict(X=Arr(X))), ("score", dict(X=Arr(X), Y=Arr(Y)))]
        alt = {} if variant == 2 else {"A_then_B": dict(X=Arr(XB), Y=Arr(YB)), "larger_then_smaller": dict(X=Arr(XS), Y=Arr(YS))}
        ph = {}
        if variant != 2:
            ph = {"center": (dict(center=(variant != 1)), None),
                  "no_inverse": (dict(fit_inverse_transform=False), None),
                  "mixing": (dict(mixing=0.2), None)}
        return dict(ctor=ctor, steps=steps, fit=fitkw, fresh_steps=[("fit_transform", dict(X=Arr(X), y=Arr(Y)))], alt_fits=alt,
                    param_histories=ph)
    return dict(unit="decomposition.KernelPCovR", cls="decomposition.KernelPCovR", variants=4, make=make)


def sc_scaler():
    def make(variant, dseed):
        rs, X, Y = base_data(dseed)
        _, XB, _ = base_data(dseed + 101)
        _, XS, _ = base_data(dseed + 202, n=9, d=4)
        w = rs.uniform(0.5, 1.5, size=len(X))
        ctor = {} if variant == 0 else dict(column_wise=True, copy=True) if variant == 1 else dict(with_mean=False, copy=False)
        fit = dict(X=Arr(X), sample_weight=Arr(w) if variant != 2 else None)
        steps = [("fit", fit), ("transform", dict(X=Arr(X))), ("transform", dict(X=Arr(X), copy=True)),
                 ("inverse_transform", dict(X_tr=Arr(X)))]
        return dict(ctor=ctor, steps=steps, fit=fit, fresh_steps=[("fit_transform", dict(X=Arr(X)))],
                    alt_fits={"A_then_B": dict(X=Arr(XB), sample_weight=None),
                              "with_weights_then_without": (dict(X=Arr(X), sample_weight=Arr(w)), dict(X=Arr(XB))),
                              "without_weights_then_with": (dict(X=Arr(X)), dict(X=Arr(XB), sample_weight=Arr(w))),
                              "larger_then_smaller": dict(X=Arr(XS)),
                              "with_y_then_without": (dict(X=Arr(X), y=Arr(Y)), dict(X=Arr(XB)))},
                    param_histories={"with_mean": (dict(with_mean=(variant == 2)), None),
                                     "with_std": (dict(with_std=False), None),
                                     "column_wise": (dict(column_wise=(variant != 1)), None)})
    return dict(unit="preprocessing.StandardFlexibleScaler", cls="preprocessing.StandardFlexibleScaler", variants=3, make=make)


def sc_knorm():
    def make(variant, dseed):
        rs, X, Y = base_data(dseed)
        _, XB, _ = base_data(dseed + 101)
        _, XS, _ = base_data(dseed + 202, n=9, d=4)
        w = rs.uniform(0.5, 1.5, size=len(X))
        K = X @ X.T
        ctor = {} if variant == 0 else dict(with_center=False) if variant == 1 else dict(with_trace=False)
        fit = dict(K=Arr(K), sample_weight=Arr(w) if variant == 0 else None)
        steps = [("fit", fit), ("transform", dict(K=Arr(K)))]
        return dict(ctor=ctor, steps=steps, fit=fit, fresh_steps=[("fit_transform", dict(K=Arr(K)))],
                    alt_fits={"A_then_B": dict(K=Arr(XB @ XB.T)), "larger_then_smaller": dict(K=Arr(XS @ XS.T)),
                              "with_weights_then_without": (dict(K=Arr(K), sample_weight=Arr(w)), dict(K=Arr(XB @ XB.T))),
                              "without_weights_then_with": (dict(K=Arr(K)), dict(K=Arr(XB @ XB.T), sample_weight=Arr(w)))},
                    param_histories={"with_center": (dict(with_center=(variant == 1)), None),
                                     "with_trace": (dict(with_trace=(variant == 2)), None)})
    return dict(unit="preprocessing.KernelNormalizer", cls="preprocessing.KernelNormalizer", variants=3, make=make)


def sc_skc():
    def make(variant, dseed):
        rs, X, Y = base_data(dseed)
        _, XB, _ = base_data(dseed + 101)
        _, XS, _ = base_data(dseed + 202, n=9, d=4)
        w = rs.uniform(0.5, 1.5, size=len(X))
        Knm, Kmm = X @ X[:4].T, X[:4] @ X[:4].T
        ctor = {} if variant == 0 else dict(with_center=False, rcond=1e-10)
        fit = dict(Knm=Arr(Knm), Kmm=Arr(Kmm), sample_weight=Arr(w) if variant == 0 else None)
        steps = [("fit", fit), ("transform", dict(Knm=Arr(Knm)))]
        return dict(ctor=ctor, steps=steps, fit=fit, fresh_steps=[("fit_transform", dict(Knm=Arr(Knm), Kmm=Arr(Kmm)))],
                    alt_fits={"A_then_B": dict(Knm=Arr(XB @ XB[:4].T), Kmm=Arr(XB[:4] @ XB[:4].T)),
                              "larger_then_smaller": dict(Knm=Arr(XS @ XS[:3].T), Kmm=Arr(XS[:3] @ XS[:3].T)),
                              "with_weights_then_without": (dict(Knm=Arr(Knm), Kmm=Arr(Kmm), sample_weight=Arr(w)),
                                                            dict(Knm=Arr(XB @ XB[:4].T), Kmm=Arr(XB[:4] @ XB[:4].T)))},
                    param_histories={"with_center": (dict(with_center=(variant == 1)), None)})
    return dict(unit="preprocessing.SparseKernelCenterer", cls="preprocessing.SparseKernelCenterer", variants=2, make=make)


def sc_ridge():
    def make(variant, dseed):
        rs, X, Y = base_data(dseed, n=16)
        _, XB, YB = base_data(dseed + 101, n=16)
        _, XS, YS = base_data(dseed + 202, n=10, d=4)
        ctor = dict(alphas=Arr(np.array([1e-3, 1e-1, 1.0])), random_state=0)
        if variant == 1:
            ctor = dict(alphas=Arr(np.array([0.01, 0.1, 0.5])), alpha_type="relative", regularization_method="cutoff",
                        random_state=1, shuffle=True)
        if variant == 2:
            ctor = dict(alphas=Arr(np.array([1e-3, 1e-1, 1.0])), random_state=0, shuffle=True)
        fit = dict(X=Arr(X), y=Arr(Y))
        steps = [("fit", fit), ("predict", dict(X=Arr(X))), ("score", dict(X=Arr(X), y=Arr(Y)))]
        return dict(ctor=ctor, steps=steps, fit=fit,
                    alt_fits={"A_then_B": dict(X=Arr(XB), y=Arr(YB)), "larger_then_smaller": dict(X=Arr(XS), y=Arr(YS))},
                    param_histories={"method": (dict(regularization_method="cutoff" if variant == 0 else "tikhonov"), None),
                                     "alpha_type": (dict(alpha_type="relative" if variant == 0 else "absolute"), None)})
    return dict(unit="linear_model.Ridge2FoldCV", cls="linear_model.Ridge2FoldCV", variants=3, make=make)


def sc_orth():
    def make(variant, dseed):
        from sklearn.linear_model import Ridge
        rs, X, Y = base_data(dseed, t=3)
        _, XB, YB = base_data(dseed + 101, t=3)
        _, XS, YS = base_data(dseed + 202, n=9, d=4, t=3)
        ctor = {} if variant == 0 else dict(use_orthogonal_projector=False) if variant == 1 else dict(linear_estimator=Ridge(alpha=1e-3))
        fit = dict(X=Arr(X), y=Arr(Y))
        steps = [("fit", fit), ("predict", dict(X=Arr(X))), ("score", dict(X=Arr(X), y=Arr(Y) if variant != 1 else Arr(np.pad(Y, [(0, 0), (0, 2)]))))]
        return dict(ctor=ctor, steps=steps, fit=fit,
                    alt_fits={"A_then_B": dict(X=Arr(XB), y=Arr(YB)), "larger_then_smaller": dict(X=Arr(XS), y=Arr(YS))},
                    param_histories={"projector": (dict(use_orthogonal_projector=(variant == 1)), None)})
    return dict(unit="linear_model.OrthogonalRegression", cls="linear_model.OrthogonalRegression", variants=3, make=make)


def sc_kde():
    def make(variant, dseed):
        rs = np.random.RandomState(dseed)
        centers = np.array([[0.0, 0.0], [3.0, 3.0], [0.0, 4.0]])
        desc = np.vstack([c + 0.5 * rs.normal(size=(14, 2)) for c in centers])
        descB = np.vstack([c + 0.6 * rs.normal(size=(14, 2)) for c in centers])
        w = rs.uniform(0.5, 1.5, size=len(desc))
        grid, gridB, gridS = desc[::6], descB[::6], desc[::9]
        ctor = dict(descriptors=Arr(desc), weights=Arr(w), fpoints=0.5)
        if variant == 1:
            ctor = dict(descriptors=Arr(desc), weights=None, fspread=0.5)
        fit = dict(X=Arr(grid))
        steps = [("fit", fit), ("score_samples", dict(X=Arr(grid))), ("score", dict(X=Arr(grid))),
                 ("sample", dict(n_samples=2, random_state=0))]
        return dict(ctor=ctor, steps=steps, fit=fit,
                    alt_fits={"A_then_B": dict(X=Arr(gridB)), "larger_then_smaller": dict(X=Arr(gridS))},
                    param_histories={"fpoints": (dict(fpoints=0.3), None)} if variant == 0 else {"fspread": (dict(fspread=0.8), None)})
    return dict(unit="neighbors.SparseKDE", cls="neighbors.SparseKDE", variants=2, make=make)


def sc_qs():
    def make(variant, dseed):
        rs = np.random.RandomState(dseed)
        pts = rs.normal(size=(8, 2)) * 2
        ptsB = rs.normal(size=(8, 2)) * 2
        ptsS = rs.normal(size=(5, 2)) * 2
        cuts = rs.uniform(5, 9, size=8)
        probs = -rs.uniform(2, 12, size=8)
        if variant == 0:
            ctor = dict(dist_cutoff_sq=Arr(cuts))
        elif variant == 1:
            ctor = dict(dist_cutoff_sq=Arr(cuts), scale=1.5)
        else:
            ctor = dict(gabriel_shell=2)
        fit = dict(X=Arr(pts), samples_weight=Arr(probs))
        alt = {"A_then_B": dict(X=Arr(ptsB), samples_weight=Arr(probs))}
        if variant == 2:
            alt["larger_then_smaller"] = dict(X=Arr(ptsS), samples_weight=Arr(probs[:5]))
        ph = {"gabriel_shell": (dict(gabriel_shell=3), None)} if variant == 2 else \
            {"dist_cutoff_sq": (dict(dist_cutoff_sq=Arr(cuts * 1.5)), None)} if variant == 0 else {}
        return dict(ctor=ctor, steps=[("fit", fit)], fit=fit, alt_fits=alt, param_histories=ph)
    return dict(unit="clustering.QuickShift", cls="clustering.QuickShift", variants=3, make=make)


# function scenarios: make(variant, dseed) -> [(kwargs or (args, kwargs))]
def fn_scenarios():
    out = []

    def add(unit, path, variants, make):
        out.append(dict(unit=unit, fn=path, variants=variants, make=make))

    def recon(local):
        def make(variant, dseed):
            rs, X, Y = base_data(dseed, n=20, d=3, t=4)
            idx = rs.permutation(20)
            kw = dict(X=Arr(X), Y=Arr(Y))
            if variant == 1:
                kw.update(train_idx=Arr(idx[:12]), test_idx=Arr(idx[12:]))
            elif variant == 2:
                kw.update(test_idx=Arr(idx[12:]))
            if local:
                kw["n_local_points"] = 6
            return kw
        return make
    for nm in ("pointwise_global_reconstruction_error", "global_reconstruction_error",
               "pointwise_global_reconstruction_distortion", "global_reconstruction_distortion"):
        add("metrics." + nm, "metrics." + nm, 3, recon(False))
    for nm in ("pointwise_local_reconstruction_error", "local_reconstruction_error"):
        add("metrics." + nm, "metrics." + nm, 3, recon(True))

    def chk(local):
        def make(variant, dseed):
            rs, X, Y = base_data(dseed, n=20, d=3, t=4)
            idx = rs.permutation(20)
            kw = dict(X=Arr(X), Y=Arr(Y), train_idx=Arr(idx[:12]) if variant else None,
                      test_idx=Arr(idx[12:]) if variant == 1 else None, scaler=None, estimator=None)
            if local:
                kw["n_local_points"] = 5
            return kw
        return make
    add("metrics.check_global_reconstruction_measures_input", "metrics.check_global_reconstruction_measures_input", 3, chk(False))
    add("metrics.check_local_reconstruction_measures_input", "metrics.check_local_reconstruction_measures_input", 3, chk(True))

    def pr(comp):
        def make(variant, dseed):
            rs = np.random.RandomState(dseed)
            tr = [Arr(rs.normal(size=(rs.randint(2, 5), 5))) for _ in range(5)]
            te = [Arr(rs.normal(size=(rs.randint(2, 4), 5))) for _ in range(2)]
            if variant:
                # the same pool of environments, grouped differently into structures (variant 1), other alpha (variant 2)
                pool = np.vstack([t.a for t in tr])
                cuts = [0, 1, 3, len(pool) - 2, len(pool)] if variant == 1 else [0, 2, len(pool)]
                tr = [Arr(pool[a:b]) for a, b in zip(cuts[:-1], cuts[1:])]
            kw = dict(X_train=tr, X_test=te, alpha=1e-3)
            if comp:
                kw["comp_dims"] = Arr(np.array([2, 3]))
            return kw
        return make
    add("metrics.local_prediction_rigidity", "metrics.local_prediction_rigidity", 3, pr(False))
    add("metrics.componentwise_prediction_rigidity", "metrics.componentwise_prediction_rigidity", 3, pr(True))

    def ppd(variant, dseed):
        rs, X, Y = base_data(dseed, n=7, d=3)
        kw = dict(X=Arr(X), Y=Arr(X[:4] + 0.5))
        if variant == 1:
            kw.update(cell_length=Arr(np.array([2.0, 3.0, 2.5])), squared=True)
        if variant == 2:
            kw = dict(X=Arr(X), cell_length=[2.0, 3.0, 2.5])
        return kw
    add("metrics.periodic_pairwise_euclidean_distances", "metrics.periodic_pairwise_euclidean_distances", 3, ppd)

    def pmd(variant, dseed):
        rs, X, Y = base_data(dseed, n=7, d=3)
        A = rs.normal(size=(3, 3))
        cov = A @ A.T + np.eye(3)
        kw = dict(X=Arr(X), Y=Arr(X[:4] + 0.5), cov_inv=Arr(np.linalg.inv(cov)))
        if variant == 1:
            kw.update(cov_inv=Arr(np.stack([np.linalg.inv(cov), np.eye(3)])), cell_length=Arr(np.array([2.0, 3.0, 2.5])), squared=True)
        return kw
    add("metrics.pairwise_mahalanobis_distances", "metrics.pairwise_mahalanobis_distances", 2, pmd)

    def xo(variant, dseed):
        rs, X, Y = base_data(dseed)
        if variant == 0:
            return dict(x1=Arr(X), c=1, copy=True)
        return dict(x1=Arr(X), x2=Arr(Y), copy=True)
    add("utils.X_orthogonalizer", "utils.X_orthogonalizer", 2, xo)
    add("utils.Y_feature_orthogonalizer", "utils.Y_feature_orthogonalizer", 1,
        lambda v, s: (lambda d: dict(y=Arr(d[2]), X=Arr(d[1][:, :2])))(base_data(s)))
    add("utils.Y_sample_orthogonalizer", "utils.Y_sample_orthogonalizer", 1,
        lambda v, s: (lambda d: dict(y=Arr(d[2]), X=Arr(d[1]), y_ref=Arr(d[2][:6]), X_ref=Arr(d[1][:6])))(base_data(s)))

    def pc(variant, dseed):
        rs, X, Y = base_data(dseed)
        kw = dict(mixing=0.5 if variant == 0 else 0.0 if variant == 1 else 1.0, X=Arr(X), Y=Arr(Y))
        return kw
    add("decomposition.pcovr_covariance", "utils.pcovr_covariance", 3, pc)
    add("decomposition.pcovr_kernel", "utils.pcovr_kernel", 3, pc)

    def lr(variant, dseed):
        from sklearn.linear_model import Ridge
        rs, X, Y = base_data(dseed)
        reg = Ridge(alpha=1e-3)
        if variant == 1:
            reg.fit(X, Y)
        return dict(regressor=reg, X=Arr(X), y=Arr(Y))
    add("utils.check_lr_fit", "utils.check_lr_fit", 2, lr)

    def krr(variant, dseed):
        from sklearn.kernel_ridge import KernelRidge
        rs, X, Y = base_data(dseed)
        reg = KernelRidge(kernel="linear")
        if variant == 1:
            reg.fit(X, Y)
        return dict(regressor=reg, K=Arr(X @ X.T), X=Arr(X), y=Arr(Y))
    add("utils.check_krr_fit", "utils.check_krr_fit", 2, krr)

    def cov(variant, dseed):
        rs = np.random.RandomState(dseed)
        A = rs.normal(size=(4, 4))
        return dict(cov=Arr(A @ A.T + 0.1 * np.eye(4)))
    add("utils.effdim", "utils.effdim", 1, cov)
    add("utils.oas", "utils.oas", 1, lambda v, s: dict(cov(v, s), n=10.0, D=4))

    def tts(variant, dseed):
        rs, X, Y = base_data(dseed, n=20)
        if variant == 0:
            return ([Arr(X), Arr(Y)], dict(test_size=0.3, random_state=0))
        return ([Arr(X), Arr(Y)], dict(test_size=0.6, train_size=0.6, train_test_overlap=True, random_state=0))
    add("model_selection.train_test_split", "model_selection.train_test_split", 2, tts)
    add("utils.no_progress_bar", "utils.no_progress_bar", 1, lambda v, s: dict(x=[1, 2, 3]))
    add("utils.get_progress_bar", "utils.get_progress_bar", 1, lambda v, s: {})
    return out


def class_scenarios():
    out = []
    for pkg in ("feature_selection", "sample_selection"):
        for cls in ("FPS", "CUR", "PCovFPS", "PCovCUR"):
            out.append(sc_selector(pkg, cls))
    out += [sc_voronoi(), sc_dch(), sc_pcovr(), sc_kpcovr(), sc_scaler(), sc_knorm(), sc_skc(), sc_ridge(), sc_orth(),
            sc_kde(), sc_qs()]
    return out


# ------------------------------------------------------------------ running cases
READONLY_MSG = ("read-only", "readonly", "WRITEABLE", "not writeable")


class Recorder:
    def __init__(self):
        self.mutations = {}        # entry -> [dict(kind, name, what, case)]
        self.violations = []
        self.calls_by_entry = {}
        self.n_calls = 0
        self.snapshots = set()
        self.errors = {}
        self.stats = dict(layouts={}, histories={}, determinism_pairs=0, fit_returns_self=0, fit_transform_pairs=0,
                          readonly_write_attempts=0, tolerance_used=0, ties_skipped=0)
        self.samples = []

    def mutation(self, entry, kind, name, what, case):
        self.mutations.setdefault(entry, []).append(dict(kind=kind, name=name, what=what, case=case))

    def violation(self, what, case, key=None, detail=None):
        self.violations.append(dict(what=what, case=case, key=key, detail=detail))


def observe_call(rec, entry, case, call, args_named, hyper_named, est, layout):
    """run call(); compare byte-wise digests of every argument, of the hyper-parameter objects and
    of get_params() before/after; -> (ok, result)"""
    before = {k: snap(v) for k, v in args_named.items()}
    hbefore = {k: snap(v) for k, v in hyper_named.items()}
    pbefore = params_digest(est) if est is not None else {}
    rec.n_calls += 1
    rec.calls_by_entry[entry] = rec.calls_by_entry.get(entry, 0) + 1
    rec.stats["layouts"][layout] = rec.stats["layouts"].get(layout, 0) + 1
    ok, res, err = True, None, None
    try:
        with warnings.catch_warnings():
            warnings.simplefilter("ignore")
            res = call()
    except Exception as e:        # noqa
        ok, err = False, e
        msg = "%s: %s" % (type(e).__name__, e)
        if any(m in str(e) for m in READONLY_MSG):
            rec.stats["readonly_write_attempts"] += 1
            # which argument was it?  every read-only array argument is a candidate
            names = [k for k, v in list(args_named.items()) + list(hyper_named.items()) if isinstance(v, np.ndarray) and not v.flags.writeable]
            for k in names:
                rec.mutation(entry, "arg" if k in args_named else "hyper_obj", k,
                             "write attempted on read-only argument %s (%s)" % (k, msg[:80]), case)
        else:
            key = "%s %s" % (entry, type(e).__name__)
            rec.errors[key] = rec.errors.get(key, 0) + 1
    for k, v in args_named.items():
        if isinstance(v, (np.ndarray, list, dict)) or hasattr(v, "__dict__"):
            if ok:
                rec.snapshots.add((entry, k, layout, N_EXTRA))
        if snap(v) != before[k]:
            rec.mutation(entry, "arg", k, "argument %s modified in place" % k, case)
    for k, v in hyper_named.items():
        if snap(v) != hbefore[k]:
            rec.mutation(entry, "hyper_obj", k, "object passed as hyper-parameter %s modified in place" % k, case)
    if est is not None and not entry.endswith(".set_params"):
        pafter = params_digest(est)
        for k in sorted(set(pbefore) | set(pafter)):
            if pbefore.get(k) != pafter.get(k) and not (k in hyper_named and snap(hyper_named[k]) != hbefore[k]):
                rec.mutation(entry, "param", k, "get_params()[%r] changed (was %s)" % (
                    k, str(pbefore.get(k, ("", "absent"))[1])[:40]), case)
    return ok, res, err


POSITIONAL_FIRST = {"X", "K", "Knm", "X_tr"}


def invoke(est, method, kw):
    """call est.method(**kw); the data argument goes positionally (sklearn wraps transform(X, ...))"""
    kw = dict(kw)
    pos = []
    first = next(iter(kw), None)
    if first in POSITIONAL_FIRST:
        pos.append(kw.pop(first))
    return getattr(est, method)(*pos, **kw)


def fit_transform_kwargs(fitkw):
    """arguments of fit, spelled for TransformerMixin.fit_transform(X, y=None, **fit_params)"""
    out = {}
    for k, v in fitkw.items():
        out["y" if k == "Y" else k] = v
    return out


def run_class_case(rec, sc, variant, dseed, layout, checks=True):
    Cls = imp(sc["cls"])
    unit = sc["unit"]
    spec = sc["make"](variant, dseed)
    case = dict(kind="class", scenario=unit, variant=variant, dseed=dseed, layout=layout, n_extra=N_EXTRA)
    ctor = realise(spec["ctor"], layout)
    hyper = {k: v for k, v in ctor.items() if isinstance(v, (np.ndarray, list, dict)) or hasattr(v, "get_params")}
    holder = {}
    ok, est, err = observe_call(rec, unit + ".__init__", case, lambda: Cls(**ctor), dict(ctor), {}, None, layout)
    if not ok:
        return
    for method, kw in spec["steps"]:
        kw = realise(kw, layout)
        if not hasattr(est, method):
            continue
        ok, res, err = observe_call(rec, "%s.%s" % (unit, method), case, lambda: invoke(est, method, kw), kw, hyper, est, layout)
        if method == "fit" and ok and checks:
            rec.stats["fit_returns_self"] += 1
            if res is not est:
                rec.violation("C09 fails: %s.fit does not return the estimator itself" % unit, case, key="%s.fit:returns self" % unit)
        if method == "fit" and not ok:
            break
    for method, kw in spec.get("fresh_steps", []):
        kw = realise(fit_transform_kwargs(spec["fit"]) if method == "fit_transform" else kw, layout)
        ctor2 = realise(sc["make"](variant, dseed)["ctor"], layout)
        try:
            est2 = Cls(**ctor2)
        except Exception:     # noqa
            continue
        if not hasattr(est2, method):
            continue
        hyper2 = {k: v for k, v in ctor2.items() if isinstance(v, (np.ndarray, list, dict)) or hasattr(v, "get_params")}
        ok, res, err = observe_call(rec, "%s.%s" % (unit, method), case, lambda: invoke(est2, method, kw), kw, hyper2, est2, layout)
        if ok and method == "fit_transform" and checks:
            # fit_transform == fit then transform
            ctor3 = realise(sc["make"](variant, dseed)["ctor"], layout)
            fitkw = realise(spec["fit"], layout)
            try:
                with warnings.catch_warnings():
                    warnings.simplefilter("ignore")
                    est3 = Cls(**ctor3)
                    invoke(est3, "fit", fitkw)
                    first = next(iter(fitkw))
                    ref = est3.transform(fitkw[first])
            except Exception:     # noqa
                continue
            rec.stats["fit_transform_pairs"] += 1
            if not close(snap(np.asarray(res)), snap(np.asarray(ref))):
                rec.violation("C09 fails: %s.fit_transform differs from fit followed by transform" % unit, case,
                              key="%s.fit_transform:equals fit.transform" % unit)


# ------------------------------------------------------------------ fit_transform == fit().transform(), every route
def _ft_combos(Cls, spec, dseed):
    """keyword combinations the signature of fit allows: targets given / not given / given although ignored,
    sample_weight given / not given -> [(label, fit kwargs)] (the data argument first)"""
    import inspect
    base = realise(spec["fit"], "C")
    try:
        params = inspect.signature(Cls.fit).parameters
    except (TypeError, ValueError):
        return []
    first = next(iter(base))
    n = len(np.asarray(base[first]))
    rs = np.random.RandomState(dseed + 7)
    ykey = "y" if "y" in params else "Y" if "Y" in params else None
    core = {k: v for k, v in base.items() if k not in (ykey, "sample_weight")}
    yopts = [("", {})]
    if ykey:
        optional = params[ykey].default is not inspect.Parameter.empty
        yopts = [("no y", {})] if optional else []
        if base.get(ykey) is not None:
            yopts.append(("y", {ykey: base[ykey]}))
        yopts.append(("y1d", {ykey: rs.normal(size=n)}))
        yopts.append(("y2d", {ykey: rs.normal(size=(n, 2))}))
    wopts = [("", {})]
    if "sample_weight" in params:
        wopts = [("no weights", {}), ("weights", {"sample_weight": rs.uniform(0.2, 3.0, size=n)}),
                 ("integer weights", {"sample_weight": rs.randint(0, 4, size=n).astype(float) + (np.arange(n) == 0)})]
    out = []
    for yl, yk in yopts:
        for wl, wk in wopts:
            kw = dict(core)
            kw.update(yk)
            kw.update(wk)
            out.append(((yl + " " + wl).strip() or "plain", first, ykey, kw, [p for p in params if p != "self"]))
    return out


def run_fit_transform_combos(rec, sc, variant, dseed, only=None):
    import inspect
    Cls = imp(sc["cls"])
    unit = sc["unit"]
    if not hasattr(Cls, "fit_transform") or not hasattr(Cls, "transform"):
        return
    spec = sc["make"](variant, dseed)
    if spec.get("nondeterministic"):
        return

    def fresh():
        return Cls(**realise(sc["make"](variant, dseed)["ctor"], "C"))

    def cp(kw):
        return {k: (np.array(v) if isinstance(v, np.ndarray) else v) for k, v in kw.items()}
    for label, first, ykey, kw, params_order in _ft_combos(Cls, spec, dseed):
        if only is not None and label != only:
            continue
        case = dict(kind="fit_transform", scenario=unit, variant=variant, dseed=dseed, layout="C", n_extra=N_EXTRA, combo=label)
        with warnings.catch_warnings():
            warnings.simplefilter("ignore")
            try:                                  # reference: fit(...) then transform(data)
                e2 = fresh()
                perturb_global_rng()
                invoke(e2, "fit", cp(kw))
                ref = np.asarray(e2.transform(np.array(kw[first])))
            except Exception:     # noqa  (combination not applicable / transform unsupported)
                rec.stats["fit_transform_not_applicable"] = rec.stats.get("fit_transform_not_applicable", 0) + 1
                continue
            routes = []
            ftkw = cp(kw)
            data = ftkw.pop(first)
            if ykey == "Y" and "Y" in ftkw:
                ftkw["y"] = ftkw.pop("Y")
            routes.append(("fit_transform(%s)" % label, lambda: fresh().fit_transform(data, **ftkw)))
            if "y" in ftkw and list(params_order)[1:2] == [ykey]:
                yv = ftkw["y"]
                rest = {k: v for k, v in ftkw.items() if k != "y"}
                routes.append(("fit_transform(X, y, ...) positional [%s]" % label, lambda: fresh().fit_transform(data, yv, **rest)))
            if first == "X" and ftkw.get("y") is not None and set(ftkw) <= {"y", "sample_weight"}:
                def through_pipeline():
                    from sklearn.linear_model import Ridge
                    from sklearn.pipeline import Pipeline
                    pipe = Pipeline([("t", fresh()), ("r", Ridge())])
                    fp = {"t__sample_weight": ftkw["sample_weight"]} if "sample_weight" in ftkw else {}
                    pipe.fit(data, ftkw["y"], **fp)
                    return pipe.named_steps["t"].transform(np.array(kw[first]))
                routes.append(("Pipeline.fit [%s]" % label, through_pipeline))
            # optional flags of fit_transform / transform themselves (copy=...): the RETURNED values must not depend on them
            # (the reference always works on private copies with copy=True)
            try:
                ft_params = inspect.signature(Cls.fit_transform).parameters
                tr_params = inspect.signature(Cls.transform).parameters
            except (TypeError, ValueError):
                ft_params = tr_params = {}
            for flag in ("copy",):
                for val in (True, False):
                    if flag in ft_params:
                        routes.append(("fit_transform(%s, %s=%r)" % (label, flag, val),
                                       lambda val=val, flag=flag: fresh().fit_transform(np.array(data), **dict(cp(ftkw), **{flag: val}))))
                    if flag in tr_params:
                        def fit_then(val=val, flag=flag):
                            e3 = fresh()
                            invoke(e3, "fit", cp(kw))
                            return e3.transform(np.array(kw[first]), **{flag: val})
                        routes.append(("fit(%s).transform(X, %s=%r)" % (label, flag, val), fit_then))
            for rname, call in routes:
                try:
                    perturb_global_rng()
                    got = np.asarray(call())
                except Exception as e:     # noqa
                    if rname.startswith("Pipeline"):
                        rec.stats["fit_transform_pipeline_skipped"] = rec.stats.get("fit_transform_pipeline_skipped", 0) + 1
                        continue
                    rec.violation("C09 fails: %s.%s raises %s: %s although fit followed by transform works" % (
                        unit, rname, type(e).__name__, str(e)[:80]), case, key="%s.fit_transform:equals fit.transform" % unit)
                    continue
                rec.stats["fit_transform_pairs"] += 1
                if not close(snap(got), snap(ref)):
                    rec.violation("C09 fails: %s %s differs from fit followed by transform with the same arguments" % (unit, rname),
                                  case, key="%s.fit_transform:equals fit.transform" % unit)
                    break


# ------------------------------------------------------------------ random_state: default and every presentation of a seed
def _uses_randomness(ctor):
    return ("random_state" in ctor or ctor.get("initialize") == "random" or bool(ctor.get("shuffle"))
            or ctor.get("svd_solver") in ("randomized", "arpack") or "k" in ctor)


def run_seed_presentations(rec, sc, variant, dseed):
    """every class with a random_state parameter, on the variants that draw random numbers: (i) with the DEFAULT
    random_state two fits give the same state when the default is a seed; (ii) the same seed given as python int,
    numpy integer of several widths or a fresh RandomState instance gives the same state -- numpy's global
    generator being in a different state before each fit"""
    import inspect
    Cls = imp(sc["cls"])
    unit = sc["unit"]
    try:
        sig = inspect.signature(Cls.__init__).parameters
    except (TypeError, ValueError):
        return
    if "random_state" not in sig:
        return
    spec = sc["make"](variant, dseed)
    if spec.get("nondeterministic") or not _uses_randomness(spec["ctor"]):
        return
    ignore = set(spec.get("ignore", ())) | {"random_state"}

    def fitted(how):
        ctor = realise(sc["make"](variant, dseed)["ctor"], "C")
        ctor.pop("random_state", None)
        if how != "default":
            ctor["random_state"] = how()
        est = Cls(**ctor)
        perturb_global_rng()
        with warnings.catch_warnings():
            warnings.simplefilter("ignore")
            invoke(est, "fit", realise(spec["fit"], "C"))
        return est
    perturb_global_rng(reset=True)
    groups = []
    default = sig["random_state"].default
    if isinstance(default, int) and not isinstance(default, bool):
        groups.append(("default random_state (%r)" % default, ["default", "default", lambda: default]))
    for seed in (0, 3):
        groups.append(("random_state=%d as int / numpy integers / RandomState instance" % seed,
                       [lambda s=seed: s, lambda s=seed: np.int64(s), lambda s=seed: np.int32(s), lambda s=seed: np.intp(s),
                        lambda s=seed: np.arange(s + 1)[s], lambda s=seed: np.random.RandomState(s)]))
    names = {0: "reference", 1: "second"}
    for label, hows in groups:
        case = dict(kind="seeds", scenario=unit, variant=variant, dseed=dseed, layout="C", n_extra=N_EXTRA, group=label)
        try:
            ref = fitted(hows[0])
        except Exception:     # noqa
            rec.stats["seed_runs_not_applicable"] = rec.stats.get("seed_runs_not_applicable", 0) + 1
            continue
        for i, how in enumerate(hows[1:], 1):
            try:
                est = fitted(how)
            except Exception as e:     # noqa
                rec.violation("C09 fails: %s with %s: presentation #%d of the same seed raises %s: %s" % (
                    unit, label, i, type(e).__name__, str(e)[:80]), case, key="%s.fit:seed presentation" % unit)
                break
            rec.stats["seed_presentation_pairs"] = rec.stats.get("seed_presentation_pairs", 0) + 1
            d = state_diff(state(est), state(ref), ignore)
            if d and tie_explains(Cls, sc, variant, dseed, "C", spec["fit"], est, ref):
                rec.stats["ties_skipped"] += 1
            elif d:
                rec.violation("C09 fails: %s fitted on the same data with %s (presentation #%d vs #0, numpy's global generator "
                              "re-seeded in between) gives different state: %s" % (unit, label, i, "; ".join(d[:4])),
                              case, key="%s.fit:seed presentation" % unit, detail=d)
                break


# ------------------------------------------------------------------ VoronoiFPS with the timing calibration active
class ScriptedClock:
    """stands in for `time` inside skmatter.sample_selection._voronoi_fps: the calibration of full_fraction then takes a
    path (number of bisection steps, sizes of the trial draws) that depends on `seed` only, not on the wall clock"""
    def __init__(self, seed):
        self.rs, self.t = np.random.RandomState(seed), 0.0

    def __call__(self):
        self.t += float(10.0 ** self.rs.uniform(-4.0, 1.0))     # intervals over five decades: both outcomes of each comparison occur
        return self.t


def run_voronoi_calibration(rec, dseed, only=None):
    """full_fraction=None (calibration active), initialize='random', integer seed: the SELECTION must not depend on how the
    calibration went -- two fits whose (scripted) calibrations differ, a fit with the calibrated value given explicitly and
    a refit of the same object all select the same samples.  full_fraction itself is timing dependent by the pinned
    behaviour (known finding F9) and is not compared."""
    import importlib
    mod = importlib.import_module("skmatter.sample_selection._voronoi_fps")
    Cls = mod.VoronoiFPS
    unit = "sample_selection.VoronoiFPS"
    if not hasattr(mod, "time"):
        rec.stats["voronoi_clock_not_patchable"] = 1
        return
    _, X, Y = base_data(dseed, n=16)
    real_time = mod.time
    compared = ("selected_idx_", "X_selected_", "n_selected_", "support_")

    def fitted(clock_seed, **ctor):
        mod.time = ScriptedClock(clock_seed)
        try:
            est = Cls(n_to_select=4, initialize="random", **ctor)
            perturb_global_rng()
            with warnings.catch_warnings():
                warnings.simplefilter("ignore")
                est.fit(np.array(X))
        finally:
            mod.time = real_time
        return est

    def sel(est):
        return {k: snap(getattr(est, k, None), 1) for k in compared}
    for label, ctor in (("default random_state", {}), ("random_state=0", dict(random_state=0)), ("random_state=3", dict(random_state=3)),
                        ("random_state=np.int64(5)", dict(random_state=np.int64(5)))):
        if only is not None and label != only:
            continue
        case = dict(kind="voronoi_clock", scenario=unit, variant=0, dseed=dseed, layout="C", n_extra=N_EXTRA, group=label)
        perturb_global_rng(reset=True)
        try:
            ref = fitted(11, **ctor)
            others = [("calibration took another path", fitted(12, **ctor)),
                      ("calibration took a third path", fitted(14, **ctor)),
                      ("the calibrated full_fraction given explicitly", fitted(17, full_fraction=float(ref.full_fraction), **ctor)),
                      ("full_fraction=0.5 given explicitly", fitted(15, full_fraction=0.5, **ctor))]
            again = ref
            mod.time = ScriptedClock(16)
            try:
                with warnings.catch_warnings():
                    warnings.simplefilter("ignore")
                    want = sel(ref)
                    perturb_global_rng()
                    again.fit(np.array(X))
            finally:
                mod.time = real_time
            others.append(("the same object fitted again", again))
        except Exception as e:     # noqa
            rec.errors["%s calibration run %s" % (unit, type(e).__name__)] = rec.errors.get("%s calibration run %s" % (unit, type(e).__name__), 0) + 1
            continue
        for what, est in others:
            rec.stats["voronoi_calibration_pairs"] = rec.stats.get("voronoi_calibration_pairs", 0) + 1
            got = sel(est)
            d = [k for k in compared if not close(got[k], want[k])]
            if d:
                rec.violation("C09 fails: %s(initialize='random', full_fraction=None, %s): the selection depends on the outcome of the timing "
                              "calibration -- %s: %s differ from the first fit on the same data with the same seed" % (
                                  unit, label, what, ", ".join(d)), case, key="%s.fit:selection depends on calibration" % unit, detail=d)
                break


# ------------------------------------------------------------------ fitted state must not alias the caller's fit arguments
# aliasing present on the unchanged tree and accepted, with the reason (unit, attribute regex)
ALIAS_ACCEPTED = [
    ("feature_selection.PCovCUR", "X_ref_|y_ref_", "reference copies kept for the warm start only (documented: 'assumes the same X and y'); no method reads them after fit"),
    ("sample_selection.PCovCUR", "X_ref_|y_ref_", "as above"),
]


def _arrays(v, pre=""):
    if isinstance(v, np.ndarray):
        yield pre, v
    elif isinstance(v, (list, tuple)):
        for i, x in enumerate(v):
            yield from _arrays(x, "%s[%d]" % (pre, i))
    elif isinstance(v, dict):
        for k, x in v.items():
            yield from _arrays(x, "%s.%s" % (pre, k) if pre else str(k))


def run_alias_case(rec, sc, variant, dseed):
    """fit, then the caller overwrites every array he passed to fit; the fitted object must not notice"""
    import re
    Cls = imp(sc["cls"])
    unit = sc["unit"]
    spec = sc["make"](variant, dseed)
    if spec.get("nondeterministic"):
        return
    case = dict(kind="alias", scenario=unit, variant=variant, dseed=dseed, layout="C", n_extra=N_EXTRA)
    try:
        perturb_global_rng(reset=True)
        ref = fit_fresh(Cls, sc, variant, dseed, "C", spec["fit"])
        est = Cls(**realise(sc["make"](variant, dseed)["ctor"], "C"))
        kw = realise(spec["fit"], "C")
        with warnings.catch_warnings():
            warnings.simplefilter("ignore")
            perturb_global_rng()
            invoke(est, "fit", kw)
    except Exception:     # noqa
        return
    if state_diff(state(est), state(ref), set(spec.get("ignore", ()))):
        return               # not reproducible in the first place: reported by the determinism family
    names = []
    for name, a in _arrays(kw):
        if a.flags.writeable and a.size:
            if a.dtype.kind == "f":
                a *= -0.37
                a += 2.5
            elif a.dtype.kind in "iu":
                a[...] = a[::-1].copy() if a.ndim == 1 else a
            names.append(name)
    rec.stats["alias_cases"] = rec.stats.get("alias_cases", 0) + 1
    accepted = [rx for u, rx, _ in ALIAS_ACCEPTED if u == unit]
    d = [x for x in state_diff(state(est), state(ref), set(spec.get("ignore", ())))
         if not any(re.fullmatch(rx, x.split(" ")[0]) for rx in accepted)]
    skipped = [x for x in state_diff(state(est), state(ref), set(spec.get("ignore", ()))) if x not in d]
    if skipped:
        rec.stats["alias_accepted"] = rec.stats.get("alias_accepted", 0) + 1
    if d:
        rec.violation("C09 fails: the fitted state of %s aliases the caller's fit arguments: after the caller overwrote %s in place, %s" % (
            unit, ", ".join(names), "; ".join(d[:4])), case, key="%s.fit:state aliases caller arrays" % unit, detail=d)
        return
    if skipped:
        return           # the methods below read the accepted aliases
    for m, k in spec.get("steps", []):
        if m in ("fit", "fit_transform", "sample") or m.startswith("set_"):
            continue
        with warnings.catch_warnings():
            warnings.simplefilter("ignore")
            try:
                want = invoke(ref, m, realise(k, "C"))
            except Exception:     # noqa
                continue
            try:
                got = invoke(est, m, realise(k, "C"))
            except Exception as e:     # noqa
                got = e
        rec.stats["alias_method_comparisons"] = rec.stats.get("alias_method_comparisons", 0) + 1
        if isinstance(got, Exception) or not close(snap(got), snap(want)):
            rec.violation("C09 fails: %s.%s changes after the caller overwrote the arrays passed to fit (%s) in place: the fitted "
                          "state aliases caller data" % (unit, m, ", ".join(names)), case, key="%s.fit:state aliases caller arrays" % unit)
            return


# ------------------------------------------------------------------ functions: no memory of earlier calls
def fresh_function(fn):
    """the same function from a private re-execution of its defining module (fresh module globals)"""
    import importlib.util
    import sys
    mod = sys.modules[fn.__module__]
    spec = importlib.util.spec_from_file_location(mod.__name__.rsplit(".", 1)[0] + "._c09_fresh_" + mod.__name__.rsplit(".", 1)[-1],
                                                  mod.__file__)
    new = importlib.util.module_from_spec(spec)
    new.__package__ = mod.__package__
    spec.loader.exec_module(new)
    return getattr(new, fn.__name__)


def run_function_case(rec, sc, variant, dseed, layout, checks=True):
    fn = imp(sc["fn"])
    unit = sc["unit"]
    spec = sc["make"](variant, dseed)
    case = dict(kind="function", scenario=unit, variant=variant, dseed=dseed, layout=layout, n_extra=N_EXTRA)
    if isinstance(spec, tuple):
        args, kw = realise(spec[0], layout), realise(spec[1], layout)
    else:
        args, kw = [], realise(spec, layout)
    named = dict(kw)
    for i, a in enumerate(args):
        named["arg%d" % i] = a
    ok, res, err = observe_call(rec, unit, case, lambda: fn(*args, **kw), named, {}, None, layout)
    if ok and checks and layout == "C":
        # same inputs twice -> same outputs
        try:
            with warnings.catch_warnings():
                warnings.simplefilter("ignore")
                perturb_global_rng()
                res2 = fn(*args, **kw)
        except Exception:     # noqa
            return
        rec.stats["determinism_pairs"] += 1
        a, b = snap(res, 1), snap(res2, 1)
        if not close(a, b):
            rec.violation("C09 fails: %s returns different results for identical inputs" % unit, case,
                          key="%s:determinism" % unit)
        elif a != b:
            rec.stats["tolerance_used"] += 1
        # ... and the same as a copy of the function that has never been called (no state kept between calls:
        # the calls of the other variants / scenarios precede this one in the process)
        try:
            with warnings.catch_warnings():
                warnings.simplefilter("ignore")
                res3 = fresh_function(fn)(*args, **kw)
        except Exception:     # noqa
            return
        rec.stats["function_history_pairs"] = rec.stats.get("function_history_pairs", 0) + 1
        if not close(a, snap(res3, 1)):
            rec.violation("C09 fails: %s depends on earlier calls in the same process (differs from a never-called copy of the "
                          "function on the same inputs)" % unit, case, key="%s:call history" % unit)


def tie_explains(Cls, sc, variant, dseed, layout, fitkw, e1, e2):
    """two fits of a greedy selector picked different items: is the first differing pick a tie within
    rounding between the two candidates (then the property does not constrain the choice)?"""
    a, b = getattr(e1, "selected_idx_", None), getattr(e2, "selected_idx_", None)
    if a is None or b is None:
        return False
    a, b = list(np.asarray(a).ravel()), list(np.asarray(b).ravel())
    t = next((i for i in range(min(len(a), len(b))) if a[i] != b[i]), None)
    if t is None or t == 0:
        return False
    try:
        ctor = realise(sc["make"](variant, dseed)["ctor"], layout)
        ctor["n_to_select"] = t
        if isinstance(ctor.get("initialize"), (list, np.ndarray)) and len(ctor["initialize"]) > t:
            return False
        est = Cls(**ctor)
        kw = realise(fitkw, layout)
        with warnings.catch_warnings():
            warnings.simplefilter("ignore")
            invoke(est, "fit", kw)
            sc_ = np.asarray(est.score(kw["X"], kw.get("y")), dtype=float)
        if list(np.asarray(est.selected_idx_).ravel()) != a[:t]:
            return False
        x, y = sc_[a[t]], sc_[b[t]]
        return bool(abs(x - y) <= 1e-6 * max(abs(x), abs(y)) + 1e-12)
    except Exception:     # noqa
        return False


_GLOBAL_RNG_STEP = [0]


def perturb_global_rng(reset=False):
    """numpy's GLOBAL generator is put into a different state before every fit / call that is compared with
    another one: with an integer (or default) random_state no result may depend on it"""
    _GLOBAL_RNG_STEP[0] = 0 if reset else _GLOBAL_RNG_STEP[0] + 1
    np.random.seed(977 + 31 * _GLOBAL_RNG_STEP[0])


def fit_fresh(Cls, sc, variant, dseed, layout, fitkw):
    ctor = realise(sc["make"](variant, dseed)["ctor"], layout)
    est = Cls(**ctor)
    perturb_global_rng()
    with warnings.catch_warnings():
        warnings.simplefilter("ignore")
        invoke(est, "fit", realise(fitkw, layout))
    return est


def run_histories(rec, sc, variant, dseed, layout="C"):
    """(b) refit == fresh fit, (c) same seed twice == same state"""
    Cls = imp(sc["cls"])
    unit = sc["unit"]
    spec = sc["make"](variant, dseed)
    ignore = set(spec.get("ignore", ()))
    perturb_global_rng(reset=True)
    # determinism
    if not spec.get("nondeterministic"):
        case = dict(kind="determinism", scenario=unit, variant=variant, dseed=dseed, layout=layout, n_extra=N_EXTRA)
        try:
            e1 = fit_fresh(Cls, sc, variant, dseed, layout, spec["fit"])
            e2 = fit_fresh(Cls, sc, variant, dseed, layout, spec["fit"])
            rec.stats["determinism_pairs"] += 1
            s1, s2 = state(e1), state(e2)
            d = state_diff(s1, s2, ignore)
            if d and tie_explains(Cls, sc, variant, dseed, layout, spec["fit"], e1, e2):
                rec.stats["ties_skipped"] += 1
            elif d:
                rec.violation("C09 fails: %s fitted twice on the same data with the same random_state gives different state (%s)" % (
                    unit, "; ".join(d[:4])), case, key="%s.fit:determinism" % unit, detail=d)
            elif any(s1[k] != s2[k] for k in s1 if k not in ignore):
                rec.stats["tolerance_used"] += 1
        except Exception as e:     # noqa
            rec.errors["%s determinism %s" % (unit, type(e).__name__)] = 1
    # histories: name -> (earlier fits [kwargs...], hyper-parameters changed by set_params before the last fit, last fit)
    hist = {}
    for hname, second in spec.get("alt_fits", {}).items():
        first = spec["fit"]
        if isinstance(second, tuple):
            first, second = second
        hist[hname] = ([first], None, second, None)
    # round 3: longer and mixed sequences, for every class (not where the fit depends on wall-clock timings)
    timed = bool(spec.get("nondeterministic"))
    if not timed:
        hist["same_data_twice"] = ([spec["fit"]], None, spec["fit"], None)
    ab = spec.get("alt_fits", {}).get("A_then_B")
    if isinstance(ab, dict) and not timed:
        hist["A_B_then_A"] = ([spec["fit"], ab], None, spec["fit"], None)
        sm = spec.get("alt_fits", {}).get("larger_then_smaller")
        if isinstance(sm, dict):
            hist["A_smaller_then_B"] = ([spec["fit"], sm], None, ab, None)
            hist["smaller_then_larger"] = ([sm], None, spec["fit"], None)
    for pname, (params, second) in ({} if timed else spec.get("param_histories", {})).items():
        last = second if second is not None else (ab if isinstance(ab, dict) else spec["fit"])
        # public parameters changed after construction -- through set_params and by plain attribute assignment,
        # between two fits and before the first fit: the object must behave like one constructed with the new values
        hist["set_params:" + pname] = ([spec["fit"]], params, last, "set_params")
        hist["setattr:" + pname] = ([spec["fit"]], params, last, "setattr")
        hist["set_params_before_fit:" + pname] = ([], params, spec["fit"], "set_params")
        hist["setattr_before_fit:" + pname] = ([], params, spec["fit"], "setattr")
    for hname, (firsts, params, second, route) in sorted(hist.items()):
        first = firsts[0] if firsts else None
        case = dict(kind="history", scenario=unit, variant=variant, dseed=dseed, layout=layout, n_extra=N_EXTRA, history=hname)
        rec.stats["histories"][hname.split(":")[0]] = rec.stats["histories"].get(hname.split(":")[0], 0) + 1
        try:
            if params:
                ctor = realise(sc["make"](variant, dseed)["ctor"], layout)
                ctor.update(realise(params, layout))
                fresh = Cls(**ctor)
                with warnings.catch_warnings():
                    warnings.simplefilter("ignore")
                    invoke(fresh, "fit", realise(second, layout))
            else:
                fresh = fit_fresh(Cls, sc, variant, dseed, layout, second)
        except Exception as e:     # noqa
            rec.errors["%s fresh fit %s %s" % (unit, hname, type(e).__name__)] = 1
            continue
        try:
            if first is None:
                est = Cls(**realise(sc["make"](variant, dseed)["ctor"], layout))
            else:
                est = fit_fresh(Cls, sc, variant, dseed, layout, first)
        except Exception as e:     # noqa
            rec.errors["%s first fit %s %s" % (unit, hname, type(e).__name__)] = 1
            continue
        # use the fitted object before refitting it (transform / predict / score ...): anything
        # such a call caches must not survive the refit
        method_steps = [(m, kw) for m, kw in spec.get("steps", []) if m not in ("fit", "fit_transform", "sample") and not m.startswith("set_")]
        for m, kw in (method_steps if first is not None else []):
            try:
                with warnings.catch_warnings():
                    warnings.simplefilter("ignore")
                    invoke(est, m, realise(kw, layout))
            except Exception:      # noqa
                pass
        try:
            with warnings.catch_warnings():
                warnings.simplefilter("ignore")
                for kw_mid in firsts[1:]:          # further earlier fits, each followed by a use of the object
                    perturb_global_rng()
                    invoke(est, "fit", realise(kw_mid, layout))
                    for m, kw in method_steps[:2]:
                        try:
                            invoke(est, m, realise(kw, layout))
                        except Exception:      # noqa
                            pass
                if params and route == "setattr":
                    for pk, pv in realise(params, layout).items():
                        setattr(est, pk, pv)
                elif params:
                    est.set_params(**realise(params, layout))
        except Exception as e:     # noqa
            rec.errors["%s intermediate step %s %s" % (unit, hname, type(e).__name__)] = 1
            continue
        try:
            with warnings.catch_warnings():
                warnings.simplefilter("ignore")
                perturb_global_rng()
                invoke(est, "fit", realise(second, layout))
        except Exception as e:     # noqa
            rec.violation("C09 fails: %s refitted (%s) raises %s: %s although a fresh estimator fits the same data" % (
                unit, hname, type(e).__name__, str(e)[:100]), case, key="%s.fit:refit %s" % (unit, hname))
            continue
        d = state_diff(state(est), state(fresh), ignore)
        if params:
            # after set_params the fresh estimator is the one constructed with the new hyper-parameters; attributes
            # that only the old configuration assigns may be left over: harmless as long as nothing reads them (the
            # method comparison below decides), so they are counted, not reported
            left = [x for x in d if x.endswith("left over in the refitted estimator")]
            if left:
                rec.stats["leftover_after_set_params"] = rec.stats.get("leftover_after_set_params", 0) + len(left)
            d = [x for x in d if x not in left]
        if d and tie_explains(Cls, sc, variant, dseed, layout, second, est, fresh):
            rec.stats["ties_skipped"] += 1
        elif d:
            rec.violation("C09 fails: %s refitted (%s) differs from a fresh estimator fitted on the second data set: %s" % (
                unit, hname, "; ".join(d[:4])), case, key="%s.fit:refit %s" % (unit, hname), detail=d)
        else:
            # ... and every method must answer like the fresh estimator's
            for m, kw in method_steps:
                try:
                    with warnings.catch_warnings():
                        warnings.simplefilter("ignore")
                        want = invoke(fresh, m, realise(kw, layout))
                except Exception:      # noqa  (not applicable to the second data set)
                    continue
                rec.stats["refit_method_comparisons"] = rec.stats.get("refit_method_comparisons", 0) + 1
                try:
                    with warnings.catch_warnings():
                        warnings.simplefilter("ignore")
                        got = invoke(est, m, realise(kw, layout))
                except Exception as e:     # noqa
                    rec.violation("C09 fails: %s.%s raises %s after a refit (%s) although it works on a fresh estimator" % (
                        unit, m, type(e).__name__, hname), case, key="%s.%s:after refit %s" % (unit, m, hname))
                    break
                if not close(snap(got), snap(want)):
                    rec.violation("C09 fails: %s.%s after a refit (%s) differs from the same call on a fresh estimator fitted "
                                  "on the second data set" % (unit, m, hname), case,
                                  key="%s.%s:after refit %s" % (unit, m, hname))
                    break


def run_dynamic(ctx):
    global N_EXTRA
    rec = Recorder()
    quick = ctx.quick
    shapes = [0] if quick else [0, 5, 11, 20]
    nseeds = 1 if quick else 3
    seeds = [ctx.rng.randrange(1, 10 ** 6) for _ in range(nseeds)]
    try:
        for extra in shapes:
            N_EXTRA = extra
            for sc in class_scenarios():
                for variant in range(sc["variants"]):
                    for dseed in seeds:
                        for layout in LAYOUTS:
                            run_class_case(rec, sc, variant, dseed, layout, checks=(layout == "C"))
                        run_histories(rec, sc, variant, dseed, "C")
                        run_fit_transform_combos(rec, sc, variant, dseed)
                        run_alias_case(rec, sc, variant, dseed)
                        run_seed_presentations(rec, sc, variant, dseed)
                        if not quick:
                            run_histories(rec, sc, variant, dseed, "F")
            for dseed in seeds:
                run_voronoi_calibration(rec, dseed)
            for sc in fn_scenarios():
                for variant in range(sc["variants"]):
                    for dseed in seeds:
                        for layout in LAYOUTS:
                            run_function_case(rec, sc, variant, dseed, layout)
    finally:
        N_EXTRA = 0
    rec.stats["errors"] = dict(sorted(rec.errors.items()))
    rec.stats["calls"] = rec.n_calls
    rec.stats["entry_points_called"] = len(rec.calls_by_entry)
    rec.stats["seeds"] = seeds
    rec.stats["extra_samples"] = shapes
    samples = [dict(entry=e, calls=n) for e, n in sorted(rec.calls_by_entry.items())[:1]]
    return dict(mutations=rec.mutations, violations=rec.violations, calls_by_entry=rec.calls_by_entry,
                n_calls=rec.n_calls, n_snapshots=len(rec.snapshots), stats=rec.stats, samples=samples)


def matches(o, kind, what):
    if kind == "SetParam":
        return o["kind"] == "param" and o["name"] == what
    names = what.split(",")
    return o["kind"] in ("arg", "hyper_obj", "param") and (o["name"] in names or what == "?")


def replay_case(case):
    global N_EXTRA
    N_EXTRA = int(case.get("n_extra", 0))
    try:
        return _replay_case(case)
    finally:
        N_EXTRA = 0


def _replay_case(case):
    rec = Recorder()
    scs = {s["unit"]: s for s in class_scenarios()}
    fns = {s["unit"]: s for s in fn_scenarios()}
    k = case["kind"]
    if k == "class":
        run_class_case(rec, scs[case["scenario"]], case["variant"], case["dseed"], case["layout"])
    elif k == "function":
        # the memory-of-earlier-calls check needs the earlier calls: replay the variants up to this one
        for v in range(case["variant"] + 1):
            run_function_case(rec, fns[case["scenario"]], v, case["dseed"], case["layout"])
        rec.violations = [x for x in rec.violations if x["case"]["variant"] == case["variant"]]
    elif k == "fit_transform":
        run_fit_transform_combos(rec, scs[case["scenario"]], case["variant"], case["dseed"], only=case.get("combo"))
    elif k == "alias":
        run_alias_case(rec, scs[case["scenario"]], case["variant"], case["dseed"])
    elif k == "voronoi_clock":
        run_voronoi_calibration(rec, case["dseed"], only=case.get("group"))
    elif k == "seeds":
        run_seed_presentations(rec, scs[case["scenario"]], case["variant"], case["dseed"])
        rec.violations = [x for x in rec.violations if x["case"].get("group") == case.get("group")]
    else:
        sc = scs[case["scenario"]]
        spec_hist = case.get("history")
        run_histories(rec, sc, case["variant"], case["dseed"], case["layout"])
        if spec_hist:
            rec.violations = [v for v in rec.violations if v["case"].get("history") == spec_hist]
        else:
            rec.violations = [v for v in rec.violations if v["case"]["kind"] == "determinism"]
    msgs = [v["what"] for v in rec.violations]
    for entry, obs in sorted(rec.mutations.items()):
        msgs += ["%s: %s" % (entry, o["what"]) for o in obs[:2]]
    return "; ".join(msgs[:4]) if msgs else None
