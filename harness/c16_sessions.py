"""C16, session family: histories of calls on QuickShift estimator objects that SHARE caller-owned
arrays (cut-off arrays handed to several constructors, data refitted, weights rewritten in place,
gabriel_shell reassigned, rejected constructor / rejected fit in between).

Model: coq/Model/QSSession.v (`qrun`), theorems C16_session_* (a fit after any history is the
fresh fit for the caller's ORIGINAL cut-offs times scale^2; no call writes the caller's arrays;
rejected calls leave the state alone).  The implementation's trace (dist_cutoff_sq attribute after
each construction, labels_/cluster_centers_idx_ after each fit, labels_ at each read, raised or
not) is compared with the model's trace with `=` inside Coq; every mismatching session is then
examined step by step by the Python oracle with the pristine caller values.

Exactness: cut-offs k + 1/8, scale in {1/2, 1, 3/2, 2, 3}: cut-off * scale^2 is a multiple of 1/32
well below 2^53, so the attribute must equal the model's integer (units of 1/32) exactly.
"""
import os
from fractions import Fraction as Fr

import numpy as np

from harness import common as C

SCALES = [0.5, 1.5, 2.0, 3.0, 1.0, 0.5, 1.5]      # mostly != 1: the scaling must be visible
NEST = 2


# ------------------------------------------------------------------------------ generation
def gen_session(rng, quick, P):
    """P: the c16 module (gen_points, exact_d2, gabriel_exact)."""
    nmax = rng.randint(2, 9 if quick else 14)
    d = rng.randint(1, 3)
    cell = None
    ndata = rng.randint(1, 3)
    data = []
    for k in range(ndata):
        n = nmax if rng.random() < 0.5 else rng.randint(1, nmax)
        dim = d
        if k > 0 and rng.random() < 0.15:
            dim = d + 1                      # with a cell: fit must reject it; without: just other data
        fam = rng.choice(["tiny", "medium", "large", "large", "collinear", "dups"])
        X = P.gen_points(rng, n, dim, fam)
        w = rng.sample(range(-30, 30 + n), n)
        data.append(dict(n=n, dim=dim, X=X, w=w))
    if rng.random() < 0.35:
        span = 1 + max(abs(v) for q in data for r in q["X"] for v in r)
        cell = [rng.randint(2, 2 * span + 3) for _ in range(d)]
    # right-angle ties under a cell are decided by float noise: such sessions use the cut-off rule only
    allow_gab = True
    if cell is not None:
        for q in data:
            if q["dim"] == d and P.gabriel_exact(P.exact_d2(q["X"], cell), q["n"])[1]:
                allow_gab = False
    diam = 1
    for q in data:
        if cell is None or q["dim"] == d:
            diam = max(diam, max(max(r) for r in P.exact_d2(q["X"], cell if q["dim"] == d else None)))
    ncut = rng.randint(1, 2)
    cuts = []
    for _ in range(ncut):
        ck = rng.choice(["tiny", "medium", "medium", "mixed", "huge"])
        arr = []
        for _ in range(nmax):
            kind = ck if ck != "mixed" else rng.choice(["tiny", "medium", "huge"])
            if kind == "tiny":
                k = rng.randint(0, 2)
            elif kind == "medium":
                k = rng.randint(0, max(1, diam))
            else:
                k = diam * 9 + rng.randint(1, 5)
            arr.append(k + 0.125)
        cuts.append(arr)
    # operations
    ops = []
    built = [False] * NEST
    L = rng.randint(4, 9)
    while len(ops) < L:
        r = rng.random()
        e = rng.randrange(NEST)
        if not any(built) or r < 0.28:
            c = rng.randrange(ncut) if rng.random() < 0.7 else None
            sh = rng.choice([1, 2, 3, 4]) if (rng.random() < 0.35 and allow_gab) else None
            if c is None and sh is None:
                if rng.random() < 0.6 or not allow_gab:
                    c = rng.randrange(ncut)          # otherwise: the rejected constructor call
                else:
                    sh = rng.choice([1, 2, 3])
            ops.append(dict(op="new", e=e, c=c, scale=rng.choice(SCALES), shell=sh))
            if c is not None or sh is not None:
                built[e] = True
        elif r < 0.70:
            if not built[e]:
                e = built.index(True)
            ops.append(dict(op="fit", e=e, d=rng.randrange(ndata)))
        elif r < 0.78:
            if not built[e] or not allow_gab:
                continue
            ops.append(dict(op="setshell", e=e, shell=rng.choice([1, 2, 3, 4])))
        elif r < 0.88:
            q = rng.randrange(ndata)
            ops.append(dict(op="setw", d=q, w=rng.sample(range(-30, 30 + data[q]["n"]), data[q]["n"])))
        else:
            if not built[e]:
                continue
            ops.append(dict(op="read", e=e))
    if not any(o["op"] == "fit" for o in ops):
        ops.append(dict(op="fit", e=built.index(True), d=0))
    return dict(session=True, d=d, cell=cell, data=data, cuts=cuts, ops=ops, nmax=nmax)


# ------------------------------------------------------------------------------ reference state
def model_states(sess):
    """What the caller knows before each step: (estimator parameters, current weights), computed
    from the PRISTINE values only.  est params: dict(c=index|None, scale, shell) or None."""
    ests = [None] * NEST
    ws = [list(q["w"]) for q in sess["data"]]
    out = []
    for o in sess["ops"]:
        out.append(([None if x is None else dict(x) for x in ests], [list(w) for w in ws]))
        if o["op"] == "new":
            if o["c"] is not None or o["shell"] is not None:
                ests[o["e"]] = dict(c=o["c"], scale=o["scale"], shell=o["shell"])
        elif o["op"] == "setshell":
            ests[o["e"]]["shell"] = o["shell"]
        elif o["op"] == "setw":
            ws[o["d"]] = list(o["w"])
    return out


def fit_rejected(sess, o):
    return sess["cell"] is not None and sess["data"][o["d"]]["dim"] != sess["d"]


# ------------------------------------------------------------------------------ implementation
def run_session(sess):
    os.environ.setdefault("TQDM_DISABLE", "1")
    from skmatter.clustering import QuickShift
    from skmatter.clustering import _quick_shift as QSM
    cut_arrs = [np.array(c, dtype=float) for c in sess["cuts"]]
    Xs = [np.array(q["X"], dtype=float).reshape(q["n"], q["dim"]) for q in sess["data"]]
    ws = [np.array(q["w"], dtype=float) for q in sess["data"]]
    cell_arr = None if sess["cell"] is None else np.array(sess["cell"], dtype=float)
    mp = None if cell_arr is None else {"cell_length": cell_arr}      # one dict shared by all estimators
    ests = [None] * NEST
    trace = []
    for o in sess["ops"]:
        rec = dict(op=o["op"])
        try:
            if o["op"] == "new":
                kw = {} if mp is None else {"metric_params": mp}
                est = QuickShift(dist_cutoff_sq=None if o["c"] is None else cut_arrs[o["c"]],
                                 gabriel_shell=o["shell"], scale=o["scale"], **kw)
                ests[o["e"]] = est
                a = est.dist_cutoff_sq
                rec["cutattr"] = None if a is None else [float(v) for v in np.asarray(a, dtype=float)]
            elif o["op"] == "fit":
                est = ests[o["e"]]
                X, w = Xs[o["d"]], ws[o["d"]]
                if not fit_rejected(sess, o):
                    D = np.array(est.metric(X, X), dtype=float)
                    rec["D"] = D.tolist()
                    if est.dist_cutoff_sq is None:
                        Df = D.copy()
                        np.fill_diagonal(Df, np.inf)
                        rec["gabriel"] = QSM._get_gabriel_graph(Df).astype(int).tolist()
                est.fit(X, samples_weight=w)
                rec["labels"] = [int(v) for v in est.labels_]
                rec["centres"] = [int(v) for v in est.cluster_centers_idx_]
                rec["centre_points_ok"] = bool(np.array_equal(est.cluster_centers_, X[est.cluster_centers_idx_]))
            elif o["op"] == "setshell":
                ests[o["e"]].gabriel_shell = o["shell"]
            elif o["op"] == "setw":
                ws[o["d"]][:] = np.array(o["w"], dtype=float)
            else:
                lab = getattr(ests[o["e"]], "labels_", None)
                rec["labels"] = None if lab is None else [int(v) for v in lab]
        except Exception as ex:  # noqa
            rec["error"] = type(ex).__name__
            rec["error_msg"] = str(ex)[:200]
        trace.append(rec)
    final_w = [list(q["w"]) for q in sess["data"]]
    for o in sess["ops"]:
        if o["op"] == "setw":
            final_w[o["d"]] = list(o["w"])
    return dict(trace=trace,
                cuts_after=[[float(v) for v in a] for a in cut_arrs],
                X_unchanged=all(np.array_equal(Xs[k], np.array(q["X"], dtype=float).reshape(q["n"], q["dim"]))
                                for k, q in enumerate(sess["data"])),
                w_unchanged=all(np.array_equal(ws[k], np.array(final_w[k], dtype=float)) for k in range(len(ws))),
                cell_unchanged=cell_arr is None or (np.array_equal(cell_arr, np.array(sess["cell"], dtype=float))
                                                    and list(mp.keys()) == ["cell_length"]))


# ------------------------------------------------------------------------------ oracle
def oracle_session(sess, out, P):
    """Direct statement of C16 for every step of the history, from the pristine caller values.
    Returns None or (step index, message)."""
    states = model_states(sess)
    last_fit = {}            # estimator slot -> labels of its last successful fit (None after re-construction)
    for k, (o, rec) in enumerate(zip(sess["ops"], out["trace"])):
        ests, ws = states[k]
        err = rec.get("error")
        if o["op"] == "new":
            reject = o["c"] is None and o["shell"] is None
            if reject != bool(err):
                return k, ("constructor with neither rule set did not raise" if reject else
                           "constructor raised %s: %s" % (err, rec.get("error_msg")))
            if reject:
                continue
            last_fit[o["e"]] = None
            if o["c"] is not None:
                want = [float(Fr(c) * Fr(o["scale"]) ** 2) for c in sess["cuts"][o["c"]]]
                if rec["cutattr"] != want:
                    earlier = any(p["op"] == "new" and p["c"] == o["c"] for p in sess["ops"][:k])
                    return k, ("effective cut-offs (dist_cutoff_sq attribute) of the estimator built at step %d are not "
                               "the caller's dist_cutoff_sq * scale**2%s" % (k, " (the same cut-off array was handed to "
                                                                             "an earlier constructor)" if earlier else ""))
            elif rec["cutattr"] is not None:
                return k, "dist_cutoff_sq attribute set although None was given"
        elif o["op"] == "fit":
            if fit_rejected(sess, o):
                if not err:
                    return k, "fit accepted data whose dimension differs from the cell's"
                continue
            if err:
                return k, "fit raised %s: %s" % (err, rec.get("error_msg"))
            p = ests[o["e"]]
            q = sess["data"][o["d"]]
            case = dict(n=q["n"], d=q["dim"], X=q["X"], w=ws[o["d"]], cell=sess["cell"])
            if p["c"] is not None:
                case.update(mode="cut", cuts=sess["cuts"][p["c"]][:q["n"]], scale=p["scale"])
            else:
                case.update(mode="gabriel", shell=p["shell"])
                if "gabriel" not in rec:
                    return k, "estimator built without cut-offs carries a dist_cutoff_sq attribute at fit time"
            msg = P.oracle(case, rec)
            if msg:
                return k, "fit at step %d of the history: %s" % (k, msg)
            last_fit[o["e"]] = rec["labels"]
        elif o["op"] == "read":
            if err:
                return k, "reading labels_ raised %s" % err
            if rec["labels"] != last_fit.get(o["e"]):
                return k, "labels_ read at step %d is not the result of the estimator's last successful fit" % k
        elif err:
            return k, "%s raised %s" % (o["op"], err)
    for a, c in zip(out["cuts_after"], sess["cuts"]):
        if a != [float(v) for v in c]:
            return len(sess["ops"]), ("the caller's dist_cutoff_sq array was overwritten by the estimator (a second "
                                      "estimator built from it gets other cut-offs)")
    if not (out["X_unchanged"] and out["w_unchanged"] and out["cell_unchanged"]):
        return len(sess["ops"]), "the caller's X / samples_weight / cell_length was overwritten"
    return None


# ------------------------------------------------------------------------------ Coq literals
class NotExact(Exception):
    pass


def _ints(vals, unit, what):
    out = []
    for v in vals:
        t = Fr(v) * unit
        if t.denominator != 1:
            raise NotExact("%s %r is not a multiple of 1/%d" % (what, v, unit))
        out.append(int(t))
    return out


def _olab(labels):
    return "(map Some %s)" % C.natlist(labels)


def session_coq(sess, out):
    """Coq term `session_ok ...` or raises NotExact (the session is then a mismatch by itself)."""
    # distance matrix per data set: the implementation's own, snapped to integers, identical at every fit
    Dm = {}
    for o, rec in zip(sess["ops"], out["trace"]):
        if o["op"] == "fit" and "D" in rec:
            D = np.array(rec["D"])
            if not np.all(np.abs(D - np.rint(D)) <= 1e-9 * np.maximum(1, np.abs(D))):
                raise NotExact("squared distances are not integers")
            Di = np.rint(D).astype(int).tolist()
            if o["d"] in Dm and Dm[o["d"]] != Di:
                raise NotExact("distance matrix of the same data differs between two fits")
            Dm[o["d"]] = Di
    datas = []
    for k, q in enumerate(sess["data"]):
        n = q["n"]
        if k in Dm:
            D = "[" + "; ".join("[" + "; ".join("None" if i == j else "Some %d" % Dm[k][i][j] for j in range(n)) + "]"
                                for i in range(n)) + "]"
        else:
            D = "[]"
        datas.append("mkData %d%%nat %s %s" % (q["dim"], D, C.zlist(q["w"])))
    S0 = "(mkState [%s] [%s] [%s])" % ("; ".join(C.zlist(_ints(c, 8, "cut-off")) for c in sess["cuts"]),
                                       "; ".join(datas), "; ".join(["no_est"] * NEST))
    ops, trace = [], []
    for o, rec in zip(sess["ops"], out["trace"]):
        if o["op"] == "new":
            ops.append("New %d%%nat %s %s %s" % (o["e"], "None" if o["c"] is None else "(Some %d%%nat)" % o["c"],
                                                 C.Zl(int(o["scale"] * 2)),
                                                 "None" if o["shell"] is None else "(Some %d%%nat)" % o["shell"]))
        elif o["op"] == "fit":
            ops.append("Fit %d%%nat %d%%nat" % (o["e"], o["d"]))
        elif o["op"] == "setshell":
            ops.append("SetShell %d%%nat %d%%nat" % (o["e"], o["shell"]))
        elif o["op"] == "setw":
            ops.append("SetW %d%%nat %s" % (o["d"], C.zlist(o["w"])))
        else:
            ops.append("Read %d%%nat" % o["e"])
        if "error" in rec:
            trace.append("ObsErr")
        elif o["op"] == "new":
            trace.append("ObsNew None" if rec["cutattr"] is None else
                         "ObsNew (Some %s)" % C.zlist(_ints(rec["cutattr"], 32, "dist_cutoff_sq attribute")))
        elif o["op"] == "fit":
            trace.append("ObsFit %s %s" % (_olab(rec["labels"]), C.natlist(rec["centres"])))
        elif o["op"] == "read":
            trace.append("ObsRead None" if rec["labels"] is None else "ObsRead (Some %s)" % _olab(rec["labels"]))
        else:
            trace.append("ObsUnit")
    cd = "None" if sess["cell"] is None else "(Some %d%%nat)" % sess["d"]
    after = "[" + "; ".join(C.zlist(_ints(a, 8, "caller's cut-off after the session")) for a in out["cuts_after"]) + "]"
    return "session_ok %s %s [%s] [%s] %s" % (cd, S0, "; ".join(ops), "; ".join(trace), after)


def features(sess, out):
    """measured: (fits, refits of an estimator object, constructions re-using a cut-off array that an earlier
    constructor already received with scale != 1, rejected calls, distinct label vectors among fits)"""
    fits = sum(1 for o, r in zip(sess["ops"], out["trace"]) if o["op"] == "fit" and "labels" in r)
    per, used, reuse, rejected = {}, set(), 0, 0
    refits = 0
    obj = [0] * NEST
    for k, (o, r) in enumerate(zip(sess["ops"], out["trace"])):
        if "error" in r:
            rejected += 1
        if o["op"] == "new" and "error" not in r:
            obj[o["e"]] += 1
            if o["c"] is not None:
                if o["c"] in used:
                    reuse += 1
                if o["scale"] != 1.0:
                    used.add(o["c"])
        if o["op"] == "fit" and "labels" in r:
            key = (o["e"], obj[o["e"]])
            if key in per:
                refits += 1
            per[key] = True
    labs = set(tuple(r["labels"]) for o, r in zip(sess["ops"], out["trace"]) if o["op"] == "fit" and "labels" in r)
    return fits, refits, reuse, rejected, len(labs)
