"""C16, session family: histories of calls on QuickShift estimator objects that SHARE caller-owned
arrays (cut-off arrays handed to several constructors, data refitted, weights rewritten in place,
set_params on the public constructor parameters -- metric_params / cell, gabriel_shell,
dist_cutoff_sq, scale -- between construction and fit, rejected constructor / rejected fit).

Model: coq/Model/QSSession.v (`qrun`), theorems C16_session_* (fit reads every hyper-parameter in
force when it runs; a fit after any history is the fresh fit for them; no call writes the caller's
arrays; rejected calls leave the state alone).  The implementation's trace (dist_cutoff_sq
attribute after each construction / set_params(dist_cutoff_sq), labels_/cluster_centers_idx_ after
each fit, labels_ at each read, raised or not) is compared with the model's trace with `=` inside
Coq; every mismatching session is then examined step by step by the Python oracle with the pristine
caller values.

The distance matrices handed to the model come from the PUBLIC metric function called with the
cell the caller has configured (periodic_pairwise_euclidean_distances(X, X, squared=True,
cell_length=<cell in force>)), not from the estimator's closure; the closure's own matrix
(est.metric(X, X) just before fit) must be bitwise the same.

Exactness: cut-offs k + 1/8, scale in {1/2, 1, 3/2, 2, 3}: cut-off * scale^2 is a multiple of 1/32
well below 2^53, so the attribute must equal the model's integer (units of 1/32) exactly.
"""
import os
from fractions import Fraction as Fr

import numpy as np

from harness import common as C

SCALES = [0.5, 1.5, 2.0, 3.0, 1.0, 0.5, 1.5]      # mostly != 1: the scaling must be visible
NEST = 2


# ------------------------------------------------------------------------------ input presentations
# The same VALUES handed over in different containers / dtypes.  X: integer lattice points are exact in every
# presentation.  Weights: the model sees integers v; "near" presents them as the float64 numbers
# -20000 + v * 2^-12 (exact in binary64, strictly increasing in v, so by C16_weight_remap the labels are
# those of v) -- log-density-like weights that are DISTINCT in float64 but collapse in groups of 8 when rounded
# to float32 (ulp 2^-9 near 2e4).  Plain-list X is not presented: the unchanged code needs X.shape / X[idx].
X_KINDS = ["f64", "f32", "f32", "int", "fortran"]
W_KINDS = ["f64", "near", "near", "f32", "i64", "list"]


def present_X(X, n, dim, kind):
    a = np.array(X, dtype=float).reshape(n, dim)
    if kind == "f32":
        return a.astype(np.float32)
    if kind == "int":
        return np.array(X, dtype=np.int64).reshape(n, dim)
    if kind == "fortran":
        return np.asfortranarray(a)
    return a


def present_w(w, kind):
    if kind == "near":
        return -20000.0 + np.array(w, dtype=float) * 2.0 ** -12
    if kind == "f32":
        return np.array(w, dtype=np.float32)
    if kind == "i64":
        return np.array(w, dtype=np.int64)
    if kind == "list":
        return [int(v) for v in w]
    return np.array(w, dtype=float)


# ------------------------------------------------------------------------------ generation
def gen_session(rng, quick, P):
    """P: the c16 module (gen_points, exact_d2, gabriel_exact)."""
    nmax = rng.randint(2, 9 if quick else 14)
    d = rng.randint(1, 3)
    ndata = rng.randint(1, 3)
    data = []
    for k in range(ndata):
        n = nmax if rng.random() < 0.5 else rng.randint(1, nmax)
        dim = d
        if k > 0 and rng.random() < 0.15:
            dim = d + 1                      # under a cell: fit must reject it; without: just other data
        fam = rng.choice(["tiny", "medium", "large", "large", "collinear", "dups"])
        X = P.gen_points(rng, n, dim, fam)
        w = rng.sample(range(-30, 30 + n), n)
        data.append(dict(n=n, dim=dim, X=X, w=w))
    r = rng.random()
    ncell = 0 if r < 0.3 else (1 if r < 0.7 else 2)
    span = 1 + max(abs(v) for q in data for row in q["X"] for v in row)
    cells = [[rng.randint(2, 2 * span + 3) for _ in range(d)] for _ in range(ncell)]
    # right-angle ties under a cell are decided by float noise: such sessions use the cut-off rule only
    allow_gab = True
    diam = 1
    for q in data:
        for cell in [None] + cells:
            if cell is not None and q["dim"] != d:
                continue
            D = P.exact_d2(q["X"], cell)
            diam = max(diam, max(max(row) for row in D))
            if cell is not None and P.gabriel_exact(D, q["n"])[1]:
                allow_gab = False
    ncut = rng.randint(1, 2)
    cuts = []
    for _ in range(ncut):
        ck = rng.choice(["tiny", "medium", "medium", "mixed", "huge"])
        arr = []
        for _ in range(nmax):
            kind = ck if ck != "mixed" else rng.choice(["tiny", "medium", "huge"])
            if kind == "tiny":
                k = rng.randint(0, 2)
            elif kind == "medium":
                k = rng.randint(0, max(1, diam))
            else:
                k = diam * 9 + rng.randint(1, 5)
            arr.append(k + 0.125)
        cuts.append(arr)

    def pick_cell():
        return rng.randrange(ncell) if (ncell and rng.random() < 0.6) else None

    ops = []
    built = [False] * NEST
    L = rng.randint(4, 10)
    while len(ops) < L:
        r = rng.random()
        e = rng.randrange(NEST)
        if not any(built) or r < 0.24:
            c = rng.randrange(ncut) if rng.random() < 0.7 else None
            sh = rng.choice([1, 2, 3, 4]) if (rng.random() < 0.35 and allow_gab) else None
            if c is None and sh is None:
                if rng.random() < 0.6 or not allow_gab:
                    c = rng.randrange(ncut)          # otherwise: the rejected constructor call
                else:
                    sh = rng.choice([1, 2, 3])
            ops.append(dict(op="new", e=e, c=c, scale=rng.choice(SCALES), shell=sh, cell=pick_cell()))
            if c is not None or sh is not None:
                built[e] = True
            continue
        if not built[e]:
            e = built.index(True)
        if r < 0.60:
            ops.append(dict(op="fit", e=e, d=rng.randrange(ndata)))
        elif r < 0.66:
            if allow_gab:
                ops.append(dict(op="setshell", e=e, shell=rng.choice([1, 2, 3, 4]),
                                via=rng.choice(["set_params", "attribute"])))
        elif r < 0.78:
            ops.append(dict(op="setcell", e=e, cell=pick_cell()))
        elif r < 0.84:
            c = rng.randrange(ncut) if (rng.random() < 0.8 or not allow_gab) else None
            ops.append(dict(op="setcut", e=e, c=c))
        elif r < 0.87:
            ops.append(dict(op="setscale", e=e, scale=rng.choice(SCALES)))
        elif r < 0.93:
            q = rng.randrange(ndata)
            ops.append(dict(op="setw", d=q, w=rng.sample(range(-30, 30 + data[q]["n"]), data[q]["n"])))
        else:
            ops.append(dict(op="read", e=e))
    if not any(o["op"] == "fit" for o in ops):
        ops.append(dict(op="fit", e=built.index(True), d=0))
    for q in data:                 # how the caller hands the values over (drawn last: the rest of the stream is as before)
        q["xkind"] = rng.choice(X_KINDS)
        q["wkind"] = rng.choice(W_KINDS)
    return dict(session=True, d=d, cells=cells, data=data, cuts=cuts, ops=ops, nmax=nmax)


# ------------------------------------------------------------------------------ reference state
def model_states(sess):
    """What the caller knows before each step: (estimator parameters, current weights), computed
    from the PRISTINE values only.  est params: dict(c=index|None, scale=<scale applied to cuts[c]>,
    shell, cell=<cell in force>, cell0=<cell given to the constructor>) or None."""
    ests = [None] * NEST
    ws = [list(q["w"]) for q in sess["data"]]
    out = []
    for o in sess["ops"]:
        out.append(([None if x is None else dict(x) for x in ests], [list(w) for w in ws]))
        if o["op"] == "new":
            if o["c"] is not None or o["shell"] is not None:
                ests[o["e"]] = dict(c=o["c"], scale=o["scale"], shell=o["shell"], cell=o["cell"], cell0=o["cell"])
        elif o["op"] == "setshell":
            ests[o["e"]]["shell"] = o["shell"]
        elif o["op"] == "setcell":
            ests[o["e"]]["cell"] = o["cell"]
        elif o["op"] == "setcut":
            ests[o["e"]]["c"] = o["c"]
            ests[o["e"]]["scale"] = 1.0          # set_params stores the array as given
        elif o["op"] == "setw":
            ws[o["d"]] = list(o["w"])
    return out


def fit_expect(sess, p, o):
    """'guard' (ValueError before anything is touched), 'norule' (no cut-offs and no shell: raises inside
    the ascent) or None (fit must succeed)."""
    dim = sess["data"][o["d"]]["dim"]
    if (p["cell0"] is not None or p["cell"] is not None) and dim != sess["d"]:
        return "guard"
    if p["c"] is None and p["shell"] is None:
        return "norule"
    return None


# ------------------------------------------------------------------------------ implementation
def run_session(sess):
    os.environ.setdefault("TQDM_DISABLE", "1")
    from skmatter.clustering import QuickShift
    from skmatter.clustering import _quick_shift as QSM
    from skmatter.metrics import periodic_pairwise_euclidean_distances as ppd
    cut_arrs = [np.array(c, dtype=float) for c in sess["cuts"]]
    Xs = [present_X(q["X"], q["n"], q["dim"], q.get("xkind", "f64")) for q in sess["data"]]
    ws = [present_w(q["w"], q.get("wkind", "f64")) for q in sess["data"]]
    cell_arrs = [np.array(c, dtype=float) for c in sess["cells"]]
    mps = [{"cell_length": a} for a in cell_arrs]        # one dict per cell, shared by all constructors
    states = model_states(sess)
    ests = [None] * NEST
    trace = []
    for k, o in enumerate(sess["ops"]):
        rec = dict(op=o["op"])
        try:
            if o["op"] == "new":
                kw = {} if o["cell"] is None else {"metric_params": mps[o["cell"]]}
                est = QuickShift(dist_cutoff_sq=None if o["c"] is None else cut_arrs[o["c"]],
                                 gabriel_shell=o["shell"], scale=o["scale"], **kw)
                ests[o["e"]] = est
                a = est.dist_cutoff_sq
                rec["cutattr"] = None if a is None else [float(v) for v in np.asarray(a, dtype=float)]
            elif o["op"] == "fit":
                est = ests[o["e"]]
                X, w = Xs[o["d"]], ws[o["d"]]
                p = states[k][0][o["e"]]
                if fit_expect(sess, p, o) != "guard":
                    cell = None if p["cell"] is None else cell_arrs[p["cell"]]
                    Dd = np.array(ppd(X, X, squared=True, cell_length=cell), dtype=float)
                    rec["D_direct"] = Dd.tolist()
                    try:
                        D = np.array(est.metric(X, X), dtype=float)
                        rec["D"] = D.tolist()
                    except Exception as ex:  # noqa
                        rec["metric_error"] = "%s: %s" % (type(ex).__name__, str(ex)[:120])
                    if p["c"] is None:
                        Df = Dd.copy()
                        np.fill_diagonal(Df, np.inf)
                        rec["gabriel"] = QSM._get_gabriel_graph(Df).astype(int).tolist()
                est.fit(X, samples_weight=w)
                rec["labels"] = [int(v) for v in est.labels_]
                rec["centres"] = [int(v) for v in est.cluster_centers_idx_]
                rec["centre_points_ok"] = bool(np.array_equal(est.cluster_centers_, X[est.cluster_centers_idx_]))
            elif o["op"] == "setshell":
                if o.get("via") == "attribute":
                    ests[o["e"]].gabriel_shell = o["shell"]
                else:
                    ests[o["e"]].set_params(gabriel_shell=o["shell"])
            elif o["op"] == "setcell":
                ests[o["e"]].set_params(
                    metric_params={"cell_length": None if o["cell"] is None else cell_arrs[o["cell"]]})
            elif o["op"] == "setcut":
                ests[o["e"]].set_params(dist_cutoff_sq=None if o["c"] is None else cut_arrs[o["c"]])
                a = ests[o["e"]].dist_cutoff_sq
                rec["cutattr"] = None if a is None else [float(v) for v in np.asarray(a, dtype=float)]
            elif o["op"] == "setscale":
                ests[o["e"]].set_params(scale=o["scale"])
            elif o["op"] == "setw":
                ws[o["d"]][:] = present_w(o["w"], sess["data"][o["d"]].get("wkind", "f64"))
            else:
                lab = getattr(ests[o["e"]], "labels_", None)
                rec["labels"] = None if lab is None else [int(v) for v in lab]
        except Exception as ex:  # noqa
            rec["error"] = type(ex).__name__
            rec["error_msg"] = str(ex)[:200]
        trace.append(rec)
    final_w = [list(q["w"]) for q in sess["data"]]
    for o in sess["ops"]:
        if o["op"] == "setw":
            final_w[o["d"]] = list(o["w"])
    return dict(trace=trace,
                cuts_after=[[float(v) for v in a] for a in cut_arrs],
                X_unchanged=all(np.array_equal(np.asarray(Xs[k], dtype=float),
                                               np.array(q["X"], dtype=float).reshape(q["n"], q["dim"]))
                                for k, q in enumerate(sess["data"])),
                w_unchanged=all(np.array_equal(np.asarray(ws[k], dtype=float),
                                               np.asarray(present_w(final_w[k], q.get("wkind", "f64")), dtype=float))
                                for k, q in enumerate(sess["data"])),
                cell_unchanged=all(np.array_equal(a, np.array(c, dtype=float)) and list(m.keys()) == ["cell_length"]
                                   for a, c, m in zip(cell_arrs, sess["cells"], mps)))


# ------------------------------------------------------------------------------ oracle
def oracle_session(sess, out, P):
    """Direct statement of C16 for every step of the history, from the pristine caller values.
    Returns None or (step index, message)."""
    states = model_states(sess)
    last_fit = {}            # estimator slot -> labels of its last successful fit (None after re-construction)
    for k, (o, rec) in enumerate(zip(sess["ops"], out["trace"])):
        ests, ws = states[k]
        err = rec.get("error")
        if o["op"] == "new":
            reject = o["c"] is None and o["shell"] is None
            if reject != bool(err):
                return k, ("constructor with neither rule set did not raise" if reject else
                           "constructor raised %s: %s" % (err, rec.get("error_msg")))
            if reject:
                continue
            last_fit[o["e"]] = None
            if o["c"] is not None:
                want = [float(Fr(c) * Fr(o["scale"]) ** 2) for c in sess["cuts"][o["c"]]]
                if rec["cutattr"] != want:
                    earlier = any(p["op"] in ("new", "setcut") and p["c"] == o["c"] for p in sess["ops"][:k])
                    return k, ("effective cut-offs (dist_cutoff_sq attribute) of the estimator built at step %d are not "
                               "the caller's dist_cutoff_sq * scale**2%s" % (k, " (the same cut-off array was handed to "
                                                                             "an earlier constructor)" if earlier else ""))
            elif rec["cutattr"] is not None:
                return k, "dist_cutoff_sq attribute set although None was given"
        elif o["op"] == "setcut":
            if err:
                return k, "set_params(dist_cutoff_sq=...) raised %s: %s" % (err, rec.get("error_msg"))
            want = None if o["c"] is None else [float(v) for v in sess["cuts"][o["c"]]]
            if rec["cutattr"] != want:
                return k, "dist_cutoff_sq after set_params at step %d is not the array that was given" % k
        elif o["op"] == "fit":
            p = ests[o["e"]]
            exp = fit_expect(sess, p, o)
            if exp:
                if not err:
                    return k, ("fit accepted data whose dimension differs from the cell's" if exp == "guard" else
                               "fit ran although neither cut-offs nor gabriel_shell are set")
                continue
            if err:
                return k, "fit raised %s: %s" % (err, rec.get("error_msg"))
            q = sess["data"][o["d"]]
            cell = None if p["cell"] is None else sess["cells"][p["cell"]]
            case = dict(n=q["n"], d=q["dim"], X=q["X"], w=ws[o["d"]], cell=cell)
            if p["c"] is not None:
                case.update(mode="cut", cuts=sess["cuts"][p["c"]][:q["n"]], scale=p["scale"])
            else:
                case.update(mode="gabriel", shell=p["shell"])
            if "D" not in rec:
                return k, "the estimator's metric raised %s with the cell configured at step %d" % (rec.get("metric_error"), k)
            msg = P.oracle(case, rec)
            if msg:
                how = ""
                if p["cell"] != p["cell0"]:
                    how = " (cell_length given through set_params(metric_params=...) after construction)"
                return k, "fit at step %d of the history%s: %s" % (k, how, msg)
            if rec["D"] != rec["D_direct"]:
                return k, ("fit at step %d: the estimator's metric closure does not return the distances of the metric "
                           "with the cell in force" % k)
            last_fit[o["e"]] = rec["labels"]
        elif o["op"] == "read":
            if err:
                return k, "reading labels_ raised %s" % err
            if rec["labels"] != last_fit.get(o["e"]):
                return k, "labels_ read at step %d is not the result of the estimator's last successful fit" % k
        elif err:
            return k, "%s raised %s" % (o["op"], err)
    for a, c in zip(out["cuts_after"], sess["cuts"]):
        if a != [float(v) for v in c]:
            return len(sess["ops"]), ("the caller's dist_cutoff_sq array was overwritten by the estimator (a second "
                                      "estimator built from it gets other cut-offs)")
    if not (out["X_unchanged"] and out["w_unchanged"] and out["cell_unchanged"]):
        return len(sess["ops"]), "the caller's X / samples_weight / cell_length was overwritten"
    return None


# ------------------------------------------------------------------------------ Coq literals
class NotExact(Exception):
    pass


def _ints(vals, unit, what):
    out = []
    for v in vals:
        t = Fr(v) * unit
        if t.denominator != 1:
            raise NotExact("%s %r is not a multiple of 1/%d" % (what, v, unit))
        out.append(int(t))
    return out


def _olab(labels):
    return "(map Some %s)" % C.natlist(labels)


def _onat(v):
    return "None" if v is None else "(Some %d%%nat)" % v


def session_coq(sess, out):
    """Coq term `session_ok ...` or raises NotExact (the session is then a mismatch by itself)."""
    # distance matrix per (data set, cell in force): the public metric's, snapped to integers, identical at
    # every fit; the estimator's own closure must return the very same matrix
    states = model_states(sess)
    Dm = {}
    for k, (o, rec) in enumerate(zip(sess["ops"], out["trace"])):
        if o["op"] == "fit" and "D_direct" in rec:
            D = np.array(rec["D_direct"])
            if not np.all(np.abs(D - np.rint(D)) <= 1e-9 * np.maximum(1, np.abs(D))):
                raise NotExact("squared distances are not integers")
            if rec.get("D") != rec["D_direct"]:
                raise NotExact("the estimator's metric closure and the metric with the cell in force differ")
            Di = np.rint(D).astype(int).tolist()
            key = (o["d"], states[k][0][o["e"]]["cell"])
            if key in Dm and Dm[key] != Di:
                raise NotExact("distance matrix of the same data and cell differs between two fits")
            Dm[key] = Di
    datas = []
    for k, q in enumerate(sess["data"]):
        n = q["n"]
        mats = []
        for cell in [None] + list(range(len(sess["cells"]))):
            if (k, cell) in Dm:
                M = Dm[(k, cell)]
                mats.append("[" + "; ".join("[" + "; ".join("None" if i == j else "Some %d" % M[i][j] for j in range(n)) + "]"
                                            for i in range(n)) + "]")
            else:
                mats.append("[]")
        datas.append("mkData %d%%nat [%s] %s" % (q["dim"], "; ".join(mats), C.zlist(q["w"])))
    S0 = "(mkState [%s] %s [%s] [%s])" % ("; ".join(C.zlist(_ints(c, 8, "cut-off")) for c in sess["cuts"]),
                                          C.natlist([len(c) for c in sess["cells"]]),
                                          "; ".join(datas), "; ".join(["no_est"] * NEST))
    ops, trace = [], []
    for o, rec in zip(sess["ops"], out["trace"]):
        if o["op"] == "new":
            ops.append("New %d%%nat %s %s %s %s" % (o["e"], _onat(o["c"]), C.Zl(int(o["scale"] * 2)),
                                                    _onat(o["shell"]), _onat(o["cell"])))
        elif o["op"] == "fit":
            ops.append("Fit %d%%nat %d%%nat" % (o["e"], o["d"]))
        elif o["op"] == "setshell":
            ops.append("SetShell %d%%nat %d%%nat" % (o["e"], o["shell"]))
        elif o["op"] == "setcell":
            ops.append("SetCell %d%%nat %s" % (o["e"], _onat(o["cell"])))
        elif o["op"] == "setcut":
            ops.append("SetCut %d%%nat %s" % (o["e"], _onat(o["c"])))
        elif o["op"] == "setscale":
            ops.append("SetScale %d%%nat %s" % (o["e"], C.Zl(int(o["scale"] * 2))))
        elif o["op"] == "setw":
            ops.append("SetW %d%%nat %s" % (o["d"], C.zlist(o["w"])))
        else:
            ops.append("Read %d%%nat" % o["e"])
        if "error" in rec:
            trace.append("ObsErr")
        elif o["op"] in ("new", "setcut"):
            trace.append("ObsNew None" if rec["cutattr"] is None else
                         "ObsNew (Some %s)" % C.zlist(_ints(rec["cutattr"], 32, "dist_cutoff_sq attribute")))
        elif o["op"] == "fit":
            trace.append("ObsFit %s %s" % (_olab(rec["labels"]), C.natlist(rec["centres"])))
        elif o["op"] == "read":
            trace.append("ObsRead None" if rec["labels"] is None else "ObsRead (Some %s)" % _olab(rec["labels"]))
        else:
            trace.append("ObsUnit")
    after = "[" + "; ".join(C.zlist(_ints(a, 8, "caller's cut-off after the session")) for a in out["cuts_after"]) + "]"
    return "session_ok %s [%s] [%s] %s" % (S0, "; ".join(ops), "; ".join(trace), after)


def features(sess, out):
    """measured: (fits, refits of an estimator object, constructions re-using a cut-off array that an earlier
    constructor already received with scale != 1, rejected calls, distinct label vectors among fits,
    fits under a cell that differs from the one given to the constructor)"""
    states = model_states(sess)
    fits = sum(1 for o, r in zip(sess["ops"], out["trace"]) if o["op"] == "fit" and "labels" in r)
    per, used, reuse, rejected = {}, set(), 0, 0
    refits = 0
    recell = 0
    obj = [0] * NEST
    for k, (o, r) in enumerate(zip(sess["ops"], out["trace"])):
        if "error" in r:
            rejected += 1
        if o["op"] == "new" and "error" not in r:
            obj[o["e"]] += 1
            if o["c"] is not None:
                if o["c"] in used:
                    reuse += 1
                if o["scale"] != 1.0:
                    used.add(o["c"])
        if o["op"] == "fit" and "labels" in r:
            key = (o["e"], obj[o["e"]])
            if key in per:
                refits += 1
            per[key] = True
            p = states[k][0][o["e"]]
            recell += p["cell"] != p["cell0"]
    labs = set(tuple(r["labels"]) for o, r in zip(sess["ops"], out["trace"]) if o["op"] == "fit" and "labels" in r)
    return fits, refits, reuse, rejected, len(labs), recell
