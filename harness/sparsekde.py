"""Helpers for C17 (SparseKDE): case generators, instrumented implementation drivers and the
Python property oracles (search only).  Nothing here imports skmatter at import time."""
import math
import signal

import numpy as np

Q8 = 256.0          # coordinates are multiples of 1/256 (exact translations / image shifts)


class FitTimeout(Exception):
    pass


def _alarm(*_a):
    raise FitTimeout()


# ------------------------------------------------------------------------------ generation
def _q(x):
    return round(x * Q8) / Q8


def gen_cloud(rng, n, d, kind):
    if kind == "blob":
        return [[_q(rng.gauss(0, 1)) for _ in range(d)] for _ in range(n)]
    if kind == "multi":
        cs = [[rng.gauss(0, 3) for _ in range(d)] for _ in range(3)]
        s = rng.choice([0.25, 1.0])
        return [[_q(c + rng.gauss(0, s)) for c in rng.choice(cs)] for _ in range(n)]
    if kind == "aniso":
        sc = [10.0 ** (-0.7 * k) for k in range(d)]
        return [[_q(rng.gauss(0, 2) * sc[k]) for k in range(d)] for _ in range(n)]
    if kind == "lowdim":                      # cloud on a lower-dimensional coordinate subspace / line
        r = max(1, d - 1)
        if d >= 2 and rng.random() < 0.5:     # a line along a lattice direction (exactly rank one)
            u = [rng.choice([-2, -1, 1, 2]) for _ in range(d)]
            return [[_q(t * uk / 4.0) for uk in u] for t in (rng.gauss(0, 4) for _ in range(n))]
        return [[_q(rng.gauss(0, 1)) if k < r else 0.0 for k in range(d)] for _ in range(n)]
    # lattice with jitter-free integer sites (many equal distances)
    return [[float(rng.randint(-3, 3)) for _ in range(d)] for _ in range(n)]


KINDS = ["blob", "multi", "aniso", "lowdim", "lattice"]


def pbc_delta(a, b, cell):
    v = np.asarray(a, float) - np.asarray(b, float)
    if cell is not None:
        c = np.asarray(cell, float)
        v = v - np.round(v / c) * c
    return v


def gen_fit_case(rng, quick, force=None):
    """descriptors, weights, grid, cell, fpoints/fspread, queries"""
    force = force or {}
    d = force.get("d", rng.randint(1, 4))
    n = rng.randint(8, 28 if quick else 60)
    kind = force.get("kind", rng.choice(KINDS))
    D = gen_cloud(rng, n, d, kind)
    cell = None
    if force.get("periodic", rng.random() < 0.35):
        cell = [_q(rng.uniform(3, 9)) for _ in range(d)]
    ng_target = rng.randint(2, 7)
    gridmode = force.get("gridmode", rng.choice(["subset", "subset", "points"]))
    G = []
    tries = 0
    while len(G) < ng_target and tries < 200:
        tries += 1
        if gridmode == "subset":
            p = list(rng.choice(D))
        else:
            p = [_q(x + rng.gauss(0, 0.5)) for x in rng.choice(D)]
        if all(np.linalg.norm(pbc_delta(p, g, cell)) > 1e-3 for g in G):
            G.append(p)
    w = None
    if rng.random() < 0.5:
        w = [rng.randint(1, 16) / 8.0 for _ in range(n)]
    if force.get("fspread", rng.random() < 0.3):
        kw = dict(fspread=rng.choice([0.01, 0.05, 0.2, 0.5, 1.0]))
    else:
        kw = dict(fpoints=rng.choice([0.15, 0.3, 0.5, 0.8]))
    nq = rng.randint(2, 5)
    Q = []
    for _ in range(nq):
        r = rng.random()
        base = rng.choice(D)
        if r < 0.25:
            Q.append(list(base))                                   # a descriptor itself
        elif r < 0.45:
            Q.append(list(rng.choice(G)))                          # a grid point
        elif r < 0.8:
            Q.append([_q(x + rng.gauss(0, 0.7)) for x in base])    # near the data
        else:
            Q.append([_q(x + rng.choice([-1, 1]) * rng.uniform(20, 60)) for x in base])   # far away
    return dict(part="F", d=d, kind=kind, gridmode=gridmode, D=D, G=G, w=w, cell=cell, kw=kw, Q=Q)


# ------------------------------------------------------------------------------ custom metrics
# Legal replacements of the default `metric=` of SparseKDE: callables (X, Y, squared=..., cell_length=...)
# returning the (n_X, n_Y) matrix of (squared) distances.  A spec is JSON data so that replays carry it.
#   scaled  d2 = sum_k (s_k v_k)^2                      v = X_i - Y_j, wrapped into the cell if there is one
#   maha    d2 = v^T M v, M a fixed SPD matrix
#   perm    the default metric called on consistently permuted coordinates (and cell): same values
def gen_metric(rng, d):
    kind = rng.choice(["scaled", "scaled", "maha", "perm"])
    if kind == "scaled":
        sc = [rng.choice([1, 1, 2, 3, 6]) for _ in range(d)]
        if d >= 2 and len(set(sc)) == 1:
            sc[rng.randrange(d)] = 6 if sc[0] != 6 else 1
        return dict(kind="scaled", scale=sc)
    if kind == "maha":
        L = [[(rng.randint(1, 3) if i == j else (rng.randint(-2, 2) if j < i else 0)) for j in range(d)]
             for i in range(d)]
        M = [[sum(L[i][k] * L[j][k] for k in range(d)) for j in range(d)] for i in range(d)]
        return dict(kind="maha", M=M)
    perm = list(range(d))
    rng.shuffle(perm)
    return dict(kind="perm", perm=perm)


def make_metric(spec, counter=None):
    def metric(X, Y, squared=False, cell_length=None):
        if counter is not None:
            counter[0] += 1
        X = np.asarray(X, dtype=float)
        Y = np.asarray(Y, dtype=float)
        if spec["kind"] == "perm":
            from skmatter.metrics import periodic_pairwise_euclidean_distances as ppe
            pm = list(spec["perm"])
            c = None if cell_length is None else np.asarray(cell_length, dtype=float)[pm]
            return ppe(X[:, pm], Y[:, pm], squared=squared, cell_length=c)
        v = X[:, None, :] - Y[None, :, :]
        if cell_length is not None:
            c = np.asarray(cell_length, dtype=float)
            v = v - np.round(v / c) * c
        if spec["kind"] == "scaled":
            d2 = np.sum((v * np.asarray(spec["scale"], dtype=float)) ** 2, axis=-1)
        else:
            d2 = np.einsum("ijk,kl,ijl->ij", v, np.asarray(spec["M"], dtype=float), v)
        return d2 if squared else np.sqrt(d2)
    return metric


def metric_exact(spec, cell, p, g):
    """the squared distance of the spec'd metric (None = default) in exact rational arithmetic;
    np.round = round half to even"""
    from fractions import Fraction as Fr
    v = []
    for k in range(len(p)):
        dl = Fr(p[k]) - Fr(g[k])
        if cell is not None:
            c = Fr(cell[k])
            q = dl / c
            f = q.numerator // q.denominator
            r = q - f
            m = f if r < Fr(1, 2) else (f + 1 if r > Fr(1, 2) else (f if f % 2 == 0 else f + 1))
            dl -= m * c
        v.append(dl)
    if spec is None or spec["kind"] == "perm":
        return sum((x * x for x in v), Fr(0))
    if spec["kind"] == "scaled":
        return sum(((Fr(sk) * x) ** 2 for sk, x in zip(spec["scale"], v)), Fr(0))
    M = spec["M"]
    return sum((v[i] * Fr(M[i][j]) * v[j] for i in range(len(v)) for j in range(len(v))), Fr(0))


def _metric_kwargs(case, cell, counter=None):
    kw = dict(metric_params=None if cell is None else {"cell_length": cell})
    if case.get("metric"):
        kw["metric"] = make_metric(case["metric"], counter)
    return kw


# ------------------------------------------------------------------------------ implementation
def _arrays(case):
    d = case["d"]
    D = np.array(case["D"], dtype=float).reshape(len(case["D"]), d)
    G = np.array(case["G"], dtype=float).reshape(len(case["G"]), d)
    Q = np.array(case["Q"], dtype=float).reshape(len(case["Q"]), d)
    w = None if case["w"] is None else np.array(case["w"], dtype=float)
    cell = None if case["cell"] is None else np.array(case["cell"], dtype=float)
    return D, G, Q, w, cell


# ------------------------------------------------------------------------------ input presentations
# case["present"] = {"G"|"D"|"w"|"Q": how}: the SAME values handed over as another dtype / layout.
PRESENT_EXACT = ("int64", "int32", "fortran", "list", "noncontig")


def _present(a, how):
    if a is None or how is None:
        return a
    a = np.asarray(a, dtype=float)
    if how in ("int64", "int32"):
        return a.astype(how)
    if how == "f32":
        return a.astype(np.float32)
    if how == "fortran":
        return np.asfortranarray(a)
    if how == "list":
        return a.tolist()
    if how == "noncontig":                       # a strided view into a wider buffer
        if a.ndim == 2:
            buf = np.zeros((a.shape[0], 2 * a.shape[1] + 1))
            buf[:, ::2][:, :a.shape[1]] = a
            return buf[:, ::2][:, :a.shape[1]]
        buf = np.zeros(2 * len(a))
        buf[::2] = a
        return buf[::2]
    raise ValueError(how)


def fit_impl(case, timeout=10, record=True, est=None):
    """Fit through the public API with recording wrappers around the private helpers
    (no source change).  Returns (estimator or None, record dict).  With `est` an EXISTING
    estimator object is (re-)fitted on the case's grid instead of a freshly constructed one."""
    import skmatter.neighbors._sparsekde as M
    from skmatter.neighbors import SparseKDE
    D, G, Q, w, cell = _arrays(case)
    pr = case.get("present") or {}
    D, G, w = _present(D, pr.get("D")), _present(G, pr.get("G")), _present(w, pr.get("w"))
    given = est
    rec = dict(locpop=[], grids=[])
    orig_lp, orig_bw = M._local_population, SparseKDE._bandwidth_estimation_from_localization
    orig_cov, orig_eff = M._covariance, M.effdim

    def lp(*a, **k):
        # signature-agnostic (a private helper): sigma_squared is the last scalar argument
        wl, num = orig_lp(*a, **k)
        s2 = k.get("sigma_squared")
        if s2 is None:
            s2 = next((x for x in reversed(a) if x is not None and np.ndim(x) == 0), float("nan"))
        rec["locpop"].append((float(s2), float(num)))
        return wl, num

    state = {}

    def cov_(X, sw, cell_):
        c = orig_cov(X, sw, cell_)
        state["cov"] = np.array(c, dtype=float)
        return c

    def eff_(c):
        try:
            state["eig"] = np.array(np.linalg.eigvals(np.array(c, dtype=float)))
        except Exception:  # noqa
            state["eig"] = None
        v = orig_eff(c)
        state["effdim"] = float(v)
        return v

    def bw(self, X, wlocal, flocal, idx):
        state.clear()
        try:
            h, c = orig_bw(self, X, wlocal, flocal, idx)
        finally:
            rec["grids"].append(dict(idx=int(idx), wlocal=[float(x) for x in wlocal],
                                     flocal=float(flocal[idx]), ncalls=len(rec["locpop"]),
                                     cov=None if "cov" not in state else state["cov"].tolist(),
                                     eig=None if state.get("eig") is None else
                                     [complex(z) for z in state["eig"]],
                                     effdim=state.get("effdim")))
        return h, c

    est = given
    old = signal.signal(signal.SIGALRM, _alarm)
    try:
        if record:
            M._local_population, M._covariance, M.effdim = lp, cov_, eff_
            SparseKDE._bandwidth_estimation_from_localization = bw
        if given is None:
            counter = [0]
            est = SparseKDE(D, w, **_metric_kwargs(case, cell, counter), **case["kw"])
            rec["metric_calls"] = counter
        signal.alarm(timeout)
        est.fit(G)
        signal.alarm(0)
    except FitTimeout:
        rec["error"], rec["error_msg"] = "Timeout", "fit did not return within %d s" % timeout
        est = None
    except Exception as e:  # noqa
        signal.alarm(0)
        rec["error"], rec["error_msg"] = type(e).__name__, str(e)[:300]
        est = None
    finally:
        signal.alarm(0)
        signal.signal(signal.SIGALRM, old)
        M._local_population, M._covariance, M.effdim = orig_lp, orig_cov, orig_eff
        SparseKDE._bandwidth_estimation_from_localization = orig_bw
    if isinstance(rec.get("metric_calls"), list):
        rec["metric_calls"] = rec["metric_calls"][0]
    if est is not None:
        rec["bandwidth"] = np.array(est.bandwidth_).tolist()
        rec["W"] = [float(x) for x in est._sample_weights]
        rec["weights"] = [float(x) for x in est.weights]
        rec["labels"] = [int(x) for x in est._sample_labels_]
        rec["members"] = [[int(i) for i in est._grid_neighbour[j]] for j in range(len(G))]
    return est, rec


def score_impl(est, case, rec):
    D, G, Q, w, cell = _arrays(case)
    Q = _present(Q, (case.get("present") or {}).get("Q"))
    try:
        s = est.score_samples(Q)
        rec["scores"] = [float(x) for x in s]
        rec["score"] = float(est.score(Q))
        rec["Hinv"] = np.array(est._bandwidth_inv).tolist()
        rec["nk"] = [float(x) for x in est._normkernels]
    except Exception as e:  # noqa
        rec["score_error"], rec["score_error_msg"] = type(e).__name__, str(e)[:300]


# ------------------------------------------------------------------------------ oracles
def kdecut2(d):
    return (3 * (math.sqrt(d) + 1)) ** 2


def reach_of(wlocal):
    """1 - sum p^2 of the normalised local weights: 0 iff the localisation sees one grid point."""
    wl = np.asarray(wlocal, float)
    tot = wl.sum()
    if not np.isfinite(tot) or tot <= 0:
        return 0.0
    p = wl / tot
    return float(1 - np.sum(p * p))


REACH_MIN = 1e-6      # proviso of the property: the localisation reaches another grid point


def oracle_bandwidth(case, rec):
    """every bandwidth finite, symmetric, positive definite whenever the localisation reaches at
    least one other grid point.  Returns (message or None, stats)."""
    st = dict(checked=0, outside_proviso=0)
    if "error" in rec:
        # which grid point failed: the one after the last completed one
        done = len([g for g in rec["grids"] if g.get("cov") is not None])
        last = rec["grids"][-1] if rec["grids"] else None
        if last is not None and reach_of(last["wlocal"]) < REACH_MIN:
            st["outside_proviso"] += 1
            return None, st
        return "fit raised %s (%s) after %d bandwidths" % (rec["error"], rec.get("error_msg"), done), st
    H = np.array(rec["bandwidth"], dtype=float)
    for g in rec["grids"]:
        i = g["idx"]
        if reach_of(g["wlocal"]) < REACH_MIN or not (g["flocal"] > 0):
            st["outside_proviso"] += 1
            continue
        st["checked"] += 1
        h = H[i]
        if not np.all(np.isfinite(h)):
            return "bandwidth_[%d] is not finite (effdim %s, local covariance eigenvalues %s)" % (
                i, g.get("effdim"), g.get("eig")), st
        if np.max(np.abs(h - h.T)) > 1e-10 * np.max(np.abs(h)):
            return "bandwidth_[%d] is not symmetric" % i, st
        ev = np.linalg.eigvalsh((h + h.T) / 2)
        if not ev[0] > 0:
            return "bandwidth_[%d] is not positive definite: eigenvalues %s (nlocal %.4g)" % (
                i, ev.tolist(), g["flocal"] * len(case["D"])), st
    return None, st


def _lse(v):
    v = [x for x in v if x != -math.inf]
    if not v:
        return -math.inf
    m = max(v)
    return m + math.log(sum(math.exp(x - m) for x in v))


def mixture_reference(case, rec):
    """log of the documented mixture from the fitted bandwidths, weights and labels
    (independent of _computes_kernel_density_estimation).  Returns (values, ill-conditioned flags)."""
    D, G, Q, w, cell = _arrays(case)
    H = np.array(rec["bandwidth"], dtype=float)
    d = case["d"]
    wts = np.array(rec["weights"])
    lab = rec["labels"]
    W = [sum(wts[i] for i in range(len(D)) if lab[i] == j) for j in range(len(G))]
    Hinv = [np.linalg.inv(h) for h in H]
    lognorm = [d * math.log(2 * math.pi) + np.linalg.slogdet(h)[1] for h in H]
    cut = kdecut2(d)
    out, ill = [], []
    for x in Q:
        terms, bad = [], False
        for j in range(len(G)):
            v = pbc_delta(x, G[j], cell)
            md = float(v @ Hinv[j] @ v)
            if abs(md - cut) < 1e-7 * cut:
                bad = True
            if md > cut:
                if W[j] > 0:
                    terms.append(-0.5 * (lognorm[j] + md) + math.log(W[j]))
            else:
                for i in range(len(D)):
                    if lab[i] == j and np.any(D[i] != x) and wts[i] > 0:
                        u = pbc_delta(D[i], x, cell)
                        terms.append(-0.5 * (lognorm[j] + float(u @ Hinv[j] @ u)) + math.log(wts[i]))
        out.append(_lse(terms) - math.log(sum(W)))
        ill.append(bad)
    return out, ill


def oracle_mixture(case, rec, rtol=1e-7, atol=1e-7):
    if "score_error" in rec:
        return "score_samples raised %s: %s" % (rec["score_error"], rec.get("score_error_msg"))
    if not np.all(np.isfinite(np.array(rec["bandwidth"], dtype=float))):
        return None
    ref, ill = mixture_reference(case, rec)
    tot, skip = 0.0, False
    for k, (a, b) in enumerate(zip(rec["scores"], ref)):
        if ill[k]:
            skip = True
            continue
        if a == b:
            tot += a
            continue
        if not (abs(a - b) <= atol + rtol * max(abs(a), abs(b))):
            return "score_samples[%d] = %r but the log of the documented mixture is %r" % (k, a, b)
        tot += a
    if not skip and not (rec["score"] == tot or abs(rec["score"] - tot) <= 1e-6 * (1 + abs(tot))):
        return "score = %r is not the sum of score_samples (%r)" % (rec["score"], tot)
    return None


def borderline(case, rec, eps=1e-7):
    """the localisation tuners take discontinuous decisions (flocal vs lim, |flocal-lim| vs delta,
    sigma2 vs flocal); a comparison between two runs is ill-conditioned if any was nearly tied"""
    n = len(case["D"])
    delta = 1.0 / n
    fp = case["kw"].get("fpoints", -1.0) if "fspread" not in case["kw"] else -1.0
    prev = 0
    for g in rec["grids"]:
        calls = rec["locpop"][prev:g["ncalls"]]
        prev = g["ncalls"]
        if fp > 0:
            Wi = rec["W"][g["idx"]] if "W" in rec else None
            if Wi is None:
                return True
            lim = fp if fp > Wi else Wi + delta
            if abs(fp - Wi) < eps:
                return True
            for (_s2, num) in calls:
                if abs(num - lim) < eps or abs(abs(num - lim) - delta) < eps:
                    return True
        else:
            for (s2, num) in calls[:1]:
                if abs(s2 - num) < eps:
                    return True
    return False


def transformed(case, rng, what):
    """a transformed copy of the case under which C17 says the log-densities at non-descriptor
    queries are unchanged; returns (case', permutation of the queries = identity)"""
    import copy
    c = copy.deepcopy(case)
    d = case["d"]
    if what == "translate":
        t = [float(rng.randint(-8, 8)) for _ in range(d)]
        for P in (c["D"], c["G"], c["Q"]):
            for r in P:
                for k in range(d):
                    r[k] += t[k]
        c["transform"] = dict(kind=what, t=t)
    elif what == "permute":
        pd = list(range(len(c["D"])))
        rng.shuffle(pd)
        pg = list(range(len(c["G"])))
        rng.shuffle(pg)
        c["D"] = [c["D"][i] for i in pd]
        if c["w"] is not None:
            c["w"] = [c["w"][i] for i in pd]
        c["G"] = [c["G"][j] for j in pg]
        c["transform"] = dict(kind=what, pd=pd, pg=pg)
    elif what == "images":
        cell = c["cell"]
        which = rng.choice(["descriptor", "grid", "query"])
        P = dict(descriptor=c["D"], grid=c["G"], query=c["Q"])[which]
        r = rng.randrange(len(P))
        k = rng.randrange(d)
        m = rng.choice([-2, -1, 1, 2])
        P[r][k] += m * cell[k]
        c["transform"] = dict(kind=what, which=which, row=r, coord=k, shift=m)
    return c


def is_descriptor(case, x):
    return any(all(a == b for a, b in zip(x, p)) for p in case["D"])


# ------------------------------------------------------------------------------ invariances
def assignment_ties(case):
    """some descriptor is equidistant (exactly) from its two nearest grid points"""
    D, G, Q, w, cell = _arrays(case)
    if case.get("metric"):
        rows = np.asarray(make_metric(case["metric"])(D, G, squared=True, cell_length=cell), dtype=float)
    else:
        rows = [[float(np.sum(pbc_delta(p, g, cell) ** 2)) for g in G] for p in D]
    for r in rows:
        ds = sorted(float(x) for x in r)
        if len(ds) > 1 and ds[1] - ds[0] <= 1e-12 * (1 + ds[1]):
            return True
    return False


def is_descriptor_mod_cell(case, x):
    cell = case["cell"]
    return any(float(np.max(np.abs(pbc_delta(x, p, cell)))) == 0.0 for p in case["D"])


def halfcell_tie(case, x, eps=1e-9):
    """with a cell: some coordinate of x - p (p a grid point or a descriptor) is within eps cells of a
    half-integer number of cells.  np.round then chooses between two images that are equally far in the
    Euclidean sense but NOT in the Mahalanobis sense (non-diagonal inverse bandwidth), and the choice
    (round-half-even) flips under a whole-cell shift: the comparison is ill-conditioned."""
    if case["cell"] is None:
        return False
    c = np.asarray(case["cell"], float)
    x = np.asarray(x, float)
    for P in (case["G"], case["D"]):
        v = (x[None, :] - np.asarray(P, float).reshape(len(P), -1)) / c[None, :]
        fr = v - np.floor(v)
        if np.any(np.abs(fr - 0.5) < eps):
            return True
    return False


def predicted_nontermination(case, W):
    """fraction-of-points tuner: the target lim = W_i + 1/n is not below the total weight, so
    `while flocal < lim` cannot terminate (flocal < sum W for every finite sigma)"""
    if "fspread" in case["kw"]:
        return False
    fp = case["kw"].get("fpoints", 0.15)
    delta = 1.0 / len(case["D"])
    tot = float(sum(W))
    for Wi in W:
        lim = fp if fp > Wi else Wi + delta
        if lim >= tot * (1 - 1e-12):
            return True
    return False


def grid_weights_only(case):
    from skmatter.neighbors import SparseKDE
    D, G, Q, w, cell = _arrays(case)
    est = SparseKDE(D, w, **_metric_kwargs(case, cell), **case["kw"])
    return [float(x) for x in est._assign_descriptors_to_grids(G)[3]]


def oracle_invariance(case, rec, rng, what, rtol=1e-6, atol=1e-6, c2=None):
    """metamorphic statement of C17: log-densities at non-descriptor queries are unchanged by the
    transformation.  Returns (message or None, status, transformed case)."""
    if c2 is None:
        c2 = transformed(case, rng, what)
    if what == "permute" and assignment_ties(case):
        return None, "skipped_ties", c2
    try:
        if predicted_nontermination(c2, grid_weights_only(c2)):
            return None, "skipped_nontermination", c2
    except Exception:  # noqa
        pass
    est2, r2 = fit_impl(c2, timeout=10)
    if est2 is None:
        return ("the transformed problem (%s) fails to fit: %s %s" % (
            c2["transform"], r2.get("error"), r2.get("error_msg")), "failed", c2)
    score_impl(est2, c2, r2)
    if "score_error" in r2:
        return ("score_samples raised %s on the transformed problem (%s)" % (
            r2["score_error"], c2["transform"]), "failed", c2)
    if borderline(case, rec) or borderline(c2, r2):
        return None, "skipped_borderline", c2
    H1, H2 = np.array(rec["bandwidth"], float), np.array(r2["bandwidth"], float)
    if not (np.all(np.isfinite(H1)) and np.all(np.isfinite(H2))):
        return None, "skipped_nonfinite", c2
    if min(reach_of(g["wlocal"]) for g in rec["grids"]) < 1e-4:
        return None, "skipped_illcond", c2
    if any(mixture_reference(case, rec)[1]) or any(mixture_reference(c2, r2)[1]):
        return None, "skipped_illcond", c2
    ncmp = 0
    for k, x in enumerate(case["Q"]):
        if is_descriptor_mod_cell(case, x) or is_descriptor_mod_cell(c2, c2["Q"][k]):
            continue
        if halfcell_tie(case, x) or halfcell_tie(c2, c2["Q"][k]):
            continue
        a, b = rec["scores"][k], r2["scores"][k]
        ncmp += 1
        if a == b:
            continue
        if not (abs(a - b) <= atol + rtol * max(abs(a), abs(b))):
            return ("log-density at query %d changes from %r to %r under %s" % (
                k, a, b, c2["transform"]), "failed", c2)
    return None, ("ok" if ncmp else "skipped_no_query"), c2


# ------------------------------------------------------------------------------ histories on ONE object
# A history is a sequence of public operations on one estimator object:
#   set   assignment of the public attributes (descriptors, weights, fspread/fpoints), written the way
#         the constructor stores them
#   fit   fit(G)
#   score score_samples(Q) and score(Q)
#   peek  reading bandwidth_ and _sample_weights
# C17 speaks about "the" fitted estimator: after any history the statement must hold for the state
# the LAST fit produced (Model/SparseKDEH.v: refit = fresh fit, caches coherent).
def gen_grid(rng, D, cell, ng_target, gridmode):
    G, tries = [], 0
    while len(G) < ng_target and tries < 200:
        tries += 1
        if gridmode == "subset":
            p = list(rng.choice(D))
        else:
            p = [_q(x + rng.gauss(0, 0.5)) for x in rng.choice(D)]
        if all(np.linalg.norm(pbc_delta(p, g, cell)) > 1e-3 for g in G):
            G.append(p)
    return G


def gen_queries(rng, D, G, nq):
    Q = []
    for _ in range(nq):
        r = rng.random()
        base = rng.choice(D)
        if r < 0.25:
            Q.append(list(base))
        elif r < 0.45:
            Q.append(list(rng.choice(G)))
        elif r < 0.8:
            Q.append([_q(x + rng.gauss(0, 0.7)) for x in base])
        else:
            Q.append([_q(x + rng.choice([-1, 1]) * rng.uniform(20, 60)) for x in base])
    return Q


def gen_count_weights(rng, n):
    """integer weights with EXACT zeros: bootstrap counts (resampling n out of n) or a 0/1.. mask"""
    if rng.random() < 0.5:
        cnt = [0] * n
        for _ in range(n):
            cnt[rng.randrange(n)] += 1
        return [float(x) for x in cnt]
    w = [float(rng.choice([0, 0, 1, 1, 2, 3])) for _ in range(n)]
    if sum(w) == 0:
        w[rng.randrange(n)] = 1.0
    return w


def gen_kw(rng):
    if rng.random() < 0.3:
        return dict(fspread=rng.choice([0.01, 0.05, 0.2, 0.5, 1.0]))
    return dict(fpoints=rng.choice([0.15, 0.3, 0.5, 0.8]))


def gen_history(rng, quick):
    """a base fit case followed by further set / fit / score / peek operations on the same object"""
    base = gen_fit_case(rng, quick)
    d, cell = base["d"], base["cell"]
    cur = dict(D=base["D"], w=base["w"], kw=base["kw"], kind=base["kind"])
    steps = [dict(op="fit", G=base["G"], gridmode=base["gridmode"])]
    G = base["G"]

    def scores(lo, hi):
        for _ in range(rng.randint(lo, hi)):
            if rng.random() < 0.2:
                steps.append(dict(op="peek"))
            steps.append(dict(op="score", Q=gen_queries(rng, cur["D"], G, rng.randint(1, 4))))
    # a first fit is followed by 0..2 queries (0: the caches are still empty at the next fit)
    steps_first = rng.choice([0, 1, 1, 2])
    if steps_first:
        steps.append(dict(op="score", Q=base["Q"]))
        scores(steps_first - 1, steps_first - 1)
    for _ in range(rng.randint(1, 2 if quick else 3)):
        r = rng.random()
        if r < 0.45:
            what = rng.choice(["weights", "kw", "descriptors", "weights+kw"])
            if what == "descriptors":
                n = rng.randint(8, 28 if quick else 60)
                cur["kind"] = rng.choice(KINDS)
                cur["D"] = gen_cloud(rng, n, d, cur["kind"])
                cur["w"] = None if rng.random() < 0.5 else [rng.randint(1, 16) / 8.0 for _ in range(n)]
            if "weights" in what:
                if rng.random() < 0.4:
                    cur["w"] = gen_count_weights(rng, len(cur["D"]))
                else:
                    cur["w"] = [rng.randint(1, 16) / 8.0 for _ in range(len(cur["D"]))]
            if "kw" in what:
                cur["kw"] = gen_kw(rng)
            steps.append(dict(op="set", D=cur["D"], w=cur["w"], kw=cur["kw"], what=what))
        # the new grid: same number of grid points as before half of the time (stale per-grid data
        # then has a compatible shape), possibly the very same grid again
        r = rng.random()
        gridmode = rng.choice(["subset", "subset", "points"])
        if r < 0.15 and not (steps[-1]["op"] == "set" and "descriptors" in steps[-1]["what"]):
            G2 = [list(g) for g in G]
        else:
            ng = len(G) if r < 0.6 else rng.randint(2, 7)
            G2 = gen_grid(rng, cur["D"], cell, ng, gridmode)
        G = G2
        steps.append(dict(op="fit", G=G, gridmode=gridmode))
        scores(1, 2)
    return dict(part="H", d=d, cell=cell, D=base["D"], w=base["w"], kw=base["kw"], kind=base["kind"],
                steps=steps)


def history_fit_views(hist):
    """the ordinary fit case (part F) each fit of the history amounts to on a fresh object:
    (index of the fit step, case) with the queries asked before the next fit"""
    cur = dict(D=hist["D"], w=hist["w"], kw=hist["kw"], kind=hist.get("kind", "blob"))
    views = []
    for k, st in enumerate(hist["steps"]):
        if st["op"] == "set":
            cur = dict(D=st["D"], w=st["w"], kw=st["kw"], kind=cur["kind"])
        elif st["op"] == "fit":
            views.append([k, dict(part="F", d=hist["d"], kind=cur["kind"], gridmode=st.get("gridmode", "points"),
                                  D=cur["D"], G=st["G"], w=cur["w"], cell=hist["cell"], kw=cur["kw"], Q=[])])
        elif st["op"] == "score" and views:
            views[-1][1]["Q"] = views[-1][1]["Q"] + [list(x) for x in st["Q"]]
    return [(k, c) for k, c in views]


def _set_params(est, D, w, kw):
    """assign the public attributes the way SparseKDE.__init__ stores them"""
    D = np.array(D, dtype=float).reshape(len(D), -1)
    est.descriptors = D
    wts = np.array(w, dtype=float) if w is not None else np.ones(len(D))
    est.weights = wts / np.sum(wts)
    if "fspread" in kw:
        est.fspread, est.fpoints = kw["fspread"], -1.0
    else:
        est.fspread, est.fpoints = -1.0, kw.get("fpoints", 0.15)


def history_impl(hist, timeout=10):
    """run the history on ONE estimator object through the public API; returns a list of observations,
    one per step: fit -> the fit record (as fit_impl), score -> dict(scores, score), peek -> dict(H, W),
    set -> {}.  Stops at the first step that raises (observation with 'error')."""
    from skmatter.neighbors import SparseKDE
    views = dict(history_fit_views(hist))
    obs, est = [], None
    d = hist["d"]
    cell = None if hist["cell"] is None else np.array(hist["cell"], dtype=float)
    for k, st in enumerate(hist["steps"]):
        if st["op"] == "set":
            try:
                _set_params(est, st["D"], st["w"], st["kw"])
                obs.append({})
            except Exception as e:  # noqa
                obs.append(dict(error=type(e).__name__, error_msg=str(e)[:300]))
                break
        elif st["op"] == "fit":
            c = views[k]
            if est is None:
                est, r = fit_impl(c, timeout=timeout)
            else:
                e2, r = fit_impl(c, timeout=timeout, est=est)
                if e2 is not None:
                    r["weights"] = [float(x) for x in est.weights]
            obs.append(r)
            if "error" in r:
                break
        elif st["op"] == "score":
            Qa = np.array(st["Q"], dtype=float).reshape(len(st["Q"]), d)
            try:
                s = est.score_samples(Qa)
                obs.append(dict(scores=[float(x) for x in s], score=float(est.score(Qa))))
            except Exception as e:  # noqa
                obs.append(dict(score_error=type(e).__name__, score_error_msg=str(e)[:300]))
                break
        else:
            try:
                obs.append(dict(H=np.array(est.bandwidth_).tolist(), W=[float(x) for x in est._sample_weights]))
            except Exception as e:  # noqa
                obs.append(dict(error=type(e).__name__, error_msg=str(e)[:300]))
                break
    return obs


def oracle_state(case, rec, tol=1e-9, wtol=1e-12):
    """C17, first sentence, on the fitted state of an estimator: labels are nearest grid points under
    the (periodic) metric (exact rational arithmetic on the binary64 inputs; a label is accepted if
    its distance is within `tol` of the minimum), member lists are the label classes, the grid weights
    are the sums of the assigned normalised descriptor weights and total one."""
    from fractions import Fraction as Fr
    if "error" in rec or "labels" not in rec:
        return None
    D, G, cell = case["D"], case["G"], case["cell"]
    n, ng = len(D), len(G)
    w = [1.0] * n if case["w"] is None else case["w"]
    tot = sum(Fr(x) for x in w)
    nw = [Fr(x) / tot for x in w]
    if len(rec["weights"]) != n or any(abs(Fr(a) - b) > Fr(wtol) for a, b in zip(rec["weights"], nw)):
        return "the descriptor weights in use are not weights / sum(weights)"
    lab = rec["labels"]
    if len(lab) != n:
        return "number of labels differs from the number of descriptors"

    def dist(p, g):
        return metric_exact(case.get("metric"), cell, p, g)
    for i in range(n):
        row = [dist(D[i], g) for g in G]
        j = lab[i]
        if not (0 <= j < ng):
            return "descriptor %d has label %d outside the grid" % (i, j)
        if float(row[j] - min(row)) > tol * (1 + float(min(row))):
            return "descriptor %d assigned to grid point %d at squared distance %.12g%s, nearest is at %.12g" % (
                i, j, float(row[j]), " under the chosen metric %s" % case["metric"] if case.get("metric") else "",
                float(min(row)))
    if len(rec["members"]) != ng or len(rec["W"]) != ng:
        return "member lists / grid weights do not have one entry per grid point"
    for j in range(ng):
        mem = [i for i in range(n) if lab[i] == j]
        if rec["members"][j] != mem:
            return "member list of grid point %d is not its label class" % j
        if abs(Fr(rec["W"][j]) - sum((nw[i] for i in mem), Fr(0))) > Fr(wtol):
            return "grid weight %d (%r) is not the sum of the assigned descriptor weights (%r)" % (
                j, rec["W"][j], float(sum((nw[i] for i in mem), Fr(0))))
    if abs(sum(Fr(x) for x in rec["W"]) - 1) > (Fr(1, 10 ** 9) if wtol <= 1e-12 else Fr(1, 10 ** 5)):
        return "grid weights do not total one"
    return None


def _same(a, b, rtol=1e-12):
    a, b = np.asarray(a, dtype=float), np.asarray(b, dtype=float)
    if a.shape != b.shape:
        return False
    with np.errstate(invalid="ignore"):
        ok = (a == b) | (np.isnan(a) & np.isnan(b)) | (np.abs(a - b) <= rtol * np.maximum(np.abs(a), np.abs(b)))
    return bool(np.all(ok))


def oracle_history(hist, obs, fresh):
    """The statement of C17 on the object after every step of the history.
    fresh: {fit step index: record of a fresh estimator fitted on the same (parameters, grid)}.
    Returns (property message or None, state-machine message or None, stats)."""
    views = dict(history_fit_views(hist))
    st = dict(fits=0, scores=0, refits=0, peeks=0, bw_checked=0)
    cur_k, cur_c, cur_r = None, None, None
    machine = None
    for k, (step, o) in enumerate(zip(hist["steps"], obs)):
        if step["op"] == "set":
            if "error" in o:
                return "assigning the public attributes raised %s" % o["error"], machine, st
            continue
        if step["op"] == "fit":
            c = views[k]
            c = dict(c, Q=[])
            msg, bst = oracle_bandwidth(c, o)
            st["bw_checked"] += bst["checked"]
            if msg:
                return "step %d (fit): %s" % (k, msg), machine, st
            if "error" in o:
                return None, machine, st           # outside the proviso; the history ends here
            msg = oracle_state(c, o)
            if msg:
                return "step %d (fit): %s" % (k, msg), machine, st
            st["fits"] += 1
            st["refits"] += cur_k is not None
            cur_k, cur_c, cur_r = k, c, o
            f = fresh.get(k)
            if machine is None and f is not None and "error" not in f:
                for key in ("bandwidth", "W", "weights"):
                    if not _same(o[key], f[key]):
                        machine = "step %d: %s after re-fitting differs from a fresh estimator's" % (k, key)
                        break
                else:
                    if o["labels"] != f["labels"] or o["members"] != f["members"]:
                        machine = "step %d: labels / member lists after re-fitting differ from a fresh estimator's" % k
            continue
        if step["op"] == "peek":
            if "error" in o:
                return "step %d: reading bandwidth_ raised %s" % (k, o["error"]), machine, st
            st["peeks"] += 1
            if cur_r is not None and machine is None and not (_same(o["H"], cur_r["bandwidth"]) and _same(o["W"], cur_r["W"])):
                machine = "step %d: bandwidth_ / grid weights changed without a fit" % k
            continue
        # score
        c = dict(cur_c, Q=step["Q"])
        r = dict(cur_r)
        r.update(o)
        msg = oracle_mixture(c, r)
        if msg:
            return "step %d (score_samples after %d fit(s) on this object): %s" % (k, st["fits"], msg), machine, st
        st["scores"] += 1
    return None, machine, st
