"""C03 extension (round 3): helpers that belong to C03 only (harness/pcovr_common.py is shared with
C04 / C14 and left untouched).

* integer-valued, exactly centred data sets and the INPUT-DTYPE family: the same data handed to
  PCovR.fit as int64 / int32 / float32 arrays and as nested lists must give the fit obtained from
  float64 arrays (dtype_oracle);
* the route comparison "up to the sign of each component", entry by entry (sign_check);
* the case writer for Model/PCovRC03.v: scipy's svd contract of the full modified matrix as the
  oracle, svd_flip + truncation computed by the model, entrywise comparison of pxt_, ptx_, pty_,
  transform(X), transform(Xn), and the normal equations of the ridge regressors.
"""
import warnings

import numpy as np

from harness import common as C
from harness import pcovr_common as P

DTYPE_KINDS = ["int64", "int32", "float32", "list", "int64_yfloat"]
X_OUT = ["pxt_", "ptx_", "pty_", "transform(X)", "transform(Xn)"]
X_RES = ["M=U diag(s) V^T", "U^T U=I", "V^T V=I", "s decreasing", "s>=0", "ridge normal equations"]
EPS_RIDGE = 1e-7         # normal equations of the regressor: residual <= EPS_RIDGE * (1 + scale)
SIGN_MARGIN = 1e-6        # relative lead of the largest |entry| of a singular vector over the second
SIMPLE_GAP = P.GAP_MIN    # relative gap between consecutive retained eigenvalues


# ------------------------------------------------------------------------------- generators
INT_FAMILIES = ["int_tall", "int_wide", "int_square", "int_rankdef"]


def gen_int_dataset(rng, family=None):
    """Integer-valued X with column sums EXACTLY zero (so X is centred in every dtype), integer
    centred Y with 1..3 targets; float new data."""
    g = P.np_rng(rng)
    fam = family or rng.choice(INT_FAMILIES)
    if fam == "int_tall":
        m = rng.randint(2, 4)
        n = rng.randint(m + 2, 7)
    elif fam == "int_wide":
        n = rng.randint(3, 5)
        m = rng.randint(n + 1, 7)
    elif fam == "int_square":
        n = m = rng.randint(3, 5)
    else:
        n = rng.randint(4, 6)
        m = rng.randint(3, 6)

    def centred_ints(rows, cols, lo=-4, hi=4):
        A = g.integers(lo, hi + 1, size=(rows, cols))
        A[-1] = -A[:-1].sum(axis=0)
        return A

    if fam == "int_rankdef":
        r = rng.randint(1, max(1, min(n - 1, m) - 1))
        X = centred_ints(n, r, -2, 2) @ g.integers(-2, 3, size=(r, m))
    else:
        r = None
        X = centred_ints(n, m)
    p = rng.choice([1, 1, 2, 3])
    Wt = g.integers(-2, 3, size=(m, p))
    Y = X @ Wt + centred_ints(n, p, -2, 2)
    q = 3
    Xn = g.normal(size=(q, m)) * 1.5
    Yn = Xn @ Wt + 0.3 * g.normal(size=(q, p))
    return dict(family=fam, n=n, m=m, p=p, q=q, rank_made=r, X=X.astype(float), Y=Y.astype(float),
                Xn=Xn, Yn=Yn, centred=True, integer=True)


def _conv(A, kind):
    A = np.asarray(A)
    if kind in ("int64", "int64_yfloat"):
        return A.astype(np.int64)
    if kind == "int32":
        return A.astype(np.int32)
    if kind == "float32":
        return A.astype(np.float32)
    if kind == "list":
        return A.tolist()
    raise ValueError(kind)


def fit_dtype(ds, cfg, kind, tol=P.TOL):
    """Fit PCovR with X (and, where it is integer valued, Y) handed in as `kind`."""
    from skmatter.decomposition import PCovR
    reg, Yfit, Wfit = P._regressor(ds, cfg)                 # float64 (prefit fits on float64)
    Xv = _conv(ds["X"], kind)
    if reg == "precomputed":                                 # Yhat is not integer valued
        Yv = (np.asarray(Yfit).tolist() if kind == "list" else
              np.asarray(Yfit, dtype=np.float32) if kind == "float32" else Yfit)
    elif kind == "int64_yfloat":
        Yv = Yfit
    else:
        Yv = _conv(Yfit, kind)
    est = PCovR(mixing=cfg["a"], n_components=cfg["k"], space=cfg["space"], svd_solver=cfg["solver"],
                tol=tol, regressor=reg, random_state=0)
    with warnings.catch_warnings():
        warnings.simplefilter("ignore")
        if reg == "precomputed" and Wfit is not None:
            est.fit(Xv, Yv, W=Wfit)
        else:
            est.fit(Xv, Yv)
    n = ds["n"]
    if reg == "precomputed":
        Ymodel = np.asarray(Yfit, dtype=float).reshape(n, -1)
    else:
        Ymodel = np.asarray(Yfit, dtype=float).reshape(n, -1)
    obs, T = P.observe(est, ds, Ymodel)
    return est, obs, T


F32_TRAIN = [3, 5, 6, 7, 8, 9]          # outputs compared for float32 input (training data only)


def dtype_oracle(ds, cfg, ref_obs, S_full, mn, sample, kinds=DTYPE_KINDS):
    """The fit must not depend on the container / dtype of (integer valued) inputs.
    ref_obs: outputs of the float64 fit of the same configuration.  Returns (message or None,
    {kind: 'ok' | 'skipped: ...'})."""
    done = {}
    k = cfg["k"]
    for kind in kinds:
        if kind == "float32":
            # single precision: rcond / tol = 1e-12 cannot separate rank from noise, so only
            # well conditioned, full-rank configurations are meaningful
            v = mn["vC"]
            S = np.asarray(S_full)
            # (the regressors - Ridge(alpha=1e-6), lstsq(rcond=1e-12) - and C^-1/2 all need X^T X to be
            # well conditioned relative to single precision: full column rank, in either space)
            if ds["m"] > ds["n"] - 1 or v[-1] < 1e-2 * v[0]:
                done[kind] = "skipped: X^T X not well conditioned in single precision"
                continue
            if S[k - 1] < 1e-2 * S[0] or (k < len(S) and (S[k - 1] - S[k]) < 5e-2 * S[0]):
                done[kind] = "skipped: retained spectrum not well conditioned in single precision"
                continue
        try:
            est, obs, _ = fit_dtype(ds, cfg, kind)
        except Exception as e:                                  # noqa
            return "fit with %s input raised %s: %s" % (kind, type(e).__name__, str(e)[:160]), done
        if kind == "float32":
            idxs, rtol, atol = F32_TRAIN, 5e-3, 5e-3 * max(1.0, float(np.abs(ref_obs[3]).max()))
        else:
            idxs, rtol, atol = range(len(P.OUTPUT_NAMES)), P.RTOL, P.ATOL
        for i in idxs:
            A, B = ref_obs[i], obs[i]
            if A.shape != B.shape:
                return "%s input changes the shape of %s" % (kind, P.OUTPUT_NAMES[i]), done
            d = float(np.abs(A - B).max()) if A.size else 0.0
            if not d <= atol + rtol * max(np.abs(A).max(initial=0), np.abs(B).max(initial=0)):
                return ("the fit depends on the input dtype: X/Y given as %s instead of float64 changes %s "
                        "(max dev %.3g)" % (kind, P.OUTPUT_NAMES[i], d)), done
        done[kind] = "ok"
    return None, done


# ------------------------------------------------------------------ up to the sign of each component
def simple_retained(S_full, k, tol=P.TOL):
    """Are the retained eigenvalues among the first k pairwise separated (relative gap) and
    separated from the rest?"""
    S = np.asarray(S_full, dtype=float)
    r = int(np.sum(S[:k] > tol))
    if r == 0 or S[0] <= 0:
        return True
    top = S[:min(r + 1, len(S))]
    return bool(np.all(-np.diff(top) >= SIMPLE_GAP * S[0]))


def sign_check(T1, T2, S_full, k, tol=P.TOL):
    """T1 = T2 * diag(+-1) entry by entry (retained columns), masked columns zero in both.
    Returns None or (column, deviation)."""
    S = np.asarray(S_full, dtype=float)
    scale = 1.0 + float(np.abs(T1).max(initial=0))
    for j in range(T1.shape[1]):
        a, b = T1[:, j], T2[:, j]
        if S[j] > tol:
            s = 1.0 if float(a @ b) >= 0 else -1.0
            d = float(np.abs(a - s * b).max())
        else:
            d = float(max(np.abs(a).max(), np.abs(b).max()))
        if not d <= 1e-6 * scale:
            return j, d
    return None


# ------------------------------------------------------------------ Model/PCovRC03.v cases
def svd_hints(M):
    U, s, Vt = np.linalg.svd(M, full_matrices=False)
    return U, s, Vt.T


def sign_stable(U, S_full, k, tol=P.TOL):
    """svd_flip decides by the entry of largest absolute value of each column of U: stable under
    rounding iff that entry leads the runner-up by a margin (retained columns only)."""
    for j in range(k):
        if S_full[j] <= tol:
            continue
        c = np.sort(np.abs(U[:, j]))[::-1]
        if len(c) > 1 and c[0] - c[1] < SIGN_MARGIN * c[0]:
            return False
    return True


def ridge_alpha(cfg):
    """alpha of the normal equations the regressor solves, or None if W is not such a solution
    of the targets the model sees."""
    kind = cfg["reg"]
    if kind == "default":
        return 1e-6
    if kind in ("ridge", "prefit"):
        return cfg["alpha"]
    if kind in ("linreg", "pre_noW"):
        return 0.0
    return None


def observe_signed(est, ds):
    with warnings.catch_warnings():
        warnings.simplefilter("ignore")
        k = est.n_components_
        return [np.asarray(est.pxt_, dtype=float), np.asarray(est.ptx_, dtype=float),
                np.asarray(est.pty_, dtype=float).reshape(k, -1),
                np.asarray(est.transform(ds["X"]), dtype=float),
                np.asarray(est.transform(ds["Xn"]), dtype=float)]


class CoqCases3(P.CoqCases):
    """CoqCases whose shards also import Model/PCovRC03.v."""

    def flush(self):
        if not self.cases and not self.extras:
            return
        body = (C.SHARD_HEAD + "From Coq Require Import List PrimFloat.\nImport ListNotations.\n"
                "From Verif Require Import MExp PCovR PCovRC03.\nOpen Scope float_scope.\n"
                + "".join(self.defs)
                + "Definition cases : list pcase := [" + "; ".join(self.cases) + "].\n"
                + "Eval vm_compute in (map (pc_report %s %s %s) cases).\n"
                % (C.fl(P.RTOL), C.fl(P.ATOL), C.fl(P.EPS_HYP)))
        if self.extras:
            body += "Eval vm_compute in ([\n " + ";\n ".join(self.extras) + "]).\n"
        self.shards.append((body, list(self.ids), list(self.extra_tags)))
        self._reset()


def x_term(writer, cname, U, s, V, ridge, obs):
    """Extra term (list bool * list float) for one case: c03x_report flattened."""
    return ("(let '(a, b, c, d) := c03x_report %s %s %s %s %s %s %s %s %s %s in (a ++ b, c ++ d))" % (
        C.fl(P.RTOL), C.fl(P.ATOL), C.fl(P.EPS_HYP), C.fl(EPS_RIDGE), cname, writer.mat(U), writer.mat(s.reshape(-1, 1)),
        writer.mat(V), "true" if ridge else "false", writer.mats(obs)))
