"""C06 extension (round 3): sessions on ONE VoronoiFPS object (Model/VorObj.v).

A session is a list of fit calls on a single estimator: cold fits on changing data (same or
different number of samples / features / scale), warm-started continuations, parameter
changes in between (full_fraction fixed / re-calibrated, n_to_select as int / fraction / None,
initialize as index / 'random'), and calls that must be rejected.  After every call that
returns, ALL attributes the algorithm reads later (norms_, X_selected_, selected_idx_, dSL_
buffer, vlocation_of_idx, hausdorff_, hausdorff_at_select_, new_dist_) are compared with the
object-level model inside Coq, and an independent oracle states the property on the outputs.
"""
import math
from fractions import Fraction

import numpy as np

from harness import common as C
from harness import selectors as S

FFS = [Fraction(1, 128), Fraction(1, 4), Fraction(1, 2), Fraction(1, 1)]
FAMS = ["clustered", "clustered", "clustered", "uniform", "duplicates", "ties01", "lattice1d"]


PRESENTATIONS = ["float64", "float64", "float64", "int8", "uint8", "int16", "int32", "int64", "float32", "list", "fortran"]


def present(Xint, sp, kind):
    """the same integer lattice handed to fit() in another container / dtype (exact in each of them)"""
    if kind == "list":
        return [list(map(int, r)) for r in Xint]
    if kind in ("int8", "uint8", "int16", "int32", "int64", "float32"):
        A = np.array(Xint, dtype=kind)
        assert A.tolist() == [list(r) for r in Xint], "presentation %s does not hold the data" % kind
        return A
    A = np.array(Xint, dtype=float) * (2.0 ** sp)
    return np.asfortranarray(A) if kind == "fortran" else A


def _represent(X, kind):
    """integer data brought into the range where the presentation is interesting (squares and sums
    leave int8 / uint8 / int16 / int32 although every entry fits) — the model sees the same integers"""
    if kind == "uint8":
        return [[v + 64 for v in r] for r in X]                   # 2 .. 126
    if kind == "int16":
        return [[4 * v for v in r] for r in X]                    # |v| <= 250: squares leave int16
    if kind in ("int32", "int64"):
        return [[600 * v for v in r] for r in X]                  # |v| <= 37200: sums of squares leave int32
    return X


def _nts_for(rng, n, k):
    """a way of asking for k selections out of n: int, or a fraction / None resolving to k"""
    forms = [k]
    if k == n // 2:
        forms.append("none")
    forms += [f for f in (0.25, 0.5, 0.75, 1.0, 0.29, 0.57, 0.9, 0.6, 0.4, 0.8) if int(n * f) == k]
    return rng.choice(forms) if rng.random() < 0.4 else k


def gen_session(rng, quick):
    nmax = 18 if quick else 40
    n = rng.randint(3, nmax)
    d = rng.randint(2, 4)
    data, calls = [], []

    def new_data(same_n):
        nn = n if same_n else rng.randint(3, nmax)
        dd = d if rng.random() < 0.6 else rng.randint(2, 4)
        fam = rng.choice(FAMS)
        kind = rng.choice(PRESENTATIONS)
        yw = rng.choice([1, 1, 2])
        data.append(dict(X=_represent(S.gen_matrix(rng, nn, dd, fam), kind), family=fam, present=kind,
                         sp=rng.choice([0, 0, 0, -8, -14, 12, 3]) if kind in ("float64", "fortran") else 0,
                         y=[[rng.randint(-9, 9) for _ in range(yw)] for _ in range(nn)],
                         y1d=rng.random() < 0.5))
        return len(data) - 1

    cur, nsel, cur_y = None, 0, False
    ff_unset = True          # is the parameter full_fraction None when the next call starts?
    ff_bad = False           # ... or an invalid value left by a rejected call?
    force = None             # kind of the next call (after a rejected cold fit: mostly a warm start)
    ncalls = rng.randint(2, 5)
    while len(calls) < ncalls:
        r = rng.random()
        ff = rng.choice(["keep", "keep", None] + [[f.numerator, f.denominator] for f in FFS])
        if not calls and ff == "keep":
            ff = None if rng.random() < 0.3 else [1, rng.choice([1, 2, 4, 128])]
        if ff == "keep" and ff_bad:
            ff = [1, rng.choice([1, 2, 4, 128])]          # the user corrects the parameter
        if cur is not None and force is None and rng.random() < 0.2:
            # a cold fit REJECTED for its switching-point parameters (on the same data, other data of the
            # same size, or another shape): since /repo ac09377 it must leave the object untouched
            q = rng.random()
            di = cur if q < 0.4 else new_data(same_n=(q < 0.8))
            nn = len(data[di]["X"])
            if rng.random() < 0.6:
                badff, badnt, expect = rng.choice([2.0, 0.0, -0.5, 1.5]), 4, "ValueError"
            else:
                badff = None
                badnt, expect = rng.choice([(0, "ValueError"), (-2, "ValueError"), (2.5, "TypeError")])
            calls.append(dict(kind="cold", data=di, ff="raw", badff=badff, ntrial=badnt, rejected_ff=True, with_y=rng.random() < 0.4,
                              nts=rng.randint(1, nn), init=rng.randrange(nn), expect=expect,
                              clock=[rng.random() < 0.5 for _ in range(7)]))
            ff_bad, ff_unset = badff is not None, badff is None
            force = "warm" if rng.random() < 0.7 else "cold"
            ncalls = max(ncalls, len(calls) + 1)          # the history continues after the rejection
            continue
        forced, force = force, None
        if cur is None or forced == "cold" or (forced is None and r < 0.45):
            # cold fit: mostly on other data with the SAME number of samples (what a stale
            # per-sample attribute survives), sometimes another shape, sometimes the same data
            q = rng.random()
            if cur is not None and q < 0.15:
                di = cur
            else:
                di = new_data(same_n=(q < 0.75))
            nn = len(data[di]["X"])
            k = rng.randint(1, nn)
            init = rng.choice([rng.randrange(nn), rng.randrange(nn), "random", -rng.randint(1, nn)])
            bad = rng.random()
            nts = _nts_for(rng, nn, k)
            expect = "ok"
            if bad < 0.04:
                nts, expect = rng.choice([0, nn + 1, 1.5, -1]), "ValueError"
            elif bad < 0.07:
                init, expect = rng.choice([nn + rng.randint(0, 2), -nn - rng.randint(1, 2)]), "IndexError"
            calls.append(dict(kind="cold", data=di, ff=ff, nts=nts, init=init, expect=expect, with_y=rng.random() < 0.4,
                              clock=[rng.random() < rng.choice([0.1, 0.5, 0.9]) for _ in range(7)],
                              ntrial=rng.choice([1, 2, 4, 4])))
            # a cold fit that gets as far as _init_greedy_search stores the calibrated value
            ff_unset = (ff is None or (ff == "keep" and ff_unset)) and expect == "ValueError"
            ff_bad = False
            if expect == "ok":
                cur, nsel = di, k
                cur_y = calls[-1]["with_y"]      # warm starts are called with the same (X, y) as the cold fit
            elif expect == "IndexError":
                cur, nsel = None, 0
        else:
            nn = len(data[cur]["X"])
            bad = rng.random()
            if ff is None or (ff == "keep" and ff_unset):
                # full_fraction=None is only calibrated by a COLD fit (which stores the result in the
                # parameter); a warm start with the parameter reset to None raises TypeError — not generated
                ff = [1, rng.choice([1, 2, 4, 128])]
            ff_unset = ff_bad = False
            if forced == "warm" and nsel < nn:
                # after a rejected cold fit: a warm start that really continues the selection
                k = rng.randint(nsel + 1, nn)
                calls.append(dict(kind="warm", data=cur, ff=ff, nts=_nts_for(rng, nn, k), expect="ok",
                                  after_rejected=True, with_y=cur_y))
                nsel = k
                continue
            if bad < 0.06 and nsel > 1:
                k = rng.randint(1, nsel - 1)
                calls.append(dict(kind="warm", data=cur, ff=ff, nts=k, expect="ValueError", with_y=cur_y))
                continue
            k = rng.randint(nsel, nn)
            calls.append(dict(kind="warm", data=cur, ff=ff, nts=_nts_for(rng, nn, k), expect="ok", with_y=cur_y))
            nsel = k
    if rng.random() < 0.05:
        calls.insert(0, dict(kind="warm", data=0, ff="keep", nts=2, expect="ValueError"))
    # half of the objects are constructed with POSITIONAL arguments taken from the first call
    positional = calls[0]["kind"] == "cold" and calls[0]["ff"] not in ("keep", "raw") and rng.random() < 0.5
    return dict(data=data, calls=calls, positional=positional)


def gen_large_session(rng):
    """the history "cold fit to a small count, warm start past 256 selections" (a per-sample label
    array sized for the cold count overflows there); 300-400 points on a line or in the plane"""
    n = rng.randint(325, 400)
    if rng.random() < 0.5:
        X = [[x, 0] for x in rng.sample(range(-3000, 3000), n)]
        fam = "line"
    else:
        X = [[rng.randint(-80, 80), rng.randint(-80, 80)] for _ in range(n)]
        fam = "plane"
    k1, k2 = rng.randint(100, 255), rng.randint(257, 320)
    ff = rng.choice([[1, 1], [1, 2], [1, 128]])
    calls = [dict(kind="cold", data=0, ff=ff, nts=k1, init=rng.randrange(n), expect="ok", clock=[False] * 7, ntrial=4),
             dict(kind="warm", data=0, ff="keep", nts=k2, expect="ok")]
    return dict(data=[dict(X=X, family=fam, sp=0)], calls=calls, positional=rng.random() < 0.5, large=True)


class FakeClock:
    """replaces `time` inside skmatter.sample_selection._voronoi_fps during one fit (harness side):
    the plain-FPS trial takes 1.0 per evaluation; the k-th bisection trial takes 0.5 (Voronoi
    'faster': lower = ff) when outs[k] else 2.0 — so the comparison outcomes are `outs`"""

    def __init__(self, outs, ntrial):
        self.outs, self.nt, self.t, self.calls = list(outs), max(1, int(ntrial)), 0.0, 0

    def __call__(self):
        c = self.calls
        self.calls += 1
        if c == 0:
            return 0.0
        if c == 1:
            self.t = float(self.nt)
            return self.t
        j = c - 2
        if j % 2 == 0:
            return self.t
        it = j // (2 * self.nt)
        self.t += 0.5 if (it < len(self.outs) and self.outs[it]) else 2.0
        return self.t


def fit_with_clock(sel, X, warm, outs, ntrial, y=None):
    """sel.fit(X, warm_start=warm) under a FakeClock; returns the clock (calls == 0: no calibration)"""
    import skmatter.sample_selection._voronoi_fps as M
    clock = FakeClock(outs, ntrial)
    had = hasattr(M, "time")
    old = getattr(M, "time", None)
    if had:
        M.time = clock
    try:
        if y is None:
            sel.fit(X, warm_start=warm)
        else:
            sel.fit(X, y, warm_start=warm)
    finally:
        if had:
            M.time = old
    return clock


DOCUMENTED_SIGNATURE = [("n_trial_calculation", 4), ("full_fraction", None), ("initialize", 0)]


def make_voronoi(ntrial, ff, init, positional, **kw):
    """VoronoiFPS with the three documented leading parameters given by keyword or POSITIONALLY in
    the documented order of the pinned signature (n_trial_calculation, full_fraction, initialize)"""
    from skmatter.sample_selection import VoronoiFPS
    if positional:
        return VoronoiFPS(ntrial, ff, init, **kw)
    return VoronoiFPS(n_trial_calculation=ntrial, full_fraction=ff, initialize=init, **kw)


def signature_problem():
    """order / defaults of VoronoiFPS.__init__'s positional parameters vs the documented ones"""
    import inspect
    from skmatter.sample_selection import VoronoiFPS
    ps = [p for p in list(inspect.signature(VoronoiFPS.__init__).parameters.values())[1:]
          if p.kind in (p.POSITIONAL_ONLY, p.POSITIONAL_OR_KEYWORD)]
    got = [(p.name, None if p.default is inspect.Parameter.empty else p.default) for p in ps]
    if got != DOCUMENTED_SIGNATURE:
        return "VoronoiFPS.__init__ positional parameters are %r, documented (pinned) %r" % (got, DOCUMENTED_SIGNATURE)
    return None


def _nts_py(nts):
    return None if nts == "none" else nts


def _ints(a, unscale, what):
    return [None if math.isinf(x) else C.as_int_matrix(np.array([x * unscale]), what)[0] for x in np.asarray(a, float)]


def run_session(case):
    from skmatter.sample_selection import VoronoiFPS, FPS
    positional = bool(case.get("positional"))
    if positional:
        c0 = case["calls"][0]
        sel = make_voronoi(c0.get("ntrial", 4), None if c0["ff"] is None else c0["ff"][0] / c0["ff"][1], c0["init"], True)
    else:
        sel = VoronoiFPS()
    out = []
    for ci, c in enumerate(case["calls"]):
        ds = case["data"][c["data"]]
        sp = ds["sp"]
        Xf = np.array(ds["X"], dtype=float) * (2.0 ** sp)          # the float64 presentation (reference)
        X = present(ds["X"], sp, ds.get("present", "float64"))
        nX = len(ds["X"])
        y = None
        if c.get("with_y") and ds.get("y") is not None:
            y = np.array(ds["y"], dtype=float)
            if ds.get("y1d"):
                y = y[:, 0]
        u2, u1 = 2.0 ** (-2 * sp), 2.0 ** (-sp)
        if positional and ci == 0:
            pass          # the constructor received them positionally
        elif c["ff"] == "raw":
            sel.full_fraction = c["badff"]
        elif c["ff"] != "keep":
            sel.full_fraction = None if c["ff"] is None else c["ff"][0] / c["ff"][1]
        sel.n_to_select = _nts_py(c["nts"])
        if c["kind"] == "cold" and not (positional and ci == 0):
            sel.initialize = c["init"]
            sel.n_trial_calculation = c.get("ntrial", 4)
        rec = {}
        was_none = sel.full_fraction is None
        try:
            clock = fit_with_clock(sel, X, c["kind"] == "warm", c.get("clock", []), c.get("ntrial", 4), y)
            rec["calibrated"] = bool(was_none and clock.calls > 0)
        except Exception as e:  # noqa
            rec["error"] = S.err_class(e)
            rec["error_msg"] = str(e)[:160]
        ffr = sel.full_fraction
        try:
            rec["ff"] = None if ffr is None else [Fraction(float(ffr)).numerator, Fraction(float(ffr)).denominator]
        except (TypeError, ValueError):
            rec["ff"], rec["ff_raw"] = None, repr(ffr)      # not a number (e.g. shifted constructor arguments)
        if "error" not in rec:
            k = int(sel.n_selected_)
            # a negative initialize is stored as given; everything else works on item n + i
            rec.update(k=k, sel=[int(i) % nX for i in sel.selected_idx_], sel_raw0=int(sel.selected_idx_[0]))
            vd = np.asarray(sel.vlocation_of_idx).dtype
            if vd.kind in "iu" and np.iinfo(vd).max < nX - 1:
                # a cell label is a selection rank: any rank up to n - 1 must fit (warm starts keep the array)
                rec["narrow_labels"] = "vlocation_of_idx has dtype %s, which cannot hold the rank %d" % (vd, nX - 1)
            try:
                rec.update(
                    xsel=C.as_int_matrix(np.asarray(sel.X_selected_, float) * u1, "X_selected_"),
                    norms=_ints(sel.norms_, u2, "norms_"),
                    haus=_ints(sel.hausdorff_, u2, "hausdorff_"),
                    hsel=_ints(sel.hausdorff_at_select_, u2, "hausdorff_at_select_"),
                    vloc=[int(v) for v in sel.vlocation_of_idx],
                    dsl=_ints(np.asarray(sel.dSL_, float) * 4.0, u2, "dSL_"),
                    new=_ints(sel.new_dist_, u2, "new_dist_"),
                    seld=_ints(sel.get_select_distance(), u2, "get_select_distance"),
                    dist=_ints(sel.get_distance(), u2, "get_distance"))
                ref = FPS(initialize=rec["sel_raw0"], n_to_select=k).fit(Xf)
                rec["ref"] = dict(sel=[int(i) % nX for i in ref.selected_idx_],
                                  haus=_ints(ref.get_distance(), u2, "FPS.get_distance"),
                                  seld=_ints(ref.get_select_distance(), u2, "FPS.get_select_distance"))
            except C.InexactOutput as e:
                # impossible for a correct run on this domain; keep the raw table for the oracle
                rec["inexact"] = str(e)
                rec["dist_f"] = [float(x) * u2 for x in np.asarray(sel.get_distance(), float)]
        out.append(rec)
    return dict(calls=out)


# ----------------------------------------------------------------------------- Coq text
def _extl(v):
    return "[" + "; ".join("None" if x is None else "Some %s" % C.Zl(x) for x in v) + "]"


def _nts_coq(n, nts):
    if nts == "none":
        return "NtsNone"
    if isinstance(nts, int):
        return "(NtsInt %s)" % C.Zl(nts)
    return "(NtsFrac %s %s)" % (C.Zl(int(n * nts)), "true" if 0 < nts <= 1 else "false")


def _norm_init(init, n):
    """index the model works on: n + i for a negative i, n (= out of range) when that is still negative"""
    if not isinstance(init, int):
        return 0
    return init if init >= 0 else (n + init if n + init >= 0 else n)


def session_coq(case, res):
    items = []
    for c, r in zip(case["calls"], res["calls"]):
        X = case["data"][c["data"]]["X"]
        n = len(X)
        ff = r["ff"] or [1, 1]
        br = "(br_fraction %d%%nat %s %s)" % (n, C.Zl(ff[0]), C.Zl(ff[1]))
        if c.get("rejected_ff"):
            bf, bn = c["badff"], c["ntrial"]
            ffc = "FFNone" if bf is None else "(FFReal %s %s)" % (C.Zl(Fraction(bf).numerator), C.Zl(Fraction(bf).denominator))
            ntc = "(NTInt %s)" % C.Zl(bn) if isinstance(bn, int) else "NTOther"
            call = "VColdFF %s %s %s %s %d%%nat %s" % (C.zmat(X), ffc, ntc, br, c["init"], _nts_coq(n, c["nts"]))
        elif c["kind"] == "cold":
            i0 = r["sel"][0] if "error" not in r else _norm_init(c["init"], n)
            call = "VCold %s %s %d%%nat %s" % (C.zmat(X), br, i0, _nts_coq(n, c["nts"]))
        else:
            call = "VWarm %s %s %s" % (C.zmat(X), br, _nts_coq(n, c["nts"]))
        if "error" in r or "inexact" in r or "narrow_labels" in r:
            obs = "None"
        else:
            obs = "Some (mk_otrace %s %s %s %s %s %s %s %s %s)" % (
                C.natlist(r["sel"]), C.zmat(r["xsel"]), C.zlist(r["norms"]), _extl(r["haus"]), _extl(r["hsel"]),
                C.natlist(r["vloc"]), C.zlist(r["dsl"]), _extl(r["new"]), _extl(r["seld"]))
        items.append("(%s, %s)" % (call, obs))
    return "sess_ok None [%s]" % "; ".join(items)


def calib_coq(case, res):
    """one verdict per calibrated cold fit: the stored switching point is the model's"""
    out = []
    for c, r in zip(case["calls"], res["calls"]):
        if r.get("calibrated") and r.get("ff"):
            out.append("calib_case_ok %s %s %s" % (C.blist(c["clock"]), C.Zl(r["ff"][0]), C.Zl(r["ff"][1])))
    return out


# ----------------------------------------------------------------------------- oracle
def fps_run_problem(X, sel, table, label):
    """the ordered run `sel` on integer rows X must be a plain-FPS run, `table` its true table
    (exact: int64 arithmetic on the integer lattice, running minimum)"""
    A = np.array(X, dtype=np.int64)
    n = len(A)
    sel = [int(i) for i in sel]
    if len(set(sel)) != len(sel):
        return "%s: repeated selection %s" % (label, sel[:40])
    if any(not 0 <= i < n for i in sel):
        return "%s: selection out of range %s" % (label, sel[:40])
    mind = ((A - A[sel[0]]) ** 2).sum(axis=1)
    for t in range(1, len(sel)):
        j = sel[t]
        best = int(mind.max())
        if int(mind[j]) != best:
            return "%s: step %d picked %d at squared distance %s but a farthest candidate is at %s" % (
                label, t, j, int(mind[j]), best)
        mind = np.minimum(mind, ((A - A[j]) ** 2).sum(axis=1))
    true_tab = [int(x) for x in mind]
    if list(table) != true_tab:
        bad = [j for j in range(n) if table[j] != true_tab[j]]
        return "%s: distance table differs from the true minimum distances at candidates %s" % (label, bad[:6])
    return None


def float_run_problem(X, sel, table, label, rel=1e-9):
    """tie-aware statement of the property on real-valued data: every choice is a farthest
    candidate up to rounding (rel * largest squared norm: the error scale of the expanded
    formula norms + norms - 2 X X^T), and `table` is the true table up to the same tolerance"""
    X = np.asarray(X, float)
    n = len(X)
    sel = [int(i) for i in sel]
    if len(set(sel)) != len(sel):
        return "%s: repeated selection %s" % (label, sel)
    if any(not 0 <= i < n for i in sel):
        return "%s: selection out of range %s" % (label, sel)
    tol = rel * max(float((X ** 2).sum(axis=1).max()), 1e-300)
    d = ((X - X[sel[0]]) ** 2).sum(axis=1)
    chosen = np.zeros(n, bool)
    chosen[sel[0]] = True
    for t, j in enumerate(sel[1:], start=1):
        best = d[~chosen].max()
        if d[j] < best - tol:
            return "%s: step %d picked %d at squared distance %.17g but a candidate at %.17g was available" % (
                label, t, j, d[j], best)
        chosen[j] = True
        d = np.minimum(d, ((X - X[j]) ** 2).sum(axis=1))
    if table is not None:
        err = np.abs(np.asarray(table, float) - d)
        if not np.all(err <= tol):
            bad = [int(j) for j in np.where(~(err <= tol))[0]]
            return "%s: distance table differs from the true minimum distances at candidates %s (by up to %.3g, tol %.3g)" % (
                label, bad[:6], float(np.nanmax(err)), tol)
    return None


def session_oracle(case, res):
    for ci, (c, r) in enumerate(zip(case["calls"], res["calls"])):
        label = "call %d (%s fit%s%s)" % (ci, c["kind"], ", earlier fits on the same object" if ci else "",
                                          ", right after a cold fit that was rejected for its switching-point parameters"
                                          if c.get("after_rejected") else "")
        if r.get("calibrated") and r.get("ff"):
            ff = Fraction(r["ff"][0], r["ff"][1])
            if not (0 < ff <= 1):
                return "%s: the timing calibration stored full_fraction=%s, which the next fit rejects" % (label, ff)
        if c["expect"] == "ok":
            if "error" in r:
                return "%s raised %s: %s" % (label, r["error"], r.get("error_msg"))
            X = case["data"][c["data"]]["X"]
            want = S.resolve_niter(len(X), _nts_py(c["nts"]))
            if r["k"] != want or len(r["sel"]) != want:
                return "%s: %d selections returned, %d requested" % (label, len(r["sel"]), want)
            if isinstance(c.get("init"), int) and c["kind"] == "cold" and (
                    r.get("sel_raw0", r["sel"][0]) != c["init"] or r["sel"][0] != c["init"] % len(X)):
                return "%s: starts at %d (stored %s), initialize=%d" % (label, r["sel"][0], r.get("sel_raw0"), c["init"])
            if "inexact" in r:
                msg = float_run_problem(np.array(X, float), r["sel"], r["dist_f"], label)
                if msg:
                    return msg
                continue
            msg = fps_run_problem(X, r["sel"], r["dist"], label)
            if msg:
                return msg
            ref = r["ref"]
            if r["sel"] != ref["sel"] or r["dist"] != ref["haus"] or r["seld"] != ref["seld"]:
                return "%s: selection / tables differ from plain FPS on exact data: %s vs %s" % (
                    label, r["sel"], ref["sel"])
        else:
            if "error" not in r:
                return "%s: expected %s, but fit returned" % (label, c["expect"])
            if c.get("rejected_ff") and r["error"] != c["expect"]:
                return "%s: expected %s for full_fraction=%r, n_trial_calculation=%r, got %s: %s" % (
                    label, c["expect"], c["badff"], c["ntrial"], r["error"], r.get("error_msg"))
    return None


# ----------------------------------------------------------------------------- rejected parameters
def gen_guard(rng):
    n = rng.randint(3, 8)
    X = S.gen_matrix(rng, n, rng.randint(2, 3), "uniform")
    ok = lambda: rng.random() < 0.8          # noqa: E731  (each parameter is valid with p = 0.8)
    nts = rng.choice([1, 2, n, "none", 0.5, 1.0]) if ok() else rng.choice([0.1, 0, n + 1, -1, 1.5, 0.0])
    ff = rng.choice([None, None, 0.5, 1.0, 0.0078125, 1]) if ok() else rng.choice([0.0, -0.5, 1.5, 2, "0.5", [0.5]])
    nt = rng.choice([4, 1, 2]) if ok() else rng.choice([0, -2, 2.5, "4"])
    init = rng.choice([0, n - 1, rng.randrange(n), "random"]) if ok() else rng.choice([n, n + 3, "first", 0.5, None])
    return dict(X=X, nts=nts, ff=ff, nt=nt, init=init, positional=rng.random() < 0.5)


def run_guard(case):
    from skmatter.sample_selection import VoronoiFPS
    X = np.array(case["X"], dtype=float)
    try:
        sel = make_voronoi(case["nt"], case["ff"], case["init"], bool(case.get("positional")),
                           n_to_select=_nts_py(case["nts"]))
        fit_with_clock(sel, X, False, [True, False, True, False, False, True, False],
                       case["nt"] if isinstance(case["nt"], int) else 1)
    except Exception as e:  # noqa
        return dict(error=S.err_class(e), error_msg=str(e)[:120])
    return dict(error=None, k=int(sel.n_selected_))


def guard_coq(case, res):
    n = len(case["X"])
    ff, nt, ini = case["ff"], case["nt"], case["init"]
    if ff is None:
        ffc = "FFNone"
    elif isinstance(ff, (int, float)):
        fr = Fraction(ff)
        ffc = "(FFReal %s %s)" % (C.Zl(fr.numerator), C.Zl(fr.denominator))
    else:
        ffc = "FFOther"
    ntc = "(NTInt %s)" % C.Zl(nt) if isinstance(nt, int) else "NTOther"
    if isinstance(ini, int):
        inc = "(InInt %d%%nat)" % ini
    elif ini == "random":
        inc = "InRandom"
    else:
        inc = "InOther"
    obs = {None: "None", "TypeError": "(Some ETypeError)", "ValueError": "(Some EValueError)",
           "IndexError": "(Some EIndexError)"}.get(res["error"], "(Some ETypeError)" if False else None)
    if obs is None:
        return "false"
    return "verr_eqb (vor_validate %d%%nat %s %s %s %s) %s" % (n, _nts_coq(n, case["nts"]), ffc, ntc, inc, obs)


def guard_oracle(case, res):
    """independent statement: parameters inside the quantifier must be accepted (and give the
    requested number of selections); anything else must raise"""
    n = len(case["X"])
    nts, ff, nt, ini = case["nts"], case["ff"], case["nt"], case["init"]
    k = None
    if nts == "none":
        k = n // 2
    elif isinstance(nts, int):
        k = nts if 0 < nts <= n else None
    elif isinstance(nts, float):
        k = int(n * nts) if 0 < nts <= 1 else None
    inside = (k is not None and k >= 1
              and ((ff is None and isinstance(nt, int) and nt >= 1)
                   or (isinstance(ff, (int, float)) and 0 < ff <= 1))
              and (ini == "random" or (isinstance(ini, int) and 0 <= ini < n)))
    if inside and res["error"]:
        return "valid parameters rejected with %s: %s" % (res["error"], res.get("error_msg"))
    if inside and res["k"] != k:
        return "%d selections returned, %d requested" % (res["k"], k)
    if not inside and not res["error"]:
        return "parameters outside the documented range were accepted (n_to_select=%r, full_fraction=%r, n_trial_calculation=%r, initialize=%r)" % (nts, ff, nt, ini)
    return None


# ----------------------------------------------------------------------------- real-valued data
def gen_float_case(rng, quick):
    nmax = 60 if quick else 300
    n = rng.randint(5, nmax)
    d = rng.randint(2, 6)
    fam = rng.choice(["gauss_clusters", "gauss_clusters", "uniform", "offset", "float_duplicates", "line"])
    nrng = np.random.RandomState(rng.randrange(2 ** 31))

    def data(nn):
        if fam == "gauss_clusters":
            k = nrng.randint(2, 9)
            cen = nrng.uniform(-10, 10, size=(k, d))
            return cen[nrng.randint(k, size=nn)] + 0.3 * nrng.normal(size=(nn, d))
        if fam == "uniform":
            return nrng.uniform(-1, 1, size=(nn, d))
        if fam == "offset":
            return 1000.0 + nrng.normal(size=(nn, d))
        if fam == "float_duplicates":
            base = nrng.normal(size=(max(2, nn // 3), d))
            return base[nrng.randint(len(base), size=nn)]
        t = nrng.uniform(-3, 3, size=(nn, 1))
        return t * nrng.normal(size=(1, d)) + 1e-3 * nrng.normal(size=(nn, d))

    scale = float(rng.choice([1.0, 1.0, 1e-4, 1e3, 3.0]))
    X = (data(n) * scale).tolist()
    pre = None
    if rng.random() < 0.5:
        pre = dict(X=(data(n) * float(rng.choice([1.0, 3.0, 0.1])) + float(rng.choice([0.0, 5.0]))).tolist(),
                   k=rng.randint(1, n))
    k = rng.randint(2, n)
    ff = rng.choice([None, 1.0, 0.5, 0.25, 1 / 128])
    warm_from = rng.choice([None, None, rng.randint(1, k)])
    return dict(X=X, family=fam, prefit=pre, k=k, ff=ff, init=rng.choice([0, rng.randrange(n), "random"]),
                warm_from=warm_from, clock=[rng.random() < 0.5 for _ in range(7)], positional=rng.random() < 0.5)


def run_float(case):
    from skmatter.sample_selection import VoronoiFPS, FPS
    X = np.array(case["X"], dtype=float)
    try:
        sel = make_voronoi(4, case["ff"], case["init"], bool(case.get("positional")))
        if case["prefit"] is not None:
            sel.n_to_select = case["prefit"]["k"]
            fit_with_clock(sel, np.array(case["prefit"]["X"], dtype=float), False, case["clock"], 4)
        if case["warm_from"] is not None:
            sel.n_to_select = case["warm_from"]
            fit_with_clock(sel, X, False, case["clock"], 4)
            sel.n_to_select = case["k"]
            fit_with_clock(sel, X, True, case["clock"], 4)
        else:
            sel.n_to_select = case["k"]
            fit_with_clock(sel, X, False, case["clock"], 4)
    except Exception as e:  # noqa
        return dict(error=S.err_class(e), error_msg=str(e)[:160])
    vs = [int(i) for i in sel.selected_idx_]
    ref = FPS(initialize=vs[0], n_to_select=case["k"]).fit(X)
    return dict(error=None, sel=vs, dist=[float(x) for x in sel.get_distance()],
                ref_sel=[int(i) for i in ref.selected_idx_])


def float_oracle(case, res):
    if res["error"]:
        return "fit raised %s: %s" % (res["error"], res.get("error_msg"))
    if len(res["sel"]) != case["k"]:
        return "%d selections returned, %d requested" % (len(res["sel"]), case["k"])
    label = "real-valued data (%s%s%s)" % (case["family"], ", object fitted before on other data" if case["prefit"] else "",
                                         ", warm-started" if case["warm_from"] else "")
    return float_run_problem(np.array(case["X"], dtype=float), res["sel"], res["dist"], label)


# ----------------------------------------------------------------------------- score thresholds
def _below(kind, num, den, first, m):
    """the stopping test of _get_best_new_selection on the integer lattice"""
    return m * den < num if kind == "absolute" else m * den < num * first


def gen_thr_case(rng, quick):
    nmax = 24 if quick else 48
    n = rng.randint(5, nmax)
    d = rng.randint(2, 4)
    fam = rng.choice(FAMS)
    X = S.gen_matrix(rng, n, d, fam)
    sp = rng.choice([0, 0, -8, -14, -20, -20, 12, 3])
    kind = rng.choice(["relative", "absolute"])
    if kind == "relative":
        num, den = rng.choice([(1, 2), (1, 4), (3, 4), (1, 16), (1, 64), (1, 1024), (1, 2 ** 20), (1, 2 ** 40)])
    else:
        dmax = max(1, max(sum((a - b) ** 2 for a, b in zip(X[0], r)) for r in X))
        num, den = rng.choice([(1, 1), (2, 1), (5, 1), (3, 2), (max(1, dmax // 8), 1), (max(1, dmax // 2), 1),
                               (2 * dmax, 1), (1, 4)])
    ff = rng.choice([[1, 1], [1, 1], [1, 2], [1, 4], [1, 128]])
    return dict(X=X, family=fam, sp=sp, thr_type=kind, num=num, den=den, ff=ff,
                init=rng.choice([rng.randrange(n), rng.randrange(n), rng.randrange(n), -rng.randint(1, n)]),
                k=rng.randint(2, n), positional=rng.random() < 0.5)


def _watch_order(sel):
    """harness-side wrapper: the order in which _update_post_selection is called"""
    order = []
    orig = sel._update_post_selection

    def wrapped(X, y, last_selected):
        order.append(int(last_selected))
        return orig(X, y, last_selected)

    sel._update_post_selection = wrapped
    return order


def run_thr(case):
    import warnings
    from skmatter.sample_selection import VoronoiFPS, FPS
    sp = case["sp"]
    X = np.array(case["X"], dtype=float) * (2.0 ** sp)
    u2, u1 = 2.0 ** (-2 * sp), 2.0 ** (-sp)
    thr = case["num"] / case["den"] * (2.0 ** (2 * sp) if case["thr_type"] == "absolute" else 1.0)
    kw = dict(n_to_select=case["k"], initialize=case["init"], score_threshold=thr, score_threshold_type=case["thr_type"])
    rec = {}
    try:
        vkw = dict(kw)
        del vkw["initialize"]
        sel = make_voronoi(4, case["ff"][0] / case["ff"][1], case["init"], bool(case.get("positional")), **vkw)
        order = _watch_order(sel)
        with warnings.catch_warnings(record=True) as w:
            warnings.simplefilter("always")
            sel.fit(X)
        rec["stopped"] = any("Score threshold" in str(x.message) for x in w)
        ref = FPS(**kw)
        with warnings.catch_warnings(record=True) as w2:
            warnings.simplefilter("always")
            ref.fit(X)
        rec["ref_stopped"] = any("Score threshold" in str(x.message) for x in w2)
    except Exception as e:  # noqa
        return dict(error=S.err_class(e), error_msg=str(e)[:160])
    k = int(sel.n_selected_)
    rec.update(error=None, k=k, order=[i % len(X) for i in order], ref_k=int(ref.n_selected_))
    try:
        rec.update(
            xsel=C.as_int_matrix(np.asarray(sel.X_selected_, float)[:k] * u1, "X_selected_"),
            norms=_ints(sel.norms_, u2, "norms_"), haus=_ints(sel.hausdorff_, u2, "hausdorff_"),
            hsel=_ints(sel.hausdorff_at_select_, u2, "hausdorff_at_select_"),
            vloc=[int(v) for v in sel.vlocation_of_idx],
            dsl=_ints(np.asarray(sel.dSL_, float) * 4.0, u2, "dSL_"), new=_ints(sel.new_dist_, u2, "new_dist_"),
            dist=_ints(sel.get_distance(), u2, "get_distance"),
            seld=[] if rec["stopped"] else _ints(sel.get_select_distance(), u2, "get_select_distance"),
            ref_xsel=C.as_int_matrix(np.asarray(ref.X_selected_, float)[:rec["ref_k"]] * u1, "FPS.X_selected_"),
            ref_dist=_ints(ref.get_distance(), u2, "FPS.get_distance"))
    except C.InexactOutput as e:
        rec["inexact"] = str(e)
        rec["dist_f"] = [float(x) * u2 for x in np.asarray(sel.get_distance(), float)]
    return rec


def thr_coq(case, res):
    if res.get("error") or "inexact" in res:
        return "false"
    X = case["X"]
    t = "(%s %s %s)" % ("AbsThr" if case["thr_type"] == "absolute" else "RelThr", C.Zl(case["num"]), C.Zl(case["den"]))
    br = "(br_fraction %d%%nat %s %s)" % (len(X), C.Zl(case["ff"][0]), C.Zl(case["ff"][1]))
    return "thr_case_ok %s %s %d%%nat %s %d%%nat %s (mk_otrace %s %s %s %s %s %s %s %s %s)" % (
        C.zmat(X), br, case["init"] % len(X), t, case["k"], "true" if res["stopped"] else "false",
        C.natlist(res["order"]), C.zmat(res["xsel"]), C.zlist(res["norms"]), _extl(res["haus"]), _extl(res["hsel"]),
        C.natlist(res["vloc"]), C.zlist(res["dsl"]), _extl(res["new"]), _extl(res["seld"]))


def thr_oracle(case, res):
    """VoronoiFPS with a score threshold: up to the stop a plain-FPS run with the true table, stopping
    exactly where the threshold says, and equal to plain FPS given the SAME threshold"""
    label = "score_threshold=%s/%s (%s%s), full_fraction=%s/%s" % (
        case["num"], case["den"], case["thr_type"], ", data scaled by 2^%d" % case["sp"] if case["sp"] else "",
        case["ff"][0], case["ff"][1])
    if res.get("error"):
        return "%s: fit raised %s: %s" % (label, res["error"], res.get("error_msg"))
    X, order, k = case["X"], res["order"], case["k"]
    n = len(X)
    if res["k"] != len(order):
        return "%s: n_selected_ = %d after %d selections" % (label, res["k"], len(order))
    if "inexact" in res:
        return float_run_problem(np.array(X, float), order, res["dist_f"], label)
    msg = fps_run_problem(X, order, res["dist"], label)
    if msg:
        return msg
    D = [[sum((a - b) ** 2 for a, b in zip(X[i], X[j])) for j in range(n)] for i in range(n)]
    first = None
    for t in range(1, min(len(order) + 1, k)):
        mind = [min(D[j][i] for i in order[:t]) for j in range(n)]
        m = max(mind[j] for j in range(n) if j not in order[:t])
        if first is None:
            first = m
        low = _below(case["thr_type"], case["num"], case["den"], first, m)
        if t < len(order) and low:
            return "%s: selection %d made at score %s although the threshold had been reached" % (label, t, m)
        if t == len(order) and not low:
            return "%s: stopped after %d of %d selections although the best score %s is not below the threshold" % (
                label, len(order), k, m)
    if res["stopped"] != (len(order) < k):
        return "%s: stop warning %s with %d of %d selections" % (label, res["stopped"], len(order), k)
    if (res["k"], res["xsel"], res["dist"], res["stopped"]) != (res["ref_k"], res["ref_xsel"], res["ref_dist"], res["ref_stopped"]):
        return "%s: differs from plain FPS with the same threshold: %d selections (stopped=%s) vs %d (stopped=%s)%s" % (
            label, res["k"], res["stopped"], res["ref_k"], res["ref_stopped"],
            "" if res["dist"] == res["ref_dist"] else ", distance tables differ")
    return None
