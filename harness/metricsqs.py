"""Helpers shared by the C15 (pairwise metrics) and C16 (QuickShift) checks."""
from harness import common as C


def run_shards_retry(prop, shards, timeout=900):
    """C.run_shards, but a shard that fails because a concurrent build replaced a shared .vo
    ("makes inconsistent assumptions") is re-run once after rebuilding this property's files."""
    outs = C.run_shards(prop, shards, timeout=timeout)
    bad = [k for k, (rc, out) in enumerate(outs)
           if rc != 0 and ("inconsistent assumptions" in out or "Cannot find a physical path" in out
                           or "bad version number" in out or "Bad magic number" in out)]
    if bad:
        C.coq_make(["Properties/%s.vo" % prop])
        redo = C.run_shards(prop, [shards[k] for k in bad], timeout=timeout)
        for k, r in zip(bad, redo):
            outs[k] = r
    return outs
