"""C09 layer E translator: Python `ast` of /repo/src/skmatter -> effect IR (coq/Model/Effects.v).

Regenerates, on every run, one IR statement list per public entry point.  Fail-closed:
a construct or callee the translator does not recognise becomes `MayAlias` (result may be
any argument) + `Write` (every argument may be overwritten), so it can only produce
false alarms, never hide a write -- within the stated trusted assumptions:

  T1  the summary tables below (numpy / scipy / sklearn / builtins callees, ndarray / list /
      dict / estimator-protocol methods, STUBS for inherited sklearn methods);
  T2  subscript assignment `v[i] = e` into, and `.copy()` / `a + b` of, an object whose allocation
      the translator did not see have ndarray semantics (data copied, no reference kept) --
      tracked list/dict literals, comprehensions, *args/**kwargs and library objects keep references;
  T3  `copy=` flags of entry points are analysed at their default value (X_orthogonalizer
      at copy=True, as the property states), callable / estimator collaborators given as
      arguments (`metric`, `scaler`, `estimator`) at their default None: user code is outside
      the property;  `random_state` objects are consumed by design and are not caller data;
  T4  isinstance(e, <immutable scalar type>) narrows `e` to a scalar in the guarded branch.

The dynamic part of harness/props/c09.py cross-validates T1-T4 on every run (a write observed
dynamically on an entry point the IR declares safe is a correspondence failure).

Second output (round 3, sub-claim (b) "a cold refit leaves the state of a fresh estimator"): the same
abstract interpretation also records, per method of a class, a STRUCTURED attribute-state program
(coq/Model/Refit.v: sequence / branch / loop / inlined call / return / raise / break / continue / try,
reads, assignments, del and guarded del of instance attributes of `self` and of the objects it creates),
see `refit_program`, the `s_*` helpers of Interp and `refit_coq`.  Trusted in addition:

  T5  control flow is kept, data is abstracted (every value / decision is a function of what the call
      has seen); an in-place update through a reference loaded from an attribute (`R.sa`) is a read + an
      assignment of that attribute; `_validate_data(reset=...)`, `check_is_fitted`, `cached_property`
      are summarised; random_state objects are excluded (T3).
"""
import ast
import os

# --------------------------------------------------------------------------- values
class K:                      # known Python constant
    def __init__(self, val):
        self.val = val

    def __repr__(self):
        return "K(%r)" % (self.val,)


class R:                      # reference held in IR variable `var`
    def __init__(self, var, obj=None, cls=None, kind=None, sa=frozenset()):
        self.var, self.obj, self.cls, self.kind = var, obj, cls, kind
        self.sa = sa          # attribute keys ("self.X_selected_") whose object this reference may be (a view of)

    def __repr__(self):
        return "R(%s%s)" % (self.var, "," + self.obj if self.obj else "")


class T:                      # tuple with statically known structure
    def __init__(self, items):
        self.items = list(items)

    def __repr__(self):
        return "T(%r)" % (self.items,)


class F:                      # callable(s): list of descriptors (union)
    def __init__(self, alts):
        self.alts = list(alts)

    def __repr__(self):
        return "F(%s)" % ",".join(a[0] + ":" + str(a[1] if isinstance(a[1], str) else getattr(a[1], "name", "?")) for a in self.alts)


class L:                      # library symbol (module, function or class) by dotted name
    def __init__(self, dotted):
        self.dotted = dotted

    def __repr__(self):
        return "L(%s)" % self.dotted


class Sup:                    # super() proxy
    def __init__(self, after, selfv):
        self.after, self.selfv = after, selfv


class KW:                     # **kwargs parameter: known entries + optional rest container
    def __init__(self, known, rest):
        self.known, self.rest = dict(known), rest


class Iter:                   # iterable with statically known element value (enumerate, zip, range)
    def __init__(self, elem):
        self.elem = elem


class ClassInfo:
    def __init__(self, name, mod, node):
        self.name, self.mod, self.node = name, mod, node
        self.bases = []       # ('int', ClassInfo) | ('lib', dotted)
        self.methods, self.props, self.cprops = {}, {}, {}
        for b in node.body:
            if isinstance(b, ast.FunctionDef):
                decos = {d.id if isinstance(d, ast.Name) else d.attr if isinstance(d, ast.Attribute) else "?"
                         for d in b.decorator_list}
                if "cached_property" in decos:
                    self.cprops[b.name] = b       # value cached in the instance dictionary under its own name
                elif any(isinstance(d, ast.Name) and d.id == "property" for d in b.decorator_list):
                    self.props[b.name] = b
                else:
                    self.methods[b.name] = b

    def __repr__(self):
        return "<class %s>" % self.name


# stubs for methods inherited from sklearn base classes (trusted summary T1, source form)
STUBS = '''
import numpy as np
from sklearn.utils import check_array

class TransformerMixin:
    def fit_transform(self, X, y=None, **fit_params):
        if y is None:
            return self.fit(X, **fit_params).transform(X)
        else:
            return self.fit(X, y, **fit_params).transform(X)

class SelectorMixin(TransformerMixin):
    def inverse_transform(self, X):
        X = check_array(X)
        support = self.get_support()
        Xt = np.zeros((X.shape[0], len(support)))
        Xt[:, support] = X
        return Xt

class _BasePCA(TransformerMixin):
    def transform(self, X):
        X = check_array(X)
        return (X - self.mean_) @ self.components_.T

class RegressorMixin:
    def score(self, X, y, sample_weight=None):
        y_pred = self.predict(X)
        return np.mean(y - y_pred) * sample_weight

class KernelCenterer(TransformerMixin):
    def __init__(self):
        pass

    def fit(self, K, y=None):
        K = check_array(K)
        self.K_fit_rows_ = np.sum(K, axis=0) / K.shape[0]
        self.K_fit_all_ = np.sum(self.K_fit_rows_) / K.shape[0]
        return self

    def transform(self, K, copy=True):
        K = check_array(K, copy=copy)
        K_pred_cols = (np.sum(K, axis=1) / self.K_fit_rows_.shape[0])[:, None]
        K -= self.K_fit_rows_
        K -= K_pred_cols
        K += self.K_fit_all_
        return K

class BaseEstimator:
    pass

class MetaEstimatorMixin:
    pass

class MultiOutputMixin:
    pass

class LinearModel:
    pass
'''


class Index:
    """Parsed source of the skmatter package under <repo>/src/skmatter (+ stubs)."""

    def __init__(self, repo):
        self.repo = repo
        self.root = os.path.join(repo, "src", "skmatter")
        self.mods = {}        # dotted -> dict(tree, path, g: name -> binding, is_pkg)
        for dirpath, _, files in os.walk(self.root):
            for f in sorted(files):
                if not f.endswith(".py"):
                    continue
                path = os.path.join(dirpath, f)
                rel = os.path.relpath(path, os.path.join(repo, "src"))[:-3].replace(os.sep, ".")
                is_pkg = rel.endswith(".__init__")
                if is_pkg:
                    rel = rel[: -len(".__init__")]
                self._load(rel, path, open(path).read(), is_pkg)
        self._load("__stubs__", "<stubs>", STUBS, False)
        for m in self.mods.values():
            for b in list(m["g"].values()):
                if b[0] == "class":
                    self._link_bases(b[1])

    def _load(self, dotted, path, src, is_pkg):
        tree = ast.parse(src)
        g = {}
        m = dict(tree=tree, path=path, g=g, is_pkg=is_pkg, name=dotted, src=src.split("\n"))
        self.mods[dotted] = m
        pkg = dotted if is_pkg else dotted.rpartition(".")[0]
        for node in tree.body:
            self._bind_stmt(node, g, pkg, dotted)
        return m

    def _bind_stmt(self, node, g, pkg, dotted):
        if isinstance(node, ast.Import):
            for a in node.names:
                if a.asname:
                    g[a.asname] = ("import_mod", a.name)
                else:
                    g[a.name.split(".")[0]] = ("import_mod", a.name.split(".")[0])
        elif isinstance(node, ast.ImportFrom):
            base = node.module or ""
            if node.level:
                parts = pkg.split(".")
                parts = parts[: len(parts) - (node.level - 1)]
                base = ".".join(parts + ([node.module] if node.module else []))
            for a in node.names:
                g[a.asname or a.name] = ("import_from", base, a.name)
        elif isinstance(node, ast.FunctionDef):
            g[node.name] = ("func", node, dotted)
        elif isinstance(node, ast.ClassDef):
            g[node.name] = ("class", ClassInfo(node.name, dotted, node))
        elif isinstance(node, ast.Assign) and len(node.targets) == 1 and isinstance(node.targets[0], ast.Name):
            try:
                g[node.targets[0].id] = ("const", ast.literal_eval(node.value))
            except Exception:
                pass
        elif isinstance(node, (ast.If, ast.Try)):
            for b in node.body:
                self._bind_stmt(b, g, pkg, dotted)

    def _link_bases(self, ci):
        if ci.bases:
            return
        for b in ci.node.bases:
            v = self.resolve_expr_static(ci.mod, b)
            if isinstance(v, ClassInfo):
                ci.bases.append(("int", v))
            elif isinstance(v, L):
                ci.bases.append(("lib", v.dotted))

    def resolve_expr_static(self, mod, node):
        if isinstance(node, ast.Name):
            return self.resolve_global(mod, node.id)
        if isinstance(node, ast.Attribute):
            v = self.resolve_expr_static(mod, node.value)
            if isinstance(v, L):
                return L(v.dotted + "." + node.attr)
        return None

    def resolve_global(self, mod, name, depth=0):
        """-> ClassInfo | ('func', node, mod) | L | K | None"""
        m = self.mods.get(mod)
        if m is None or depth > 12:
            return None
        b = m["g"].get(name)
        if b is None:
            return None
        if b[0] == "import_mod":
            return L(b[1])
        if b[0] == "import_from":
            src, nm = b[1], b[2]
            if src.startswith("skmatter") or src in self.mods:
                if src + "." + nm in self.mods:
                    return L(src + "." + nm)          # internal sub-module object
                r = self.resolve_global(src, nm, depth + 1)
                if r is not None:
                    return r
                return L(src + "." + nm)
            return L(src + "." + nm)
        if b[0] == "func":
            return ("func", b[1], b[2])
        if b[0] == "class":
            return b[1]
        if b[0] == "const":
            return K(b[1])
        return None

    def mro(self, ci):
        out, seen = [], set()

        def walk(c):
            if id(c) in seen:
                return
            seen.add(id(c))
            out.append(("int", c))
            for kind, b in c.bases:
                if kind == "int":
                    walk(b)
                else:
                    short = b.split(".")[-1]
                    st = self.mods["__stubs__"]["g"].get(short)
                    if st is not None and st[0] == "class":
                        walk(st[1])
                    else:
                        out.append(("lib", b))
        walk(ci)
        return out

    def find_method(self, ci, name, after=None):
        started = after is None
        for kind, c in self.mro(ci):
            if kind != "int":
                continue
            if not started:
                if c is after:
                    started = True
                continue
            if name in c.methods:
                return c.methods[name], c
        return None

    def find_prop(self, ci, name):
        for kind, c in self.mro(ci):
            if kind == "int" and name in c.props:
                return c.props[name], c
        return None

    def find_cprop(self, ci, name):
        for kind, c in self.mro(ci):
            if kind == "int" and name in c.cprops:
                return c.cprops[name], c
        return None

    def ctor_params(self, ci):
        names = []
        for kind, c in self.mro(ci):
            if kind == "int" and "__init__" in c.methods and c.mod != "__stubs__":
                a = c.methods["__init__"].args
                for p in a.posonlyargs + a.args + a.kwonlyargs:
                    if p.arg != "self" and p.arg not in names:
                        names.append(p.arg)
        return names

    def public_api(self):
        """[(package, name, ClassInfo | ('func', node, mod))] from the sub-packages' __init__."""
        out = []
        for pkg in ("clustering", "decomposition", "feature_selection", "linear_model", "metrics",
                    "model_selection", "neighbors", "preprocessing", "sample_selection", "utils"):
            mod = "skmatter." + pkg
            m = self.mods.get(mod)
            if m is None:
                continue
            names = m["g"].get("__all__")
            names = list(names[1]) if names and names[0] == "const" else [
                n for n, b in m["g"].items() if b[0] == "import_from" and not n.startswith("_")]
            for n in names:
                v = self.resolve_global(mod, n)
                if isinstance(v, ClassInfo) or (isinstance(v, tuple) and v[0] == "func"):
                    out.append((pkg, n, v))
        return out


# --------------------------------------------------------------------------- summaries (T1)
def _names(s):
    return set(s.split())


NP_FRESH = _names("""
 zeros ones full empty eye identity arange linspace geomspace logspace zeros_like ones_like full_like
 empty_like copy sum mean average std var min max amin amax argmin argmax argsort sort abs absolute sqrt
 exp log log2 log10 sin cos tan arctan2 arctan arcsin arccos round rint floor ceil sign power square dot
 matmul vdot inner outer kron trace cumsum cumprod prod any all isnan isinf isfinite nonzero argwhere
 flatnonzero unique setdiff1d intersect1d union1d concatenate vstack hstack stack column_stack dstack
 pad take searchsorted diagflat isclose allclose array_equal count_nonzero spacing finfo iinfo tile repeat
 triu tril median percentile quantile maximum minimum add subtract multiply divide true_divide
 floor_divide mod logical_and logical_or logical_not greater less equal not_equal greater_equal
 less_equal nan_to_num cov corrcoef histogram bincount digitize einsum tensordot cross clip conj
 conjugate angle delete insert append roll rot90 meshgrid indices fromiter linalg.norm norm eigh eig
 eigvals eigvalsh svd pinv inv lstsq solve matrix_rank slogdet det multi_dot cholesky qr float64 float32
 int64 int32 bool_ shape ndim size isscalar result_type can_cast promote_types dtype
""")
NP_UFUNC1 = _names("abs absolute sqrt exp log log2 log10 sin cos tan arctan arcsin arccos rint floor ceil "
                   "sign square logical_not isnan isinf isfinite conj conjugate negative reciprocal")
NP_UFUNC2 = _names("maximum minimum add subtract multiply divide true_divide floor_divide mod power arctan2 "
                   "logical_and logical_or greater less equal not_equal greater_equal less_equal")
NP_VIEW0 = _names("reshape ravel transpose squeeze real imag atleast_1d atleast_2d atleast_3d flip fliplr "
                  "flipud diagonal swapaxes moveaxis expand_dims broadcast_to")
NP_MAY0 = _names("asarray asanyarray ascontiguousarray asfortranarray diag require asfarray")
NP_WRITE0 = _names("fill_diagonal copyto put place putmask")

# sklearn / scipy / misc callees, keyed by last path component
LIB_FRESH = _names("""
 eigh eigsh svds sqrtm orthogonal_procrustes logsumexp randomized_svd stable_cumsum _infer_dimension
 _euclidean_distances euclidean_distances clone deepcopy _num_samples check_is_fitted warn time
 r2_score mean_squared_error cdist pdist squareform expit
""")
LIB_MAY0 = _names("check_array as_float_array column_or_1d _check_sample_weight check_random_state check_cv "
                  "_ndim_coords_from_arrays pairwise_kernels check_consistent_length check_scalar")
# library classes: constructing one allocates an object that may retain its arguments
LIB_CLASS = _names("""
 Ridge RidgeCV LinearRegression KernelRidge KFold ConvexHull interp1d LinearNDInterpolator
 KernelCenterer StandardScaler PCA ValueError TypeError RuntimeError NotImplementedError ImportError
 NotFittedError LinAlgError IndexError KeyError AttributeError Exception UserWarning RandomState
""")
BUILTIN_SCALAR = _names("len int float bool str repr abs min max sum all any isinstance issubclass hasattr "
                        "callable print type id hash round divmod pow ord chr format")

# methods on a receiver whose class the translator does not know
M_VIEW = _names("reshape ravel transpose squeeze view swapaxes diagonal")
M_FRESH = _names("""
 copy sum mean std var min max argmin argmax argsort astype dot flatten tolist cumsum prod any all
 nonzero round trace clip conj item repeat take searchsorted tobytes lower upper format join split strip
 startswith endswith index count get_n_splits get_params __len__ isoformat
""")
M_CONT_READ = _names("get keys values items")
M_WRITE = _names("sort fill resize put itemset partition setflags byteswap")
M_CONT_ADD = _names("append extend insert add update setdefault")
M_CONT_DEL = _names("remove clear pop popitem discard")
M_EST_FIT = _names("fit partial_fit set_params fit_transform fit_predict _check_n_features _check_feature_names")
M_EST_READ = _names("predict transform inverse_transform score score_samples decision_function predict_proba "
                    "_validate_data __call__")
M_RNG = _names("randint uniform rand randn normal choice permutation multivariate_normal random random_sample "
               "shuffle integers standard_normal")

IMMUTABLE_TYPES = _names("numbers.Integral numbers.Real numbers.Number numbers.Complex numbers.Rational "
                         "int float str bool complex bytes")
# parameters analysed at their default value (T3)
DEFAULT_PARAMS = {"copy", "metric", "scaler", "estimator"}
NON_DATA_PARAMS = {"random_state"}
LIBOBJ_CALL_PURE = {"interp1d", "LinearNDInterpolator"}       # calling these objects evaluates, no mutation
FORCED = {"X_orthogonalizer": {"copy": True}}


# --------------------------------------------------------------------------- translation unit
class Unit:
    """IR of one class (all entry points share variables' numbering, attributes, facts)."""

    def __init__(self, ix, name, facts=None):
        self.ix, self.name = ix, name
        self.nvar = 0
        self.varnames = {}
        self.attrs = {}
        self.pnames = {}
        self.sites = []
        self.facts = facts if facts is not None else {}     # attr key -> set of descriptors
        self.newfacts = {}
        self.roots = []
        self.unknown = {}          # unknown callee -> first location
        self.bodies = []           # (entry name, [stmts])
        self.stale = []            # (entry, attr, location): learned attribute read before assigned
        self.fnreg = {}            # id -> F alternative (functions stored in attributes)
        self.merged = {}           # merged container identity -> source identities
        self.s_failclosed = []     # fail-closed fallbacks met while recording the structured IR
        self.s_methods = []        # (method name, block) of the structured IR

    def var(self, hint):
        self.nvar += 1
        self.varnames[self.nvar] = hint
        return self.nvar

    def attr(self, key):
        if key not in self.attrs:
            self.attrs[key] = len(self.attrs) + 1
        return self.attrs[key]

    def pname(self, key):
        if key not in self.pnames:
            self.pnames[key] = len(self.pnames) + 1
        return self.pnames[key]

    def fact(self, key, desc):
        self.newfacts.setdefault(key, set()).add(desc)

    def known(self, key):
        return self.facts.get(key, set()) | self.newfacts.get(key, set())


class Terminated(Exception):
    pass


class Frame:
    def __init__(self, mod, env, cls_def=None, selfv=None, fname="?", in_init=False):
        self.mod, self.env, self.cls_def, self.selfv = mod, env, cls_def, selfv
        self.fname = fname
        self.returns = []
        self.narrow = {}
        self.in_init = in_init
        self.must = None           # definitely-assigned attributes (only tracked in fit bodies)


class Interp:
    MAXDEPTH = 14

    def __init__(self, unit, entry, hyper=(), is_init=False):
        self.u, self.ix, self.entry = unit, unit.ix, entry
        self.out = []
        self.hyper = set(hyper)
        self.is_init = is_init
        self.depth = 0
        self.stack = []
        self.nodestack = []
        self.stored_attrs = set()
        self.cur_node = None
        self.cur_mod = None
        self.must = None           # set of definitely assigned 'self.<attr>' keys or None
        # structured attribute-state IR (coq/Model/Refit.v); None = not recorded in this pass
        self.sb = None             # stack of blocks (lists of nodes); the last one is being filled
        self.s_mute = 0
        self.try_depth = 0
        self.last_blk = []

    # ---- emission helpers
    def emit(self, *st):
        self.out.append(st)

    # ---- structured IR (sub-claim (b)): nodes are tuples
    #   ("Read", key, site) ("Assign", key, site) ("Del", key, site) ("Reset", key, site) ("ReadFitted", obj, site)
    #   ("If", site, blk, blk) ("While", site, blk) ("Call", blk) ("Try", site, blk, blk)
    #   ("Return",) ("Raise",) ("Break",) ("Continue",)
    def s_on(self):
        return self.sb is not None and not self.s_mute

    def s_emit(self, *node):
        if self.s_on():
            self.sb[-1].append(node)

    def s_site(self, node, reason):
        return self.site(node, reason) if self.s_on() else 0

    def k_site(self, node, reason, key):
        """site of a statement of the structured IR that concerns attribute `key`"""
        i = self.site(node, reason)
        self.u.sites[i]["key"] = key
        return i

    def s_push(self):
        if self.sb is not None:
            self.sb.append([])

    def s_pop(self):
        return self.sb.pop() if self.sb is not None else []

    def s_splice(self, blk):
        if self.s_on():
            self.sb[-1].extend(blk)

    def s_read(self, key, node, reason="attribute read"):
        if self.s_on():
            self.s_emit("Read", key, self.k_site(node, reason, key))

    def s_assign(self, key, node, reason="attribute assigned"):
        if self.s_on():
            self.s_emit("Assign", key, self.k_site(node, reason, key))

    @staticmethod
    def _sa(vals):
        out = frozenset()
        for v in vals:
            if isinstance(v, R):
                out |= v.sa
        return out

    def site(self, node, reason):
        node = node if node is not None and hasattr(node, "lineno") else self.cur_node
        mod = self.cur_mod
        m = self.ix.mods.get(mod, {})
        line = getattr(node, "lineno", 0)
        text = ""
        if m and 0 < line <= len(m["src"]):
            text = m["src"][line - 1].strip()
        self.u.sites.append(dict(entry=self.entry, file=m.get("path", "?").replace(self.ix.repo + "/", ""),
                                 line=line, text=text, reason=reason,
                                 via=[f for f in self.stack]))
        return len(self.u.sites) - 1

    def fresh(self, hint, kind=None, obj=None, cls=None):
        v = self.u.var(hint)
        self.emit("Fresh", v)
        return R(v, obj=obj, cls=cls, kind=kind)

    def refs(self, v):
        """all IR references reachable in a value (for fail-closed handling)"""
        if isinstance(v, R):
            return [v]
        if isinstance(v, T):
            return [r for it in v.items for r in self.refs(it)]
        if isinstance(v, KW):
            out = [r for it in v.known.values() for r in self.refs(it)]
            return out + (self.refs(v.rest) if v.rest is not None else [])
        if isinstance(v, Iter):
            return self.refs(v.elem)
        return []

    def derived(self, srcs, hint, may=True, kind=None):
        """new reference that may be (a view of) any of srcs, or a fresh copy"""
        rs = [r for s in srcs for r in self.refs(s)]
        v = self.u.var(hint)
        if not rs:
            self.emit("Fresh", v)
        for r in rs:
            self.emit("MayAlias" if may else "Alias", v, r.var)
            if r.obj:      # a view/alias of a tracked container shares its elements
                t = self.u.var(hint + ".el")
                self.emit("LoadAttr", t, self.u.attr(r.obj + ".*"))
                self.emit("MayAlias", v, t)
        return R(v, kind=kind, sa=self._sa(rs))

    def to_ref(self, v, hint="val"):
        if isinstance(v, R):
            return v
        if isinstance(v, T):
            c = self.fresh(hint + ".tuple", obj="t@%s:%s" % (self.cur_mod, self._pos()))
            for it in v.items:
                self.store_elem(c, it)
            return c
        if isinstance(v, KW):
            c = self.fresh(hint + ".kwargs", obj="k@%s:%s" % (self.cur_mod, self._pos()))
            for it in v.known.values():
                self.store_elem(c, it)
            if v.rest is not None:
                self.store_elem(c, self.elem_of(v.rest))
            return c
        if isinstance(v, Iter):
            c = self.fresh(hint + ".iter", obj="i@%s:%s" % (self.cur_mod, self._pos()))
            self.store_elem(c, v.elem)
            return c
        return self.fresh(hint, kind="scalar")

    def _pos(self):
        n = self.cur_node
        return "%s:%s" % (getattr(n, "lineno", 0), getattr(n, "col_offset", 0))

    def write(self, v, node, reason):
        for r in self.refs(v):
            if r.kind == "scalar":
                continue
            self.emit("Write", r.var, self.site(node, reason))
            if reason.startswith("random number generator"):
                continue                   # T3: random_state objects are consumed by design, not learned state
            for key in sorted(r.sa):       # the object held by an attribute is updated in place
                self.s_read(key, node, "in-place update reads " + key)
                self.s_assign(key, node, "in-place update of " + key)

    def fail_closed(self, vals, node, reason, hint="unk"):
        """unknown operation on vals: everything reachable may be overwritten, the result may be any of them"""
        rs = [r for v in vals for r in self.refs(v)]
        for r in rs:
            self.emit("Write", r.var, self.site(node, "fail-closed: " + reason))
            if r.obj:
                t = self.u.var("el")
                self.emit("LoadAttr", t, self.u.attr(r.obj + ".*"))
                self.emit("Write", t, self.site(node, "fail-closed (element): " + reason))
        loc = "%s:%s" % (self.cur_mod, getattr(node, "lineno", 0))
        self.u.unknown.setdefault(reason, loc)
        if self.s_on():
            self.u.s_failclosed.append("%s at %s" % (reason, loc))
        return self.derived(rs, hint)

    # ---- containers / attributes
    def store_elem(self, c, val):
        """container c retains a reference to val"""
        if isinstance(val, (K, L, Sup)) or val is None:
            return
        if isinstance(val, F):
            if c.obj:
                self.u.fact(c.obj + ".*", ("fn", self._freeze_f(val)))
            return
        rv = self.to_ref(val)
        if c.obj:
            todo, seen = [c.obj], set()
            while todo:
                o = todo.pop()
                if o in seen:
                    continue
                seen.add(o)
                self.emit("StoreAttr", self.u.attr(o + ".*"), rv.var)
                self._fact_of(o + ".*", rv)
                todo += self.u.merged.get(o, [])
        else:
            pass    # T2: untracked receiver, ndarray semantics (data copied)

    def elem_of(self, v, hint="elem"):
        """an element obtained by iterating / indexing v"""
        if isinstance(v, T):
            return self.merge(v.items, hint) if v.items else K(None)
        if isinstance(v, KW):
            return self.merge(list(v.known.values()) + ([self.elem_of(v.rest)] if v.rest is not None else []), hint)
        if isinstance(v, Iter):
            return v.elem
        if isinstance(v, R):
            if v.obj:
                key = v.obj + ".*"
                t = self.u.var(hint)
                self.emit("LoadAttr", t, self.u.attr(key))
                self.emit("MayAlias", t, v.var)
                res = self._typed_load(key, t)
                if isinstance(res, R):
                    res.sa = res.sa | v.sa
                return res
            if v.kind == "scalar":
                return v
            return self.derived([v], hint)
        return self.fresh(hint, kind="scalar")

    def _freeze_f(self, f):
        # functions stored in attributes are registered per unit and referred to by id
        out = []
        for a in f.alts:
            k = id(a[1]) if not isinstance(a[1], str) else a[1]
            self.u.fnreg[(a[0], k)] = a
            out.append((a[0], k))
        return tuple(out)

    def _fact_of(self, key, val):
        if isinstance(val, R):
            if val.obj and val.cls is not None:
                self.u.fact(key, ("obj", val.obj, val.cls.name))
                self.u.fnreg[("cls", val.cls.name)] = val.cls
            elif val.obj:
                self.u.fact(key, ("cont", val.obj, val.kind))
            elif val.kind == "scalar":
                self.u.fact(key, ("scalar",))
            else:
                self.u.fact(key, ("other",))
        elif isinstance(val, F):
            self.u.fact(key, ("fn", self._freeze_f(val)))
        elif isinstance(val, L):
            self.u.fact(key, ("fn", self._freeze_f(F([("lib", val.dotted)]))))
        elif isinstance(val, K):
            self.u.fact(key, ("scalar",))
        else:
            self.u.fact(key, ("other",))

    def _typed_load(self, key, t):
        """value of a load from attribute `key` into IR variable t, typed by what is stored there"""
        ds = self.u.known(key)
        nonsc = {d for d in ds if d[0] != "scalar"}
        if ds and not nonsc:
            return R(t, kind="scalar")
        if len(nonsc) == 1:
            d = next(iter(nonsc))
            if d[0] == "obj":
                return R(t, obj=d[1], cls=self.u.fnreg.get(("cls", d[2])))
            if d[0] == "cont":
                return R(t, obj=d[1], kind=d[2])
        if nonsc and all(d[0] == "fn" for d in nonsc):
            alts = []
            for d in nonsc:
                for k in d[1]:
                    a = self.u.fnreg.get(k)
                    if a is not None and a not in alts:
                        alts.append(a)
            if alts:
                return F(alts)
        return R(t)

    def load_attr(self, ov, name, node=None):
        key = ov.obj + "." + name
        t = self.u.var(name)
        self.emit("LoadAttr", t, self.u.attr(key))
        if self.must is not None and ov.obj == "self" and key not in self.must:
            self.u.stale.append((self.entry, name, "%s:%s" % (self.cur_mod, getattr(node or self.cur_node, "lineno", 0))))
        self.s_read(key, node, "read of " + key)
        res = self._typed_load(key, t)
        if isinstance(res, R) and res.kind != "scalar":
            res.sa = res.sa | frozenset([key])
        return res

    def store_attr(self, ov, name, val, node):
        key = ov.obj + "." + name
        if ov.obj == "self" and name in self.hyper and not self.is_init:
            self.emit("SetParam", self.u.pname(name), self.site(node, "hyper-parameter %s assigned outside __init__" % name))
        if self.must is not None and ov.obj == "self":
            self.must.add(key)
        if ov.obj == "self":
            self.stored_attrs.add(name)
        self.s_assign(key, node, "assignment of " + key)
        self._fact_of(key, val)
        if isinstance(val, (K, L, Sup)) or val is None:
            return
        if isinstance(val, F):
            return
        rv = self.to_ref(val, name)
        self.emit("StoreAttr", self.u.attr(key), rv.var)

    # ---- merging (phi)
    def merge(self, vals, hint="phi"):
        vals = [v for v in vals if v is not None]
        if not vals:
            return K(None)
        first = vals[0]
        if all(v is first for v in vals):
            return first
        if all(isinstance(v, K) for v in vals):
            if all(type(v.val) is type(first.val) and v.val == first.val for v in vals):
                return first
            return R(self.u.var(hint), kind="scalar")        # no cell: never bound to a reference
        if all(isinstance(v, F) for v in vals):
            alts = []
            for v in vals:
                for a in v.alts:
                    if a not in alts:
                        alts.append(a)
            return F(alts)
        if all(isinstance(v, T) for v in vals) and len({len(v.items) for v in vals}) == 1:
            return T([self.merge([v.items[i] for v in vals], hint) for i in range(len(first.items))])
        rs = []
        for v in vals:
            if isinstance(v, (K, L, Sup)):
                continue
            if isinstance(v, F):
                continue
            rs.append(self.to_ref(v, hint))
        if not rs:
            return R(self.u.var(hint), kind="scalar")
        uniq = []
        for r in rs:
            if not any(r.var == q.var for q in uniq):
                uniq.append(r)
        if len(uniq) == 1:
            r = uniq[0]
            return R(r.var, obj=r.obj, cls=r.cls, kind=r.kind if len(rs) == len(vals) else (r.kind), sa=self._sa(rs))
        m = self.u.var(hint)
        for r in uniq:
            self.emit("Alias", m, r.var)
        objs = {r.obj for r in uniq}
        kinds = {r.kind for r in uniq}
        obj = uniq[0].obj if len(objs) == 1 else None
        cls = uniq[0].cls if obj else None
        if obj is None and any(r.obj for r in uniq):
            if all(r.obj and r.cls is None for r in uniq):
                # union of tracked containers: a new identity that forwards stores to its sources
                srcs = sorted({r.obj for r in uniq})
                obj = "m@" + "|".join(srcs)
                self.u.merged[obj] = srcs
                for sid in srcs:
                    t = self.u.var(hint + ".el")
                    self.emit("LoadAttr", t, self.u.attr(sid + ".*"))
                    self.emit("StoreAttr", self.u.attr(obj + ".*"), t)
                    for d in self.u.known(sid + ".*"):
                        self.u.fact(obj + ".*", d)
            else:
                for r in uniq:
                    if r.obj:
                        t = self.u.var(hint + ".el")
                        self.emit("LoadAttr", t, self.u.attr(r.obj + ".*"))
                        self.emit("Alias", m, t)
        kind = uniq[0].kind if len(kinds) == 1 else None
        if kind is None and all(k and k.startswith("lib:") and k[4:] in LIBOBJ_CALL_PURE for k in kinds):
            kind = uniq[0].kind
        return R(m, obj=obj, cls=cls, kind=kind, sa=self._sa(uniq))

    def merge_envs(self, envs):
        envs = [e for e in envs if e is not None]
        if not envs:
            return None
        if len(envs) == 1:
            return envs[0]
        out = {}
        keys = set()
        for e in envs:
            keys |= set(e)
        for k in keys:
            vs = [e.get(k) for e in envs]
            if any(v is None for v in vs):
                vs = [v for v in vs if v is not None]     # unbound on some path: use the bound ones
            out[k] = self.merge(vs, k)
        return out


BUILTINS = _names("len int float bool str repr abs min max sum all any isinstance issubclass hasattr getattr "
                  "setattr callable print type id hash round divmod pow range enumerate zip sorted reversed "
                  "list tuple dict set frozenset next iter map filter super object ValueError TypeError "
                  "RuntimeError NotImplementedError ImportError IndexError KeyError AttributeError Exception "
                  "UserWarning DeprecationWarning FutureWarning slice complex bytes vars dir format")


def _is_const_tree(v):
    return isinstance(v, K) or (isinstance(v, T) and all(_is_const_tree(i) for i in v.items))


class InterpExpr(Interp):
    # ---------------------------------------------------------------- static tests
    def truth(self, node, fr):
        """three-valued static evaluation of a test; never emits IR"""
        if isinstance(node, ast.Constant):
            return bool(node.value)
        if isinstance(node, ast.UnaryOp) and isinstance(node.op, ast.Not):
            t = self.truth(node.operand, fr)
            return None if t is None else (not t)
        if isinstance(node, ast.BoolOp):
            ts = [self.truth(v, fr) for v in node.values]
            if isinstance(node.op, ast.And):
                if any(t is False for t in ts):
                    return False
                return True if all(t is True for t in ts) else None
            if any(t is True for t in ts):
                return True
            return False if all(t is False for t in ts) else None
        if isinstance(node, ast.Compare) and len(node.ops) == 1:
            a, b = self.peek(node.left, fr), self.peek(node.comparators[0], fr)
            op = node.ops[0]
            if isinstance(op, (ast.Is, ast.IsNot)):
                for x, y in ((a, b), (b, a)):
                    if isinstance(y, K) and y.val is None:
                        if isinstance(x, K):
                            r = x.val is None
                        elif isinstance(x, (T, F, KW)):
                            r = False
                        elif isinstance(x, R) and (x.obj is not None and x.obj != "?"):
                            r = False
                        else:
                            return None
                        return r if isinstance(op, ast.Is) else (not r)
                return None
            if isinstance(op, (ast.In, ast.NotIn)):
                r = None
                if isinstance(a, K) and isinstance(b, KW) and b.rest is None:
                    r = a.val in b.known
                elif isinstance(a, K) and isinstance(b, T) and all(isinstance(i, K) for i in b.items):
                    r = a.val in [i.val for i in b.items]
                if r is None:
                    return None
                return r if isinstance(op, ast.In) else (not r)
            if isinstance(a, K) and isinstance(b, K) and not isinstance(a.val, tuple) and not isinstance(b.val, tuple):
                try:
                    if isinstance(op, ast.Eq):
                        return a.val == b.val
                    if isinstance(op, ast.NotEq):
                        return a.val != b.val
                    if a.val is None or b.val is None:
                        return None
                    if isinstance(op, ast.Lt):
                        return a.val < b.val
                    if isinstance(op, ast.LtE):
                        return a.val <= b.val
                    if isinstance(op, ast.Gt):
                        return a.val > b.val
                    if isinstance(op, ast.GtE):
                        return a.val >= b.val
                except TypeError:
                    return None
            return None
        if isinstance(node, ast.Call) and isinstance(node.func, ast.Name) and node.func.id == "hasattr" \
                and "hasattr" not in fr.env and len(node.args) == 2 and isinstance(node.args[0], ast.Name) \
                and isinstance(node.args[1], ast.Constant):
            ov = fr.env.get(node.args[0].id)
            if isinstance(ov, R) and ov.obj == "self" and not self.is_init and node.args[1].value in self.hyper:
                return True           # constructor hyper-parameters are set by __init__ of this very class
            return None
        v = self.peek(node, fr)
        if isinstance(v, K) and not isinstance(v.val, tuple):
            return bool(v.val)
        if isinstance(v, F):
            return True
        return None

    def peek(self, node, fr):
        """value of an expression if it can be determined without emitting IR, else None"""
        if isinstance(node, ast.Constant):
            return K(node.value)
        if isinstance(node, ast.Name):
            if node.id in fr.env:
                return fr.env[node.id]
            g = self.ix.resolve_global(fr.mod, node.id)
            if isinstance(g, (K, L)):
                return g
            if isinstance(g, ClassInfo) or isinstance(g, tuple):
                return F([("x",)])
            return None
        if isinstance(node, ast.Call) and isinstance(node.func, ast.Attribute) and node.func.attr == "get" \
                and len(node.args) >= 1:
            base = self.peek(node.func.value, fr)
            key = self.peek(node.args[0], fr)
            if isinstance(base, KW) and base.rest is None and isinstance(key, K):
                if key.val in base.known:
                    return base.known[key.val]
                return self.peek(node.args[1], fr) if len(node.args) > 1 else K(None)
        return None

    def narrowing(self, test, fr):
        """{ast.dump(expr)} narrowed to immutable scalars when `test` is true (T4)"""
        out = set()
        if isinstance(test, ast.BoolOp) and isinstance(test.op, ast.And):
            for v in test.values:
                out |= self.narrowing(v, fr)
        if isinstance(test, ast.Call) and isinstance(test.func, ast.Name) and test.func.id == "isinstance" \
                and len(test.args) == 2:
            tys = test.args[1].elts if isinstance(test.args[1], ast.Tuple) else [test.args[1]]
            if all(ast.unparse(t) in IMMUTABLE_TYPES for t in tys):
                out.add(ast.dump(test.args[0]))
        return out

    # ---------------------------------------------------------------- expressions
    def ev(self, node, fr):
        self.cur_node = node if hasattr(node, "lineno") else self.cur_node
        self.cur_mod = fr.mod
        if fr.narrow and isinstance(node, (ast.Name, ast.Attribute)) and ast.dump(node) in fr.narrow:
            self.ev_inner(node, fr)
            return self.fresh("narrowed", kind="scalar")
        return self.ev_inner(node, fr)

    def ev_inner(self, node, fr):
        m = getattr(self, "ev_" + type(node).__name__, None)
        if m is None:
            vals = [self.ev(c, fr) for c in ast.iter_child_nodes(node) if isinstance(c, ast.expr)]
            return self.fail_closed(vals, node, "expression " + type(node).__name__)
        return m(node, fr)

    def ev_Constant(self, node, fr):
        return K(node.value)

    def ev_Name(self, node, fr):
        if node.id in fr.env:
            return fr.env[node.id]
        g = self.ix.resolve_global(fr.mod, node.id)
        if isinstance(g, ClassInfo):
            return F([("class", g)])
        if isinstance(g, tuple) and g[0] == "func":
            return F([("func", g[1], g[2], None, None, None)])
        if g is not None:
            return g
        if node.id in BUILTINS:
            return L("builtins." + node.id)
        return self.fail_closed([], node, "unbound name " + node.id)

    def ev_JoinedStr(self, node, fr):
        for v in node.values:
            if isinstance(v, ast.FormattedValue):
                self.ev(v.value, fr)
        return self.fresh("str", kind="scalar")

    def ev_Tuple(self, node, fr):
        items = []
        for e in node.elts:
            if isinstance(e, ast.Starred):
                v = self.ev(e.value, fr)
                items += v.items if isinstance(v, T) else [self.elem_of(v)]
            else:
                items.append(self.ev(e, fr))
        return T(items)

    def ev_List(self, node, fr):
        t = self.ev_Tuple(node, fr)
        if t.items and _is_const_tree(t):
            return t
        c = self.fresh("list", obj="l@%s:%s:%s" % (fr.mod, node.lineno, node.col_offset))
        for it in t.items:
            self.store_elem(c, it)
        return c

    ev_Set = ev_List

    def ev_Dict(self, node, fr):
        c = self.fresh("dict", obj="d@%s:%s:%s" % (fr.mod, node.lineno, node.col_offset))
        for k, v in zip(node.keys, node.values):
            if k is not None:
                kv = self.ev(k, fr)
                if not isinstance(kv, K):
                    self.store_elem(c, kv)
                self.store_elem(c, self.ev(v, fr))
            else:
                self.store_elem(c, self.elem_of(self.ev(v, fr)))
        return c

    def ev_Slice(self, node, fr):
        for p in (node.lower, node.upper, node.step):
            if p is not None:
                self.ev(p, fr)
        return K(("slice",))

    def ev_Starred(self, node, fr):
        return self.ev(node.value, fr)

    def ev_NamedExpr(self, node, fr):
        v = self.ev(node.value, fr)
        fr.env[node.target.id] = v
        return v

    def ev_Lambda(self, node, fr):
        return F([("func", node, fr.mod, dict(fr.env), fr.cls_def, fr.selfv)])

    def ev_IfExp(self, node, fr):
        t = self.truth(node.test, fr)
        self.ev(node.test, fr)
        if t is True:
            return self.ev(node.body, fr)
        if t is False:
            return self.ev(node.orelse, fr)
        self.s_push()
        a = self.ev(node.body, fr)
        b1 = self.s_pop()
        self.s_push()
        b = self.ev(node.orelse, fr)
        b2 = self.s_pop()
        if b1 or b2:
            self.s_emit("If", self.s_site(node, "conditional expression"), b1, b2)
        return self.merge([a, b], "ifexp")

    def ev_BoolOp(self, node, fr):
        vals = []
        for i, v in enumerate(node.values):
            if i:
                self.s_push()
            vals.append(self.ev(v, fr))
            if i:
                blk = self.s_pop()      # short-circuit: evaluated on some paths only
                if blk:
                    self.s_emit("If", self.s_site(node, "short-circuit operand"), blk, [])
        return self.merge(vals, "boolop")

    def ev_UnaryOp(self, node, fr):
        v = self.ev(node.operand, fr)
        if isinstance(v, K) and isinstance(node.op, ast.USub) and isinstance(v.val, (int, float)):
            return K(-v.val)
        if isinstance(v, K) and isinstance(node.op, ast.Not):
            return K(not v.val)
        return self.fresh("unop", kind="scalar" if self._scalar(v) else None)

    def _scalar(self, v):
        return isinstance(v, K) or (isinstance(v, R) and v.kind == "scalar")

    def ev_BinOp(self, node, fr):
        a, b = self.ev(node.left, fr), self.ev(node.right, fr)
        if isinstance(a, T) and isinstance(b, T) and isinstance(node.op, ast.Add):
            return T(a.items + b.items)
        conts = [x for x in (a, b) if isinstance(x, T) or (isinstance(x, R) and x.obj and x.cls is None)]
        if conts and isinstance(node.op, (ast.Add, ast.Mult)):
            c = self.fresh("concat", obj="b@%s:%s:%s" % (fr.mod, node.lineno, node.col_offset))
            for x in conts:
                self.store_elem(c, self.elem_of(x))
            return c
        return self.fresh("binop", kind="scalar" if self._scalar(a) and self._scalar(b) else None)

    def ev_Compare(self, node, fr):
        vals = [self.ev(node.left, fr)] + [self.ev(c, fr) for c in node.comparators]
        t = self.truth(node, fr)
        if t is not None:
            return K(t)
        return self.fresh("cmp", kind="scalar" if all(self._scalar(v) for v in vals) else None)

    def ev_Attribute(self, node, fr):
        v = self.ev(node.value, fr)
        return self.get_attr(v, node.attr, node, fr)

    def get_attr(self, v, name, node, fr):
        if isinstance(v, L):
            return L(v.dotted + "." + name)
        if isinstance(v, Sup):
            fm = self.ix.find_method(v.selfv.cls, name, after=v.after)
            if fm is None:
                return F([("libmethod", v.selfv, name)])
            return F([("func", fm[0], fm[1].mod, None, fm[1], v.selfv)])
        if isinstance(v, R) and v.obj:
            if v.cls is not None:
                pr = self.ix.find_prop(v.cls, name)
                if pr is not None:
                    return self.inline(("func", pr[0], pr[1].mod, None, pr[1], v), CallArgs(), node, fr)
                cp = self.ix.find_cprop(v.cls, name)
                if cp is not None:
                    # functools.cached_property: computed on first access, then kept in the instance dictionary
                    cur = self.load_attr(v, name, node)
                    self.s_push()
                    val = self.inline(("func", cp[0], cp[1].mod, None, cp[1], v), CallArgs(), node, fr)
                    self.store_attr(v, name, val, node)
                    blk = self.s_pop()
                    self.s_emit("If", self.s_site(node, "cached_property %s not computed yet" % name), blk, [])
                    return self.merge([cur, val], name)
                fm = self.ix.find_method(v.cls, name)
                if fm is not None:
                    return F([("func", fm[0], fm[1].mod, None, fm[1], v)])
                if name in ("__class__",):
                    return self.fresh("cls", kind="scalar")
                # attributes and functions stored in attributes; sklearn base-class methods
                if not self.u.known(v.obj + "." + name) and name in (M_EST_FIT | M_EST_READ | M_FRESH | {"_more_tags", "_get_tags", "get_feature_names_out"}):
                    return F([("libmethod", v, name)])
                return self.load_attr(v, name, node)
            if name in M_CONT_ADD | M_CONT_DEL | M_CONT_READ | M_FRESH | {"copy"}:
                return F([("libmethod", v, name)])
            return self.load_attr(v, name, node)
        if isinstance(v, R):
            if v.kind == "scalar":
                return self.fresh("sattr", kind="scalar")
            if name in ("T", "real", "imag", "flat", "base", "mT"):
                return self.derived([v], name, may=False)
            if name in ("shape", "dtype", "ndim", "size", "nbytes", "itemsize", "__class__", "__name__", "type"):
                return self.fresh(name, kind="scalar")
            # field of an object of unknown class: may share storage with the object
            return self.derived([v], name)
        if isinstance(v, (K, T, F, KW, Iter)):
            return self.fresh("attr", kind="scalar")
        return self.fail_closed([v], node, "attribute of " + type(v).__name__)

    def ev_Subscript(self, node, fr):
        v = self.ev(node.value, fr)
        idx = self.ev(node.slice, fr)
        if isinstance(v, L):
            return v
        if isinstance(v, T):
            if isinstance(idx, K) and isinstance(idx.val, int) and -len(v.items) <= idx.val < len(v.items):
                return v.items[idx.val]
            if isinstance(node.slice, ast.Slice):
                try:
                    sl = slice(*[None if p is None else ast.literal_eval(p)
                                 for p in (node.slice.lower, node.slice.upper, node.slice.step)])
                    return T(v.items[sl])
                except Exception:
                    return T(v.items)
            return self.elem_of(v)
        if isinstance(v, KW):
            if isinstance(idx, K) and idx.val in v.known:
                return v.known[idx.val]
            return self.elem_of(v)
        if isinstance(v, Iter):
            return v.elem
        if isinstance(v, R):
            if v.obj and v.cls is None:
                return self.elem_of(v, "item")
            if v.kind == "scalar":
                return v
            return self.derived([v] + ([idx] if isinstance(idx, R) and idx.obj else []), "sub")
        return self.fresh("sub", kind="scalar")

    def comp(self, node, fr, elts):
        """list/set/dict comprehension or generator: container of the element values"""
        inner = Frame(fr.mod, dict(fr.env), fr.cls_def, fr.selfv, fr.fname, fr.in_init)
        inner.narrow = dict(fr.narrow)
        c = self.fresh("comp", obj="g@%s:%s:%s" % (fr.mod, node.lineno, node.col_offset))
        self.s_push()

        def rec(gi):
            if gi == len(node.generators):
                for e in elts:
                    self.store_elem(c, self.ev(e, inner))
                return
            g = node.generators[gi]
            it = self.ev(g.iter, inner)
            if isinstance(it, T) and 0 < len(it.items) <= 12 and gi == 0:
                for item in it.items:
                    self.assign(g.target, item, inner)
                    for cond in g.ifs:
                        self.ev(cond, inner)
                    rec(gi + 1)
            else:
                self.assign(g.target, self.iter_elem(it), inner)
                for cond in g.ifs:
                    self.ev(cond, inner)
                rec(gi + 1)
        try:
            rec(0)
        finally:
            blk = self.s_pop()
        if blk:
            self.s_emit("While", self.s_site(node, "comprehension"), blk)
        return c

    def ev_ListComp(self, node, fr):
        return self.comp(node, fr, [node.elt])

    ev_SetComp = ev_ListComp
    ev_GeneratorExp = ev_ListComp

    def ev_DictComp(self, node, fr):
        return self.comp(node, fr, [node.key, node.value])

    def iter_elem(self, it):
        """value bound to the loop target when iterating over `it`"""
        if isinstance(it, Iter):
            return it.elem
        return self.elem_of(it, "it")




class CallArgs:
    def __init__(self, pos=(), star=None, kw=None, kwrest=None):
        self.pos, self.star, self.kw, self.kwrest = list(pos), star, dict(kw or {}), kwrest

    def all_vals(self):
        out = list(self.pos) + list(self.kw.values())
        if self.star is not None:
            out.append(self.star)
        if self.kwrest is not None:
            out.append(self.kwrest)
        return out

    def get(self, i, name, default=None):
        if i is not None and i < len(self.pos):
            return self.pos[i]
        if name is not None and name in self.kw:
            return self.kw[name]
        if isinstance(self.kwrest, KW) and name in self.kwrest.known:
            return self.kwrest.known[name]
        return default


class InterpCall(InterpExpr):
    # ---------------------------------------------------------------- call sites
    def ev_Call(self, node, fr):
        f = node.func
        if isinstance(f, ast.Name) and f.id == "super" and "super" not in fr.env:
            return Sup(fr.cls_def, fr.selfv)
        recv = fv = None
        if isinstance(f, ast.Attribute):
            recv = self.ev(f.value, fr)
        else:
            fv = self.ev(f, fr)
        ca = CallArgs()
        for a in node.args:
            if isinstance(a, ast.Starred):
                v = self.ev(a.value, fr)
                if isinstance(v, T) and ca.star is None:
                    ca.pos += v.items
                else:
                    ca.star = v if ca.star is None else self.merge([ca.star, v])
            else:
                ca.pos.append(self.ev(a, fr))
        for k in node.keywords:
            v = self.ev(k.value, fr)
            if k.arg is None:
                if isinstance(v, KW) and v.rest is None and ca.kwrest is None:
                    ca.kw.update(v.known)
                else:
                    ca.kwrest = v if ca.kwrest is None else self.merge([ca.kwrest, v])
            else:
                ca.kw[k.arg] = v
        self.cur_node, self.cur_mod = node, fr.mod
        if recv is not None:
            return self.call_attr(recv, f.attr, ca, node, fr, f)
        return self.call_value(fv, ca, node, fr)

    def call_value(self, fv, ca, node, fr):
        if isinstance(fv, F):
            if len(fv.alts) == 1:
                return self.call_alt(fv.alts[0], ca, node, fr)
            res, blks = [], []
            for a in fv.alts:            # one of the alternatives is called
                self.s_push()
                try:
                    res.append(self.call_alt(a, ca, node, fr))
                finally:
                    blks.append(self.s_pop())
            if any(blks):
                nest = blks[-1]
                for b in reversed(blks[:-1]):
                    nest = [("If", self.s_site(node, "which callable"), b, nest)]
                self.s_splice(nest)
            return self.merge(res, "call")
        if isinstance(fv, L):
            return self.call_lib(fv.dotted, ca, node, fr)
        if isinstance(fv, R) and fv.kind and fv.kind.startswith("lib:") and fv.kind[4:] in LIBOBJ_CALL_PURE:
            return self.derived([fv] + ca.all_vals(), "call")
        return self.fail_closed([fv] + ca.all_vals(), node, "call of an unknown callable")

    def call_alt(self, a, ca, node, fr):
        kind = a[0]
        if kind == "func":
            return self.inline(a, ca, node, fr)
        if kind == "class":
            return self.instantiate(a[1], ca, node, fr)
        if kind == "libmethod":
            return self.call_method(a[1], a[2], ca, node, fr)
        if kind == "pure":
            return self.fresh("pure")
        if kind == "lib":
            return self.call_lib(a[1], ca, node, fr)
        if kind == "parallel":
            return F([("parallel_run",)])
        if kind == "parallel_run":
            c = self.fresh("results", obj="p@%s:%s" % (fr.mod, self._pos()))
            for v in ca.pos:
                self.store_elem(c, self.elem_of(v))
            return c
        return self.fail_closed(ca.all_vals(), node, "callable " + kind)

    def call_attr(self, recv, name, ca, node, fr, fnode):
        if isinstance(recv, L):
            return self.call_lib(recv.dotted + "." + name, ca, node, fr)
        if isinstance(recv, Sup):
            fm = self.ix.find_method(recv.selfv.cls, name, after=recv.after)
            if fm is None:
                return self.call_method(recv.selfv, name, ca, node, fr)
            return self.inline(("func", fm[0], fm[1].mod, None, fm[1], recv.selfv), ca, node, fr)
        if isinstance(recv, R) and recv.obj and recv.cls is not None:
            fm = self.ix.find_method(recv.cls, name)
            if fm is not None:
                return self.inline(("func", fm[0], fm[1].mod, None, fm[1], recv), ca, node, fr)
            if self.u.known(recv.obj + "." + name):
                return self.call_value(self.load_attr(recv, name, node), ca, node, fr)
            return self.call_method(recv, name, ca, node, fr)
        if isinstance(recv, T) and name in M_CONT_ADD and isinstance(fnode.value, ast.Name):
            add = []
            for v in ca.pos:
                add += (v.items if isinstance(v, T) else [self.elem_of(v)]) if name in ("extend", "update") else [v]
            fr.env[fnode.value.id] = T(recv.items + add)
            return K(None)
        return self.call_method(recv, name, ca, node, fr)

    # ---------------------------------------------------------------- inlining
    def default_of(self, expr, mod):
        if expr is None:
            return None
        try:
            return K(ast.literal_eval(expr))
        except Exception:
            pass
        return self.ev(expr, Frame(mod, {}))

    def inline(self, alt, ca, node, fr):
        _, fn, mod, cenv, cls_def, selfv = alt
        name = getattr(fn, "name", "<lambda>")
        if self.depth >= self.MAXDEPTH or sum(1 for s in self.nodestack if s is fn) >= 2:
            return self.fail_closed(ca.all_vals(), node, "recursion / inlining depth at " + name)
        env = dict(cenv) if cenv else {}
        a = fn.args
        params = list(a.posonlyargs) + list(a.args)
        pos = list(ca.pos)
        kw = dict(ca.kw)
        if selfv is not None and params:
            env[params[0].arg] = selfv
            params = params[1:]
        ndef = len(a.defaults)
        allp = list(a.posonlyargs) + list(a.args)
        defaults = {}
        for i, d in enumerate(a.defaults):
            defaults[allp[len(allp) - ndef + i].arg] = d
        for p, d in zip(a.kwonlyargs, a.kw_defaults):
            if d is not None:
                defaults[p.arg] = d

        def missing(pname):
            cands = []
            if pname in NON_DATA_PARAMS and pname in defaults:
                return self.default_of(defaults[pname], mod)
            if ca.star is not None:
                cands.append(self.elem_of(ca.star, pname))
            if ca.kwrest is not None:
                if isinstance(ca.kwrest, KW):
                    if pname in ca.kwrest.known:
                        return ca.kwrest.known[pname]
                    if ca.kwrest.rest is not None:
                        cands.append(self.elem_of(ca.kwrest.rest, pname))
                else:
                    cands.append(self.elem_of(ca.kwrest, pname))
            if pname in defaults:
                cands.append(self.default_of(defaults[pname], mod))
            if not cands:
                return self.fresh(pname + ".missing", kind="scalar")
            return self.merge(cands, pname) if len(cands) > 1 else cands[0]

        for i, p in enumerate(params):
            if i < len(pos):
                env[p.arg] = pos[i]
            elif p.arg in kw:
                env[p.arg] = kw.pop(p.arg)
            else:
                env[p.arg] = missing(p.arg)
        extra = pos[len(params):]
        if a.vararg is not None:
            if ca.star is None:
                env[a.vararg.arg] = T(extra)
            else:
                c = self.fresh("varargs", obj="v@%s:%s" % (mod, getattr(fn, "lineno", 0)))
                for v in extra:
                    self.store_elem(c, v)
                self.store_elem(c, self.elem_of(ca.star))
                env[a.vararg.arg] = c
        for p in a.kwonlyargs:
            env[p.arg] = kw.pop(p.arg) if p.arg in kw else missing(p.arg)
        if a.kwarg is not None:
            rest = None
            if ca.kwrest is not None:
                rest = ca.kwrest.rest if isinstance(ca.kwrest, KW) else self.to_ref(ca.kwrest)
                if isinstance(ca.kwrest, KW):
                    for k2, v2 in ca.kwrest.known.items():
                        kw.setdefault(k2, v2)
            env[a.kwarg.arg] = KW(kw, rest)
        nf = Frame(mod, env, cls_def, selfv, name)
        self.depth += 1
        self.stack.append(name)
        self.nodestack.append(fn)
        saved = (self.cur_node, self.cur_mod)
        self.s_push()
        try:
            if isinstance(fn, ast.Lambda):
                nf.returns.append(self.ev(fn.body, nf))
            else:
                try:
                    self.exec_block(fn.body, nf)
                    nf.returns.append(K(None))
                except Terminated:
                    pass
        finally:
            self.depth -= 1
            self.stack.pop()
            self.nodestack.pop()
            self.cur_node, self.cur_mod = saved
            blk = self.s_pop()
            if blk:
                self.s_emit("Call", blk)
        rets = nf.returns
        if len(rets) > 1 and any(not (isinstance(r, K) and r.val is None) for r in rets):
            rets = [r for r in rets if not (isinstance(r, K) and r.val is None)] + \
                   ([K(None)] if all(isinstance(r, K) for r in rets) else [])
        return self.merge(rets, name + ".ret") if rets else K(None)

    def instantiate(self, ci, ca, node, fr):
        v = self.fresh(ci.name, obj="o@%s:%s:%s" % (fr.mod, getattr(node, "lineno", 0), getattr(node, "col_offset", 0)), cls=ci)
        self.u.fnreg[("cls", ci.name)] = ci
        fm = self.ix.find_method(ci, "__init__")
        if fm is not None:
            self.inline(("func", fm[0], fm[1].mod, None, fm[1], v), ca, node, fr)
        return v

    # ---------------------------------------------------------------- library callees (T1)
    def copy_flag(self, ca, default):
        v = ca.kw.get("copy")
        if v is None and isinstance(ca.kwrest, KW):
            v = ca.kwrest.known.get("copy")
        if v is None:
            return default if (ca.kwrest is None or (isinstance(ca.kwrest, KW) and ca.kwrest.rest is None)) else None
        if isinstance(v, K):
            return bool(v.val) if v.val is not None else default
        return None

    def may_or_fresh(self, src, copy, hint):
        if copy is True:
            return self.fresh(hint)
        return self.derived([src], hint)

    def retaining(self, vals, hint, node=None):
        v = self.fresh(hint, obj="x@%s:%s:%s" % (self.cur_mod, self._pos(), hint), kind="lib:" + hint)
        for x in vals:
            self.store_elem(v, x)
        return v

    def out_arg(self, ca, npos_in):
        if "out" in ca.kw and not (isinstance(ca.kw["out"], K) and ca.kw["out"].val is None):
            return ca.kw["out"]
        if npos_in is not None and len(ca.pos) > npos_in:
            return ca.pos[npos_in]
        return None

    def call_lib(self, dotted, ca, node, fr):
        parts = dotted.split(".")
        top, last = parts[0], parts[-1]
        args = ca.all_vals()
        a0 = ca.pos[0] if ca.pos else None
        if top == "builtins":
            return self.call_builtin(last, ca, node, fr)
        if last in LIB_CLASS:
            return self.retaining(args, last)
        if top == "scipy" and last in NP_FRESH and "out" not in ca.kw:
            return self.fresh(last)
        if top == "numpy":
            if len(parts) > 2 and parts[1] == "random":
                return self.fresh("rand")
            nin = 1 if last in NP_UFUNC1 else 2 if last in NP_UFUNC2 else None
            out = self.out_arg(ca, nin)
            if out is not None:
                self.write(out, node, "out= argument of numpy." + last)
                return out
            if last == "array":
                cp = self.copy_flag(ca, True)
                return self.fresh("array") if cp is True else self.derived([a0], "array")
            if last in NP_WRITE0:
                self.write(a0, node, "numpy.%s writes its first argument" % last)
                return K(None)
            if last in NP_VIEW0:
                return self.derived([a0], last, may=False)
            if last in NP_MAY0:
                return self.derived([a0], last)
            if last in NP_FRESH or last == "where":
                return self.fresh(last)
            return self.fail_closed(args, node, "unknown callee " + dotted)
        if last == "check_is_fitted" and isinstance(a0, R) and a0.obj:
            at = ca.get(1, "attributes", K(None))
            names = [at.val] if isinstance(at, K) and isinstance(at.val, str) else \
                [i.val for i in at.items if isinstance(i, K) and isinstance(i.val, str)] if isinstance(at, T) else None
            if names:
                for nm in names:
                    self.s_read(a0.obj + "." + nm, node, "check_is_fitted consults " + nm)
            elif self.s_on():            # any attribute with a trailing underscore
                self.s_emit("ReadFitted", a0.obj, self.k_site(node, "check_is_fitted consults every fitted attribute", a0.obj + ".<any fitted attribute>"))
            return K(None)
        if last in ("clone", "deepcopy"):
            return self.retaining([], last)
        if last in LIB_FRESH:
            return self.fresh(last)
        if last in ("check_array", "as_float_array", "column_or_1d", "_check_sample_weight"):
            return self.may_or_fresh(a0 if a0 is not None else ca.get(None, "X"), self.copy_flag(ca, last == "as_float_array"), last)
        if last in LIB_MAY0:
            return self.derived([a0], last)
        if last == "check_X_y":
            cp = self.copy_flag(ca, False)
            return T([self.may_or_fresh(ca.get(0, "X"), cp, "X"), self.may_or_fresh(ca.get(1, "y"), cp, "y")])
        if last == "check_pairwise_arrays":
            X, Y = ca.get(0, "X"), ca.get(1, "Y", K(None))
            cp = self.copy_flag(ca, False)
            return T([self.may_or_fresh(X, cp, "X"), self.derived([X, Y], "Y")])
        if last == "indexable":
            return T([self.derived([v], "ix") for v in ca.pos]) if ca.star is None else self.derived(args, "ix")
        if last == "svd_flip":
            u, v = ca.get(0, "u"), ca.get(1, "v")
            self.write(u, node, "svd_flip scales u in place")
            self.write(v, node, "svd_flip scales v in place")
            return T([u, v])
        if last == "_init_arpack_v0":
            self.write(ca.get(1, "random_state"), node, "random number generator consumed")
            return self.fresh("v0")
        if last == "safe_mask":
            return self.derived([ca.get(1, "mask")], "mask")
        if last == "check_scoring":
            return F([("pure",)])
        if last == "Parallel":
            return F([("parallel_run",)])
        if last == "delayed":
            return a0
        if last in ("tqdm", "trange"):
            return a0 if a0 is not None else self.fresh("tqdm")
        if last == "train_test_split":
            return self.fresh("split")
        if last in LIB_CLASS:
            return self.retaining(args, last)
        return self.fail_closed(args, node, "unknown callee " + dotted)

    def call_builtin(self, name, ca, node, fr):
        a0 = ca.pos[0] if ca.pos else None
        args = ca.all_vals()
        if name in ("getattr", "hasattr"):
            nm = ca.pos[1] if len(ca.pos) > 1 else None
            if isinstance(a0, R) and a0.obj and isinstance(nm, K) and isinstance(nm.val, str):
                if name == "hasattr":
                    self.note_read(a0, nm.val, node)
                    return self.fresh("hasattr", kind="scalar")
                v = self.get_attr(a0, nm.val, node, fr)
                return self.merge([v] + ca.pos[2:], "getattr") if len(ca.pos) > 2 else v
            if name == "hasattr":
                return self.fresh("hasattr", kind="scalar")
            if isinstance(a0, R) and a0.obj:
                loads = []
                for key in list(self.u.attrs):
                    if key.startswith(a0.obj + ".") and not key.endswith(".*"):
                        t = self.u.var("getattr")
                        self.emit("LoadAttr", t, self.u.attr(key))
                        loads.append(R(t))
                return self.derived(loads + [a0] + ca.pos[2:], "getattr", may=False)
            return self.derived([a0] + ca.pos[2:], "getattr")
        if name in ("range",):
            return Iter(self.fresh("i", kind="scalar"))
        if name == "enumerate":
            return Iter(T([self.fresh("i", kind="scalar"), self.iter_elem(a0)]))
        if name == "zip":
            return Iter(T([self.iter_elem(v) for v in ca.pos]))
        if name in ("list", "tuple", "sorted", "reversed", "set", "frozenset", "iter"):
            if a0 is None:
                return self.fresh(name, obj="n@%s:%s" % (fr.mod, self._pos())) if name in ("list", "set") else T([])
            if isinstance(a0, T):
                return a0
            c = self.fresh(name, obj="n@%s:%s" % (fr.mod, self._pos()))
            self.store_elem(c, self.iter_elem(a0))
            return c
        if name == "dict":
            c = self.fresh("dict", obj="n@%s:%s" % (fr.mod, self._pos()))
            for v in ca.pos:
                self.store_elem(c, self.iter_elem(v))
            for v in ca.kw.values():
                self.store_elem(c, v)
            if ca.kwrest is not None:
                self.store_elem(c, self.elem_of(ca.kwrest))
            return c
        if name == "next":
            return self.iter_elem(a0)
        if name in ("min", "max"):
            srcs = [self.iter_elem(v) for v in ca.pos] if len(ca.pos) == 1 else list(ca.pos)
            if all(self._scalar(v) for v in srcs):
                return self.fresh(name, kind="scalar")
            return self.derived(srcs, name)
        if name in BUILTIN_SCALAR:
            return self.fresh(name, kind="scalar")
        if name[:1].isupper() or name in ("slice", "object", "complex", "bytes"):
            return self.fresh(name)
        return self.fail_closed(args, node, "unknown builtin " + name)

    def note_read(self, ov, name, node):
        self.s_read(ov.obj + "." + name, node, "hasattr consults " + name)
        if self.must is not None and ov.obj == "self" and ("self." + name) not in self.must:
            self.u.stale.append((self.entry, name, "%s:%s" % (self.cur_mod, getattr(node, "lineno", 0))))

    # ---------------------------------------------------------------- methods on values
    def call_method(self, recv, name, ca, node, fr):
        args = ca.all_vals()
        a0 = ca.pos[0] if ca.pos else None
        if isinstance(recv, KW):
            if name in ("get", "pop"):
                dflt = ca.pos[1] if len(ca.pos) > 1 else K(None)
                if isinstance(a0, K) and a0.val in recv.known:
                    v = recv.known[a0.val]
                    if name == "pop":
                        del recv.known[a0.val]
                    return v
                if recv.rest is None:
                    return dflt
                return self.merge([self.elem_of(recv.rest), dflt], name)
            if name in ("items", "values", "keys"):
                e = self.elem_of(recv)
                return Iter(T([self.fresh("k", kind="scalar"), e]) if name == "items" else e)
            return self.fail_closed([recv] + args, node, "method %s of **kwargs" % name)
        if isinstance(recv, (K, T, F, L, Iter)) or recv is None:
            if isinstance(recv, T) and name in ("copy",):
                return recv
            return self.fresh(name, kind="scalar")
        if not isinstance(recv, R):
            return self.fail_closed([recv] + args, node, "method " + name)
        if recv.kind == "scalar":
            return self.fresh(name, kind="scalar")
        cont = recv.obj is not None and recv.cls is None
        if name == "_validate_data":
            if recv.obj and self.s_on():
                # sklearn BaseEstimator._validate_data -> _check_feature_names / _check_n_features (T1)
                rs = ca.get(None, "reset", K(True))
                kn, kf = recv.obj + ".n_features_in_", recv.obj + ".feature_names_in_"
                st_set = [("Assign", kn, self.k_site(node, "_validate_data(reset=True) sets n_features_in_", kn)),
                          ("Reset", kf, self.k_site(node, "_validate_data(reset=True) resets feature_names_in_", kf))]
                st_chk = [("Read", kf, self.k_site(node, "_validate_data(reset=False) consults feature_names_in_", kf)),
                          ("Read", kn, self.k_site(node, "_validate_data(reset=False) consults n_features_in_", kn))]
                if isinstance(rs, K):
                    self.s_splice(st_set if rs.val else st_chk)
                else:
                    self.s_emit("If", self.site(node, "reset flag"), st_set, st_chk)
            cp = self.copy_flag(ca, False)
            X = ca.get(0, "X", K(None))
            y = ca.get(1, "y", K(None))
            if isinstance(y, K):
                return self.may_or_fresh(X, cp, "X")
            return T([self.may_or_fresh(X, cp, "X"), self.may_or_fresh(y, cp, "y")])
        if cont:
            if name == "copy":
                c = self.fresh("copy", obj="n@%s:%s" % (fr.mod, self._pos()))
                self.store_elem(c, self.elem_of(recv))
                return c
            if name in ("get", "pop", "popitem", "setdefault", "__getitem__"):
                if name != "get":
                    self.write(recv, node, "container method " + name)
                if name == "setdefault" and len(ca.pos) > 1:
                    self.store_elem(recv, ca.pos[1])
                return self.merge([self.elem_of(recv)] + ca.pos[1:2], name)
            if name in ("items", "values", "keys"):
                e = self.elem_of(recv)
                return Iter(T([self.fresh("k", kind="scalar"), e]) if name == "items" else e)
        if name in M_CONT_ADD:
            self.write(recv, node, "container method " + name)
            for v in args:
                self.store_elem(recv, self.iter_elem(v) if name in ("extend", "update") else v)
            return K(None)
        if name in M_CONT_DEL:
            self.write(recv, node, "container method " + name)
            return self.elem_of(recv)
        if name in M_CONT_READ:
            return self.derived([recv] + ca.pos[1:2], name)
        if name in M_VIEW:
            return self.derived([recv], name, may=False)
        if name == "astype":
            return self.fresh("astype") if self.copy_flag(ca, True) is True else self.derived([recv], "astype")
        if name in M_WRITE:
            self.write(recv, node, "in-place method ." + name + "()")
            return K(None)
        if name in M_RNG:
            self.write(recv, node, "random number generator consumed")
            return self.fresh(name)
        if name in M_EST_FIT:
            self.write(recv, node, "estimator method ." + name + "() changes its receiver")
            for x in args:
                if recv.obj:
                    self.store_elem(recv, x)
                else:
                    for r in self.refs(x):
                        self.emit("Alias", recv.var, r.var)
            if name in ("fit_transform", "fit_predict"):
                return self.derived([recv] + args, name)
            return recv
        if name in M_EST_READ:
            return self.derived([recv] + args, name)
        if name in M_FRESH or name in ("_more_tags", "_get_tags", "get_feature_names_out"):
            out = self.out_arg(ca, None)
            if out is not None:
                self.write(out, node, "out= argument of ." + name)
                return out
            return self.fresh(name)
        return self.fail_closed([recv] + args, node, "unknown method ." + name)


def _assigned_names(stmts):
    """names (re)bound or mutated through a method / item assignment inside stmts"""
    out = set()
    for s in stmts:
        for n in ast.walk(s):
            if isinstance(n, ast.Name) and isinstance(n.ctx, (ast.Store, ast.Del)):
                out.add(n.id)
            elif isinstance(n, ast.AugAssign) and isinstance(n.target, ast.Name):
                out.add(n.target.id)
            elif isinstance(n, ast.Subscript) and isinstance(n.ctx, ast.Store) and isinstance(n.value, ast.Name):
                out.add(n.value.id)
            elif isinstance(n, ast.Call) and isinstance(n.func, ast.Attribute) and isinstance(n.func.value, ast.Name) \
                    and n.func.attr in (M_CONT_ADD | M_CONT_DEL):
                out.add(n.func.value.id)
    return out


class Translator(InterpCall):
    # ---------------------------------------------------------------- statements
    def exec_block(self, stmts, fr):
        for s in stmts:
            self.cur_node, self.cur_mod = s, fr.mod
            if self.try_depth and self.s_on():
                # inside a try body any statement may raise (and be caught with the state reached so far)
                self.s_emit("If", self.site(s, "statement inside try may raise"), [("Raise",)], [])
            m = getattr(self, "st_" + type(s).__name__, None)
            if m is None:
                vals = [self.ev(c, fr) for c in ast.iter_child_nodes(s) if isinstance(c, ast.expr)]
                self.fail_closed(vals, s, "statement " + type(s).__name__)
            else:
                m(s, fr)

    def st_Expr(self, s, fr):
        self.ev(s.value, fr)

    def st_Pass(self, s, fr):
        pass

    st_Global = st_Nonlocal = st_ClassDef = st_Pass

    def st_Break(self, s, fr):
        self.s_emit("Break")

    def st_Continue(self, s, fr):
        self.s_emit("Continue")

    def st_Delete(self, s, fr):
        # `del self.a` determines the attribute's state in this call (for the stale-read diagnostic)
        for t in s.targets:
            if isinstance(t, ast.Attribute) and isinstance(t.value, ast.Name):
                ov = fr.env.get(t.value.id)
                if isinstance(ov, R) and ov.obj:
                    if self.s_on():
                        self.s_emit("Del", ov.obj + "." + t.attr, self.k_site(t, "del " + t.attr, ov.obj + "." + t.attr))
                    if ov.obj == "self" and self.must is not None:
                        self.must.add("self." + t.attr)

    def st_Import(self, s, fr):
        for a in s.names:
            fr.env[a.asname or a.name.split(".")[0]] = L(a.name if a.asname else a.name.split(".")[0])

    def st_ImportFrom(self, s, fr):
        for a in s.names:
            fr.env[a.asname or a.name] = L((s.module or "") + "." + a.name)

    def st_FunctionDef(self, s, fr):
        fr.env[s.name] = F([("func", s, fr.mod, dict(fr.env), fr.cls_def, None)])

    def st_Assert(self, s, fr):
        self.ev(s.test, fr)

    def st_Return(self, s, fr):
        fr.returns.append(self.ev(s.value, fr) if s.value is not None else K(None))
        self.s_emit("Return")
        raise Terminated()

    def st_Raise(self, s, fr):
        if s.exc is not None:
            self.ev(s.exc, fr)
        self.s_emit("Raise")
        raise Terminated()

    def st_Assign(self, s, fr):
        v = self.ev(s.value, fr)
        for t in s.targets:
            self.assign(t, v, fr)

    def st_AnnAssign(self, s, fr):
        if s.value is not None:
            self.assign(s.target, self.ev(s.value, fr), fr)

    def assign(self, t, v, fr):
        if isinstance(t, ast.Name):
            fr.env[t.id] = v
            fr.narrow.pop(ast.dump(ast.Name(id=t.id, ctx=ast.Load())), None)
        elif isinstance(t, (ast.Tuple, ast.List)):
            if isinstance(v, T) and len(v.items) == len(t.elts) and not any(isinstance(e, ast.Starred) for e in t.elts):
                for e, it in zip(t.elts, v.items):
                    self.assign(e, it, fr)
            else:
                for e in t.elts:
                    if isinstance(e, ast.Starred):
                        c = self.fresh("rest", obj="s@%s:%s" % (fr.mod, self._pos()))
                        self.store_elem(c, self.iter_elem(v))
                        self.assign(e.value, c, fr)
                    else:
                        self.assign(e, self.iter_elem(v), fr)
        elif isinstance(t, ast.Starred):
            self.assign(t.value, v, fr)
        elif isinstance(t, ast.Attribute):
            ov = self.ev(t.value, fr)
            if isinstance(ov, R) and ov.obj:
                self.store_attr(ov, t.attr, v, t)
            else:
                self.write(ov, t, "attribute assignment on an object of unknown class")
                for r in self.refs(ov):
                    for q in self.refs(v):
                        self.emit("Alias", r.var, q.var)
        elif isinstance(t, ast.Subscript):
            base = self.ev(t.value, fr)
            idx = self.ev(t.slice, fr)
            if isinstance(base, T):
                if isinstance(t.value, ast.Name):
                    fr.env[t.value.id] = T(base.items + [v])
            elif isinstance(base, KW):
                if isinstance(idx, K):
                    base.known[idx.val] = v
                elif base.rest is not None:
                    self.store_elem(base.rest, v)
            else:
                self.write(base, t, "item assignment")
                if isinstance(base, R) and base.obj:
                    self.store_elem(base, v)
        else:
            self.fail_closed([v], t, "assignment target " + type(t).__name__)

    def st_AugAssign(self, s, fr):
        t = s.target
        rhs = self.ev(s.value, fr)
        if isinstance(t, ast.Name):
            cur = self.ev(ast.Name(id=t.id, ctx=ast.Load(), lineno=s.lineno, col_offset=s.col_offset), fr)
            if isinstance(cur, T):
                fr.env[t.id] = T(cur.items + (rhs.items if isinstance(rhs, T) else [self.iter_elem(rhs)]))
            elif isinstance(cur, K) or (isinstance(cur, R) and cur.kind == "scalar"):
                fr.env[t.id] = self.fresh(t.id, kind="scalar" if self._scalar(rhs) else None)
            elif isinstance(cur, R):
                self.write(cur, s, "augmented assignment (in place for arrays)")
                if cur.obj and cur.cls is None:
                    self.store_elem(cur, self.iter_elem(rhs))
            else:
                self.fail_closed([cur, rhs], s, "augmented assignment")
        elif isinstance(t, ast.Attribute):
            ov = self.ev(t.value, fr)
            if isinstance(ov, R) and ov.obj:
                cur = self.load_attr(ov, t.attr, t)
                if isinstance(cur, R) and cur.kind == "scalar":
                    self.store_attr(ov, t.attr, self.fresh(t.attr, kind="scalar" if self._scalar(rhs) else None), t)
                else:
                    self.write(cur, s, "augmented assignment on attribute %s (in place for arrays)" % t.attr)
                    if ov.obj == "self" and t.attr in self.hyper and not self.is_init:
                        self.emit("SetParam", self.u.pname(t.attr), self.site(s, "hyper-parameter %s re-assigned" % t.attr))
            else:
                self.write(self.derived([ov], t.attr), s, "augmented assignment on a field")
                self.write(ov, s, "augmented assignment on a field")
        elif isinstance(t, ast.Subscript):
            base = self.ev(t.value, fr)
            self.ev(t.slice, fr)
            if isinstance(base, (T, KW)):
                pass
            else:
                self.write(base, s, "augmented item assignment")
        else:
            self.fail_closed([rhs], s, "augmented assignment target")

    def _branch(self, stmts, fr, env, must, narrow=None):
        """execute stmts in a copy of the environment; -> (env or None if terminated, must)"""
        saved_env, saved_must, saved_narrow = fr.env, self.must, fr.narrow
        fr.env = dict(env)
        self.must = set(must) if must is not None else None
        fr.narrow = dict(saved_narrow)
        for d in narrow or ():
            fr.narrow[d] = "scalar"
        self.s_push()
        try:
            try:
                self.exec_block(stmts, fr)
                res = (fr.env, self.must)
            except Terminated:
                res = (None, self.must)
        finally:
            fr.env, self.must, fr.narrow = saved_env, saved_must, saved_narrow
            self.last_blk = self.s_pop()
        return res

    def _hasattr_test(self, test, fr):
        """(key, negated) when test is [not] hasattr(self, "<const>")"""
        neg = False
        if isinstance(test, ast.UnaryOp) and isinstance(test.op, ast.Not):
            test, neg = test.operand, True
        if isinstance(test, ast.Call) and isinstance(test.func, ast.Name) and test.func.id == "hasattr" \
                and len(test.args) == 2 and isinstance(test.args[0], ast.Name) and isinstance(test.args[1], ast.Constant):
            ov = fr.env.get(test.args[0].id)
            if isinstance(ov, R) and ov.obj == "self":
                return "self." + str(test.args[1].value), neg
        return None, False

    def _reset_pattern(self, s, fr):
        """key when s is exactly `if hasattr(o, "a"): del o.a` (o a tracked object): a total reset of a"""
        if s.orelse or len(s.body) != 1 or not isinstance(s.body[0], ast.Delete) or len(s.body[0].targets) != 1:
            return None
        t, d = s.test, s.body[0].targets[0]
        if isinstance(t, ast.Call) and isinstance(t.func, ast.Name) and t.func.id == "hasattr" and "hasattr" not in fr.env \
                and len(t.args) == 2 and isinstance(t.args[0], ast.Name) and isinstance(t.args[1], ast.Constant) \
                and isinstance(d, ast.Attribute) and isinstance(d.value, ast.Name) and d.value.id == t.args[0].id \
                and d.attr == t.args[1].value:
            ov = fr.env.get(d.value.id)
            if isinstance(ov, R) and ov.obj:
                return ov.obj + "." + d.attr
        return None

    def st_If(self, s, fr):
        rkey = self._reset_pattern(s, fr) if self.s_on() else None
        if rkey is None:
            return self._st_If(s, fr)
        self.s_emit("Reset", rkey, self.k_site(s, "guarded del of " + rkey, rkey))
        self.s_mute += 1
        try:
            return self._st_If(s, fr)
        finally:
            self.s_mute -= 1

    def _st_If(self, s, fr):
        t = self.truth(s.test, fr)
        hkey, hneg = self._hasattr_test(s.test, fr) if self.must is not None else (None, False)
        nstale = len(self.u.stale)
        self.ev(s.test, fr)
        hstale = self.u.stale[nstale:] if hkey else []
        if hkey:
            del self.u.stale[nstale:]
        nar = self.narrowing(s.test, fr)
        if t is True:
            e, m = self._branch(s.body, fr, fr.env, self.must, nar)
            self.s_splice(self.last_blk)
            if e is None:
                raise Terminated()
            fr.env, self.must = e, m
            return
        if t is False:
            e, m = self._branch(s.orelse, fr, fr.env, self.must)
            self.s_splice(self.last_blk)
            if e is None:
                raise Terminated()
            fr.env, self.must = e, m
            return
        mt, mf = self.must, self.must
        if hkey:
            # where hasattr(self, "a") is false the attribute is known to be absent: its state is determined
            absent = set(self.must) | {hkey}
            if hneg:
                mt = absent
            else:
                mf = absent
        e1, m1 = self._branch(s.body, fr, fr.env, mt, nar)
        b1 = self.last_blk
        e2, m2 = self._branch(s.orelse, fr, fr.env, mf)
        b2 = self.last_blk
        if b1 or b2:
            self.s_emit("If", self.s_site(s, "if"), b1, b2)
        if e1 is None and e2 is None:
            raise Terminated()
        fr.env = self.merge_envs([e1, e2])
        if self.must is not None:
            live = [m for e, m in ((e1, m1), (e2, m2)) if e is not None]
            self.must = set.intersection(*live) if live else self.must
            if hkey and hkey not in self.must:
                self.u.stale += hstale       # the test consulted state that this call does not determine

    def _loop(self, s, fr, bind):
        names = _assigned_names(s.body)
        loopvars = {}
        for n in names:
            if n not in fr.env:
                continue
            v = fr.env[n]
            if isinstance(v, K):
                fr.env[n] = R(self.u.var(n), kind="scalar")
            elif isinstance(v, (T, KW, Iter)):
                fr.env[n] = self.to_ref(v, n)
                loopvars[n] = fr.env[n]
            elif isinstance(v, R):
                m = self.u.var(n + ".loop")
                self.emit("Alias", m, v.var)
                fr.env[n] = R(m, obj=v.obj, cls=v.cls, kind=v.kind, sa=v.sa)
                loopvars[n] = fr.env[n]
        pre = dict(fr.env)
        must0 = self.must
        saved_env = fr.env
        fr.env = dict(pre)
        self.must = set(must0) if must0 is not None else None
        self.s_push()
        try:
            bind()
            try:
                self.exec_block(s.body, fr)
            except Terminated:
                pass
            post = fr.env
        finally:
            fr.env = saved_env
            self.must = must0
            blk = self.s_pop()
            if blk:
                self.s_emit("While", self.s_site(s, "loop"), blk)
        for n, lv in loopvars.items():
            pv = post.get(n)
            for r in self.refs(pv) if pv is not None else []:
                if r.var != lv.var:
                    self.emit("Alias", lv.var, r.var)
        fr.env = self.merge_envs([pre, post])
        if s.orelse:
            self.exec_block(s.orelse, fr)

    def st_For(self, s, fr):
        it = self.ev(s.iter, fr)
        self._loop(s, fr, lambda: self.assign(s.target, self.iter_elem(it), fr))

    def st_While(self, s, fr):
        self.ev(s.test, fr)
        self._loop(s, fr, lambda: self.ev(s.test, fr))

    def st_With(self, s, fr):
        for it in s.items:
            v = self.ev(it.context_expr, fr)
            if it.optional_vars is not None:
                self.assign(it.optional_vars, v, fr)
        self.exec_block(s.body, fr)

    def st_Try(self, s, fr):
        pre = dict(fr.env)
        must0 = set(self.must) if self.must is not None else None
        self.try_depth += 1
        try:
            e_body, m_body = self._branch(s.body + s.orelse, fr, fr.env, self.must)
        finally:
            self.try_depth -= 1
        b_body, b_handlers = self.last_blk, []
        envs = [e_body]
        musts = [m_body] if e_body is not None else []
        start = self.merge_envs([pre, e_body]) if e_body is not None else pre
        for h in s.handlers:
            if h.type is not None:
                self.ev(h.type, fr)
            henv = dict(start)
            if h.name:
                henv[h.name] = self.fresh("exc")
            e, m = self._branch(h.body, fr, henv, must0)
            b_handlers.append(self.last_blk)
            envs.append(e)
            if e is not None:
                musts.append(m)
        if self.s_on():
            nest = b_handlers[-1] if b_handlers else []
            for b in reversed(b_handlers[:-1]):
                nest = [("If", self.site(s, "which handler"), b, nest)]
            self.s_emit("Try", self.site(s, "try"), b_body, nest)
        live = [e for e in envs if e is not None]
        if not live:
            if s.finalbody:
                self.exec_block(s.finalbody, fr)
            raise Terminated()
        fr.env = self.merge_envs(live)
        if self.must is not None:
            self.must = set.intersection(*musts) if musts else must0
        if s.finalbody:
            self.exec_block(s.finalbody, fr)


# --------------------------------------------------------------------------- entry points
ENTRY_METHODS = ["fit", "transform", "inverse_transform", "predict", "score", "score_samples", "fit_transform"]


def entry_methods(ix, ci):
    """[(name, FunctionDef, defining ClassInfo)]: __init__, the standard API and every public method
    defined in skmatter for this class"""
    names = ["__init__"] + ENTRY_METHODS
    for kind, c in ix.mro(ci):
        if kind == "int" and c.mod != "__stubs__":
            for n in c.methods:
                if not n.startswith("_") and n not in names:
                    names.append(n)
    out = []
    for n in names:
        fm = ix.find_method(ci, n)
        if fm is not None and not (fm[1].mod == "__stubs__" and n == "__init__"):
            out.append((n, fm[0], fm[1]))
    return out


def _bind_entry_params(tr, fn, unit, label, forced, selfv=None):
    """environment of an entry point: every parameter is a caller root (T3 exceptions apply)"""
    env = {}
    a = fn.args
    params = list(a.posonlyargs) + list(a.args)
    if selfv is not None and params:
        env[params[0].arg] = selfv
        params = params[1:]
    allp = list(a.posonlyargs) + list(a.args)
    defaults = {}
    for i, d in enumerate(a.defaults):
        defaults[allp[len(allp) - len(a.defaults) + i].arg] = d
    for p, d in zip(a.kwonlyargs, a.kw_defaults):
        if d is not None:
            defaults[p.arg] = d
    for p in params + list(a.kwonlyargs):
        n = p.arg
        if n in forced:
            env[n] = K(forced[n])
            continue
        if n in DEFAULT_PARAMS and n in defaults:
            try:
                env[n] = K(ast.literal_eval(defaults[n]))
                continue
            except Exception:
                pass
        v = unit.var("%s:%s" % (label, n))
        if n not in NON_DATA_PARAMS:
            unit.roots.append(v)
        env[n] = R(v)
    if a.vararg is not None:
        v = unit.var("%s:*%s" % (label, a.vararg.arg))
        unit.roots.append(v)
        c = tr.fresh("varargs", obj="v@entry:%s" % label)
        tr.store_elem(c, R(v))
        env[a.vararg.arg] = c
    if a.kwarg is not None:
        v = unit.var("%s:**%s" % (label, a.kwarg.arg))
        unit.roots.append(v)
        c = tr.fresh("kwargs", obj="k@entry:%s" % label)
        tr.store_elem(c, R(v))
        env[a.kwarg.arg] = KW({}, c)
    return env


def translate_class(ix, ci, label, passes=4):
    facts = {}
    unit = None
    for _ in range(passes):
        unit = Unit(ix, label, facts)
        hyper = ix.ctor_params(ci)
        unit.hyper = hyper
        unit.is_class = True
        unit.stored = {}
        for name, fn, cdef in entry_methods(ix, ci):
            tr = Translator(unit, "%s.%s" % (label, name), hyper=hyper, is_init=(name == "__init__"))
            selfv = tr.fresh("self", obj="self", cls=ci)
            env = _bind_entry_params(tr, fn, unit, name, {}, selfv)
            fr = Frame(cdef.mod, env, cdef, selfv, name)
            tr.stack.append(name)
            fell_through = False
            try:
                tr.exec_block(fn.body, fr)
                fell_through = True
            except Terminated:
                pass
            if name == "fit":
                # clause "fit returns the estimator itself": every return statement of fit yields `self`
                bad = ["falls off the end of fit (returns None)"] if fell_through else []
                bad += ["returns %r" % (r,) for r in fr.returns if not (isinstance(r, R) and r.obj == "self")]
                unit.fit_returns_not_self = bad
            unit.stored[name] = set(tr.stored_attrs)
            unit.bodies.append((name, tr.out))
        merged = {k: set(v) for k, v in facts.items()}
        for k, v in unit.newfacts.items():
            merged.setdefault(k, set()).update(v)
        if merged == facts:
            break
        facts = merged
    unit.stale = stale_reads(ix, ci, label, facts, unit)
    unit.refit = refit_program(ix, ci, label, facts)
    return unit


def refit_program(ix, ci, label, facts):
    """structured attribute-state IR (coq/Model/Refit.v) of every method of the class except __init__:
    the cold fit first (warm_start=False where fit has such a flag), then the unconstrained variants and
    all other entry points -- they are the possible history of the object and define, in Coq, which
    attributes are `learned`.  -> Unit with .s_methods = [(name, block)], .sites, .s_failclosed"""
    su = Unit(ix, label, facts)
    su.is_class = True
    hyper = ix.ctor_params(ci)
    su.hyper = hyper
    methods = []
    for name, fn, cdef in entry_methods(ix, ci):
        if name == "__init__":
            # not recorded (a fresh estimator is the state after __init__); run to register the functions and
            # instances it stores in attributes
            tr = Translator(su, "%s.__init__" % label, hyper=hyper, is_init=True)
            selfv = tr.fresh("self", obj="self", cls=ci)
            env = _bind_entry_params(tr, fn, su, name, {}, selfv)
            try:
                tr.exec_block(fn.body, Frame(cdef.mod, env, cdef, selfv, name))
            except Terminated:
                pass
            su.init_stored = set(tr.stored_attrs)
            continue
        variants = [(name, {})]
        if name == "fit":
            a = fn.args
            if any(p.arg == "warm_start" for p in list(a.args) + list(a.kwonlyargs)):
                variants = [("fit", {"warm_start": False}), ("fit[warm_start=True]", {"warm_start": True})]
        for vname, forced in variants:
            tr = Translator(su, "%s.%s" % (label, vname), hyper=hyper, is_init=False)
            tr.sb = [[]]
            selfv = tr.fresh("self", obj="self", cls=ci)
            env = _bind_entry_params(tr, fn, su, vname, forced, selfv)
            tr.stack.append(name)
            try:
                tr.exec_block(fn.body, Frame(cdef.mod, env, cdef, selfv, name))
            except Terminated:
                pass
            methods.append((vname, tr.sb[0]))
    if not methods or methods[0][0] != "fit":
        methods = []
    su.s_methods = methods
    su.s_keys = {}
    return su


# --------------------------------------------------------------------------- structured IR: numbering, Coq text
def s_key(su, key):
    if key not in su.s_keys:
        su.s_keys[key] = len(su.s_keys) + 1
    return su.s_keys[key]


def s_collect_keys(su):
    def walk(blk):
        for n in blk:
            if n[0] in ("Read", "Assign", "Del", "Reset"):
                s_key(su, n[1])
            elif n[0] == "If":
                walk(n[2]); walk(n[3])
            elif n[0] == "While":
                walk(n[2])
            elif n[0] == "Call":
                walk(n[1])
            elif n[0] == "Try":
                walk(n[2]); walk(n[3])
    for _, blk in su.s_methods:
        walk(blk)


def s_fitted_keys(su, obj):
    pre = obj + "."
    return sorted(k for k in su.s_keys if k.startswith(pre) and "." not in k[len(pre):]
                  and k.endswith("_") and not k[len(pre):].startswith("__"))


def s_expand(su, blk):
    """numbered form of a block: ReadFitted expanded, keys -> positive numbers"""
    out = []
    for n in blk:
        k = n[0]
        if k in ("Read", "Assign", "Del", "Reset"):
            out.append((k, su.s_keys[n[1]], n[2]))
        elif k == "ReadFitted":
            out += [("Read", su.s_keys[key], n[2]) for key in s_fitted_keys(su, n[1])]
        elif k == "If":
            out.append(("If", n[1], s_expand(su, n[2]), s_expand(su, n[3])))
        elif k == "While":
            out.append(("While", n[1], s_expand(su, n[2])))
        elif k == "Call":
            out.append(("Call", s_expand(su, n[1])))
        elif k == "Try":
            out.append(("Try", n[1], s_expand(su, n[2]), s_expand(su, n[3])))
        else:
            out.append(n)
    return out


def s_numbered(su):
    """[(method name, numbered block)]; stable numbering of the attribute keys"""
    if not su.s_keys:
        s_collect_keys(su)
    return [(name, s_expand(su, blk)) for name, blk in su.s_methods]


def blk_coq(blk):
    # right-nested CSeq (= cseq of the list; the list notation is slow to elaborate on large nested terms)
    if not blk:
        return "CSkip"
    parts = [node_coq(n) for n in blk]
    out = parts[-1]
    for p in reversed(parts[:-1]):
        out = "CSeq (%s) (%s)" % (p, out)
    return out


REFIT_HEAD = "Definition sn (p : positive) : nat := Pos.to_nat p.\n"


def _site(i):
    # sites are nat in the model; a unary literal of that size is slow to elaborate, so the generated file
    # writes site i as `sn (i+1)` (binary positive, converted during evaluation); the reader subtracts 1
    return "(sn %d)" % (i + 1)


def node_coq(n):
    k = n[0]
    if k in ("Read", "Assign", "Del", "Reset"):
        return "C%s %d %s" % (k, n[1], _site(n[2]))
    if k == "If":
        return "CIf %s (%s) (%s)" % (_site(n[1]), blk_coq(n[2]), blk_coq(n[3]))
    if k == "While":
        return "CWhile %s (%s)" % (_site(n[1]), blk_coq(n[2]))
    if k == "Call":
        return "CCall (%s)" % blk_coq(n[1])
    if k == "Try":
        return "CTry %s (%s) (%s)" % (_site(n[1]), blk_coq(n[2]), blk_coq(n[3]))
    return "C" + k


def refit_coq(su, idx):
    """Coq definitions of one class: rcls_<idx> : cls"""
    ms = s_numbered(su)
    lines = []
    for j, (name, blk) in enumerate(ms):
        lines.append("Definition rm_%d_%d : cmd := %s." % (idx, j, blk_coq(blk)))
    lines.append("Definition rcls_%d : cls := mkCls rm_%d_0 [%s]." % (
        idx, idx, "; ".join("rm_%d_%d" % (idx, j) for j in range(1, len(ms)))))
    return "\n".join(lines)


def stale_reads(ix, ci, label, facts, unit):
    """definite-assignment diagnostic for sub-claim (b): learned attributes (assigned by a cold fit, not
    by __init__, not hyper-parameters) that fit may read -- also through hasattr/getattr -- on a path
    on which this very call has not assigned them yet: state of a previous fit can leak into a refit."""
    su = Unit(ix, label, facts)
    hyper = ix.ctor_params(ci)
    res = {}
    for name, fn, cdef in entry_methods(ix, ci):
        if name not in ("__init__", "fit"):
            continue
        tr = Translator(su, "%s.%s" % (label, name), hyper=hyper, is_init=(name == "__init__"))
        selfv = tr.fresh("self", obj="self", cls=ci)
        env = _bind_entry_params(tr, fn, su, name, {"warm_start": False} if name == "fit" else {}, selfv)
        if name == "fit":
            tr.must = set()
        try:
            tr.exec_block(fn.body, Frame(cdef.mod, env, cdef, selfv, name))
        except Terminated:
            pass
        res[name] = tr
    if "fit" not in res:
        return []
    init_stored = res["__init__"].stored_attrs if "__init__" in res else set()
    learned = res["fit"].stored_attrs - init_stored - set(hyper)
    return sorted({(a, loc) for _, a, loc in su.stale if a in learned})


def translate_function(ix, fdesc, label):
    _, fn, mod = fdesc
    unit = Unit(ix, label, {})
    unit.hyper = []
    unit.is_class = False
    tr = Translator(unit, label)
    env = _bind_entry_params(tr, fn, unit, label, FORCED.get(fn.name, {}))
    fr = Frame(mod, env, None, None, fn.name)
    tr.stack.append(fn.name)
    try:
        tr.exec_block(fn.body, fr)
    except Terminated:
        pass
    unit.bodies.append((fn.name, tr.out))
    return unit


def translate_repo(repo):
    """-> [Unit] for every public class / function of the package under <repo>/src/skmatter"""
    ix = Index(repo)
    units, seen = [], set()
    for pkg, name, v in ix.public_api():
        if isinstance(v, ClassInfo):
            units.append(translate_class(ix, v, "%s.%s" % (pkg, name)))
        else:
            if id(v[1]) in seen:
                continue
            seen.add(id(v[1]))
            units.append(translate_function(ix, v, "%s.%s" % (pkg, name)))
    return units


# --------------------------------------------------------------------------- Coq text
def stmt_coq(st):
    k = st[0]
    if k == "Fresh":
        return "Fresh %d" % st[1]
    if k in ("Alias", "MayAlias", "StoreAttr", "LoadAttr"):
        return "%s %d %d" % (k, st[1], st[2])
    return "%s %d %d" % (k, st[1], st[2])          # Write x site / SetParam p site


def unit_coq(unit, idx):
    """Coq definitions for one unit; verdicts are encoded as a flat nat list per entry point:
    [safe; closed; number of sites; sites...]"""
    lines = []
    names = []
    for j, (name, body) in enumerate(unit.bodies):
        nm = "b_%d_%d" % (idx, j)
        names.append(nm)
        txt = "; ".join(stmt_coq(s) for s in body)
        lines.append("Definition %s : list stmt := [%s]." % (nm, txt))
    lines.append("Definition bodies_%d : list (list stmt) := [%s]." % (idx, "; ".join(names)))
    roots = "[%s]%%positive" % "; ".join(str(r) for r in unit.roots) if unit.roots else "[]"
    lines.append("Definition roots_%d : list var := %s." % (idx, roots))
    return "\n".join(lines)
