"""Generators and implementation drivers for the greedy selectors (FPS family).

Exactness domain (layer D): integer-valued X, y with |entries| <= 2^10 and
dimension <= 2^6, so every numpy operation the modelled code performs is exact in
binary64 and model and implementation must agree bit for bit.
"""
import math
import warnings

import numpy as np

from harness import common as C


# ----------------------------------------------------------------------------- data
FAMILIES = ["uniform", "clustered", "duplicates", "lattice1d", "lowrank", "scaled", "ties01"]


def gen_matrix(rng, n, d, family):
    """n candidates (rows) of dimension d, integer entries."""
    if family == "uniform":
        return [[rng.randint(-8, 8) for _ in range(d)] for _ in range(n)]
    if family == "clustered":
        k = rng.randint(2, 4)
        cen = [[rng.randint(-60, 60) for _ in range(d)] for _ in range(k)]
        return [[c + rng.randint(-2, 2) for c in cen[rng.randrange(k)]] for _ in range(n)]
    if family == "duplicates":
        k = max(1, rng.randint(1, max(1, n // 2)))
        base = [[rng.randint(-5, 5) for _ in range(d)] for _ in range(k)]
        return [list(base[rng.randrange(k)]) for _ in range(n)]
    if family == "lattice1d":
        return [[rng.randint(-6, 6)] + [0] * (d - 1) for _ in range(n)]
    if family == "lowrank":
        r = 1 if d < 3 else rng.randint(1, 2)
        B = [[rng.randint(-3, 3) for _ in range(d)] for _ in range(r)]
        A = [[rng.randint(-3, 3) for _ in range(r)] for _ in range(n)]
        return [[sum(A[i][k] * B[k][j] for k in range(r)) for j in range(d)] for i in range(n)]
    if family == "scaled":
        s = 2 ** rng.randint(1, 5)
        return [[s * rng.randint(-8, 8) for _ in range(d)] for _ in range(n)]
    if family == "ties01":
        return [[rng.randint(-1, 1) for _ in range(d)] for _ in range(n)]
    raise ValueError(family)


def gen_y(rng, n, p):
    return [[rng.randint(-6, 6) for _ in range(p)] for _ in range(n)]


def transpose(M):
    return [list(r) for r in zip(*M)]


# ----------------------------------------------------------------------------- driver
def make_selector(kind, axis, **kw):
    import skmatter.feature_selection as fs
    import skmatter.sample_selection as ss
    mod = ss if axis == 0 else fs
    cls = {"fps": "FPS", "pcovfps": "PCovFPS", "voronoi": "VoronoiFPS", "cur": "CUR",
           "pcovcur": "PCovCUR"}[kind]
    return getattr(mod, cls)(**kw)


def err_class(e):
    if isinstance(e, ValueError):
        return "ValueError"
    if isinstance(e, TypeError):
        return "TypeError"
    if isinstance(e, IndexError):
        return "IndexError"
    return type(e).__name__


def observe(sel, X, axis, scale=1, data_scale=1):
    """Everything public the FPS family reports after a fit, as exact integers.
    `scale` multiplies distances (PCov-FPS with mixing k/4 is compared as 4*K~)."""
    o = {}
    o["sel"] = [int(i) for i in sel.selected_idx_]
    o["nsel"] = int(sel.n_selected_)
    haus = np.asarray(sel.get_distance(), float) * scale
    o["haus"] = [float("inf") if math.isinf(h) else h for h in haus]
    o["haus"] = [h if (isinstance(h, float) and math.isinf(h)) else C.as_int_matrix(np.array([h]), "haus")[0]
                 for h in o["haus"]]
    try:
        sd = np.asarray(sel.get_select_distance(), float) * scale
        o["seld"] = [h if math.isinf(h) else C.as_int_matrix(np.array([h]), "seld")[0] for h in sd]
        o["seld_err"] = None
    except Exception as e:  # noqa
        o["seld"] = []
        o["seld_err"] = err_class(e)
    xs = np.asarray(sel.X_selected_, float) * data_scale
    if axis == 1:
        xs = xs.T
    o["xsel"] = C.as_int_matrix(xs, "X_selected_") if xs.size else [[] for _ in range(xs.shape[0])]
    if hasattr(sel, "y_selected_") and axis == 0:
        o["ysel"] = C.as_int_matrix(np.asarray(sel.y_selected_, float).reshape(len(sel.y_selected_), -1) * data_scale, "y_selected_")
    else:
        o["ysel"] = []
    o["support"] = [bool(b) for b in sel.get_support()]
    o["sorted"] = [int(i) for i in sel.get_support(indices=True)]
    o["ordered"] = [int(i) for i in sel.get_support(indices=True, ordered=True)]
    if axis == 1:
        o["transform"] = C.as_int_matrix(np.asarray(sel.transform(X), float).T * data_scale, "transform")
    return o


def run_chain(kind, axis, Xrows, y, init, stages, extra=None, scale=1, observe_fn=observe, prefit=None,
              data_scale=1):
    """Fit a chain: stage 0 cold, later stages warm-started.
    stage = dict(nts=<None|int|float>, thr=<None|(num,den)>, thr_type='absolute'|'relative').
    Returns list of per-stage dicts with 'obs' or 'error'."""
    X = np.array(Xrows, dtype=float)
    Y = None if y is None else np.array(y, dtype=float)
    kw = dict(extra or {})
    if init is not None:
        kw["initialize"] = init
    sel = make_selector(kind, axis, **kw)
    if prefit is not None:
        # an earlier cold fit of the same object on other data (history)
        sel.n_to_select = prefit["nts"]
        with warnings.catch_warnings():
            warnings.simplefilter("ignore")
            if prefit.get("y") is None:
                sel.fit(np.array(prefit["X"], dtype=float))
            else:
                sel.fit(np.array(prefit["X"], dtype=float), np.array(prefit["y"], dtype=float))
    out = []
    for si, st in enumerate(stages):
        thr = st.get("thr")
        for k_, v_ in dict(n_to_select=st["nts"],
                           score_threshold=None if thr is None else thr[0] / thr[1],
                           score_threshold_type=st.get("thr_type", "absolute")).items():
            setattr(sel, k_, v_)      # what BaseEstimator.set_params does (VoronoiFPS hides them in **kwargs)
        rec = {}
        with warnings.catch_warnings(record=True) as w:
            warnings.simplefilter("always")
            try:
                if Y is None:
                    sel.fit(X, warm_start=(si > 0))
                else:
                    sel.fit(X, Y, warm_start=(si > 0))
                rec["stopped"] = any("Score threshold" in str(x.message) for x in w)
                rec["obs"] = observe_fn(sel, X, axis, scale, data_scale) if data_scale != 1 else observe_fn(sel, X, axis, scale)
            except C.InexactOutput:
                raise
            except Exception as e:  # noqa
                rec["error"] = err_class(e)
                rec["error_msg"] = str(e)[:200]
        out.append(rec)
        if "error" in rec:
            break
    return out, sel


# ----------------------------------------------------------------------------- Coq text
def thr_coq(st):
    thr = st.get("thr")
    if thr is None:
        return "NoThr"
    return "(%s %s %s)" % ("AbsThr" if st.get("thr_type", "absolute") == "absolute" else "RelThr",
                           C.Zl(thr[0]), C.Zl(thr[1]))


def obs_coq(o, stopped):
    return ("(mk_obs %s %s %s %s %s %s %s %s %d%%nat)" % (
        C.natlist(o["sel"]), C.extzlist(o["haus"]), C.extzlist(o["seld"]), C.zmat(o["xsel"]),
        C.zmat(o["ysel"]), C.blist(o["support"]), C.natlist(o["sorted"]),
        "true" if stopped else "false", o["nsel"]))


def resolve_niter(n, nts):
    if nts is None:
        return n // 2
    if isinstance(nts, int):
        return nts
    return int(n * nts)
