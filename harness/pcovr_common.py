"""Shared helpers of the PCovR checks C14 / C03 / C04 (model: coq/Model/PCovR.v).

Generators (from ctx.rng only), drivers of the implementation (public API of
skmatter.decomposition.PCovR and skmatter.utils.pcovr_covariance / pcovr_kernel), the numpy
mirror of the model programs that produces the oracle hints (numpy's decompositions of the
matrices the *model* forms), the gates for ill-conditioned comparisons, and the writer /
parser of the Coq case files.
"""
import ast
import re
import warnings

import numpy as np

from harness import common as C

TOL = 1e-12          # PCovR(tol=...) default, also rcond of pcovr_covariance
RTOL = 1e-7          # model vs implementation, sign-/basis-invariant quantities
ATOL = 1e-9
EPS_HYP = 1e-9       # oracle hypotheses: residual <= EPS_HYP * (1 + scale)
GAP_MIN = 1e-3       # relative eigen-gap at the cut below which a comparison is skipped
COND_MAX = 1e6       # largest admitted ratio of retained eigenvalues of X^T X

ANCHORS = {
    "src/skmatter/decomposition/_pcovr.py": [
        "PCovR.fit", "PCovR._fit_feature_space", "PCovR._fit_sample_space",
        "PCovR._decompose_full", "PCovR._decompose_truncated", "PCovR.inverse_transform",
        "PCovR.predict", "PCovR.transform", "PCovR.score"],
    "src/skmatter/utils/_pcovr_utils.py": ["pcovr_covariance", "pcovr_kernel", "check_lr_fit"],
}

OUTPUT_NAMES = [
    "pxt_@ptx_", "ptx_@pxt_", "pxy_", "T@T.T", "(T.T@T)**2", "inverse_transform(T)", "predict(X)",
    "predict(T=T)", "singular_values_", "explained_variance_", "score(X,Y)",
    "inverse_transform(transform(Xn))", "Tn@Tn.T", "predict(Xn)", "predict(T=transform(Xn))",
    "score(Xn,Yn)"]
RESIDUAL_NAMES = [
    "Yhat=XW", "UC^T UC=I", "X^T X UC=UC diag vC", "vC decreasing", "V^T V=I", "M V=V diag S",
    "S decreasing", "M symmetric", "Penrose ABA=A", "Penrose BAB=B", "Penrose (AB)^T=AB",
    "Penrose (BA)^T=BA"]


def np_rng(rng):
    return np.random.default_rng(rng.getrandbits(62))


# ------------------------------------------------------------------------------- generators
FAMILIES = ["tall", "wide", "square", "rankdef", "offset"]


def gen_dataset(rng, quick=True, family=None):
    """Centred X of a given shape family, centred Y with 1..3 targets, new data (Xn, Yn)."""
    g = np_rng(rng)
    fam = family or rng.choice(FAMILIES + ["tall", "wide"])
    hi = 6 if quick else 8
    if fam in ("tall", "offset"):
        m = rng.randint(2, hi - 2)
        n = rng.randint(m + 1, hi)
    elif fam == "wide":
        n = rng.randint(3, hi - 1)
        m = rng.randint(n + 1, hi + 1)
    elif fam == "square":
        n = m = rng.randint(3, hi - 1)
    else:                                        # rank deficient, either orientation
        n = rng.randint(4, hi)
        m = rng.randint(3, hi)
    p = rng.choice([1, 1, 2, 3])
    if fam == "rankdef":
        r = rng.randint(1, max(1, min(n - 1, m) - 1))
        X = g.normal(size=(n, r)) @ g.normal(size=(r, m))
    else:
        X = g.normal(size=(n, m))
        r = None
    # moderate random column scales
    X = X * g.uniform(0.5, 2.0, size=(1, m))
    X = X - X.mean(axis=0)
    if fam == "offset":
        X = X + g.uniform(-0.2, 0.2, size=(1, m))
    Wtrue = g.normal(size=(m, p))
    Y = X @ Wtrue + rng.choice([0.1, 0.5, 1.0]) * g.normal(size=(n, p))
    Y = Y - Y.mean(axis=0)
    q = 3
    Xn = g.normal(size=(q, m)) * 1.5
    Yn = Xn @ Wtrue + 0.3 * g.normal(size=(q, p))
    return dict(family=fam, n=n, m=m, p=p, q=q, rank_made=r, X=X, Y=Y, Xn=Xn, Yn=Yn,
                centred=(fam != "offset"))


REG_KINDS = ["default", "ridge", "linreg", "pre_W", "pre_noW", "prefit"]
MIXINGS = [0.0, 0.1, 0.5, 0.9, 1.0]


def gen_config(rng, ds, mixing=None, k=None, space=None, solver="full", reg=None):
    a = mixing if mixing is not None else (rng.choice(MIXINGS) if rng.random() < 0.6
                                            else round(rng.uniform(0.02, 0.98), 3))
    kmax = min(ds["n"], ds["m"])
    return dict(a=float(a), k=k if k is not None else rng.randint(1, kmax),
                space=space or rng.choice(["feature", "sample", "auto"]),
                solver=solver, reg=reg or rng.choice(REG_KINDS),
                alpha=rng.choice([1e-3, 0.1, 1.0]),
                y1d=(ds["p"] == 1 and rng.random() < 0.5))


def is_sample(ds, cfg):
    if cfg["space"] == "auto":
        return not (ds["n"] > ds["m"])
    return cfg["space"] == "sample"


# ------------------------------------------------------------------- implementation drivers
def _regressor(ds, cfg):
    """(regressor parameter, Y to pass to fit, W to pass to fit)."""
    from sklearn.linear_model import LinearRegression, Ridge
    X, Y = ds["X"], ds["Y"]
    Yfit = Y[:, 0] if cfg["y1d"] else Y
    kind = cfg["reg"]
    if kind == "default":
        return None, Yfit, None
    if kind == "ridge":
        return Ridge(alpha=cfg["alpha"], fit_intercept=False, tol=1e-12), Yfit, None
    if kind == "linreg":
        return LinearRegression(fit_intercept=False), Yfit, None
    if kind == "prefit":
        r = Ridge(alpha=cfg["alpha"], fit_intercept=False, tol=1e-12)
        r.fit(X, Yfit)
        return r, Yfit, None
    # precomputed: the caller hands in Yhat (and possibly W)
    W0 = np.linalg.solve(X.T @ X + cfg["alpha"] * np.eye(ds["m"]), X.T @ Y)
    Yhat = X @ W0
    Yfit = Yhat[:, 0] if cfg["y1d"] else Yhat
    return "precomputed", Yfit, (W0 if kind == "pre_W" else None)


def fit_impl(ds, cfg, tol=TOL):
    """Fit PCovR through its public API.  Returns (estimator, Y as the model sees it, Yhat, W)."""
    from skmatter.decomposition import PCovR
    reg, Yfit, Wfit = _regressor(ds, cfg)
    est = PCovR(mixing=cfg["a"], n_components=cfg["k"], space=cfg["space"],
                svd_solver=cfg["solver"], tol=tol, regressor=reg, random_state=0)
    X = ds["X"]
    with warnings.catch_warnings():
        warnings.simplefilter("ignore")
        if reg == "precomputed":
            if Wfit is not None:
                est.fit(X, Yfit, W=Wfit)
            else:
                est.fit(X, Yfit)
        else:
            est.fit(X, Yfit)
    n, m = X.shape
    if reg == "precomputed":
        Yh = np.asarray(Yfit, dtype=float).reshape(n, -1)
        W = Wfit if Wfit is not None else np.linalg.lstsq(X, Yh, tol)[0]
        Ymodel = Yh                      # Y.reshape(Yhat.shape): fit is handed Yhat as Y
    else:
        W = est.regressor_.coef_.T.reshape(m, -1)
        Yh = est.regressor_.predict(X).reshape(n, -1)
        Ymodel = np.asarray(Yfit, dtype=float).reshape(Yh.shape)
    return est, Ymodel, Yh, np.asarray(W, dtype=float).reshape(m, -1)


def observe(est, ds, Ymodel):
    """Sign-/basis-invariant quantities of a fitted estimator, in the order of
    Model/PCovR.v [pc_outputs].  Uses public attributes and methods only."""
    X, Xn, Yn = ds["X"], ds["Xn"], ds["Yn"]
    n, m = X.shape
    k = est.n_components_
    pxt, ptx = est.pxt_, est.ptx_
    with warnings.catch_warnings():
        warnings.simplefilter("ignore")
        T = est.transform(X)
        Tn = est.transform(Xn)
        Yscore = Ymodel if est.pty_.ndim == 2 else Ymodel[:, 0]
        Ynscore = Yn if est.pty_.ndim == 2 else Yn[:, 0]
        out = [
            pxt @ ptx, ptx @ pxt, est.pxy_.reshape(m, -1), T @ T.T, (T.T @ T) ** 2,
            est.inverse_transform(T), est.predict(X).reshape(n, -1),
            est.predict(T=T).reshape(n, -1), est.singular_values_.reshape(k, 1),
            est.explained_variance_.reshape(k, 1),
            np.array([[est.score(X, Yscore)]]),
            est.inverse_transform(Tn), Tn @ Tn.T, est.predict(Xn).reshape(len(Xn), -1),
            est.predict(T=Tn).reshape(len(Xn), -1), np.array([[est.score(Xn, Ynscore)]]),
        ]
    return [np.asarray(o, dtype=float) for o in out], T


# --------------------------------------------------------- numpy mirror of the model + hints
def model_np(X, Yh, a, tol=TOL):
    """The matrices the model forms (numpy mirror of cov_prog / kern_prog / cisqrt_prog) and
    numpy's decompositions of them: the oracle hints."""
    XtX = X.T @ X
    v, U = np.linalg.eigh(XtX)
    v, U = v[::-1].copy(), U[:, ::-1].copy()
    isq = np.array([1.0 / np.sqrt(x) if x > tol else 0.0 for x in v])
    A = (U @ np.diagflat(isq)) @ U.T
    CY = A @ (X.T @ Yh)
    Ct = (1 - a) * (CY @ CY.T) + a * XtX
    Kt = ((1 - a) * Yh) @ Yh.T + (a * X) @ X.T
    Csq = np.linalg.lstsq(A, np.eye(len(A)), rcond=None)[0]
    return dict(XtX=XtX, vC=v, UC=U, A=A, Ct=Ct, Kt=Kt, Csq=Csq)


def top_eig(M):
    """numpy's SVD of the (symmetric PSD) modified matrix, as _decompose_full does:
    singular values decreasing and the right singular vectors as columns."""
    _, S, Vt = np.linalg.svd(M, full_matrices=False)
    return S, Vt.T


def gate(mn, S_full, k, tol=TOL, sample=True):
    """None if the invariant comparisons are well conditioned for this case, else the reason
    (the case is then counted as skipped).  The `> tol` decisions of model and implementation
    are taken on numpy's eigenvalues of the same matrices, so they can only differ when an
    eigenvalue is within rounding of tol; a factor 10 around tol is excluded."""
    v = mn["vC"]
    if not sample:
        if np.any((np.abs(v) > tol / 10) & (np.abs(v) < tol * 10)):
            return "eigenvalue of X^T X within a factor 10 of rcond"
        kept = v[v > tol]
        if len(kept) and kept[0] / kept[-1] > COND_MAX:
            return "X^T X ill conditioned on its retained range"
    S = np.asarray(S_full)
    if np.any((S > tol / 10) & (S < tol * 10)):
        return "eigenvalue of the modified matrix within a factor 10 of tol"
    if S[0] <= tol:
        return None                                  # everything masked on both sides
    r = int(np.sum(S[:k] > tol))
    if r < len(S):
        gap = (S[r - 1] - S[r]) / S[0] if r > 0 else 1.0
        if gap < GAP_MIN:
            return "relative eigen-gap at the cut below %g" % GAP_MIN
    if r > 0 and S[0] / S[r - 1] > COND_MAX:
        return "retained spectrum of the modified matrix ill conditioned"
    return None


def regressor_gate(X, W, Yh):
    """The regressor is an oracle with contract Yhat = X W.  When the weights are so large that
    X W cancels catastrophically (sklearn's LinearRegression on exactly rank-deficient data can
    return |W| ~ 1e13) the contract cannot be evaluated in binary64: such cases are skipped."""
    den = max(float(np.abs(Yh).max(initial=0)), 1e-300)
    if float(np.abs(X).max()) * float(np.abs(W).max(initial=0)) * X.shape[1] > 1e6 * den:
        return "regressor weights ill conditioned (cancellation in X W)"
    return None


def w_in_rowspace(X, W):
    """Are the regression weights in the row space of X?  (Ridge and minimum-norm least squares
    are; sklearn's LinearRegression on centred wide data need not be.)  Only then are the
    sample-space projectors - which contain W - route independent on NEW data."""
    Pi = np.linalg.pinv(X) @ X
    return float(np.abs(W - Pi @ W).max(initial=0)) <= 1e-9 * (1 + float(np.abs(W).max(initial=0)))


def rel_gap(S_full, k, tol=TOL):
    S = np.asarray(S_full)
    r = int(np.sum(S[:k] > tol))
    if r == 0 or r >= len(S) or S[0] <= 0:
        return 1.0
    return float((S[r - 1] - S[r]) / S[0])


def numeric_rank(S_full, tol=TOL):
    return int(np.sum(np.asarray(S_full) > tol))


def build_env(ds, Ymodel, Yh, W, cfg, sample, mn=None, Q=None):
    """Environment of the model (list indexed by the variable numbers of Model/PCovR.v)."""
    X = ds["X"]
    mn = mn or model_np(X, Yh, cfg["a"])
    M = mn["Kt"] if sample else mn["Ct"]
    S_full, V_full = top_eig(M)
    k = cfg["k"]
    env = [X, Ymodel, Yh, W, np.array([[cfg["a"]]]), np.array([[TOL]]), mn["UC"],
           mn["vC"].reshape(-1, 1), V_full[:, :k], S_full[:k].reshape(-1, 1),
           (np.zeros((0, 0)) if sample else mn["Csq"]), ds["Xn"], ds["Yn"],
           (Q if Q is not None else np.zeros((0, 0)))]
    return env, mn, S_full, V_full


# ------------------------------------------------------------------------------ Coq writer
class CoqCases:
    """Accumulates `pcase` definitions (named c<id>), interning every distinct matrix once per
    shard.  `extra` terms (of one common Coq type) may refer to the cases of the current shard
    by name; they are evaluated by a second `Eval` as one list."""

    def __init__(self, max_bytes=280000, max_cases=300, autoflush=True):
        self.max_bytes, self.max_cases, self.autoflush = max_bytes, max_cases, autoflush
        self.shards = []          # list of (text, [case ids], [extra tags])
        self._reset()

    def _reset(self):
        self.defs, self.names, self.cases, self.ids, self.size = [], {}, [], [], 0
        self.extras, self.extra_tags = [], []

    def mat(self, A):
        A = np.atleast_2d(np.asarray(A, dtype=float))
        key = (A.shape, A.tobytes())
        if key not in self.names:
            name = "m%d" % len(self.names)
            lit = C.fmat(A.tolist()) if A.size else "[]"
            d = "Definition %s : fmat := %s.\n" % (name, lit)
            self.defs.append(d)
            self.size += len(d)
            self.names[key] = name
        return self.names[key]

    def mats(self, As):
        return "[" + "; ".join(self.mat(A) for A in As) + "]"

    def add(self, cid, n, m, p, k, q, sample, env, obs):
        d = "Definition c%d : pcase := mk_pcase %d %d %d %d %d %s %s %s.\n" % (
            cid, n, m, p, k, q, "true" if sample else "false", self.mats(env), self.mats(obs))
        self.defs.append(d)
        self.cases.append("c%d" % cid)
        self.ids.append(cid)
        self.size += len(d)
        if self.autoflush:
            self.maybe_flush()
        return "c%d" % cid

    def add_extra(self, tag, term):
        self.extras.append(term)
        self.extra_tags.append(tag)
        self.size += len(term)

    def maybe_flush(self):
        if self.size > self.max_bytes or len(self.cases) >= self.max_cases:
            self.flush()

    def flush(self):
        if not self.cases and not self.extras:
            return
        body = (C.SHARD_HEAD + "From Coq Require Import List PrimFloat.\nImport ListNotations.\n"
                "From Verif Require Import MExp PCovR.\nOpen Scope float_scope.\n"
                + "".join(self.defs)
                + "Definition cases : list pcase := [" + "; ".join(self.cases) + "].\n"
                + "Eval vm_compute in (map (pc_report %s %s %s) cases).\n"
                % (C.fl(RTOL), C.fl(ATOL), C.fl(EPS_HYP)))
        if self.extras:
            body += "Eval vm_compute in ([\n " + ";\n ".join(self.extras) + "]).\n"
        self.shards.append((body, list(self.ids), list(self.extra_tags)))
        self._reset()


def _coq_value(txt):
    """Parse a printed Coq value made of lists, tuples, booleans and floats."""
    t = txt.replace(";", ",")
    t = re.sub(r"\btrue\b", "True", t)
    t = re.sub(r"\bfalse\b", "False", t)
    t = re.sub(r"\bneg_infinity\b", "'-inf'", t)
    t = re.sub(r"\binfinity\b", "'inf'", t)
    t = re.sub(r"\bnan\b", "'nan'", t)
    t = re.sub(r"%float|%nat", "", t)
    v = ast.literal_eval(t)

    def conv(x):
        if isinstance(x, str):
            return float(x)
        if isinstance(x, (list, tuple)):
            return [conv(y) for y in x]
        return x
    return conv(v)


def parse_evals(out):
    """All values printed by `Eval vm_compute in ...` in a shard's output, in order."""
    flat = out.replace("\n", " ")
    vals = []
    # split on the "     = " markers printed by Eval
    parts = re.split(r"(?:^|\s)=\s", flat)
    for part in parts[1:]:
        # the value ends at the last " : " type annotation of this part
        i = part.rfind(" : ")
        body = part[:i] if i >= 0 else part
        try:
            vals.append(_coq_value(body.strip()))
        except Exception:            # noqa
            vals.append(None)
    return vals


def run_cases(prop, writer, timeout=900):
    """Run all shards; returns ({case id: report}, [broken shard outputs], {extra tag: value})."""
    writer.flush()
    outs = C.run_shards(prop, [s[0] for s in writer.shards], timeout=timeout)
    reports, broken, extras = {}, [], {}
    for (txt, ids, tags), (rc, out) in zip(writer.shards, outs):
        vals = parse_evals(out) if rc == 0 else []
        want = 1 + (1 if tags else 0)
        if rc != 0 or len(vals) != want or any(v is None for v in vals) or len(vals[0]) != len(ids) \
                or (tags and len(vals[1]) != len(tags)):
            broken.append(out[-1500:])
            continue
        for cid, rep in zip(ids, vals[0]):
            reports[cid] = dict(ok_out=rep[0], ok_hyp=rep[1], dev=rep[2], res=rep[3])
        if tags:
            for tag, v in zip(tags, vals[1]):
                extras[tag] = v
    return reports, broken, extras


def jsonable(x):
    if isinstance(x, np.ndarray):
        return x.tolist()
    if isinstance(x, dict):
        return {k: jsonable(v) for k, v in x.items()}
    if isinstance(x, (list, tuple)):
        return [jsonable(v) for v in x]
    if isinstance(x, (np.floating, np.integer)):
        return x.item()
    return x


def ds_from_json(d):
    d = dict(d)
    for key in ("X", "Y", "Xn", "Yn"):
        d[key] = np.asarray(d[key], dtype=float)
    return d
