"""Shared machinery for every property check.

Run under /venv/bin/python with PYTHONPATH=/repo/src:/verif, PYTHONHASHSEED=0 (the
`check` wrapper does that).  Nothing here imports skmatter at module import time.
"""
import fcntl
import hashlib
import json
import os
import random
import re
import subprocess
import sys
import time
from concurrent.futures import ThreadPoolExecutor

VERIF = "/verif"
COQ = os.path.join(VERIF, "coq")
RUN = os.path.join(COQ, "Run")
REPO = os.environ.get("VERIF_REPO", "/repo")   # override only for scratch-worktree experiments
# runs against a scratch copy of the repository (VERIF_REPO, mutation experiments) must never touch the
# evidence and replay files of the real checks: they go to an ignored scratch directory instead
_SCRATCH = None if os.path.realpath(REPO) == "/repo" else os.path.join(
    VERIF, "replays", "tmp_" + hashlib.sha1(os.path.realpath(REPO).encode()).hexdigest()[:10])
EVID = os.environ.get("VERIF_EVID") or (os.path.join(_SCRATCH, "evidence") if _SCRATCH else os.path.join(VERIF, "evidence"))
REPLAYS = os.environ.get("VERIF_REPLAYS") or (os.path.join(_SCRATCH, "replays") if _SCRATCH else os.path.join(VERIF, "replays"))
KNOWN = os.path.join(VERIF, "known_findings.json")

FORBIDDEN = re.compile(
    r"\b(Admitted|admit|Axiom|Axioms|Parameter|Parameters|Conjecture|Hypothesis|Variable)\b"
    r"|Unset\s+Guard|bypass_check|type-in-type|impredicative-set|Admit\s+Obligations"
)

# axioms of the standard library that may appear (each is named in DESIGN.md §3)
ALLOWED_AXIOMS = {
    # none needed by the layer D / layer A developments; listed if a file uses Reals
    "ClassicalDedekindReals.sig_forall_dec",
    "ClassicalDedekindReals.sig_not_dec",
    "FunctionalExtensionality.functional_extensionality_dep",
    "Classical_Prop.classic",
}


CURRENT_TIER = "quick"
LAST_PO = {}


class Ctx:
    def __init__(self, prop, tier, seed):
        self.prop = prop
        self.tier = tier
        self.seed = seed
        self.rng = random.Random(seed * 1000003 + int(prop[1:]))
        self.t0 = time.time()
        self.notes = []
        self.violations = []          # list of dict(replay=..., what=..., key=...)
        self.known_hits = []

    @property
    def quick(self):
        return self.tier == "quick"

    def elapsed(self):
        return time.time() - self.t0


# ----------------------------------------------------------------------------- Coq
def _sh(cmd, timeout, cwd=None):
    env = dict(os.environ)
    # OCaml heap growth in small increments is very slow in this sandbox (sys time)
    env.setdefault("OCAMLRUNPARAM", "i=256M,s=4M")
    try:
        p = subprocess.run(cmd, shell=isinstance(cmd, str), cwd=cwd, timeout=timeout, env=env,
                           stdout=subprocess.PIPE, stderr=subprocess.STDOUT, text=True)
        return p.returncode, p.stdout
    except subprocess.TimeoutExpired as e:
        out = e.stdout or ""
        if isinstance(out, bytes):
            out = out.decode("utf8", "replace")
        return 124, out + "\n[timeout]"


def gen_coqproject():
    """_CoqProject is regenerated from the files on disk (so adding a file needs no edit)."""
    head = open(os.path.join(COQ, "_CoqProject.head")).read()
    files = []
    for d in ("Base", "Model", "Proofs", "Properties", "Findings"):
        for root, _, fs in os.walk(os.path.join(COQ, d)):
            for f in fs:
                if f.endswith(".v"):
                    files.append(os.path.relpath(os.path.join(root, f), COQ))
    txt = head + "\n".join(sorted(files)) + "\n"
    p = os.path.join(COQ, "_CoqProject")
    if not os.path.exists(p) or open(p).read() != txt or not os.path.exists(os.path.join(COQ, "Makefile")):
        open(p, "w").write(txt)
        _sh("coq_makefile -f _CoqProject -o Makefile", 120, cwd=COQ)


def coq_make(targets, timeout=2400, jobs=2):
    """Full .vo build of the given targets (and dependencies); serialised by a file lock."""
    os.makedirs(RUN, exist_ok=True)
    with open(os.path.join(VERIF, ".build.lock"), "w") as lk:
        fcntl.flock(lk, fcntl.LOCK_EX)
        gen_coqproject()
        cmd = ["make", "-j%d" % jobs] + list(targets)
        rc, out = _sh(cmd, timeout, cwd=COQ)
    return rc == 0, out, " ".join(cmd)


def source_scan(paths):
    """Textual scan for anything that declares an axiom or disables a kernel check."""
    bad = []
    for p in paths:
        txt = open(p).read()
        txt_nc = re.sub(r"\(\*.*?\*\)", "", txt, flags=re.S)
        depth = 0
        for ln, line in enumerate(txt_nc.split("\n"), 1):
            if re.match(r"\s*Section\b", line):
                depth += 1
            if re.match(r"\s*End\b", line) and depth > 0:
                depth -= 1
            for m in FORBIDDEN.finditer(line):
                w = m.group(0)
                if w in ("Variable", "Hypothesis", "Variables", "Hypotheses") and depth > 0:
                    continue
                bad.append("%s:%d: %s" % (os.path.relpath(p, VERIF), ln, w))
    return bad


def coq_deps(vfile):
    """Transitive project-local dependencies of a .v file (by scanning Require lines)."""
    seen, todo = set(), [vfile]
    while todo:
        f = todo.pop()
        if f in seen or not os.path.exists(f):
            continue
        seen.add(f)
        txt = open(f).read()
        for m in re.finditer(r"From\s+Verif\s+Require\s+(?:Import|Export)?\s*([^.]*?)\.\s", txt + " "):
            for name in m.group(1).split():
                for d in ("Base", "Model", "Proofs", "Properties", "Findings"):
                    cand = os.path.join(COQ, d, name.split(".")[-1] + ".v")
                    if os.path.exists(cand):
                        todo.append(cand)
    return sorted(seen)


def proof_obligations(prop, timeout=1500, extra_targets=()):
    """Build Properties/<prop>.vo, list its theorems and their Print Assumptions output."""
    pfile = os.path.join(COQ, "Properties", prop + ".v")
    res = dict(obligations=0, discharged=0, theorems=[], axioms={}, ok=False, log="",
               checker_cmd="", scan=[])
    if not os.path.exists(pfile):
        res["log"] = "no property file"
        return res
    src = re.sub(r"\(\*.*?\*\)", "", open(pfile).read(), flags=re.S)
    thms = re.findall(r"^\s*(?:Theorem|Corollary)\s+([A-Za-z0-9_']+)", src, flags=re.M)
    res["theorems"] = thms
    res["obligations"] = len(thms)
    res["scan"] = source_scan(coq_deps(pfile))
    ok, out, cmd = coq_make(["Properties/%s.vo" % prop] + list(extra_targets), timeout=timeout)
    res["checker_cmd"] = "cd /verif/coq && " + cmd
    res["log"] = out[-4000:]
    if not ok:
        # which theorems still compile is unknown: count none as discharged
        m = re.search(r'File "\./([^"]+)", line (\d+)', out)
        res["broken_at"] = m.group(0) if m else "build failed"
        return res
    # Print Assumptions output: re-run coqc on the property file alone and parse stdout
    rc, out2 = _sh(["coqc", "-Q", ".", "Verif", "-w", "none", "Properties/%s.v" % prop], 900, cwd=COQ)
    blocks = re.split(r"\n(?=Closed under the global context|Axioms:)", "\n" + out2)
    blocks = [b for b in blocks if b.startswith("Closed") or b.startswith("Axioms:")]
    res["n_print_assumptions"] = len(blocks)
    axioms = set()
    for b in blocks:
        if b.startswith("Axioms:"):
            for m in re.finditer(r"^([A-Za-z_][\w.']*)\s*:", b[7:], flags=re.M):
                axioms.add(m.group(1))
    res["axioms"] = sorted(axioms)
    prim = {a for a in axioms if a.startswith(("PrimFloat.", "Uint63.", "PrimInt63.", "Sint63.",
                                               "FloatOps.", "Float64", "float", "int"))}
    disallowed = sorted(a for a in axioms if a not in prim and a not in ALLOWED_AXIOMS)
    res["disallowed_axioms"] = disallowed
    res["ok"] = (rc == 0 and not disallowed and not res["scan"] and len(blocks) >= len(thms))
    res["discharged"] = len(thms) if rc == 0 else 0
    if CURRENT_TIER == "thorough" and res["ok"]:
        # independent re-check of the compiled property file and everything it depends on
        rc3, out3 = _sh(["coqchk", "-silent", "-o", "-Q", ".", "Verif", "Verif.Properties.%s" % prop], 3000, cwd=COQ)
        m = re.search(r"\* Axioms:(.*?)\n\s*\n\* Constants", out3, flags=re.S)
        ax = [a.strip() for a in (m.group(1).split("\n") if m else []) if a.strip() and a.strip() != "<none>"]
        # kernel primitives (machine integers / binary64) and their specification axioms are part of
        # Coq's standard library; they enter through Base/MExp.v (float interpreter), no theorem uses them
        PRIM = ("Coq.Numbers.Cyclic.Int63.", "Coq.Floats.", "Coq.Numbers.Cyclic.Abstract.")
        prims = [a for a in ax if a.startswith(PRIM)]
        ax = [a for a in ax if not a.startswith(PRIM)]
        bad = [a for a in ax if not any(a.endswith(x) or x in a for x in ALLOWED_AXIOMS)]
        res["coqchk"] = dict(exit=rc3, axioms=ax, disallowed=bad, stdlib_primitives_listed=len(prims),
                             cmd="cd /verif/coq && coqchk -silent -o -Q . Verif Verif.Properties.%s" % prop)
        if rc3 != 0 or bad or "type-in-type: <none>" not in out3 or "positivity is assumed: <none>" not in out3:
            res["ok"] = False
            res["log"] += "\n[coqchk]\n" + out3[-1500:]
    LAST_PO.clear()
    LAST_PO.update(res)
    return res


def run_shards(prop, shards, timeout=900, par=1):
    """Each shard is the text of a .v file ending in `Eval vm_compute in ...` that prints
    `= [..]%nat` lists (failing case numbers) or other single values.  Returns the list of
    (rc, stdout) per shard."""
    os.makedirs(RUN, exist_ok=True)
    names = []
    tag = "%s_%d" % (prop, os.getpid())
    for i, txt in enumerate(shards):
        name = "cases_%s_%d" % (tag, i)
        open(os.path.join(RUN, name + ".v"), "w").write(txt)
        names.append(name)

    def one(name):
        cmd = "ulimit -s unlimited 2>/dev/null; exec coqc -Q . Verif -w none Run/%s.v" % name
        return _sh(["bash", "-c", cmd], timeout, cwd=COQ)

    with ThreadPoolExecutor(max_workers=par) as ex:
        outs = list(ex.map(one, names))
    for name in names:
        for ext in (".v", ".vo", ".vok", ".vos", ".glob"):
            try:
                os.remove(os.path.join(RUN, name + ext))
            except OSError:
                pass
        try:
            os.remove(os.path.join(RUN, "." + name + ".aux"))
        except OSError:
            pass
    return outs


def parse_nat_lists(out):
    """All `= [a; b; ...]` results printed by Eval, in order, as lists of ints."""
    res = []
    flat = out.replace("\n", " ")
    for m in re.finditer(r"=\s*\[(.*?)\]\s*(?:%nat)?\s*:\s*list nat", flat):
        body = m.group(1).strip()
        res.append([int(x) for x in re.findall(r"\d+", body)] if body else [])
    return res


SHARD_HEAD = "Set Printing Width 1000000.\nSet Printing Depth 1000000.\n"


# ----------------------------------------------------------------------------- literals
def Zl(x):
    x = int(x)
    return "(%d)" % x if x < 0 else "%d" % x


def zlist(v):
    return "[" + "; ".join(Zl(x) for x in v) + "]"


def zmat(m):
    return "[" + "; ".join(zlist(r) for r in m) + "]"


def natlist(v):
    return "[" + "; ".join("%d" % int(x) for x in v) + "]%nat"


def blist(v):
    return "[" + "; ".join("true" if b else "false" for b in v) + "]"


def extz(x):
    import math
    return "None" if (isinstance(x, float) and math.isinf(x)) else "(Some %s)" % Zl(x)


def extzlist(v):
    return "[" + "; ".join(extz(x) for x in v) + "]"


NONFINITE = {"nan": 0, "inf": 0}   # non-finite binary64 literals handed to Coq by this run (evidence)


def fl(x):
    """binary64 literal for Coq's PrimFloat, exact (hexadecimal)."""
    import math
    x = float(x)
    if math.isnan(x):
        NONFINITE["nan"] += 1
        return "nan"
    if math.isinf(x):
        NONFINITE["inf"] += 1
        return "infinity" if x > 0 else "neg_infinity"
    h = x.hex()
    return "(%s)" % h if x < 0 or h.startswith("-") else h


def flist(v):
    return "[" + "; ".join(fl(x) for x in v) + "]"


def fmat(m):
    return "[" + "; ".join(flist(r) for r in m) + "]"


def as_int_matrix(a, what="array"):
    """The implementation's output must be integral on the exactness domain."""
    import numpy as np
    a = np.asarray(a, dtype=float)
    r = np.rint(a)
    if not np.all(a == r):
        raise InexactOutput("%s not integral: max dev %g" % (what, float(np.max(np.abs(a - r)))))
    return r.astype(object).astype(int) if a.ndim == 0 else [[int(x) for x in row] for row in r] if a.ndim == 2 else [int(x) for x in r]


class InexactOutput(Exception):
    pass


# ----------------------------------------------------------------------------- verdicts
def load_known():
    if os.path.exists(KNOWN):
        return json.load(open(KNOWN))
    return {"findings": [], "fixed": []}


def replay_path(prop, obj):
    os.makedirs(REPLAYS, exist_ok=True)
    h = hashlib.sha1(json.dumps(obj, sort_keys=True, default=str).encode()).hexdigest()[:10]
    p = os.path.join(REPLAYS, "%s_%s.json" % (prop, h))
    json.dump(json_safe(obj), open(p, "w"), indent=1)
    return p


def report_violation(ctx, what, replay_obj, key=None, found_input=True):
    """Record a violation.  `key` identifies the finding for the known-findings file."""
    known = load_known()
    for f in known.get("findings", []):
        if f["property"] == ctx.prop and key is not None and f["key"] == key:
            ctx.known_hits.append((key, f.get("what", what)))
            return
    replay_obj = dict(replay_obj)
    replay_obj.setdefault("property", ctx.prop)
    replay_obj.setdefault("what", what)
    replay_obj.setdefault("seed", ctx.seed)
    replay_obj.setdefault("key", key)
    replay_obj["failing_input_found"] = bool(found_input)
    p = replay_path(ctx.prop, replay_obj)
    ctx.violations.append(dict(replay=p, what=what, key=key, found_input=found_input))


def json_safe(o):
    """strict JSON: no NaN/Infinity tokens, no numpy scalars."""
    import math
    if isinstance(o, dict):
        return {str(k): json_safe(v) for k, v in o.items()}
    if isinstance(o, (list, tuple)):
        return [json_safe(v) for v in o]
    if isinstance(o, float):
        return o if math.isfinite(o) else repr(o)
    if isinstance(o, (str, int, bool)) or o is None:
        return o
    try:
        import numpy as np
        if isinstance(o, np.generic):
            return json_safe(o.item())
        if isinstance(o, np.ndarray):
            return json_safe(o.tolist())
    except ImportError:
        pass
    return str(o)


def finish(ctx, level, coverage, assumptions):
    """Write evidence, print verdict lines, return exit code."""
    seen = set()
    for key, what in ctx.known_hits:
        if key in seen:
            continue
        seen.add(key)
        print("KNOWN-FINDING: property=%s %s" % (ctx.prop, what))
    ev = dict(property_id=ctx.prop, tier=ctx.tier, seed=ctx.seed, level=level,
              coverage=coverage, assumptions=assumptions,
              wall_s=round(ctx.elapsed(), 2), violations=len(ctx.violations))
    if ctx.known_hits:
        ev["coverage"]["known_findings_hit"] = sorted(seen)
    ev["coverage"]["nonfinite_float_literals_sent_to_coq"] = dict(NONFINITE)
    if LAST_PO.get("coqchk"):
        ev["coverage"]["coqchk"] = LAST_PO["coqchk"]
    os.makedirs(EVID, exist_ok=True)
    json.dump(json_safe(ev), open(os.path.join(EVID, ctx.prop + ".json"), "w"), indent=1, allow_nan=False)
    printed = set()
    for v in ctx.violations:
        if v["replay"] in printed:
            continue
        printed.add(v["replay"])
        tail = "" if v["found_input"] else " no-failing-input-found"
        print("# %s" % v["what"])
        print("VIOLATION property=%s replay=%s%s" % (ctx.prop, v["replay"], tail))
    if not ctx.violations:
        print("OK property=%s tier=%s wall=%.1fs" % (ctx.prop, ctx.tier, ctx.elapsed()))
    return 1 if ctx.violations else 0


TRUSTED_BASE_COMMON = [
    "Coq 8.16.1 kernel and its vm_compute machine (no native_compute)",
    "Python correspondence harness (generators, implementation drivers, case writer, output parser)",
    "hand-written Gallina model in coq/Model (tied to /repo by the per-run correspondence check)",
]


def ast_hashes(anchors):
    """sha1 of the ast dump of each anchored function: {'file.py:Class.func': hash}."""
    import ast
    out = {}
    for rel, names in anchors.items():
        path = os.path.join(REPO, rel)
        try:
            tree = ast.parse(open(path).read())
        except Exception as e:  # noqa
            out[rel] = "unparsable: %s" % e
            continue
        table = {}
        for node in ast.walk(tree):
            if isinstance(node, ast.ClassDef):
                for b in node.body:
                    if isinstance(b, (ast.FunctionDef,)):
                        table[node.name + "." + b.name] = b
            elif isinstance(node, ast.FunctionDef):
                table.setdefault(node.name, node)
        for n in names:
            if n in table:
                out["%s:%s" % (rel, n)] = hashlib.sha1(ast.dump(table[n]).encode()).hexdigest()[:12]
            else:
                out["%s:%s" % (rel, n)] = "missing"
    return out


def drift_report(prop, anchors):
    """Informational: which anchored functions changed since the model was validated."""
    cur = ast_hashes(anchors)
    p = os.path.join(VERIF, "harness", "anchor_hashes.json")
    rec = json.load(open(p)).get(prop, {}) if os.path.exists(p) else {}
    changed = sorted(k for k in cur if rec.get(k) not in (None, cur[k]))
    return cur, changed


def file_hashes():
    """sha1 of the ast dump of every module under src/skmatter: {'src/skmatter/x.py': hash}."""
    import ast
    out = {}
    root = os.path.join(REPO, "src", "skmatter")
    for d, _, fs in os.walk(root):
        if "datasets" in d:
            continue
        for f in fs:
            if f.endswith(".py"):
                path = os.path.join(d, f)
                rel = os.path.relpath(path, REPO)
                try:
                    out[rel] = hashlib.sha1(ast.dump(ast.parse(open(path).read())).encode()).hexdigest()[:12]
                except Exception as e:  # noqa
                    out[rel] = "unparsable: %s" % e
    return out


def changed_files():
    """Source files of the library whose AST differs from the state the models were last validated
    against (harness/anchor_hashes.json, key "_files").  Comments/formatting do not count."""
    p = os.path.join(VERIF, "harness", "anchor_hashes.json")
    rec = json.load(open(p)).get("_files", {}) if os.path.exists(p) else {}
    if not rec:
        return []
    cur = file_hashes()
    return sorted(k for k in set(cur) | set(rec) if cur.get(k) != rec.get(k))
