"""C07 helpers, family "histories": ONE CUR / PCov-CUR estimator object taken through a sequence of
fits - cold fit, set_params(recompute_every / k / mixing / tolerance / n_to_select), warm start,
..., optionally a cold refit on other data - on inputs of any absolute scale (entries from 1e-12
to 1e4) and with non-default tolerances.  Model: coq/Model/CURHist.v (layer A, binary64) and
coq/Model/CURHistSched.v (layer D, exact).  Nothing here is shared with another property.
"""
import math
import warnings

import numpy as np

from harness import common as C
from harness import curfam as F
from harness import selectors as S
from harness.props.c01 import Recorder

SMALL_FAMILIES = ["int_uniform", "int_small", "int_orth", "int_scaled", "float_uniform", "float_normal",
                  "int_lowrank_plus"]
# X is multiplied by 2**-e (exact in binary64): entries of order 1e-3 ... 1e-12
SCALE_EXP = [0, 0, 0, 10, 20, 27, 27, 34, 40]
TOLS_ALL = [1e-12, 1e-12, 1e-12, 1e-10, 1e-8]
TOLS_CUR = [1e-6, 1e-4, 1e-2, 0.3, 1.0]


# ----------------------------------------------------------------------------- generation
def gen_segment(rng, quick, kind, axis, mixing_one=False):
    """one cold fit followed by warm starts on the same data."""
    nmax, dmax = (7, 6) if quick else (10, 8)
    for _ in range(200):
        n = rng.randint(3, nmax)
        d = rng.randint(3, dmax)
        r_shape = rng.random()
        if r_shape < 0.08:
            d = 3
            n = rng.randint(4 * d + 1, 4 * d + 5)
        elif r_shape < 0.14:
            n = 3
            d = rng.randint(4 * n + 1, 4 * n + 5)
        fam = rng.choice(F.FAMILIES)
        X = np.array(F.gen_matrix(rng, n, d, fam), dtype=float)
        e = rng.choice(SCALE_EXP) if fam in SMALL_FAMILIES else 0
        if kind == "pcovcur" and axis == 1:
            e = min(e, 10)       # pcovr_covariance cuts eigenvalues of X^T X at the ABSOLUTE rcond 1e-12
        X = X * 2.0 ** (-e)
        rank = int(np.linalg.matrix_rank(X))
        ncand = n if axis == 0 else d
        tmax = min(rank - 1, ncand, 4 if quick else 6)
        if tmax < 1:
            continue
        kmax = (min(n, d) - 1) if kind == "cur" else ncand
        kmax = min(kmax, 3)
        if kmax < 1:
            continue
        nst = rng.choice([1, 2, 2, 2, 3, 3] if quick else [1, 2, 2, 3, 3, 4])
        nts = sorted(rng.randint(1, tmax) for _ in range(nst))
        if rng.random() < 0.6:
            nts[-1] = tmax
        tol = rng.choice(TOLS_ALL)
        r_tol = rng.random()
        if kind == "cur" and r_tol < 0.2:
            tol = rng.choice(TOLS_CUR) * (2.0 ** (-e) if rng.random() < 0.5 else 1.0)
        elif kind == "cur" and r_tol < 0.3:
            # a tolerance of the order of the column norms: the warning branch of X_orthogonalizer
            # (capped at 1: an un-normalised pivot of norm > 1 amplifies rounding by norm^2 per step and the
            # comparison with the model would no longer be meaningful)
            med = float(np.median(np.linalg.norm(X, axis=0 if axis == 1 else 1)))
            if med > 0:              # (zero items: the median can vanish; tolerance = 0 is not generated)
                tol = min(1.0, med * rng.choice([0.3, 0.8, 1.5]))
        y = None
        mixing = None
        if kind == "pcovcur":
            ye = rng.choice([0, 0, 10, 27])
            y = (np.array(F.gen_y(rng, n, rng.choice([1, 1, 2]), fam), dtype=float) * 2.0 ** (-ye)).tolist()
            mixing = 1.0 if mixing_one else rng.choice(F.MIXINGS)
        k = rng.randint(1, kmax)
        re_ = rng.choice([1, 1, 0, 0, 2, 3])
        stages = []
        for si, kk in enumerate(nts):
            if si > 0:
                if rng.random() < 0.7:
                    re_ = rng.choice([1, 1, 0, 2, 3])
                if rng.random() < 0.25:
                    k = rng.randint(1, kmax)
                if mixing is not None and not mixing_one and rng.random() < 0.25:
                    mixing = rng.choice(F.MIXINGS)
                if rng.random() < 0.1:
                    tol = rng.choice(TOLS_ALL)
            stages.append(dict(re=re_, nts=kk, k=k, mixing=mixing, tol=tol))
        return dict(X=X.tolist(), y=y, family=fam, scale_exp=e, stages=stages)
    raise RuntimeError("no admissible segment generated")


def gen_hist(rng, quick):
    kind = rng.choice(["cur", "pcovcur"])
    axis = rng.choice([0, 1])
    one = kind == "pcovcur" and rng.random() < 0.15      # mixing = 1 throughout: must select what CUR selects
    segs = [gen_segment(rng, quick, kind, axis, one)]
    while len(segs) < 3 and rng.random() < 0.2:
        segs.append(gen_segment(rng, quick, kind, axis, one))      # cold refit on other data, same object
    return dict(kind=kind, axis=axis, segments=segs,
                ptypes=gen_ptypes(rng, [st["mixing"] for sg in segs for st in sg["stages"]]),
                readonly=rng.random() < 0.3)


# ----------------------------------------------------------------------------- implementation
# ----------------------------------------------------------------------------- parameter presentations
INT_TYPES = ["int", "int", "int64", "int32", "intp"]


def cast_param(v, how):
    """the same VALUE as another scalar type (hyper-parameters arrive as numpy scalars whenever they come
    out of np.arange / a grid / a loaded configuration)."""
    if how in (None, "int", "float"):
        return v
    if how == "pyint":                     # mixing 0.0 / 1.0 given as the integer 0 / 1
        return int(v)
    return getattr(np, how)(v)


def gen_ptypes(rng, mixings=()):
    """scalar types for (recompute_every, k, n_to_select, mixing, tolerance); python types with
    probability 1/2.  np.float32 / int mixing only when the value and 1 - value stay exact."""
    if rng.random() < 0.5:
        return None
    pt = dict(re=rng.choice(INT_TYPES), k=rng.choice(INT_TYPES), nts=rng.choice(INT_TYPES),
              tol=rng.choice(["float", "float64"]), mixing="float")
    ms = [m for m in mixings if m is not None]
    if ms:
        opts = ["float", "float64"]
        if all(m in (0.0, 0.25, 0.5, 0.75, 1.0) for m in ms):
            opts.append("float32")
        if all(m in (0.0, 1.0) for m in ms):
            opts += ["pyint", "pyint"]
        pt["mixing"] = rng.choice(opts)
    return pt


def stage_params(kind, st, pt=None):
    pt = pt or {}
    kw = dict(recompute_every=cast_param(st["re"], pt.get("re")), k=cast_param(st["k"], pt.get("k")),
              n_to_select=cast_param(st["nts"], pt.get("nts")), tolerance=cast_param(st["tol"], pt.get("tol")))
    if kind == "pcovcur":
        kw["mixing"] = cast_param(st["mixing"], pt.get("mixing"))
    return kw


# ----------------------------------------------------------------------------- input presentations
X_PRESENTATIONS = ["int64", "int32", "float32", "fortran", "list", "noncontiguous"]
Y_PRESENTATIONS = ["int64", "int32", "float32", "list", "1d", "1d_int64", "fortran"]


def present_X(X, how):
    """the same VALUES as the float64 C-ordered array X, handed over differently; None if `how` cannot
    represent them exactly."""
    if how is None:
        return X
    if how in ("int64", "int32"):
        return X.astype(how) if np.all(X == np.round(X)) and np.abs(X).max() < 2 ** 30 else None
    if how == "float32":
        X32 = X.astype(np.float32)
        return X32 if np.all(X32.astype(float) == X) else None
    if how == "fortran":
        return np.asfortranarray(X)
    if how == "list":
        return X.tolist()
    if how == "noncontiguous":           # a strided view into a larger array
        big = np.zeros((2 * X.shape[0], 2 * X.shape[1]))
        big[::2, ::2] = X
        return big[::2, ::2]
    raise ValueError(how)


def present_y(Y, how):
    if how is None or Y is None:
        return Y
    if how in ("int64", "int32"):
        return Y.astype(how) if np.all(Y == np.round(Y)) and np.abs(Y).max() < 2 ** 30 else None
    if how == "float32":
        Y32 = Y.astype(np.float32)
        return Y32 if np.all(Y32.astype(float) == Y) else None
    if how == "list":
        return Y.tolist()
    if how == "1d":
        return Y[:, 0].copy() if Y.shape[1] == 1 else None
    if how == "1d_int64":
        return Y[:, 0].astype("int64") if Y.shape[1] == 1 and np.all(Y == np.round(Y)) else None
    if how == "fortran":
        return np.asfortranarray(Y)
    raise ValueError(how)


def gen_presentation(rng, case):
    """a presentation (X how, y how) that represents every segment of the history exactly, or None."""
    pcov = case["kind"] == "pcovcur"
    for _ in range(12):
        px = rng.choice(X_PRESENTATIONS + [None, None])
        py = rng.choice(Y_PRESENTATIONS + [None]) if pcov else None
        if pcov and rng.random() < 0.5:
            py = rng.choice(["int64", "int32", "1d_int64"])       # integer-typed targets (labels, counts)
        if px is None and py is None:
            continue
        ok = True
        for seg in case["segments"]:
            X = np.array(seg["X"], dtype=float)
            Y = None if seg["y"] is None else np.array(seg["y"], dtype=float)
            ok = ok and present_X(X, px) is not None and (py is None or present_y(Y, py) is not None)
        if ok:
            return dict(X=px, y=py)
    return None


def run_impl(case):
    pres = case.get("present") or {}
    pt = case.get("ptypes")
    sel = S.make_selector(case["kind"], case["axis"],
                          **stage_params(case["kind"], case["segments"][0]["stages"][0], pt))
    rec = Recorder(sel)
    pir = F.PiRecorder(sel)
    out = dict(segments=[], hook=pir.ok)
    with warnings.catch_warnings():
        warnings.simplefilter("ignore")
        for seg in case["segments"]:
            X = np.array(seg["X"], dtype=float)
            Y = None if seg["y"] is None else np.array(seg["y"], dtype=float)
            nrows = len(X)
            X, Y = present_X(X, pres.get("X")), present_y(Y, pres.get("y"))
            # purity: the caller's arrays are snapshotted and, in a share of the histories, read-only
            snap = [(nm, A, A.copy()) for nm, A in (("X", X), ("y", Y)) if isinstance(A, np.ndarray)]
            if case.get("readonly"):
                for _, A, _ in snap:
                    A.setflags(write=False)
            so = dict(stages=[])
            out["segments"].append(so)
            p0, r0 = len(rec.calls), len(pir.calls)
            for si, st in enumerate(seg["stages"]):
                try:
                    sel.set_params(**stage_params(case["kind"], st, pt))
                    rs = len(pir.calls)
                    if Y is None:
                        sel.fit(X, warm_start=(si > 0))
                    else:
                        sel.fit(X, Y, warm_start=(si > 0))
                except Exception as e:      # noqa
                    out["error"] = "%s: %s" % (type(e).__name__, str(e)[:200])
                    return out
                for nm, A, A0 in snap:
                    if A.dtype != A0.dtype or A.shape != A0.shape or A.tobytes() != A0.tobytes():
                        out.setdefault("impure", "fit %d of segment %d modified the caller's %s (max change %.3g)" % (
                            si, len(out["segments"]) - 1, nm,
                            float(np.abs(A.astype(float) - A0.astype(float)).max())))
                yc = getattr(sel, "y_current_", None)
                so["stages"].append(dict(
                    sel=[int(i) for i in sel.selected_idx_], nsel=int(sel.n_selected_),
                    X_current=np.array(sel.X_current_, dtype=float).tolist(),
                    y_current=None if yc is None else np.array(yc, dtype=float).reshape(nrows, -1).tolist(),
                    refresh=[[float(x) for x in v] for v in pir.calls[rs:]]))
            so["sel"] = [int(i) for i in sel.selected_idx_]
            so["presented"] = [[float(x) for x in v] for v in rec.calls[p0:]]
            so["refresh"] = [[float(x) for x in v] for v in pir.calls[r0:]]
    return out


def n_refresh(seg):
    """number of refreshes of every fit of a segment, from the documented schedule."""
    out, t = [], 0
    for st in seg["stages"]:
        c = 1
        while t < st["nts"]:
            t += 1
            if st["re"] != 0 and t % st["re"] == 0:
                c += 1
        out.append(c)
    return out


# ----------------------------------------------------------------------------- model replica (hints)
def _norm(v):
    return math.sqrt(float((v * v).sum()))


def _near(a, b):
    return a != b and abs(a - b) <= 1e-9 * abs(b)


def _trunc(s, tol):
    """a genuinely non-zero singular value at or below (near) the relative cutoff tol."""
    s = np.asarray(s, dtype=float)
    if s.size == 0 or s.max() == 0:
        return False
    q = s / s.max()
    return bool(np.any((q > 1e-13) & (q < tol * 1e3)))


def replica(case, seg, sel):
    """numpy replica of Model/CURHist.v on one segment: the states at which _compute_pi runs, the
    pinv / lstsq hints, and the diagnostics that decide whether the property's premises hold."""
    axis, pcov = case["axis"], case["kind"] == "pcovcur"
    X = np.array(seg["X"], dtype=float)
    Y = None if seg["y"] is None else np.array(seg["y"], dtype=float)
    X0 = X.copy() if axis == 1 else X.T.copy()
    Xo = X0.copy()

    def unor(A):
        return A.copy() if axis == 1 else A.T.copy()
    y = Y
    m0 = 0
    diag = dict(raw=0, fires=0, skipped=0, border=0, trunc=0, noise_fired=0)
    projected = []          # items projected out of X_current_ so far
    stages = []
    for st in seg["stages"]:
        tol, re_, nts = st["tol"], st["re"], st["nts"]
        it = re_ != 0
        fires = 0
        if it:
            for j in sel[:m0]:
                a, b = _norm(Xo[:, j]), _norm(X0[:, j])
                if _near(a, tol * b):
                    diag["border"] += 1
                if a > tol * b:
                    if a <= 1e-10 * b:
                        # tolerance below the rounding unit: the guard fires on an item that WAS projected
                        # out (its residual is rounding noise) and the code normalises that noise - the
                        # result is decided by rounding (tolerance = 1e-6 * 2^-34, say)
                        diag["noise_fired"] += 1
                    if a < tol:
                        diag["raw"] += 1
                    if _near(a, tol):
                        diag["border"] += 1
                    Xo = F.m_orth_step(Xo, j, tol)
                    fires += 1
                    if j not in projected:
                        projected.append(j)
                elif a > 1e-10 * b:
                    diag["skipped"] += 1
        diag["fires"] += fires
        wy = None
        if pcov and fires > 0:
            if axis == 1:
                Xs = X[:, sel[:m0]]
                G = Xs.T @ Xs
                diag["trunc"] += _trunc(np.linalg.svd(G, compute_uv=False), tol)
                V = np.linalg.pinv(G, rcond=tol)
                wy = (m0, V)
                for _ in range(fires):
                    y = y - ((Xs @ V) @ Xs.T) @ y
            else:
                Xr, Yr = X[sel[:m0]], Y[sel[:m0]]
                diag["trunc"] += _trunc(np.linalg.svd(Xr, compute_uv=False), tol)
                W = np.linalg.lstsq(Xr, Yr, rcond=tol)[0]
                Z = np.linalg.lstsq(Xr.T, W, rcond=None)[0]
                wy = (W, Z)
                y = Y - X @ W
        states = [(unor(Xo), y, list(projected))]
        yl = []
        for t in range(m0 + 1, nts + 1):
            j = sel[t - 1]
            if it:
                a = _norm(Xo[:, j])
                if a < tol:
                    diag["raw"] += 1
                if _near(a, tol):
                    diag["border"] += 1
                Xo = F.m_orth_step(Xo, j, tol)
                projected.append(j)
                if pcov:
                    if axis == 1:
                        Xs = np.zeros((X.shape[0], nts))
                        Xs[:, :t] = X[:, sel[:t]]
                        G = Xs.T @ Xs
                        diag["trunc"] += _trunc(np.linalg.svd(G[:t, :t], compute_uv=False), tol)
                        V = np.linalg.pinv(G, rcond=tol)
                        yl.append((nts, V))
                        y = y - ((Xs @ V) @ Xs.T) @ y
                    else:
                        Xr, Yr = X[sel[:t]], Y[sel[:t]]
                        diag["trunc"] += _trunc(np.linalg.svd(Xr, compute_uv=False), tol)
                        W = np.linalg.lstsq(Xr, Yr, rcond=tol)[0]
                        Z = np.linalg.lstsq(Xr.T, W, rcond=None)[0]
                        yl.append((W, Z))
                        y = Y - X @ W
                if t % re_ == 0:
                    states.append((unor(Xo), y, list(projected)))
        m0 = max(m0, nts)
        stages.append(dict(states=states, wy=wy, yl=yl, X=unor(Xo), y=y, projected=list(projected)))
    return stages, diag


def eig_hints(case, st, Xt, yt, rcond=1e-12):
    UC = vC = None
    axis = case["axis"]
    if case["kind"] == "cur":
        M = Xt @ Xt.T if axis == 0 else Xt.T @ Xt
    else:
        a = st["mixing"]
        if axis == 0:
            M = ((1 - a) * yt) @ yt.T + (a * Xt) @ Xt.T
        else:
            vC, UC = F.eig_desc(Xt.T @ Xt)
            d = np.where(vC > rcond, 1.0 / np.sqrt(np.where(vC > rcond, vC, 1.0)), 0.0)
            isq = (UC * d) @ UC.T
            CY = isq @ (Xt.T @ yt)
            M = (1 - a) * (CY @ CY.T) + a * (Xt.T @ Xt)
    lam, V = F.eig_desc(M)
    return dict(V=V, lam=lam, UC=UC, vC=vC)


# ----------------------------------------------------------------------------- independent oracle
def premises(diag):
    """the property is claimed when every pivot was normalised (norm >= tolerance), no stale item
    was skipped by the warm-start guard and no pinv / lstsq cut a non-zero singular value."""
    return (diag["raw"] == 0 and diag["skipped"] == 0 and diag["trunc"] == 0 and diag["border"] == 0
            and diag["noise_fired"] == 0)


def abs_rcond_ambiguous(X, chosen, rcond=1e-12):
    """feature PCov-CUR: pcovr_covariance inverts X_c^T X_c on the eigenvalues above the ABSOLUTE rcond.
    True when an eigenvalue that is significant relative to the largest one (> 1e-10) is not safely above
    that absolute cut: the documented matrix (relative notion of rank) and the computed one then differ by
    construction (audit, open 3; the model reproduces the absolute cut, so the model-vs-code comparison
    still runs)."""
    Xc = F.proj_residual(X, chosen)
    lam = np.linalg.eigvalsh(Xc.T @ Xc)
    top = max(lam.max(), 1e-300)
    return bool(np.any((lam > 1e-10 * top) & (lam < 100 * rcond)))


def oracle_segment(case, seg, so, gap_gate=1e-6, tie=1e-9):
    """Direct statement of C07 on one segment of a history.  Returns (message or None, info)."""
    info = dict(steps=0, tie_accepted=0, gap_skipped=0, premise_skipped=0, rcond_skipped=0)
    axis = case["axis"]
    X = np.array(seg["X"], dtype=float)
    Y = None if seg["y"] is None else np.array(seg["y"], dtype=float)
    n_items = X.shape[axis]
    total = seg["stages"][-1]["nts"]
    if len(so["stages"]) != len(seg["stages"]):
        return "history stopped early", info
    sel = so["sel"]
    if len(set(sel)) != len(sel) or any(i < 0 or i >= n_items for i in sel) or len(sel) != max(
            st["nts"] for st in seg["stages"]):
        return "selected_idx_ %s is not %d distinct valid indices" % (sel, total), info
    for si in range(1, len(seg["stages"])):
        prev = so["stages"][si - 1]["sel"]
        if so["stages"][si]["sel"][:len(prev)] != prev:
            return "a warm start changed earlier selections", info
    _, diag = replica(case, seg, sel)
    if not premises(diag):
        info["premise_skipped"] = 1
        return None, info
    sx = np.abs(X).max()
    t = 0
    proj = []                    # items the residual in force has been orthogonalised against
    for si, st in enumerate(seg["stages"]):
        it = st["re"] != 0
        pseudo = dict(kind=case["kind"], axis=axis, k=st["k"], re=st["re"], mixing=st["mixing"])
        if si == 0:
            proj = []
        elif it:
            proj = list(sel[:t])
        inforce = list(proj)
        while t < st["nts"]:
            pi, gap = F.ref_pi(pseudo, X, Y, inforce)
            info["steps"] += 1
            if case["kind"] == "pcovcur" and axis == 1 and st["mixing"] < 1 and abs_rcond_ambiguous(X, inforce):
                info["rcond_skipped"] += 1
            elif gap < gap_gate:
                info["gap_skipped"] += 1
            else:
                free = [j for j in range(n_items) if j not in sel[:t]]
                best = max(pi[j] for j in free)
                got = pi[sel[t]]
                if got < best - 1e-6 * max(best, 1e-300) - 1e-12:
                    if abs(best - got) <= tie * max(best, 1e-300):
                        info["tie_accepted"] += 1
                    else:
                        return ("fit %d, step %d: selected item %d has score %.9g under the most recent refresh "
                                "(residual w.r.t. %d items) but unselected item %d has %.9g"
                                % (si, t, sel[t], got, len(inforce), max(free, key=lambda j: pi[j]), best)), info
            t += 1
            if it:
                proj = list(sel[:t])
                if t % st["re"] == 0:
                    inforce = list(proj)
        # exposed residuals after this fit
        Xc = np.array(so["stages"][si]["X_current"])
        want = F.proj_residual(X, proj) if axis == 1 else F.proj_residual(X.T, proj).T
        if np.abs(Xc - want).max() > 1e-7 * sx:
            return ("fit %d: X_current_ is not the input with the %d items projected out (max dev %.3g, max|X| %.3g)"
                    % (si, len(proj), np.abs(Xc - want).max(), sx)), info
        if proj:
            cross = Xc.T @ X[:, proj] if axis == 1 else Xc @ X[proj].T
            if np.abs(cross).max() > 1e-7 * sx * sx:
                return "fit %d: X_current_ is not orthogonal to the selected items (max %.3g, max|X| %.3g)" % (
                    si, np.abs(cross).max(), sx), info
        if Y is not None and so["stages"][si]["y_current"] is not None:
            yc = np.array(so["stages"][si]["y_current"])
            if not proj:
                wanty = Y
            elif axis == 1:
                Xs = X[:, proj]
                wanty = Y - Xs @ np.linalg.lstsq(Xs, Y, rcond=None)[0]
            else:
                wanty = Y - X @ np.linalg.lstsq(X[proj], Y[proj], rcond=None)[0]
            if np.abs(yc - wanty).max() > 1e-7 * np.abs(Y).max() * max(1.0, np.linalg.cond(X)):
                return "fit %d: y_current_ is not the unexplained part of y (max dev %.3g)" % (
                    si, np.abs(yc - wanty).max()), info
    return None, info


def oracle(case, res):
    info = dict(steps=0, tie_accepted=0, gap_skipped=0, premise_skipped=0, rcond_skipped=0)
    if "error" in res:
        return "fit raised " + res["error"] + (" [read-only input]" if case.get("readonly") else ""), info
    if res.get("impure"):
        return res["impure"], info
    for seg, so in zip(case["segments"], res["segments"]):
        msg, i2 = oracle_segment(case, seg, so)
        for k in info:
            info[k] += i2[k]
        if msg:
            return msg, info
    return None, info


# ----------------------------------------------------------------------------- twins (duality, mixing = 1)
def twin_case(case):
    """the history that, by the last sentence of the property, must select the same items:
    sample CUR on X <-> feature CUR on X^T;  PCov-CUR with mixing = 1 throughout <-> CUR."""
    if case["kind"] == "cur":
        return dict(kind="cur", axis=1 - case["axis"], ptypes=case.get("ptypes"), readonly=case.get("readonly"),
                    segments=[dict(seg, X=np.array(seg["X"], dtype=float).T.tolist()) for seg in case["segments"]]), \
            "sample CUR on X vs feature CUR on X^T"
    if all(st["mixing"] == 1.0 for seg in case["segments"] for st in seg["stages"]):
        if any(st["k"] >= min(len(seg["X"]), len(seg["X"][0])) for seg in case["segments"] for st in seg["stages"]):
            return None, None          # svds needs k < min(shape)
        return dict(kind="cur", axis=case["axis"], ptypes=case.get("ptypes"), readonly=case.get("readonly"),
                    segments=[dict(seg, y=None, stages=[dict(st, mixing=None) for st in seg["stages"]])
                              for seg in case["segments"]]), "PCov-CUR with mixing = 1 vs CUR"
    return None, None


def compare_twin(case, res, twin, res2, what, gap_gate=1e-6, pitol=1e-6, xtol=1e-7, ytol=1e-7):
    """(message or None, info): importance vectors at every un-gated refresh, selections (unless a near
    tie decides) and exposed residuals of the two histories coincide."""
    info = dict(compared_refreshes=0, gap_skipped=0, tie_skipped=0, segments=0)
    if "error" in res or "error" in res2:
        if ("error" in res) != ("error" in res2):
            return "%s: only one of the two raised (%s / %s)" % (what, res.get("error"), res2.get("error")), info
        return None, info
    transpose = case["axis"] != twin["axis"]
    for seg, so, so2 in zip(case["segments"], res["segments"], res2["segments"]):
        sel, sel2 = so["sel"], so2["sel"]
        # first selection on which the two histories differ (everything after it is incomparable)
        tdiff = next((i for i, (u, v) in enumerate(zip(sel, sel2)) if u != v), None)
        if tdiff is None and len(sel) != len(sel2):
            return "%s: %d vs %d selections" % (what, len(sel), len(sel2)), info
        stages, tdiag = replica(case, seg, sel)
        if tdiag["noise_fired"] or tdiag["border"]:
            info["gap_skipped"] += 1        # a branch decided by rounding: the two runs need not agree
            continue
        sx = np.abs(np.array(seg["X"], dtype=float)).max()
        ok = True
        t = 0
        for si, (st, ms, a, b) in enumerate(zip(seg["stages"], stages, so["stages"], so2["stages"])):
            # n_selected_ at each refresh of this fit
            ts = [t]
            while t < st["nts"]:
                t += 1
                if st["re"] != 0 and t % st["re"] == 0:
                    ts.append(t)
            if len(a["refresh"]) != len(b["refresh"]) or len(a["refresh"]) != len(ts):
                return "%s: fit %d refreshes %d vs %d times (schedule: %d)" % (
                    what, si, len(a["refresh"]), len(b["refresh"]), len(ts)), info
            for tr, (Xt, yt, _), pa, pb in zip(ts, ms["states"], a["refresh"], b["refresh"]):
                if tdiff is not None and tr > tdiff:
                    break
                lam = eig_hints(case, st, Xt, yt)["lam"]
                k = st["k"]
                gap = (lam[k - 1] - lam[k]) / max(abs(lam[0]), 1e-300) if k < len(lam) else 1.0
                if gap < gap_gate:
                    info["gap_skipped"] += 1
                    ok = False
                    break
                info["compared_refreshes"] += 1
                d = float(np.abs(np.array(pa) - np.array(pb)).max())
                if d > pitol:
                    return "%s: fit %d: the importance vectors after %d selections differ by %.3g" % (
                        what, si, tr, d), info
            if not ok:
                break
            if tdiff is not None and tdiff < st["nts"]:
                # the scores presented at that step agreed (checked above): a near tie between the two
                # chosen items is decided by rounding; anything else is a different selection rule
                pv = so["presented"][tdiff] if tdiff < len(so["presented"]) else None
                u, v = sel[tdiff], sel2[tdiff]
                if pv is not None and abs(pv[u] - pv[v]) <= 2 * pitol:     # the vectors were compared to pitol
                    info["tie_skipped"] += 1
                    ok = False
                    break
                return "%s: selection %d is item %d vs item %d (scores %.9g / %.9g)" % (
                    what, tdiff, u, v, pv[u] if pv else float("nan"), pv[v] if pv else float("nan")), info
            Xa, Xb = np.array(a["X_current"]), np.array(b["X_current"])
            if transpose:
                Xb = Xb.T
            if np.abs(Xa - Xb).max() > xtol * sx:
                return "%s: fit %d: the exposed residuals differ by %.3g (max|X| %.3g)" % (
                    what, si, np.abs(Xa - Xb).max(), sx), info
            if a.get("y_current") is not None and b.get("y_current") is not None and not transpose:
                ya, yb = np.array(a["y_current"]), np.array(b["y_current"])
                sy = max(np.abs(np.array(seg["y"], dtype=float)).max(), 1e-300)
                if ya.shape != yb.shape or np.abs(ya - yb).max() > ytol * sy * max(
                        1.0, np.linalg.cond(np.array(seg["X"], dtype=float))):
                    return "%s: fit %d: the unexplained y differs by %.3g (max|y| %.3g)" % (
                        what, si, np.abs(ya - yb).max() if ya.shape == yb.shape else float("nan"), sy), info
        info["segments"] += ok
    return None, info


def compare_presentation(case, res, case2, res2):
    """the same values handed over as another dtype / container / memory layout must give what the
    float64 C-ordered presentation gives (which is tied to the model).  float32 X is computed in single
    precision by the clean code (X_current_ keeps the dtype): compared with single-precision tolerances."""
    pres = case2["present"]
    what = "presentation X=%s y=%s vs float64 arrays" % (pres.get("X") or "float64", pres.get("y") or "float64")
    if pres.get("X") == "float32":
        # the clean code computes in single precision then (X_current_ keeps the dtype; the default
        # tolerance 1e-12 is below its rounding unit), so only what single precision determines is
        # compared: no exception, valid distinct selections, and the importance vector of the cold start
        # (computed from the exactly representable X) when the eigenvalue gap is large
        info = dict(compared_refreshes=0, gap_skipped=0, tie_skipped=0, segments=0)
        if "error" in res2:
            if "Arpack" in res2["error"]:
                # single-precision ARPACK (svds) occasionally fails to converge / finds no shifts (about 1 in
                # 10^4 histories): outside the property (which is about the values), counted not reported
                info["gap_skipped"] += 1
                return None, info
            return (None if "error" in res else what + ": fit raised " + res2["error"]), info
        if "error" in res:
            return None, info
        for seg, so, so2 in zip(case["segments"], res["segments"], res2["segments"]):
            n_items = len(seg["X"]) if case["axis"] == 0 else len(seg["X"][0])
            sel2 = so2["sel"]
            if len(sel2) != len(so["sel"]) or len(set(sel2)) != len(sel2) or any(i < 0 or i >= n_items for i in sel2):
                return "%s: selected_idx_ %s is not %d distinct valid indices" % (what, sel2, len(so["sel"])), info
            st = seg["stages"][0]
            X = np.array(seg["X"], dtype=float)
            Y = None if seg["y"] is None else np.array(seg["y"], dtype=float)
            lam = eig_hints(case, st, X, Y)["lam"]
            k = st["k"]
            gap = (lam[k - 1] - lam[k]) / max(abs(lam[0]), 1e-300) if k < len(lam) else 1.0
            if gap < 1e-2 or (case["kind"] == "pcovcur" and case["axis"] == 1 and st["mixing"] < 1):
                info["gap_skipped"] += 1       # (C^-1/2 in single-precision data: not compared)
                continue
            info["compared_refreshes"] += 1
            d = float(np.abs(np.array(so["stages"][0]["refresh"][0]) - np.array(so2["stages"][0]["refresh"][0])).max())
            if d > 2e-3:
                return "%s: the importance vectors of the cold start differ by %.3g" % (what, d), info
            info["segments"] += 1
        return None, info
    if pres.get("y") == "float32":
        # pcovr_kernel / pcovr_covariance then form (1 - mixing) * y and y @ y.T in single precision: the
        # importance vector is determined to ~1e-7 / gap only
        return compare_twin(case, res, case2, res2, what, gap_gate=1e-2, pitol=2e-3, ytol=1e-5)
    if "error" not in res2:
        msg, _ = oracle(case, res2)            # the property itself, on the other presentation
        if msg:
            return what + ": " + msg, dict(compared_refreshes=0, gap_skipped=0, tie_skipped=0, segments=0)
    return compare_twin(case, res, case2, res2, what)


# ----------------------------------------------------------------------------- Coq text
def segment_coq(case, seg, so, I):
    """(hsched_ok term, hcase term, droppable?) for one fitted segment."""
    X = np.array(seg["X"], dtype=float)
    n, m = X.shape
    axis = case["axis"]
    N = n if axis == 0 else m
    sel = so["sel"]
    pcov = case["kind"] == "pcovcur"
    p = len(seg["y"][0]) if pcov else 0
    sts = "[" + "; ".join("(%d, %d)%%nat" % (st["re"], st["nts"]) for st in seg["stages"]) + "]"
    sched = "hsched_ok %d %s%%Z %s %s %s%%Z" % (
        N, C.zmat([F.code_vec(v) for v in so["refresh"]]), sts, C.natlist(sel),
        C.zmat([F.code_vec(v) for v in so["presented"]]))
    stages, diag = replica(case, seg, sel)
    txt = []
    for st, ms, obs in zip(seg["stages"], stages, so["stages"]):
        rtxt = []
        for (Xt, yt, _), piobs in zip(ms["states"], obs["refresh"]):
            h = eig_hints(case, st, Xt, yt)
            rtxt.append("(mk_hrefresh %s %s %s %s %s)" % (
                I.mat(h["V"]), I.col(h["lam"]), I.mat(h["UC"]), I.col(h["vC"]), I.col(piobs)))
        wyf = wys = yf = ys = "[]"
        if pcov and axis == 1:
            if ms["wy"] is not None:
                wyf = "[(%d%%nat, %s)]" % (ms["wy"][0], I.mat(ms["wy"][1]))
            yf = "[" + "; ".join("(%d%%nat, %s)" % (K, I.mat(V)) for K, V in ms["yl"]) + "]"
        elif pcov:
            if ms["wy"] is not None:
                wys = "[(%s, %s)]" % (I.mat(ms["wy"][0]), I.mat(ms["wy"][1]))
            ys = "[" + "; ".join("(%s, %s)" % (I.mat(W), I.mat(Z)) for W, Z in ms["yl"]) + "]"
        txt.append("(mk_hstage %d %d %d %s %s %s %s %s %s [%s] %s %s)" % (
            st["re"], st["nts"], st["k"], C.fl(st["mixing"] if pcov else 1.0), C.fl(st["tol"]),
            wyf, wys, yf, ys, "; ".join(rtxt), I.mat(obs["X_current"]),
            I.mat(obs["y_current"]) if pcov else "[]"))
    hc = "(mk_hcase %s %s %d %d %d %s %s %s [%s])" % (
        "true" if axis == 0 else "false", "true" if pcov else "false", n, m, p,
        I.mat(X), I.mat(seg["y"]) if pcov else "[]", C.natlist(sel), ";\n   ".join(txt))
    return sched, hc, diag


def shard_text(scheds, hcs, I, P=F.PARAMS):
    return (C.SHARD_HEAD + "From Coq Require Import List PrimFloat ZArith.\nImport ListNotations.\n"
            "From Verif Require Import ListX MExp CURSched CURLoop CURHistSched CURHist.\n"
            + "".join(I.defs)
            + "Definition prm := mk_cparams %s %s %s %s %s %s %s %s %s.\n" % tuple(
                C.fl(P[k]) for k in ("tol", "rcond", "rtol", "atol", "eps", "gap", "pirtol", "piatol", "cond"))
            + "Definition scheds : list bool := [\n %s].\n" % ";\n ".join(scheds)
            + "Definition cases : list hcase := [\n %s].\n" % ";\n ".join(hcs)
            + "Eval vm_compute in (failing scheds).\n"
            + "Eval vm_compute in (map (hc_report prm) cases).\n")
