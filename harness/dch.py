"""Helpers for C19 (DirectionalConvexHull): generators of integer samples in general position,
an exact brute-force lower hull (supporting-hyperplane form, Python ints / Fractions), the
implementation driver with a harness-side reader of the fitted object's scipy ConvexHull,
numerical validation of the oracle contract h1-h3, and literals for the Coq cases.

Hull-space points are rows [y, x_1 .. x_d] (d = number of hull dimensions = len(low_dim_idx)).
"""
import itertools
import math
from fractions import Fraction

import numpy as np

_COMBOS = {}


def combos(m, k):
    key = (m, k)
    if key not in _COMBOS:
        _COMBOS[key] = np.array(list(itertools.combinations(range(m), k)), dtype=np.int64).reshape(-1, k)
    return _COMBOS[key]


def det(A):
    """exact determinant of a stack of small integer matrices A[..., k, k] (int64, Laplace)."""
    k = A.shape[-1]
    if k == 0:
        return np.ones(A.shape[:-2], dtype=np.int64)
    if k == 1:
        return A[..., 0, 0]
    if k == 2:
        return A[..., 0, 0] * A[..., 1, 1] - A[..., 0, 1] * A[..., 1, 0]
    tot = 0
    for j in range(k):
        cols = [c for c in range(k) if c != j]
        term = A[..., 0, j] * det(A[..., 1:, :][..., cols])
        tot = tot + term if j % 2 == 0 else tot - term
    return tot


def _homog(P, drop_y):
    P = np.asarray(P, dtype=np.int64).reshape(len(P), -1)
    cols = P[:, 1:] if drop_y else P
    return np.concatenate([np.ones((len(P), 1), dtype=np.int64), cols], axis=1)


def gp_ok_new(P, cand, d):
    """adding `cand` keeps the set in general position: no d+1 positions affinely dependent,
    no d+2 hull-space points on a common hyperplane (checks only subsets containing cand)."""
    m = len(P)
    for drop_y, k in ((True, d), (False, d + 1)):       # k old points + cand
        if m < k:
            continue
        H = _homog(list(P) + [cand], drop_y)
        idx = combos(m, k)
        M = np.concatenate([H[idx], np.broadcast_to(H[m], (len(idx), 1, H.shape[1]))], axis=1)
        if np.any(det(M) == 0):
            return False
    return True


def general_position(P, d):
    P = [list(p) for p in P]
    return all(gp_ok_new(P[:i], P[i], d) for i in range(len(P)))


YKINDS = ["convex", "random", "concave", "noisy_convex", "tilted"]


def gen_points(rng, d, n, R, ykind, Ry=60):
    """n integer hull-space points in general position (positions in [-R,R]^d, targets of
    magnitude about Ry); returns (points, rejected draws)."""
    pts, rej = [], 0
    tilt = [rng.randint(-3, 3) for _ in range(d)]
    qmax = R * R * d
    nz = max(1, Ry // 60)
    while len(pts) < n:
        x = [rng.randint(-R, R) for _ in range(d)]
        q = sum(v * v for v in x) * Ry // qmax
        if ykind == "convex":
            y = q + rng.randint(-nz, nz)
        elif ykind == "concave":
            y = -q + rng.randint(-nz, nz)
        elif ykind == "noisy_convex":
            y = q + rng.randint(-25 * nz, 25 * nz)
        elif ykind == "tilted":
            y = q // 2 + sum(t * v for t, v in zip(tilt, x)) * Ry // (6 * R) + rng.randint(-6 * nz, 6 * nz)
        else:
            y = rng.randint(-Ry, Ry)
        cand = [y] + x
        if gp_ok_new(pts, cand, d):
            pts.append(cand)
        else:
            rej += 1
            if rej > 200 * n:
                raise RuntimeError("cannot reach general position")
    return pts, rej


# ------------------------------------------------------------------ exact lower hull
def _chain_1d(P):
    """Andrew's monotone chain (lower part) on integer points [y, x], distinct x."""
    order = sorted(range(len(P)), key=lambda i: P[i][1])
    st = []
    for i in order:
        while len(st) >= 2:
            a, b = P[st[-2]], P[st[-1]]
            if (b[1] - a[1]) * (P[i][0] - a[0]) - (b[0] - a[0]) * (P[i][1] - a[1]) <= 0:
                st.pop()
            else:
                break
        st.append(i)
    return st


def exact_lower_hull(P, d):
    """Lower facets of the hull of integer points P in general position, brute force:
    a (d+1)-subset spans a lower facet iff its hyperplane is not vertical and every other
    point is strictly above it.  Returns list of (vertex tuple, coef) with
    G(q) = coef . (1, q) and  y_q - plane(x_q) = G(q) / coef[1]."""
    n = len(P)
    H = _homog(P, False)                                  # (n, d+2)
    if d == 1 and n > 40:
        ch = _chain_1d(P)
        idx = np.array([[ch[k], ch[k + 1]] for k in range(len(ch) - 1)], dtype=np.int64)
    else:
        idx = combos(n, d + 1)
    M = H[idx]                                            # (m, d+1, d+2)
    coef = np.zeros((len(idx), d + 2), dtype=np.int64)
    for j in range(d + 2):
        cols = [c for c in range(d + 2) if c != j]
        dj = det(M[..., cols])
        coef[:, j] = dj if j % 2 == 0 else -dj
    ny = coef[:, 1]
    G = coef @ H.T                                        # (m, n)
    sgn = np.sign(ny)[:, None]
    above = G * sgn                                       # > 0 strictly above
    mask = np.ones_like(G, dtype=bool)
    np.put_along_axis(mask, idx, False, axis=1)
    ok = (ny != 0) & np.all((above > 0) | ~mask, axis=1)
    return [(tuple(int(v) for v in idx[k]), [int(c) for c in coef[k]]) for k in np.where(ok)[0]]


def lower_vertices(facets):
    return sorted({v for S, _ in facets for v in S})


def _fdet(M):
    k = len(M)
    if k == 0:
        return Fraction(1)
    if k == 1:
        return M[0][0]
    return sum(((-1) ** j) * M[0][j] * _fdet([r[:j] + r[j + 1:] for r in M[1:]]) for j in range(k))


def bary(P, S, x):
    """exact barycentric coordinates of position x in the projected simplex S (Fractions)."""
    rows = [[Fraction(1)] + [Fraction(v) for v in P[s][1:]] for s in S]
    D = _fdet(rows)
    q = [Fraction(1)] + [Fraction(v) for v in x]
    return [_fdet(rows[:k] + [q] + rows[k + 1:]) / D for k in range(len(S))]


def plane_at(coef, x):
    """height of the facet's plane over position x (Fraction)."""
    return -(coef[0] + sum(Fraction(c) * Fraction(v) for c, v in zip(coef[2:], x))) / Fraction(coef[1])


def surface_at(P, facets, x):
    """(inside footprint?, max_f plane_f(x)) exactly."""
    inside = any(min(bary(P, S, x)) >= 0 for S, _ in facets)
    return inside, max(plane_at(c, x) for _, c in facets)


# ------------------------------------------------------------------ case layout / driver
def layout(rng, d, h):
    """column positions: returns (low_dim_idx in a random order, n_features)."""
    cols = list(range(d + h))
    rng.shuffle(cols)
    return cols[:d], d + h


def build_X(P, low, nfeat, hd):
    """X rows with the hull positions at columns `low` (in that order) and the extra
    high-dimensional columns (rows of hd) at the remaining columns in increasing order."""
    high = [c for c in range(nfeat) if c not in low]
    X = []
    for p, hrow in zip(P, hd):
        r = [0] * nfeat
        for c, v in zip(low, p[1:]):
            r[c] = v
        for c, v in zip(high, hrow):
            r[c] = v
        X.append(r)
    return X


def fit(X, y, low, tol):
    from skmatter.sample_selection import DirectionalConvexHull
    kw = {} if tol is None else dict(tolerance=tol)
    m = DirectionalConvexHull(low_dim_idx=list(low), **kw)
    m.fit(np.array(X, dtype=float), np.array(y, dtype=float))
    return m


def read_hull(m):
    """harness-side reader of the fitted object's scipy ConvexHull: ALL facets (the model
    applies the y-normal filter itself)."""
    eq = np.array(m.convex_hull_.equations, dtype=float)
    sx = np.array(m.convex_hull_.simplices, dtype=int)
    return eq, sx


def observe(X, y, low, tol, queries=None):
    """fit and record everything C19 observes.  queries = list of (x_row, y)."""
    rec = {}
    try:
        m = fit(X, y, low, tol)
        Xa, ya = np.array(X, dtype=float), np.array(y, dtype=float)
        eq, sx = read_hull(m)
        rec["sel"] = [int(i) for i in m.selected_idx_]
        rec["eq"] = eq.tolist()
        rec["simplices"] = sx.tolist()
        rec["high_idx"] = [int(i) for i in m.high_dim_idx_]
        rec["dist"] = [float(v) for v in m.score_samples(Xa, ya)]
        rec["sfm"] = np.asarray(m.score_feature_matrix(Xa), dtype=float).tolist()
        rec["tol"] = float(m.tolerance)
        # model of score_feature_matrix: high-dimensional features minus the interpolant (oracle),
        # and the interpolator's contract: it reproduces the values at its nodes (selected samples)
        lowf = Xa[:, list(low)]
        interp = np.asarray(m.interpolator_high_dim_(lowf.reshape(-1) if len(low) == 1 else lowf), dtype=float)
        hi = Xa[:, m.high_dim_idx_]
        rec["sfm_model_ok"] = bool(np.array_equal(np.asarray(rec["sfm"], dtype=float).reshape(hi.shape),
                                                  hi - interp.reshape(hi.shape), equal_nan=True))
        sel = np.asarray(m.selected_idx_, dtype=int)
        rec["interp_node_residual"] = float(np.max(np.abs((hi - interp.reshape(hi.shape))[sel]))) if hi.size else 0.0
        if queries:
            Xq = np.array([q[0] for q in queries], dtype=float)
            yq = np.array([q[1] for q in queries], dtype=float)
            rec["qdist"] = [float(v) for v in m.score_samples(Xq, yq)]
        else:
            rec["qdist"] = []
    except Exception as e:  # noqa
        rec["error"] = type(e).__name__
        rec["error_msg"] = str(e)[:300]
    return rec


# ------------------------------------------------------------------ contract residuals
def contract_residuals(P, rec, extra_positions=()):
    """numerical validation of the oracle contract on the facets read from the fitted object.
    h1: max over facets, samples of (n.p + b)           (must be <= eps)
    h2: max over lower facets, their vertices of |n.p+b| (must be <= eps)
    h3: max over samples (and extra positions) of the best facet's most negative barycentric
        coordinate (must be >= -eps): the lower facets' projections cover the footprint."""
    Pa = np.array(P, dtype=float)
    eq = np.array(rec["eq"], dtype=float)
    sx = np.array(rec["simplices"], dtype=int)
    g = Pa @ eq[:, :-1].T + eq[:, -1][None, :]
    scale = max(1.0, float(np.max(np.abs(Pa))))
    h1 = float(np.max(g)) / scale
    low = np.where(eq[:, 0] < 0)[0]
    h2 = 0.0
    for f in low:
        h2 = max(h2, float(np.max(np.abs(g[sx[f], f]))) / scale)
    pos = [p[1:] for p in P] + [list(x) for x in extra_positions]
    pos = np.array(pos, dtype=float).reshape(len(pos), -1)
    best = np.full(len(pos), -np.inf)
    for f in low:
        V = Pa[sx[f]][:, 1:]
        A = np.concatenate([np.ones((len(V), 1)), V], axis=1).T          # (d+1, d+1)
        try:
            lam = np.linalg.solve(A, np.concatenate([np.ones((1, len(pos))), pos.T], axis=0))
        except np.linalg.LinAlgError:
            continue
        best = np.maximum(best, lam.min(axis=0))
    h3 = float(-np.min(best)) if len(pos) else 0.0
    return dict(h1=h1, h2=h2, h3=h3, n_lower=int(len(low)),
                min_abs_ny=float(np.min(np.abs(eq[low, 0]))) if len(low) else 0.0)


def dist_mag(P, rec, qpts):
    """largest magnitude entering a facet distance, (sum |n_c p_c| + |b|) / |n_y|, over the
    lower facets and the given points: binary64 noise of a distance is a few 2^-53 of this."""
    eq = np.array(rec["eq"], dtype=float)
    low = np.where(eq[:, 0] < 0)[0]
    pts = np.array(list(P) + list(qpts), dtype=float)
    mag = (np.abs(pts) @ np.abs(eq[low, :-1]).T + np.abs(eq[low, -1])[None, :]) / np.abs(eq[low, 0])[None, :]
    return max(1.0, float(np.max(mag)))


# ------------------------------------------------------------------ Coq literals
def q_of_float(x):
    num, den = float(x).as_integer_ratio()
    if den == 1:
        return "(inject_Z (%d))" % num if num < 0 else "(inject_Z %d)" % num
    return "((%d) # %d)" % (num, den) if num < 0 else "(%d # %d)" % (num, den)


def qlist(v):
    return "[" + "; ".join(q_of_float(x) for x in v) + "]"


def qmat(m):
    return "[" + "; ".join(qlist(r) for r in m) + "]"


def facets_lit(rec):
    """the facets read from the fitted object, each row (normal, offset) multiplied by the
    power of two 2^E that makes all its entries integers.  Exactly the binary64 values up to
    that positive factor; facet distances, the sign of the y-normal and the contract are
    invariant under it (Coq: C19_facet_scaling), and exact rational arithmetic on integers is
    an order of magnitude cheaper inside Coq than on 53-bit dyadic fractions."""
    out = []
    for e, s in zip(rec["eq"], rec["simplices"]):
        fr = [Fraction(float(v)) for v in e]
        E = max(f.denominator for f in fr)          # denominators are powers of two
        ints = [int(f * E) for f in fr]
        assert all(Fraction(i, E) == f for i, f in zip(ints, fr))
        out.append("mkFacet %s %s [%s]%%nat" % (
            "[" + "; ".join("(inject_Z %s)" % Zs(v) for v in ints[:-1]) + "]",
            "(inject_Z %s)" % Zs(ints[-1]), "; ".join("%d" % v for v in s)))
    return "[" + ";\n   ".join(out) + "]"


def Zs(x):
    return "(%d)" % x if x < 0 else "%d" % x
