"""Helpers for C19 (DirectionalConvexHull): generators of integer samples in general position,
an exact brute-force lower hull (supporting-hyperplane form, Python ints / Fractions), the
implementation driver with a harness-side reader of the fitted object's scipy ConvexHull,
numerical validation of the oracle contract h1-h3, and literals for the Coq cases.

Hull-space points are rows [y, x_1 .. x_d] (d = number of hull dimensions = len(low_dim_idx)).
"""
import itertools
import math
from fractions import Fraction

import numpy as np

_COMBOS = {}


def combos(m, k):
    key = (m, k)
    if key not in _COMBOS:
        _COMBOS[key] = np.array(list(itertools.combinations(range(m), k)), dtype=np.int64).reshape(-1, k)
    return _COMBOS[key]


def det(A):
    """exact determinant of a stack of small integer matrices A[..., k, k] (int64, Laplace)."""
    k = A.shape[-1]
    if k == 0:
        return np.ones(A.shape[:-2], dtype=np.int64)
    if k == 1:
        return A[..., 0, 0]
    if k == 2:
        return A[..., 0, 0] * A[..., 1, 1] - A[..., 0, 1] * A[..., 1, 0]
    tot = 0
    for j in range(k):
        cols = [c for c in range(k) if c != j]
        term = A[..., 0, j] * det(A[..., 1:, :][..., cols])
        tot = tot + term if j % 2 == 0 else tot - term
    return tot


def _homog(P, drop_y):
    P = np.asarray(P, dtype=np.int64).reshape(len(P), -1)
    cols = P[:, 1:] if drop_y else P
    return np.concatenate([np.ones((len(P), 1), dtype=np.int64), cols], axis=1)


def gp_ok_new(P, cand, d):
    """adding `cand` keeps the set in general position: no d+1 positions affinely dependent,
    no d+2 hull-space points on a common hyperplane (checks only subsets containing cand)."""
    m = len(P)
    for drop_y, k in ((True, d), (False, d + 1)):       # k old points + cand
        if m < k:
            continue
        H = _homog(list(P) + [cand], drop_y)
        idx = combos(m, k)
        M = np.concatenate([H[idx], np.broadcast_to(H[m], (len(idx), 1, H.shape[1]))], axis=1)
        if np.any(det(M) == 0):
            return False
    return True


def general_position(P, d):
    P = [list(p) for p in P]
    return all(gp_ok_new(P[:i], P[i], d) for i in range(len(P)))


YKINDS = ["convex", "random", "concave", "noisy_convex", "tilted"]


def gen_points(rng, d, n, R, ykind, Ry=60):
    """n integer hull-space points in general position (positions in [-R,R]^d, targets of
    magnitude about Ry); returns (points, rejected draws)."""
    pts, rej, restarts = [], 0, 0
    tilt = [rng.randint(-3, 3) for _ in range(d)]
    qmax = R * R * d
    nz = max(1, Ry // 60)
    while len(pts) < n:
        x = [rng.randint(-R, R) for _ in range(d)]
        q = sum(v * v for v in x) * Ry // qmax
        if ykind == "convex":
            y = q + rng.randint(-nz, nz)
        elif ykind == "concave":
            y = -q + rng.randint(-nz, nz)
        elif ykind == "noisy_convex":
            y = q + rng.randint(-25 * nz, 25 * nz)
        elif ykind == "tilted":
            y = q // 2 + sum(t * v for t, v in zip(tilt, x)) * Ry // (6 * R) + rng.randint(-6 * nz, 6 * nz)
        else:
            y = rng.randint(-Ry, Ry)
        cand = [y] + x
        if gp_ok_new(pts, cand, d):
            pts.append(cand)
        else:
            rej += 1
            if rej > 200 * n * (restarts + 1):
                # e.g. the first two draws share their position (nothing checks a pair when
                # d >= 2), after which every candidate is rejected: start over
                restarts += 1
                if restarts > 20:
                    raise RuntimeError("cannot reach general position")
                pts = []
    return pts, rej


def gp_ok_new_stacked(P, cand, d):
    """general position for sample sets in which SOME samples share their position with one
    other sample (different target): the distinct positions are in general position (no d+1
    affinely dependent), no two samples coincide, no three share a position, and no d+2
    hull-space points lie on a common NON-vertical hyperplane.  (d+2 points on a vertical
    hyperplane would need d+1 affinely dependent distinct positions, or three samples at
    one position.)  Checks only the subsets containing cand."""
    cpos = tuple(cand[1:])
    same = [p for p in P if tuple(p[1:]) == cpos]
    if len(same) > 1 or any(p[0] == cand[0] for p in same):
        return False
    seen, Pd = {cpos}, []
    for p in P:
        t = tuple(p[1:])
        if t not in seen:
            seen.add(t)
            Pd.append(p)
    m = len(Pd)
    if m >= d:
        Hm = _homog(list(Pd) + [cand], True)
        idx = combos(m, d)
        M = np.concatenate([Hm[idx], np.broadcast_to(Hm[m], (len(idx), 1, Hm.shape[1]))], axis=1)
        if np.any(det(M) == 0):
            return False
    # hull space: subsets without a same-position pair and without cand's partner
    Q = [p for p in P if tuple(p[1:]) != cpos]
    m = len(Q)
    if m >= d + 1:
        Hm = _homog(list(Q) + [cand], False)
        idx = combos(m, d + 1)
        M = np.concatenate([Hm[idx], np.broadcast_to(Hm[m], (len(idx), 1, Hm.shape[1]))], axis=1)
        dets = det(M)
        ids = {}
        pos = np.array([ids.setdefault(tuple(p[1:]), len(ids)) for p in Q])
        pp = pos[idx]
        srt = np.sort(pp, axis=1)
        has_pair = np.any(srt[:, 1:] == srt[:, :-1], axis=1)
        if np.any((dets == 0) & ~has_pair):
            return False
    return True


# ------------------------------------------------------------------ exact lower hull
def _chain_1d(P):
    """Andrew's monotone chain (lower part) on integer points [y, x], distinct x."""
    order = sorted(range(len(P)), key=lambda i: P[i][1])
    st = []
    for i in order:
        while len(st) >= 2:
            a, b = P[st[-2]], P[st[-1]]
            if (b[1] - a[1]) * (P[i][0] - a[0]) - (b[0] - a[0]) * (P[i][1] - a[1]) <= 0:
                st.pop()
            else:
                break
        st.append(i)
    return st


def exact_lower_hull(P, d):
    """Lower facets of the hull of integer points P in general position, brute force:
    a (d+1)-subset spans a lower facet iff its hyperplane is not vertical and every other
    point is strictly above it.  Returns list of (vertex tuple, coef) with
    G(q) = coef . (1, q) and  y_q - plane(x_q) = G(q) / coef[1]."""
    n = len(P)
    H = _homog(P, False)                                  # (n, d+2)
    if d == 1 and n > 40:
        ch = _chain_1d(P)
        idx = np.array([[ch[k], ch[k + 1]] for k in range(len(ch) - 1)], dtype=np.int64)
    else:
        idx = combos(n, d + 1)
    M = H[idx]                                            # (m, d+1, d+2)
    coef = np.zeros((len(idx), d + 2), dtype=np.int64)
    for j in range(d + 2):
        cols = [c for c in range(d + 2) if c != j]
        dj = det(M[..., cols])
        coef[:, j] = dj if j % 2 == 0 else -dj
    ny = coef[:, 1]
    G = coef @ H.T                                        # (m, n)
    sgn = np.sign(ny)[:, None]
    above = G * sgn                                       # > 0 strictly above
    mask = np.ones_like(G, dtype=bool)
    np.put_along_axis(mask, idx, False, axis=1)
    ok = (ny != 0) & np.all((above > 0) | ~mask, axis=1)
    return [(tuple(int(v) for v in idx[k]), [int(c) for c in coef[k]]) for k in np.where(ok)[0]]


def lower_vertices(facets):
    return sorted({v for S, _ in facets for v in S})


def _fdet(M):
    k = len(M)
    if k == 0:
        return Fraction(1)
    if k == 1:
        return M[0][0]
    return sum(((-1) ** j) * M[0][j] * _fdet([r[:j] + r[j + 1:] for r in M[1:]]) for j in range(k))


def bary(P, S, x):
    """exact barycentric coordinates of position x in the projected simplex S (Fractions)."""
    rows = [[Fraction(1)] + [Fraction(v) for v in P[s][1:]] for s in S]
    D = _fdet(rows)
    q = [Fraction(1)] + [Fraction(v) for v in x]
    return [_fdet(rows[:k] + [q] + rows[k + 1:]) / D for k in range(len(S))]


def plane_at(coef, x):
    """height of the facet's plane over position x (Fraction)."""
    return -(coef[0] + sum(Fraction(c) * Fraction(v) for c, v in zip(coef[2:], x))) / Fraction(coef[1])


def surface_at(P, facets, x):
    """(inside footprint?, max_f plane_f(x)) exactly."""
    inside = any(min(bary(P, S, x)) >= 0 for S, _ in facets)
    return inside, max(plane_at(c, x) for _, c in facets)


# ------------------------------------------------------------------ case layout / driver
def layout(rng, d, h):
    """column positions: returns (low_dim_idx in a random order, n_features)."""
    cols = list(range(d + h))
    rng.shuffle(cols)
    return cols[:d], d + h


def build_X(P, low, nfeat, hd):
    """X rows with the hull positions at columns `low` (in that order) and the extra
    high-dimensional columns (rows of hd) at the remaining columns in increasing order."""
    high = [c for c in range(nfeat) if c not in low]
    X = []
    for p, hrow in zip(P, hd):
        r = [0] * nfeat
        for c, v in zip(low, p[1:]):
            r[c] = v
        for c, v in zip(high, hrow):
            r[c] = v
        X.append(r)
    return X


def fit(X, y, low, tol, history=None):
    """history = None: a fresh estimator.  Otherwise the SAME object is first taken through an
    earlier life (fit on other data with other low_dim_idx / tolerance / feature count, scored),
    then its public parameters are changed and it is fitted again: a refit must be a fresh fit."""
    from skmatter.sample_selection import DirectionalConvexHull
    kw = {} if tol is None else dict(tolerance=tol)
    if history is None:
        m = DirectionalConvexHull(low_dim_idx=list(low), **kw)
    else:
        hkw = {} if history["tol"] is None else dict(tolerance=history["tol"])
        m = DirectionalConvexHull(low_dim_idx=list(history["low"]), **hkw)
        hX, hy = np.array(history["X"], dtype=float), np.array(history["y"], dtype=float)
        m.fit(hX, hy)
        if history.get("score", True):
            m.score_samples(hX, hy)
            m.score_feature_matrix(hX)
        m.low_dim_idx = list(low)
        m.tolerance = 1e-12 if tol is None else tol
    m.fit(np.array(X, dtype=float), np.array(y, dtype=float))
    return m


def read_hull(m):
    """harness-side reader of the fitted object's scipy ConvexHull: ALL facets (the model
    applies the y-normal filter itself)."""
    eq = np.array(m.convex_hull_.equations, dtype=float)
    sx = np.array(m.convex_hull_.simplices, dtype=int)
    return eq, sx


def observe(X, y, low, tol, queries=None, history=None, queries_first=False):
    """fit and record everything C19 observes.  queries = list of (x_row, y).
    queries_first: score the queries before the training samples (scoring must not depend on
    what was scored before)."""
    rec = {}
    try:
        m = fit(X, y, low, tol, history)
        if queries and queries_first:
            m.score_samples(np.array([q[0] for q in queries], dtype=float),
                            np.array([q[1] for q in queries], dtype=float))
        rec["n_features_in"] = int(m.n_features_in_)
        Xa, ya = np.array(X, dtype=float), np.array(y, dtype=float)
        eq, sx = read_hull(m)
        rec["sel"] = [int(i) for i in m.selected_idx_]
        rec["dsimplices"] = np.asarray(m.directional_simplices_, dtype=int).tolist()
        rec["eq"] = eq.tolist()
        rec["simplices"] = sx.tolist()
        rec["high_idx"] = [int(i) for i in m.high_dim_idx_]
        rec["dist"] = [float(v) for v in m.score_samples(Xa, ya)]
        rec["sfm"] = np.asarray(m.score_feature_matrix(Xa), dtype=float).tolist()
        rec["tol"] = float(m.tolerance)
        # model of score_feature_matrix: high-dimensional features minus the interpolant (oracle),
        # and the interpolator's contract: it reproduces the values at its nodes (selected samples)
        lowf = Xa[:, list(low)]
        interp = np.asarray(m.interpolator_high_dim_(lowf.reshape(-1) if len(low) == 1 else lowf), dtype=float)
        hi = Xa[:, m.high_dim_idx_]
        rec["sfm_model_ok"] = bool(np.array_equal(np.asarray(rec["sfm"], dtype=float).reshape(hi.shape),
                                                  hi - interp.reshape(hi.shape), equal_nan=True))
        sel = np.asarray(m.selected_idx_, dtype=int)
        rec["interp_node_residual"] = float(np.max(np.abs((hi - interp.reshape(hi.shape))[sel]))) if hi.size else 0.0
        if queries:
            Xq = np.array([q[0] for q in queries], dtype=float)
            yq = np.array([q[1] for q in queries], dtype=float)
            rec["qdist"] = [float(v) for v in m.score_samples(Xq, yq)]
        else:
            rec["qdist"] = []
        if not np.all(np.isfinite(rec["dist"] + rec["qdist"])):
            # e.g. a vertical facet (y-normal 0) kept among the directional facets
            bad = [v for v in rec["dist"] + rec["qdist"] if not np.isfinite(v)]
            rec = dict(error="NonFiniteDistance",
                       error_msg="score_samples returned %d non-finite distances (first %r); selected_idx_ %s"
                                 % (len(bad), bad[0], rec["sel"]))
    except Exception as e:  # noqa
        rec["error"] = type(e).__name__
        rec["error_msg"] = str(e)[:300]
    return rec


# ------------------------------------------------------------------ lives of one object
# ops: ["fit", nfeat] | ["set", low] | ["score", ncols]; outcome codes as Model/DCHExt.v
# outcome_code: 0 done, 1 ValueError, 2 IndexError, 3 NotFittedError (9 = anything else)
def gen_life(rng):
    def gen_low():
        if rng.random() < 0.2:
            return [rng.randint(-5, -1)]
        return rng.sample(range(0, 5), rng.randint(1, 3))
    low0 = gen_low()
    ops = []
    for _ in range(rng.randint(4, 9)):
        r = rng.random()
        if r < 0.3:
            ops.append(["set", gen_low()])
        elif r < 0.65:
            ops.append(["fit", rng.randint(2, 6)])
        else:
            ops.append(["score", rng.randint(2, 6)])
    return dict(low0=low0, ops=ops, seed=rng.randrange(2 ** 31))


def _code(thunk):
    from sklearn.exceptions import NotFittedError
    try:
        thunk()
        return 0
    except NotFittedError:
        return 3
    except ValueError:
        return 1
    except IndexError:
        return 2
    except Exception:  # noqa
        return 9


def run_life(life):
    """the life on the implementation (generic random data: qhull succeeds whenever it is
    reached); returns the outcome codes of the fit / score operations."""
    from skmatter.sample_selection import DirectionalConvexHull
    rs = np.random.RandomState(life["seed"])
    m = DirectionalConvexHull(low_dim_idx=list(life["low0"]))
    codes = []
    for op, arg in life["ops"]:
        if op == "set":
            m.low_dim_idx = list(arg)
        elif op == "fit":
            X, y = rs.rand(12, arg), rs.rand(12)
            codes.append(_code(lambda: m.fit(X, y)))
        else:
            X, y = rs.rand(3, arg), rs.rand(3)
            codes.append(_code(lambda: m.score_samples(X, y)))
    return codes


def life_model(life):
    """Python mirror of Model/DCHExt.v run_life (used by replay and to label a disagreement)."""
    low, nfeat, high, hull_dim = list(life["low0"]), None, None, None
    codes = []
    for op, arg in life["ops"]:
        if op == "set":
            low = list(arg)
        elif op == "fit":
            nfeat = arg
            if max(abs(v) for v in low) > arg and min(low) >= 0:
                codes.append(1)
                continue
            high = True
            if any(v >= arg or v < -arg for v in low):
                codes.append(2)
                continue
            hull_dim = len(low) + 1
            codes.append(0)
        else:
            if hull_dim is None or high is None or nfeat is None:
                codes.append(3)
            elif arg != nfeat:
                codes.append(1)
            elif any(v >= arg or v < -arg for v in low):
                codes.append(2)
            elif hull_dim != len(low) + 1:
                codes.append(1)
            else:
                codes.append(0)
    return codes


def life_lit(life, codes):
    def zl(l):
        return "[" + "; ".join(Zs(v) for v in l) + "]%Z"
    ops = []
    for op, arg in life["ops"]:
        ops.append("OpSet %s" % zl(arg) if op == "set" else "Op%s %d" % ("Fit" if op == "fit" else "Score", arg))
    return "life_ok %s [%s] [%s]%%nat" % (zl(life["low0"]), "; ".join(ops), "; ".join("%d" % c for c in codes))


# ------------------------------------------------------------------ contract residuals
def contract_residuals(P, rec, extra_positions=()):
    """numerical validation of the oracle contract on the facets read from the fitted object.
    h1: max over facets, samples of (n.p + b)           (must be <= eps)
    h2: max over lower facets, their vertices of |n.p+b| (must be <= eps)
    h3: max over samples (and extra positions) of the best facet's most negative barycentric
        coordinate (must be >= -eps): the lower facets' projections cover the footprint."""
    Pa = np.array(P, dtype=float)
    eq = np.array(rec["eq"], dtype=float)
    sx = np.array(rec["simplices"], dtype=int)
    g = Pa @ eq[:, :-1].T + eq[:, -1][None, :]
    scale = max(1.0, float(np.max(np.abs(Pa))))
    h1 = float(np.max(g)) / scale
    low = np.where(eq[:, 0] < 0)[0]
    h2 = 0.0
    for f in low:
        h2 = max(h2, float(np.max(np.abs(g[sx[f], f]))) / scale)
    pos = [p[1:] for p in P] + [list(x) for x in extra_positions]
    pos = np.array(pos, dtype=float).reshape(len(pos), -1)
    best = np.full(len(pos), -np.inf)
    for f in low:
        V = Pa[sx[f]][:, 1:]
        A = np.concatenate([np.ones((len(V), 1)), V], axis=1).T          # (d+1, d+1)
        try:
            lam = np.linalg.solve(A, np.concatenate([np.ones((1, len(pos))), pos.T], axis=0))
        except np.linalg.LinAlgError:
            continue
        best = np.maximum(best, lam.min(axis=0))
    h3 = float(-np.min(best)) if len(pos) else 0.0
    # contract_simplex (exact): the projected vertices of every kept facet are affinely independent;
    # contract_gp (numerical): smallest |n.p + b| of a sample that is not a vertex of the kept facet
    nzero, gap = 0, float("inf")
    Pi = np.array(P, dtype=np.int64) if all(float(v).is_integer() for p in P for v in p) else None
    for f in low:
        if Pi is not None:
            A = np.concatenate([np.ones((len(sx[f]), 1), dtype=np.int64), Pi[sx[f]][:, 1:]], axis=1)
            nzero += int(det(A[None])[0] == 0)
        others = np.setdiff1d(np.arange(len(Pa)), sx[f])
        if len(others):
            gap = min(gap, float(np.min(np.abs(g[others, f]))) / scale)
    return dict(h1=h1, h2=h2, h3=h3, n_lower=int(len(low)), simplex_det_zero=nzero,
                gp_min_gap=gap if gap < float("inf") else None,
                min_abs_ny=float(np.min(np.abs(eq[low, 0]))) if len(low) else 0.0)


def dist_mag(P, rec, qpts):
    """largest magnitude entering a facet distance, (sum |n_c p_c| + |b|) / |n_y|, over the
    lower facets and the given points: binary64 noise of a distance is a few 2^-53 of this."""
    eq = np.array(rec["eq"], dtype=float)
    low = np.where(eq[:, 0] < 0)[0]
    pts = np.array(list(P) + list(qpts), dtype=float)
    mag = (np.abs(pts) @ np.abs(eq[low, :-1]).T + np.abs(eq[low, -1])[None, :]) / np.abs(eq[low, 0])[None, :]
    return max(1.0, float(np.max(mag)))


# ------------------------------------------------------------------ Coq literals
def q_of_float(x):
    num, den = float(x).as_integer_ratio()
    if den == 1:
        return "(inject_Z (%d))" % num if num < 0 else "(inject_Z %d)" % num
    return "((%d) # %d)" % (num, den) if num < 0 else "(%d # %d)" % (num, den)


def qlist(v):
    return "[" + "; ".join(q_of_float(x) for x in v) + "]"


def qmat(m):
    return "[" + "; ".join(qlist(r) for r in m) + "]"


def facets_lit(rec):
    """the facets read from the fitted object, each row (normal, offset) multiplied by the
    power of two 2^E that makes all its entries integers.  Exactly the binary64 values up to
    that positive factor; facet distances, the sign of the y-normal and the contract are
    invariant under it (Coq: C19_facet_scaling), and exact rational arithmetic on integers is
    an order of magnitude cheaper inside Coq than on 53-bit dyadic fractions."""
    out = []
    for e, s in zip(rec["eq"], rec["simplices"]):
        fr = [Fraction(float(v)) for v in e]
        E = max(f.denominator for f in fr)          # denominators are powers of two
        ints = [int(f * E) for f in fr]
        assert all(Fraction(i, E) == f for i, f in zip(ints, fr))
        out.append("mkFacet %s %s [%s]%%nat" % (
            "[" + "; ".join("(inject_Z %s)" % Zs(v) for v in ints[:-1]) + "]",
            "(inject_Z %s)" % Zs(ints[-1]), "; ".join("%d" % v for v in s)))
    return "[" + ";\n   ".join(out) + "]"


def Zs(x):
    return "(%d)" % x if x < 0 else "%d" % x


# ------------------------------------------------------------------ large sample sets (n > 200)
def _position_hull_ok(pos, d):
    """footprint corners by scipy (generator side only) and an exact test that no other
    position lies on a boundary face of the footprint; returns the corner ids or None."""
    from scipy.spatial import ConvexHull
    A = np.array(pos, dtype=float)
    hull = ConvexHull(A)
    Hm = np.concatenate([np.ones((len(pos), 1), dtype=np.int64), np.array(pos, dtype=np.int64)], axis=1)
    for simp in hull.simplices:
        M = Hm[simp]                                       # (d, d+1)
        coef = np.array([(-1) ** j * int(det(M[:, [c for c in range(d + 1) if c != j]][None])[0])
                         for j in range(d + 1)], dtype=np.int64)
        g = Hm @ coef
        on = np.where(g == 0)[0]
        if len(on) != d:
            return None
    return sorted(int(v) for v in hull.vertices)


def gen_large(rng, d, n):
    """n (> 200) integer samples, d = 2 or 3 hull dimensions: distinct positions, no position on a
    boundary face of the footprint besides its corners; bowl-shaped / random targets, and some
    footprint corners (not necessarily per-coordinate extremes) get targets above everything else."""
    R = 100 if d == 2 else 40
    while True:
        seen, pos = set(), []
        shape = rng.choice(["box", "ball", "ball"])
        while len(pos) < n:
            x = tuple(rng.randint(-R, R) for _ in range(d))
            if shape == "ball" and sum(v * v for v in x) > R * R:
                continue
            if x not in seen:
                seen.add(x)
                pos.append(list(x))
        corners = _position_hull_ok(pos, d)
        if corners is not None:
            break
    kind = rng.choice(["bowl", "bowl", "random", "tilted"])
    tilt = [rng.randint(-20, 20) for _ in range(d)]
    y = []
    for x in pos:
        q = sum(v * v for v in x) * 2000 // (R * R * d)
        if kind == "bowl":
            y.append(q + rng.randint(0, 600))
        elif kind == "tilted":
            y.append(q // 2 + sum(t * v for t, v in zip(tilt, x)) + rng.randint(0, 400))
        else:
            y.append(rng.randint(0, 3000))
    top = max(y)
    raised = []
    for c in corners:
        if rng.random() < 0.5:
            y[c] = top + rng.randint(1, 1500)
            raised.append(c)
    return [[yy] + x for yy, x in zip(y, pos)], corners, raised, kind


def exact_certificate(P, simplices, d):
    """EXACT (integer) validation of the oracle contract on the directional facets given as
    sample ids: every facet is a non-vertical simplex whose projection is non-degenerate
    (simplex), every sample lies on or above its plane (h1; h2 holds by construction), the
    projections cover every sample's position (h3); `on_plane` counts non-vertex samples exactly
    on a facet's plane (not general position: reported, not alarmed).
    Returns dict(ok, msg, on_plane)."""
    S = np.array(simplices, dtype=np.int64).reshape(-1, d + 1)
    n = len(P)
    if len(S) == 0:
        return dict(ok=False, msg="no directional facet", on_plane=0)
    if S.min() < 0 or S.max() >= n:
        return dict(ok=False, msg="facet vertex id out of range", on_plane=0)
    Hh = _homog(P, False)                                  # (n, d+2): 1, y, x
    M = Hh[S]                                              # (m, d+1, d+2)
    coef = np.zeros((len(S), d + 2), dtype=np.int64)
    for j in range(d + 2):
        cols = [c for c in range(d + 2) if c != j]
        dj = det(M[..., cols])
        coef[:, j] = dj if j % 2 == 0 else -dj
    ny = coef[:, 1]
    if np.any(ny == 0):
        f = int(np.where(ny == 0)[0][0])
        return dict(ok=False, msg="directional facet %s is vertical or degenerate" % S[f].tolist(), on_plane=0)
    G = (coef @ Hh.T) * np.sign(ny)[:, None]               # > 0: strictly above the facet's plane
    if np.any(G < 0):
        f, j = [int(v[0]) for v in np.where(G < 0)]
        return dict(ok=False, msg="training sample %d lies below the plane of the directional facet %s" % (j, S[f].tolist()),
                    on_plane=0, sample=j)
    mask = np.ones_like(G, dtype=bool)
    np.put_along_axis(mask, S, False, axis=1)
    on_plane = int(np.sum((G == 0) & mask))
    # coverage: D * lambda_k(x) = (1, x) . adj(A)[:, k] with A = rows (1, x_v)
    Hx = _homog(P, True)                                   # (n, d+1)
    A = Hx[S]                                              # (m, d+1, d+1)
    D = det(A)
    adj = np.zeros_like(A)
    idx = list(range(d + 1))
    for r in range(d + 1):
        for k in range(d + 1):
            minor = A[:, [i for i in idx if i != k]][:, :, [c for c in idx if c != r]]
            adj[:, r, k] = ((-1) ** (r + k)) * det(minor)
    lam = np.einsum("jr,frk->fjk", Hx, adj) * np.sign(D)[:, None, None]
    covered = np.any(np.all(lam >= 0, axis=2), axis=0)
    if not np.all(covered):
        j = int(np.where(~covered)[0][0])
        return dict(ok=False, msg="the position of training sample %d is not covered by any directional facet" % j,
                    on_plane=on_plane, sample=j)
    return dict(ok=True, msg=None, on_plane=on_plane)


def lp_margin(P, d, i):
    """supporting-hyperplane form, one linear program: the largest t such that some non-vertical
    hyperplane through sample i lies at least t below every other sample (capped at 1).
    t > 0 <=> i is a vertex of the lower hull."""
    from scipy.optimize import linprog
    A = np.array(P, dtype=float)
    dx = np.delete(A[:, 1:] - A[i, 1:], i, axis=0)
    dy = np.delete(A[:, 0] - A[i, 0], i)
    c = np.zeros(d + 1)
    c[-1] = -1.0
    res = linprog(c, A_ub=np.hstack([dx, np.ones((len(dx), 1))]), b_ub=dy,
                  bounds=[(None, None)] * d + [(None, 1.0)], method="highs")
    return float(-res.fun) if res.status == 0 else None
