"""Helpers of the C04 check added in extension round 3 (owned by C04; harness/pcovr_common.py is
shared with C03 / C14 and left untouched).

* input-representation family: integer-valued, exactly centred data handed to the public API as
  int64 / int32 / int16 / int8 arrays, Fortran-ordered or strided float arrays or nested lists,
  optionally rescaled by a power of two (all exact in binary64, so the float64 model applies
  unchanged);
* an INDEPENDENT reference for the regression PCovR is supposed to have used (numpy normal
  equations / least squares on the data actually passed to fit) - the estimator's own
  `regressor_` is no longer the only source of Yhat;
* solver family: svd_solver in {arpack, randomized, auto} (the decomposition is an oracle of the
  model, so the same programs apply), also on mid-size matrices and on > 500 rows ('auto'
  switches to the randomized solver there);
* history family: ONE estimator object taken through several set_params / fit steps on changing
  data, compared with a fresh estimator and with the model of the last step.
"""
import warnings

import numpy as np

from harness import pcovr_common as P

# int8 is left out on purpose: the library forms X.T @ X in the dtype of X, which wraps around for
# 8-bit integers (observation outside C04's quantifier, see harness/props/c04.audit.md)
INT_DTYPES = ["int64", "int64", "int32", "int16"]
LAYOUTS = ["C", "C", "F", "strided", "list"]
TRUNCATED = ("arpack", "randomized")


# ------------------------------------------------------------------------------- generators
def _shape(rng, fam, hi):
    if fam == "tall":
        m = rng.randint(2, hi - 2)
        n = rng.randint(m + 1, hi)
    elif fam == "wide":
        n = rng.randint(3, hi - 1)
        m = rng.randint(n + 1, hi + 1)
    else:
        n = m = rng.randint(3, hi - 1)
    return n, m


def _as_layout(A, layout):
    """The same values in another memory layout / container (A is a 2-D array)."""
    if layout == "F":
        return np.asfortranarray(A)
    if layout == "strided":
        big = np.zeros((2 * A.shape[0], 2 * A.shape[1]), dtype=A.dtype)
        big[::2, ::2] = A
        return big[::2, ::2]
    if layout == "list":
        return A.tolist()
    return np.ascontiguousarray(A)


def gen_repr_dataset(rng, quick=True, family=None):
    """Integer-valued X with exactly zero column sums, handed over in a random representation.
    ds["X"], ds["Y"], ds["Xn"] are the float64 values (what the model sees); ds["Xpass"], ds["Ypass"]
    go to fit, ds["Xobs"], ds["Xnobs"] (arrays of the same dtype) go to transform / predict / score."""
    g = P.np_rng(rng)
    fam = family or rng.choice(["tall", "wide", "square", "tall"])
    n, m = _shape(rng, fam, 6 if quick else 8)
    p = rng.choice([1, 1, 2, 3])
    while True:
        Xi = g.integers(-4, 5, size=(n, m))
        Xi[-1] -= Xi.sum(axis=0)                      # |entries| <= 4 (n - 1) <= 28, Gram entries <= 900: exact in int16
        if np.linalg.matrix_rank(Xi) == min(n - 1, m):   # general position among centred matrices
            break
    q = 3
    Xni = g.integers(-6, 7, size=(q, m))
    scale = rng.choice([1.0, 1.0, 1.0, 2.0 ** -5, 2.0 ** 6])
    ykind = rng.choice(["int", "float", "float"])
    if ykind == "int":
        Yi = g.integers(-5, 6, size=(n, p)) + Xi @ g.integers(-1, 2, size=(m, p))
        Yi[-1] -= Yi.sum(axis=0)
        Y = Yi.astype(float)
        Wtrue = None
    else:
        Wtrue = g.normal(size=(m, p))
        Y = (Xi @ Wtrue) * scale + rng.choice([0.1, 0.5, 1.0]) * scale * g.normal(size=(n, p))
        Y = Y - Y.mean(axis=0)
        Yi = None
    yscale = rng.choice([1.0, 1.0, 2.0 ** -4, 2.0 ** 5])
    Y = Y * yscale
    if scale == 1.0:
        dt = rng.choice(INT_DTYPES)
        Xp, Xnp = Xi.astype(dt), Xni.astype(dt)
    else:
        dt = "float64"
        Xp, Xnp = Xi.astype(float) * scale, Xni.astype(float) * scale
    layout = rng.choice(LAYOUTS)
    X = Xi.astype(float) * scale
    Xn = Xni.astype(float) * scale
    Ypass = Yi.astype("int64") if (Yi is not None and yscale == 1.0) else Y
    ylayout = rng.choice(["C", "C", "F", "list"])
    Yn = g.normal(size=(q, p)) * max(1.0, float(np.abs(Y).max()))
    return dict(family="repr-" + fam, n=n, m=m, p=p, q=q, rank_made=None, X=X, Y=Y, Xn=Xn, Yn=Yn,
                centred=True, Xpass=_as_layout(Xp, layout), Ypass=_as_layout(np.asarray(Ypass), ylayout),
                Xobs=np.asarray(_as_layout(Xp, "F" if layout == "F" else "C")), Xnobs=Xnp,
                repr=dict(dtype=dt, layout=layout, scale=scale, yscale=yscale, ykind=ykind,
                          ydtype=str(np.asarray(Ypass).dtype), ylayout=ylayout))


def gen_like(rng, n, m, p, quick=True):
    """A centred float data set of a prescribed shape (histories that keep the shape)."""
    g = P.np_rng(rng)
    X = g.normal(size=(n, m)) * g.uniform(0.5, 2.0, size=(1, m))
    X = X - X.mean(axis=0)
    Wtrue = g.normal(size=(m, p))
    Y = X @ Wtrue + rng.choice([0.1, 0.5, 1.0]) * g.normal(size=(n, p))
    Y = Y - Y.mean(axis=0)
    q = 3
    Xn = g.normal(size=(q, m)) * 1.5
    Yn = Xn @ Wtrue + 0.3 * g.normal(size=(q, p))
    fam = "tall" if n > m else ("wide" if n < m else "square")
    return dict(family=fam, n=n, m=m, p=p, q=q, rank_made=None, X=X, Y=Y, Xn=Xn, Yn=Yn, centred=True)


def gen_mid_dataset(rng, big=False):
    """Mid-size data for the truncated solvers (no Coq tie: Python oracle only).  big: more than
    500 rows, where svd_solver='auto' resolves to the randomized solver."""
    g = P.np_rng(rng)
    if big:
        n, m = rng.randint(501, 540), rng.randint(4, 8)
    else:
        n, m = rng.randint(25, 70), rng.randint(5, 12)
        if rng.random() < 0.3:
            n, m = m + rng.randint(0, 3), n               # wide: sample space under 'auto'
    p = rng.choice([1, 2, 3])
    # decaying column scales; the targets live partly on low-variance features (as in real use)
    X = g.normal(size=(n, m)) * np.linspace(3.0, 0.3, m)
    X = X - X.mean(axis=0)
    B = g.normal(size=(m, p)) * np.linspace(0.2, 3.0, m)[:, None]
    Y = X @ B + 0.1 * g.normal(size=(n, p))
    Y = Y - Y.mean(axis=0)
    return dict(family="big" if big else "mid", n=n, m=m, p=p, q=0, rank_made=None, X=X, Y=Y,
                Xn=np.zeros((0, m)), Yn=np.zeros((0, p)), centred=True)


def gen_large_dataset(rng, n):
    """Many samples, few features, for fits FORCED into sample space (n x n Gram matrix); the targets
    are centred or not (X always is).  Python oracle only: an n x n literal is too big for a shard."""
    g = P.np_rng(rng)
    m = rng.randint(3, 6)
    p = rng.choice([1, 2])
    X = g.normal(size=(n, m)) * np.linspace(2.0, 0.5, m)
    X = X - X.mean(axis=0)
    Y = X @ g.normal(size=(m, p)) + 0.3 * g.normal(size=(n, p))
    Y = Y - Y.mean(axis=0)
    if rng.random() < 0.4:
        Y = Y + g.normal(size=(1, p)) * 2.0
    return dict(family="large-n", n=n, m=m, p=p, q=0, rank_made=None, X=X, Y=Y,
                Xn=np.zeros((0, m)), Yn=np.zeros((0, p)), centred=True)


# ------------------------------------------------------------------- implementation drivers
def make_regressor(ds, cfg, cache=None):
    """(regressor parameter, Y to pass, W to pass, description of the reference regression).
    `cache` (histories): user-supplied unfitted regressor objects are re-used between steps, as a
    user who only calls set_params(mixing=...) would."""
    from sklearn.linear_model import LinearRegression, Ridge
    X, Y = ds["X"], ds["Y"]
    Ypass = np.asarray(ds["Ypass"]) if "Ypass" in ds else Y
    as_list = isinstance(ds.get("Ypass"), list)

    def ysel(A):
        A = A[:, 0] if cfg["y1d"] else A
        return A.tolist() if as_list else A
    kind = cfg["reg"]
    if kind == "default":
        return None, ysel(Ypass), None
    if kind in ("ridge", "linreg"):
        key = (kind, cfg["alpha"] if kind == "ridge" else None)
        if cache is not None and key in cache:
            return cache[key], ysel(Ypass), None
        r = (Ridge(alpha=cfg["alpha"], fit_intercept=False, tol=1e-12) if kind == "ridge"
             else LinearRegression(fit_intercept=False))
        if cache is not None:
            cache[key] = r
        return r, ysel(Ypass), None
    if kind == "prefit":
        r = Ridge(alpha=cfg["alpha"], fit_intercept=False, tol=1e-12)
        r.fit(X, Y[:, 0] if cfg["y1d"] else Y)
        return r, ysel(Ypass), None
    W0 = np.linalg.solve(X.T @ X + cfg["alpha"] * np.eye(ds["m"]), X.T @ Y)
    Yhat = X @ W0
    return "precomputed", (Yhat[:, 0] if cfg["y1d"] else Yhat), (W0 if kind == "pre_W" else None)


def fit_impl(ds, cfg, est=None, cache=None, tol=P.TOL):
    """Fit PCovR through its public API on the representation ds["Xpass"] / ds["Ypass"] (default:
    the float arrays).  est: an existing estimator object to be re-used (set_params + fit).
    Returns (estimator, Y as the model sees it, Yhat, W) like pcovr_common.fit_impl."""
    from skmatter.decomposition import PCovR
    reg, Yfit, Wfit = make_regressor(ds, cfg, cache)
    nc = cfg.get("nc", cfg["k"])           # "nc": a fractional n_components or "mle" (round 5)
    params = dict(mixing=cfg["a"], n_components=nc, space=cfg["space"],
                  svd_solver=cfg["solver"], tol=tol, regressor=reg, random_state=0)
    if est is None:
        est = PCovR(**params)
    else:
        est.set_params(**params)
    Xp = ds.get("Xpass", ds["X"])
    X = ds["X"]
    with warnings.catch_warnings():
        warnings.simplefilter("ignore")
        if reg == "precomputed" and Wfit is not None:
            est.fit(Xp, Yfit, W=Wfit)
        elif reg != "precomputed" and cfg.get("Wjunk") is not None:
            # a W handed to fit although the regressor is a real one: documented to be ignored
            est.fit(Xp, Yfit, W=junk_W(cfg))
        else:
            est.fit(Xp, Yfit)
    n, m = X.shape
    if reg == "precomputed":
        Yh = np.asarray(Yfit, dtype=float).reshape(n, -1)
        W = Wfit if Wfit is not None else np.linalg.lstsq(X, Yh, tol)[0]
        Ymodel = Yh
    else:
        W = est.regressor_.coef_.T.reshape(m, -1)
        Yh = est.regressor_.predict(X).reshape(n, -1)
        Ymodel = np.asarray(Yfit, dtype=float).reshape(Yh.shape)
    return est, Ymodel, Yh, np.asarray(W, dtype=float).reshape(m, -1)


def junk_W(cfg):
    """The arbitrary W of a 'W passed although ignored' configuration, in its layout."""
    W = np.asarray(cfg["Wjunk"], dtype=float)
    lay = cfg.get("Wjunk_layout", "2d")
    if lay == "flat":
        return W.reshape(-1)
    if lay == "F":
        return np.asfortranarray(W)
    if lay == "list":
        return W.tolist()
    return W


def add_junk_W(rng, ds, cfg, prob=0.35):
    """With probability prob make a non-precomputed configuration pass an arbitrary W to fit."""
    if cfg["reg"] in ("pre_W", "pre_noW") or rng.random() >= prob:
        return cfg
    g = np_rng_of(rng)
    cfg["Wjunk"] = (g.normal(size=(ds["m"], ds["p"])) * rng.choice([0.5, 3.0, 50.0])).tolist()
    cfg["Wjunk_layout"] = rng.choice(["2d", "2d", "flat", "F", "list"])
    return cfg


def np_rng_of(rng):
    return P.np_rng(rng)


def resolve_fraction(S_full, f, n):
    """(k, distance of f to the nearest cumulative ratio): the smallest k whose cumulative
    explained-variance ratio of the eigenvalues S_full EXCEEDS f (searchsorted side='right' + 1)."""
    ev = np.asarray(S_full, dtype=float) / (n - 1)
    c = np.cumsum(ev / ev.sum())
    return int(np.searchsorted(c, f, side="right")) + 1, float(np.min(np.abs(c - f)))


def reference_regression(ds, cfg):
    """What the regression of the data passed to fit IS, computed without the estimator:
    (Yhat_ref, None) or (None, reason the reference is not well conditioned)."""
    X = ds["X"]
    Y = ds["Y"][:, :1] if cfg["y1d"] else ds["Y"]
    kind = cfg["reg"]
    m = ds["m"]
    if kind in ("default", "ridge", "prefit"):
        alpha = 1e-6 if kind == "default" else cfg["alpha"]
        G = X.T @ X + alpha * np.eye(m)
        if np.linalg.cond(G) > 1e11:
            return None, "ridge normal equations ill conditioned"
        return X @ np.linalg.solve(G, X.T @ Y), None
    if kind == "linreg":
        s = np.linalg.svd(X, compute_uv=False)
        if np.any((s > 1e-13 * s[0]) & (s < 1e-7 * s[0])):
            return None, "rank of X not clear cut"
        return X @ np.linalg.lstsq(X, Y, rcond=1e-10)[0], None
    return None, "precomputed"


def regression_message(ds, cfg, Yh):
    """None, or how the regressed targets PCovR worked with differ from the regression of the
    data it was given (tolerance: 1e-6 relative to the targets - the default ridge is solved by
    Cholesky on a system of condition up to 1e11)."""
    ref, why = reference_regression(ds, cfg)
    if ref is None:
        return None, why
    Y = ds["Y"][:, :1] if cfg["y1d"] else ds["Y"]
    dev = float(np.abs(ref - Yh.reshape(ref.shape)).max())
    if dev > 1e-6 * (1e-300 + float(np.abs(Y).max())):
        return ("the regressed targets of the fitted estimator (regressor_.predict(X)) differ from the %s "
                "regression of the data passed to fit: max dev %.3g" % (cfg["reg"], dev)), None
    return None, None


def obs_ds(ds):
    """The data set as the observation routines should see it (other dtype where there is one)."""
    if "Xobs" not in ds:
        return ds
    return dict(ds, X=ds["Xobs"], Xn=ds["Xnobs"])


def solver_gate(S_full, k):
    """Truncated solvers (ARPACK works on A^H A) need k within the numerically clean rank."""
    S = np.asarray(S_full)
    if k > len(S) or S[0] <= 0 or S[k - 1] <= 1e-5 * S[0]:
        return "truncated solver: k beyond the numerically clean rank"
    return None


def resolved_solver(cfg, ds):
    """fit_svd_solver_ as PCovR.fit resolves it (integer n_components)."""
    s = cfg["solver"]
    if s != "auto":
        return s
    if max(ds["n"], ds["m"]) <= 500:
        return "full"
    return "randomized" if 1 <= cfg["k"] < 0.8 * min(ds["n"], ds["m"]) else "full"


# ------------------------------------------------------------------------ property oracles
def orth(M):
    Q, _ = np.linalg.qr(M)
    return Q


def proj_loss(Q, A):
    R = A - Q @ (Q.T @ A)
    return float(np.sum(R * R))


def optimum_message(est, ds, Yh, a, k, rtol):
    """The mixed loss of the implementation's latent space against the Ky Fan optimum
    tr K~ - (sum of the k largest eigenvalues of K~), K~ built from the data and the REFERENCE
    regressed targets.  Returns (message or None, own loss, optimal loss)."""
    X = ds["X"]
    Xo = obs_ds(ds)["X"]
    with warnings.catch_warnings():
        warnings.simplefilter("ignore")
        T = np.asarray(est.transform(Xo), dtype=float)
        xr = np.asarray(est.inverse_transform(T), dtype=float)
    lx = float(np.sum((X - xr) ** 2))
    coef = np.linalg.lstsq(T, Yh, rcond=None)[0]
    ly = float(np.sum((Yh - T @ coef) ** 2))
    own = a * lx + (1 - a) * ly
    K = a * (X @ X.T) + (1 - a) * (Yh @ Yh.T)
    ev = np.linalg.eigvalsh(K)[::-1]
    best = float(np.trace(K) - ev[:k].sum())
    scale = 1e-300 + float(np.sum(X ** 2)) * a + (1 - a) * float(np.sum(Yh ** 2))
    if own > best + rtol * scale:
        return ("mixed loss of PCovR's latent space %.12g exceeds the optimum over all %d-dimensional "
                "subspaces %.12g (mixing %g, excess %.3g of the total)" % (own, k, best, a, (own - best) / scale)), own, best
    return None, own, best


ATTRS = ["pxt_", "ptx_", "pty_", "pxy_", "components_", "singular_values_", "explained_variance_",
         "explained_variance_ratio_", "mean_"]
SCALARS = ["n_components_", "space_", "fit_svd_solver_", "n_samples_in_", "n_features_in_"]


def state_of(est):
    st = {a: np.array(getattr(est, a), dtype=float) for a in ATTRS if hasattr(est, a)}
    for s in SCALARS:
        st[s] = getattr(est, s, None)
    if est.regressor != "precomputed" and hasattr(est, "regressor_"):
        st["regressor_.coef_"] = np.array(est.regressor_.coef_, dtype=float)
    return st


def state_diff(a, b):
    """Names of the fitted attributes in which two estimator states differ (shape, or values
    beyond 1e-9 relative: both objects run the same deterministic code on the same input)."""
    bad = []
    for key in sorted(set(a) | set(b)):
        u, v = a.get(key), b.get(key)
        if isinstance(u, np.ndarray) or isinstance(v, np.ndarray):
            if u is None or v is None or u.shape != v.shape:
                bad.append(key + " (shape)")
            elif u.size and not np.allclose(u, v, rtol=1e-9, atol=1e-12 * (1 + float(np.abs(v).max()))):
                bad.append("%s (max dev %.3g)" % (key, float(np.abs(u - v).max())))
        elif u != v:
            bad.append("%s (%r vs %r)" % (key, u, v))
    return bad


# -------------------------------------------------------------------------------- histories
def gen_history(rng, quick=True):
    """2-3 steps on one object.  Each step: (data set, configuration).  The shape is kept
    (new values), changed, or the data are kept and only parameters change."""
    nsteps = rng.choice([2, 2, 3])
    mode = rng.choice(["same_shape", "same_shape", "other_shape", "same_data"])
    regmode = rng.choice(["default", "default", "ridge", "linreg", "mixed", "mixed"])
    ds0 = P.gen_dataset(rng, quick, family=rng.choice(["tall", "wide", "square"]))
    steps = []
    ds = ds0
    for i in range(nsteps):
        if i > 0:
            if mode == "same_shape":
                ds = gen_like(rng, ds0["n"], ds0["m"], ds0["p"], quick)
            elif mode == "other_shape":
                ds = P.gen_dataset(rng, quick, family=rng.choice(["tall", "wide", "square"]))
        reg = regmode if regmode != "mixed" else rng.choice(["default", "ridge", "linreg", "pre_W", "pre_noW", "prefit"])
        cfg = P.gen_config(rng, ds, reg=reg)
        cfg["solver"] = "full"
        add_junk_W(rng, ds, cfg, 0.25)
        if regmode == "ridge":
            cfg["alpha"] = steps[0][1]["alpha"] if steps else cfg["alpha"]   # the same object throughout
        steps.append((ds, cfg))
    return dict(mode=mode, regmode=regmode, steps=steps)


def ds_to_json(ds):
    d = P.jsonable({k: ds[k] for k in ("family", "n", "m", "p", "q", "X", "Y", "Xn", "Yn", "centred")})
    if "repr" in ds:
        d["repr"] = dict(ds["repr"])
    return d


def ds_from_json(d):
    ds = P.ds_from_json(d)
    r = d.get("repr")
    if r:
        if r["dtype"] != "float64":
            Xp, Xnp = np.rint(ds["X"]).astype(r["dtype"]), np.rint(ds["Xn"]).astype(r["dtype"])
        else:
            Xp, Xnp = ds["X"].copy(), ds["Xn"].copy()
        Yp = np.rint(ds["Y"]).astype(r["ydtype"]) if r["ydtype"].startswith("int") else ds["Y"]
        ds.update(Xpass=_as_layout(Xp, r["layout"]), Ypass=_as_layout(Yp, r["ylayout"]),
                  Xobs=np.asarray(_as_layout(Xp, "F" if r["layout"] == "F" else "C")), Xnobs=Xnp)
    return ds


def hist_to_json(hist):
    return dict(mode=hist["mode"], regmode=hist["regmode"],
                steps=[dict(dataset=ds_to_json(ds), config=cfg) for ds, cfg in hist["steps"]])


def hist_from_json(d):
    return dict(mode=d.get("mode"), regmode=d.get("regmode"),
                steps=[(ds_from_json(s["dataset"]), s["config"]) for s in d["steps"]])


# ------------------------------------------------------------------------------ Coq writer
class CoqCases4(P.CoqCases):
    """pcovr_common.CoqCases whose shards also import Model/PCovRC04.v (c04_own_report)."""

    def flush(self):
        n0 = len(self.shards)
        super().flush()
        for i in range(n0, len(self.shards)):
            body, ids, tags = self.shards[i]
            self.shards[i] = (body.replace("From Verif Require Import MExp PCovR.",
                                           "From Verif Require Import MExp PCovR PCovRC04 PCovRFrac."), ids, tags)


OWN_LABELS = ["loss_prog(own subspace) vs implementation", "lossx_prog(own subspace) vs implementation",
              "lossy_prog(own subspace) vs implementation", "|X - inverse_transform(transform(X))|^2 program vs implementation",
              "|Y - predict(T=transform(X))|^2 program vs implementation", "Q^T Q idempotent",
              "loss_prog(own subspace) vs tr M - retained eigenvalues"]
