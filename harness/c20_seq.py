"""Fresh-process reference for C20's call-sequence family (harness/props/c20.py, class Fresh).

`python -m harness.c20_seq` imports skmatter WITHOUT ever calling the rigidity functions and
then serves requests on stdin/stdout (8-byte little-endian length + pickle): for every request
it forks; the child runs the requested call sequence (harness.props.c20.run_sequence) in a
process whose module state is pristine, sends the records back and exits.
"""
import os
import pickle
import struct
import sys


def main():
    inp, out = sys.stdin.buffer, sys.stdout.buffer
    sys.stdout = sys.stderr               # nothing but the protocol on the real stdout
    import numpy  # noqa: F401
    import skmatter.metrics  # noqa: F401
    from harness.props import c20
    while True:
        hdr = inp.read(8)
        if len(hdr) < 8:
            break
        req = pickle.loads(inp.read(struct.unpack("<Q", hdr)[0]))
        r, w = os.pipe()
        pid = os.fork()
        if pid == 0:
            os.close(r)
            try:
                res = c20.run_sequence(req["cases"], reuse=req.get("reuse", False))
            except BaseException as e:  # noqa
                res = dict(zygote_error=repr(e))
            with os.fdopen(w, "wb") as f:
                f.write(pickle.dumps(res))
            os._exit(0)
        os.close(w)
        with os.fdopen(r, "rb") as f:
            data = f.read()
        os.waitpid(pid, 0)
        out.write(struct.pack("<Q", len(data)) + data)
        out.flush()


if __name__ == "__main__":
    main()
