"""Helpers of the C05 check (KernelPCovR): case generator, implementation driver, numpy mirror
that produces the oracle hints, Coq case writer and the Python property oracle.

Nothing here imports skmatter at module import time."""
import math
import warnings

import numpy as np

from harness import common as C

KERNELS = ["linear", "rbf", "poly", "sigmoid", "cosine", "precomputed"]
REGRESSORS = ["none", "krr_unfitted", "krr_fitted", "pre_W", "pre_noW", "pre_raw_noW", "pre_raw_W"]
# pre_W / pre_noW: regressor="precomputed" with Yhat = K W_ridge (a Yhat the kernel reproduces);
# pre_raw_noW: the raw targets are passed as Yhat and W is left to the library (lstsq(K, Yhat, tol));
# pre_raw_W: raw targets and a W that does NOT reproduce them.  In the raw kinds K W != Yhat in
# general, so K P != K~ and T^T T is not diag(S): everything downstream must use T itself.
RAW_KINDS = ("pre_raw_noW", "pre_raw_W")
TOL = 1e-12           # KernelPCovR default tol (kept at the default in every case)
GAP = 1e-4            # required relative eigen-gap at position k
SOLID = 1e-7          # retained eigenvalues must be > SOLID*S_1 (or numerically dead)


# --------------------------------------------------------------------------------- generation
def _mat(rs, r, c, scale=1.0):
    return (scale * rs.standard_normal((r, c))).tolist()


def gen_case(rng, quick):
    rs = np.random.RandomState(rng.randrange(2 ** 31))
    nmax = 7 if quick else 12
    n = rng.randint(3, nmax)
    d = rng.randint(2, 5)
    p = rng.choice([1, 1, 2, 3])
    kernel = rng.choice(KERNELS)
    base_kernel = kernel if kernel != "precomputed" else rng.choice(["linear", "rbf", "poly", "cosine"])
    regressor = rng.choice(REGRESSORS)
    y1d = p == 1 and regressor in ("none", "krr_unfitted", "krr_fitted") and rng.random() < 0.4
    r = rng.random()
    mixing = 0.0 if r < 0.08 else 1.0 if r < 0.2 else rng.choice([0.1, 0.5, 0.9]) if r < 0.6 else round(rng.uniform(0.02, 0.98), 3)
    X = np.array(_mat(rs, n, d, 1.0))
    if rng.random() < 0.7:
        X = X - X.mean(axis=0)
    Y = np.array(_mat(rs, n, p)) + X[:, :1] @ rs.standard_normal((1, p))
    if rng.random() < 0.7:
        Y = Y - Y.mean(axis=0)
    rank_cap = n
    if base_kernel == "linear":
        rank_cap = min(n, d + p)
    k = rng.randint(1, n) if rng.random() < 0.25 else rng.randint(1, max(1, min(n, rank_cap) - (1 if rng.random() < 0.7 else 0)))
    params = dict(gamma=rng.choice([None, 0.1, 0.3, 0.7]), degree=rng.choice([2, 3]),
                  coef0=rng.choice([1, 0.5, 0.0, 2.0]))
    if base_kernel == "sigmoid":
        params["gamma"] = rng.choice([0.01, 0.05, 0.1])
        params["coef0"] = rng.choice([0.0, 0.1])
    case = dict(n=n, d=d, p=p, k=k, wseed=rng.randrange(2 ** 31), kernel=kernel, base_kernel=base_kernel, params=params,
                center=rng.random() < 0.5, regressor=regressor, y1d=bool(y1d), mixing=mixing,
                alpha=rng.choice([1.0, 1e-1, 1e-2, 1e-3]), X=X.tolist(), Y=Y.tolist())
    # new-data sets: the training set itself plus held-out sets of size 1, <n, =n, >n
    sizes = [("train", n)]
    others = [("one", 1), ("less", rng.randint(2, n - 1) if n > 2 else 1), ("equal", n),
              ("more", n + rng.randint(1, 3))]
    rng.shuffle(others)
    sizes += others[:2 if quick else 4]
    news = []
    for tag, v in sizes:
        if tag == "train":
            news.append(dict(tag=tag, v=n, Xv=None, Yv=None))
        else:
            Xv = np.array(_mat(rs, v, d, 1.0))
            Yv = np.array(_mat(rs, v, p)) + Xv[:, :1]
            news.append(dict(tag=tag, v=v, Xv=Xv.tolist(), Yv=Yv.tolist()))
    case["news"] = news
    return case


# --------------------------------------------------------------------------------- kernels
def kern(case, A, B=None, name=None):
    from sklearn.metrics.pairwise import pairwise_kernels
    name = name or case["base_kernel"]
    return pairwise_kernels(np.asarray(A, float), None if B is None else np.asarray(B, float),
                            metric=name, filter_params=True, **case["params"])


def new_sets(case):
    """(tag, Xv, Yv) with the training set substituted for the 'train' entry"""
    X, Y = np.array(case["X"], float), np.array(case["Y"], float)
    out = []
    for nd in case["news"]:
        if nd["tag"] == "train":
            out.append(("train", X, Y))
        else:
            out.append((nd["tag"], np.array(nd["Xv"], float), np.array(nd["Yv"], float)))
    return out


def center_blocks(Kraw, Ktraw=None, Kvvraw=None):
    """KernelNormalizer semantics written out (feature-space centring on the training mean and
    scaling by trace/n); the V x V block is centred with the training means on both sides."""
    n = Kraw.shape[0]
    rows = Kraw.sum(axis=0) / n
    allm = rows.sum() / n
    Kc = Kraw - rows[None, :] - (Kraw.sum(axis=1) / n)[:, None] + allm
    scale = np.trace(Kc) / n
    out = [Kc / scale, None, None, scale]
    if Ktraw is not None:
        mv = Ktraw.sum(axis=1) / n
        out[1] = (Ktraw - rows[None, :] - mv[:, None] + allm) / scale
        if Kvvraw is not None:
            out[2] = (Kvvraw - mv[:, None] - mv[None, :] + allm) / scale
    return out


# --------------------------------------------------------------------------------- implementation
def _krr(case, kernel, alpha):
    from sklearn.kernel_ridge import KernelRidge
    return KernelRidge(alpha=alpha, kernel=kernel, **case["params"])


# --------------------------------------------------------------------------------- presentations
# The same numerical values handed to the API in different containers / dtypes / memory layouts.
# case["present"] = {"train": kind, "new": kind}; absent = float64 C-ordered ndarray everywhere.
# The model, the oracle's reference routes (precomputed kernel, PCovR, explicit normaliser) and
# the numpy mirror always work on the float64 VALUES, so a presentation-dependent answer shows.
TRAIN_PRESENT = ["int64", "int32", "int8", "uint8", "int16", "list", "fortran", "strided", "f32"]
NEW_PRESENT = ["f64", "f64", "list", "fortran", "strided", "f32new"]
INT_KINDS = ("int64", "int32", "int8", "uint8", "int16")
# narrow containers: (amplitude for linear / cosine kernels - inner products of d >= 2 features exceed
# the container's range -, amplitude for the other kernels, offset for the unsigned type)
NARROW = {"int8": (12, 3, 0), "uint8": (7, 3, 8), "int16": (150, 3, 0)}


def _present(A, kind):
    A = np.asarray(A, float)
    if kind in (None, "f64"):
        return A
    if kind in INT_KINDS:
        B = A.astype(kind)
        assert np.array_equal(B.astype(float), A), "integer presentation of non-integer values"
        return B
    if kind in ("f32", "f32new"):
        B = A.astype(np.float32)
        assert np.array_equal(B.astype(float), A), "float32 presentation of values not representable"
        return B
    if kind == "list":
        return A.tolist()
    if kind == "fortran":
        return np.asfortranarray(A)
    if kind == "strided":
        big = np.zeros((2 * A.shape[0], 2 * A.shape[1] + 1))
        big[::2, 1::2] = A
        return big[::2, 1::2]
    raise ValueError(kind)


def gen_present_case(rng, quick):
    """a case whose training X and / or new samples are NOT float64 C-ordered ndarrays"""
    for _ in range(50):
        c = _gen_present_case(rng, quick)
        # quantisation must not collapse the training set (identical samples: centred kernel = 0)
        if len({tuple(r) for r in c["X"]}) >= min(c["n"], 3):
            return c
    return c


def _gen_present_case(rng, quick):
    c = gen_case(rng, quick)
    tp = rng.choice(TRAIN_PRESENT)
    if c["kernel"] == "precomputed" and tp in ("int64", "int32", "f32"):
        tp = rng.choice(["list", "fortran", "strided"])      # a real-valued kernel matrix is passed
    if c["kernel"] == "precomputed" and tp in NARROW:
        tp = rng.choice(["list", "fortran", "strided"])
    X = np.array(c["X"], float)

    def narrow(A, kind):
        big, small, off = NARROW[kind]
        amp = big if c["base_kernel"] in ("linear", "cosine") else (2 if c["base_kernel"] == "sigmoid" else small)
        B = np.clip(np.round(np.asarray(A, float) * (amp / 2.5 if amp == big else 2.0)), -amp, amp)
        B[~B.any(axis=1), 0] = 1.0       # no all-zero sample: tr K_VV = 0 makes the documented loss 0/0
        return B + (off if amp == big else (amp if off else 0))

    if tp in ("int64", "int32"):
        # integer-valued training data (counts, grid indices, one-hot codes ...); new samples stay real
        X = np.round(2.0 * X)
        if c["base_kernel"] == "sigmoid":
            X = np.clip(X, -2, 2)
        c["X"] = X.tolist()
    elif tp in NARROW:
        # 8 / 16 bit containers (images, quantised descriptors): for the linear and cosine kernels the
        # values are large enough for inner products to leave the container's range
        c["X"] = narrow(X, tp).tolist()
    elif tp == "f32":
        c["X"] = X.astype(np.float32).astype(float).tolist()
    nw = rng.choice(NEW_PRESENT)
    if tp in NARROW and rng.random() < 0.6:
        nw = tp                                  # new samples in the same narrow container
        for nd in c["news"]:
            if nd["Xv"] is not None:
                nd["Xv"] = narrow(nd["Xv"], tp).tolist()
    if c["kernel"] == "precomputed" and nw == "f32new":
        nw = "list"
    if nw == "f32new":
        for nd in c["news"]:
            if nd["Xv"] is not None:
                nd["Xv"] = np.array(nd["Xv"], np.float32).astype(float).tolist()
    # constructor arguments as numpy scalars (what a parameter grid built with numpy hands over)
    c["present"] = dict(train=tp, new=nw, params=rng.random() < 0.4)
    return c


def _present_params(case, kw):
    """n_components as np.int64, mixing as np.float32 (when representable) / int (0, 1) / np.float64,
    center as np.bool_, gamma / degree / coef0 as numpy scalars: same values, other types"""
    out = dict(kw)
    out["n_components"] = np.int64(kw["n_components"])
    m = kw["mixing"]
    out["mixing"] = int(m) if m in (0.0, 1.0) and case["n"] % 2 else (
        np.float32(m) if float(np.float32(m)) == m else np.float64(m))
    out["center"] = np.bool_(kw["center"])
    if kw.get("gamma") is not None:
        out["gamma"] = np.float64(kw["gamma"])
    out["degree"] = np.int64(kw["degree"])
    c0 = kw["coef0"]
    out["coef0"] = np.int64(c0) if float(c0).is_integer() else np.float64(c0)
    return out


def build(case, kernel=None, center=None, Xfit=None, regr_kernel_data=None):
    """Construct the estimator and its fit arguments.  `kernel`/`center`/`Xfit` override the
    case (used by the oracle for the precomputed / explicit-normalizer equivalents)."""
    from skmatter.decomposition import KernelPCovR
    kernel = kernel or case["kernel"]
    center = case["center"] if center is None else center
    X = np.array(case["X"], float)
    Y = np.array(case["Y"], float)
    Yfit = Y[:, 0] if case["y1d"] else Y
    own_route = Xfit is None and kernel == case["kernel"]
    if Xfit is None:
        Xfit = kern(case, X) if kernel == "precomputed" else X
        if kernel == case["kernel"] and case.get("present"):
            Xfit = _present(Xfit, case["present"]["train"])     # only the case's own route is presented
    reg = case["regressor"]
    W = None
    if reg == "none":
        regressor = None
    elif reg == "krr_unfitted":
        regressor = _krr(case, kernel, case["alpha"])
    elif reg == "krr_fitted":
        regressor = _krr(case, kernel, case["alpha"])
        # a user-fitted regressor: fitted on the raw (uncentred) kernel of the training data
        regressor.fit(kern(case, X) if kernel == "precomputed" else X, Yfit)
    else:
        regressor = "precomputed"
        Kraw = kern(case, X)
        Kc = center_blocks(Kraw)[0] if case["center"] else Kraw
        Wd = np.linalg.solve(Kc + case["alpha"] * np.eye(len(Kc)), Y)
        if reg in RAW_KINDS:
            Yfit = Y.copy()                 # arbitrary Yhat: not in the range of K in general
            if reg == "pre_raw_W":
                W = Wd + 0.3 * np.random.RandomState(case.get("wseed", 0)).standard_normal(Wd.shape)
        else:
            Yfit = Kc @ Wd                  # "the regressed form of the targets"
            if reg == "pre_W":
                W = Wd
    kw = dict(mixing=case["mixing"], n_components=case["k"], center=center, **case["params"])
    if own_route and (case.get("present") or {}).get("params"):
        kw = _present_params(case, kw)
    est = KernelPCovR(regressor=regressor, kernel=kernel, **kw)
    return est, Xfit, Yfit, W


def as2d(a, v):
    a = np.asarray(a, float)
    return a.reshape(v, -1)


def observe(case, est, Xfit, Yfit, W):
    """Record the fitted attributes and transform / predict / score on the case's new-data sets
    of an estimator that has just been fitted for `case`."""
    rec = dict(news=[])
    n = case["n"]
    rec["pkt"] = np.asarray(est.pkt_, float).tolist()
    rec["pky"] = as2d(est.pky_, n).tolist()
    rec["pty"] = as2d(est.pty_, case["k"]).tolist()
    rec["ptk"] = np.asarray(est.ptk_, float).tolist()
    rec["Yfit"] = as2d(Yfit, n).tolist()
    if W is not None:
        rec["W_pre"] = np.asarray(W, float).tolist()
    if case["regressor"] in ("none", "krr_unfitted", "krr_fitted"):
        rec["W"] = as2d(est.regressor_.dual_coef_, n).tolist()
        rec["alpha_used"] = float(est.regressor_.alpha)
    for tag, Xv, Yv in new_sets(case):
        v = len(Xv)
        o = dict(tag=tag, v=v)
        Xarg = kern(case, Xv, case["X"]) if case["kernel"] == "precomputed" else Xv
        if case["kernel"] == "precomputed" and tag == "train":
            Xarg = Xfit
        elif case.get("present"):
            # the training set is passed again the way it was passed to fit; the f32new
            # presentation of a precomputed kernel block is never generated
            Xarg = _present(Xarg, case["present"]["train"] if tag == "train" else case["present"]["new"])
        Yarg = Yv[:, 0] if case["y1d"] else Yv
        for name, f in (("T", lambda: est.transform(Xarg)), ("pred", lambda: est.predict(Xarg)),
                        ("score", lambda: est.score(Xarg, Yarg))):
            if name == "score" and case["kernel"] == "precomputed" and tag != "train":
                continue            # the API has no way to pass K_VV for a precomputed kernel
            if name == "score" and tag != "train" and (case.get("present") or {}).get("new") == "f32new":
                continue            # K_VV = k(Xv, Xv) of float32 samples is evaluated in single precision
            try:
                r = f()
                o[name] = float(r) if name == "score" else as2d(r, v).tolist()
            except Exception as e:  # noqa
                o[name + "_error"] = "%s: %s" % (type(e).__name__, str(e)[:200])
        rec["news"].append(o)
    return rec


def _pristine(A):
    return A.copy() if isinstance(A, np.ndarray) else (None if A is None else [list(r) if isinstance(r, list) else r for r in A])


def disturb_caller_arrays(est, Xfit, Yfit, W):
    """What a caller that recycles its buffers does after fit: every array that was passed to fit
    (and the user's own fitted regressor) is overwritten IN PLACE.  The estimator must have kept
    values, not references (the object model of coq/Model/KPCovRState.v stores values)."""
    for A in (Xfit, Yfit, W):
        if isinstance(A, np.ndarray) and A.flags.writeable:
            if A.dtype.kind in "iu":
                A[...] = 3
            else:
                A[...] = -7.25
    reg = est.regressor
    if reg is not None and not isinstance(reg, str) and hasattr(reg, "dual_coef_"):
        reg.dual_coef_[...] = 11.0
        if isinstance(getattr(reg, "X_fit_", None), np.ndarray):
            reg.X_fit_[...] = 5.0


def run_impl(case, disturb=True):
    """Fit through the public API and observe attributes, transform, predict, score.  With
    `disturb` the caller's arrays are overwritten in place between fit and the observations."""
    with warnings.catch_warnings():
        warnings.simplefilter("ignore")
        try:
            est, Xfit, Yfit, W = build(case)
            keep = (_pristine(Xfit), _pristine(Yfit), _pristine(W))
            if W is None:
                est.fit(Xfit, Yfit)
            else:
                est.fit(Xfit, Yfit, W)
        except Exception as e:  # noqa
            return dict(news=[], error=type(e).__name__, error_msg=str(e)[:300]), None
        if disturb:
            disturb_caller_arrays(est, Xfit, Yfit, W)
        rec = observe(case, est, *keep)
    return rec, est


# --------------------------------------------------------------------------------- numpy mirror
def mirror(case, rec):
    """The model's own matrices in numpy (same formulas as coq/Model/KPCovR.v) and numpy's
    decompositions of them: the run-time hints for the oracle variables, with residuals and the
    conditioning information used for gating."""
    n, k, a = case["n"], case["k"], case["mixing"]
    X = np.array(case["X"], float)
    Kraw = kern(case, X)
    Y = np.array(rec["Yfit"], float)
    K = center_blocks(Kraw)[0] if case["center"] else Kraw
    regr_path = case["regressor"] in ("none", "krr_unfitted", "krr_fitted")
    if regr_path:
        W = np.array(rec["W"], float)
        Yhat = K @ W
    else:
        Yhat = Y
        if "W_pre" in rec:
            W = np.array(rec["W_pre"], float)
        else:
            W = np.linalg.lstsq(K, Yhat, TOL)[0]
    Kt = (1 - a) * Yhat @ Yhat.T + a * K
    evals, evecs = np.linalg.eigh((Kt + Kt.T) / 2)
    order = np.argsort(-np.abs(evals), kind="stable")
    lam = evals[order]
    S_all = np.abs(lam)
    V = evecs[:, order][:, :k]
    S = lam[:k].copy()
    info = dict(skip=None)
    if case["regressor"] in ("none", "krr_unfitted"):
        # the hint W is checked against (K + alpha I) W = Y to 2^-30 max(1, |Y|) inside Coq; with large
        # kernel entries (8 / 16 bit integer data) and small alpha the rounding of that residual alone
        # (~ n eps |K + alpha I| |W|) can exceed it: not comparable
        Ka = K + rec.get("alpha_used", 0.0) * np.eye(n)
        if 4 * n * 1.2e-16 * np.max(np.abs(Ka)) * np.max(np.abs(W)) > 0.25 * 2.0 ** -30 * max(1.0, np.max(np.abs(Y))):
            info["skip"] = "krr_scale"
    if case["regressor"] == "pre_raw_noW":
        # W = lstsq(K, Yhat, tol) of a Yhat outside the range of K amplifies the components along
        # small singular directions by 1/sigma: the hint is only comparable when no singular value
        # of K is near the cut-off (tol * sigma_1) or makes the solve ill-conditioned
        sk = np.linalg.svd(K, compute_uv=False)
        if np.any((sk < 1e-6 * sk[0]) & (sk > 1e-14 * sk[0])):
            info["skip"] = "lstsq_threshold"
    s1 = max(S_all[0], 1e-300)
    if np.any(lam[:k] < -1e3 * TOL):
        info["skip"] = "nonpsd"
    dead = S_all[:k] < 1e-2 * TOL
    solid = S_all[:k] > max(SOLID * s1, 1e3 * TOL)
    if info["skip"] is None and not np.all(dead | solid):
        info["skip"] = "threshold"
    if info["skip"] is None and k < n and solid[k - 1] and (S_all[k - 1] - S_all[k]) < GAP * s1:
        info["skip"] = "gap"
    S = np.where(dead, 0.0, np.abs(S))
    P = a * np.eye(n) + (1 - a) * (W @ Yhat.T)
    Sinv = np.array([1.0 / s if s > TOL else 0.0 for s in S])
    pkt = P @ V @ np.sqrt(np.diagflat(Sinv))
    T = K @ pkt
    sv = np.linalg.svd(T, compute_uv=False)
    if info["skip"] is None and sv[0] > 0 and np.any((sv < 1e-6 * sv[0]) & (sv > 1e-13 * sv[0])):
        info["skip"] = "pinv_threshold"
    PT = np.linalg.pinv(T, rcond=TOL)
    A = T.T @ T
    sa = np.linalg.svd(A, compute_uv=False)
    if info["skip"] is None and sa[0] > 0 and np.any((sa < 1e-7 * sa[0]) & (sa > 1e-14 * sa[0])):
        info["skip"] = "pinv_threshold"
    G = np.linalg.pinv(A, rcond=TOL)
    info.update(
        Kraw=Kraw, K=K, W=W, Yhat=Yhat, Kt=Kt, V=V, S=S, PT=PT, G=G, T=T, pkt=pkt, Y=Y,
        gap=float((S_all[k - 1] - S_all[k]) / s1) if k < n else None,
        n_dead=int(dead.sum()),
        res_orth=float(np.max(np.abs(V.T @ V - np.eye(k)))),
        res_eig=float(np.max(np.abs(Kt @ V - V @ np.diag(np.where(dead, lam[:k], S)))) / max(1.0, np.max(np.abs(Kt)))),
        res_pen=float(max(np.max(np.abs(T @ PT @ T - T)) / max(1e-300, np.max(np.abs(T))),
                          np.max(np.abs(PT @ T @ PT - PT)) / max(1e-300, np.max(np.abs(PT))),
                          np.max(np.abs((T @ PT).T - T @ PT)), np.max(np.abs((PT @ T).T - PT @ T)))),
        res_gpen=float(max(np.max(np.abs(A @ G @ A - A)) / max(1e-300, np.max(np.abs(A))),
                           np.max(np.abs(G @ A @ G - G)) / max(1e-300, np.max(np.abs(G))),
                           np.max(np.abs((A @ G).T - A @ G)), np.max(np.abs((G @ A).T - G @ A)))),
        res_yhat=float(np.max(np.abs(K @ W - Yhat)) / max(1.0, np.max(np.abs(Yhat)))),
    )
    return info


# --------------------------------------------------------------------------------- Coq cases
def _opt(x):
    return "None" if x is None else "(Some %s)" % C.fl(x)


def case_coq(case, rec, info, rtol=1e-7):
    n, p, k = case["n"], case["p"], case["k"]
    regr_path = case["regressor"] in ("none", "krr_unfitted", "krr_fitted")
    krr = case["regressor"] in ("none", "krr_unfitted")
    alpha = rec.get("alpha_used", 0.0)
    base = [("vK", info["Kraw"]), ("vW", info["W"]), ("va", [[case["mixing"]]]), ("vV", info["V"]),
            ("vS", info["S"].reshape(-1, 1)), ("vtol", [[TOL]]), ("vY", info["Y"]), ("vPT", info["PT"]),
            ("18%nat", [[alpha]])]
    base_s = "[" + "; ".join("(%s, %s)" % (nm, C.fmat(np.asarray(m, float).tolist())) for nm, m in base) + "]"
    pkt = np.array(rec["pkt"], float)
    pty = np.array(rec["pty"], float)
    nds = []
    sets = new_sets(case)
    for (tag, Xv, Yv), o in zip(sets, rec["news"]):
        if "T" not in o or "pred" not in o:
            continue                     # handled by the Python side as an API failure
        v = len(Xv)
        Ktraw = info["Kraw"] if tag == "train" else kern(case, Xv, case["X"])
        Kvvraw = info["Kraw"] if tag == "train" else kern(case, Xv)
        Tv = np.array(o["T"], float)
        # hint G does not depend on the new data (t_n is the training projection)
        nds.append("mk_new %d%%nat %s %s %s %s %s %s %s" % (
            v, C.fmat(Ktraw.tolist()), C.fmat(Kvvraw.tolist()), C.fmat(Yv.tolist()),
            C.fmat(info["G"].tolist()), C.fmat((Tv @ Tv.T).tolist()), C.fmat(o["pred"]),
            _opt(o.get("score"))))
    return "check_fit %s %d%%nat %d%%nat %d%%nat (cfg %s %s %d%%nat %d%%nat) %s %s %s %s %s [%s]" % (
        C.fl(rtol), n, p, k, "true" if regr_path else "false", "true" if case["center"] else "false",
        n, p, base_s, "true" if krr else "false", C.fmat((pkt @ pkt.T).tolist()), C.fmat(rec["pky"]),
        C.fmat((pty.T @ pty).tolist()), ";\n   ".join(nds))


# --------------------------------------------------------------------------------- property oracle
def _close(a, b, rtol=1e-6, atol=1e-9):
    a, b = np.asarray(a, float), np.asarray(b, float)
    if a.shape != b.shape:
        return False
    s = max(np.max(np.abs(a), initial=0.0), np.max(np.abs(b), initial=0.0))
    return bool(np.all(np.isfinite(a)) and np.all(np.isfinite(b)) and np.max(np.abs(a - b), initial=0.0) <= atol + rtol * s)


def documented_score(case, est, tag, Xv, Yv):
    """minus (documented kernel-reconstruction loss + relative regression loss), computed from the
    public transform/predict outputs and kernel blocks evaluated here."""
    X = np.array(case["X"], float)
    Kraw = kern(case, X)
    Ktraw = Kraw if tag == "train" else kern(case, Xv, X)
    Kvvraw = Kraw if tag == "train" else kern(case, Xv)
    if case["center"]:
        K, Kt, Kvv, _ = center_blocks(Kraw, Ktraw, Kvvraw)
    else:
        K, Kt, Kvv = Kraw, Ktraw, Kvvraw
    pre = case["kernel"] == "precomputed"
    TN = est.transform(Kraw if pre else X)
    TV = est.transform(Ktraw if pre else Xv)
    yp = as2d(est.predict(Ktraw if pre else Xv), len(Xv))
    Yv2 = as2d(Yv, len(Xv))
    lkrr = np.linalg.norm(Yv2 - yp) ** 2 / np.linalg.norm(Yv2) ** 2
    w = TN @ np.linalg.pinv(TN.T @ TN, rcond=TOL) @ TV.T
    lk = np.trace(Kvv - 2 * Kt @ w + w.T @ K @ w) / np.trace(Kvv)
    extra = {}
    if tag == "train":
        extra["insample"] = -(np.trace(K - K @ w) / np.trace(K) + lkrr)
    if case["base_kernel"] == "linear":
        # independent route through explicit features: loss = |Phi_V - T_V pinv(T_N) Phi_N|^2/|Phi_V|^2
        PhiN, PhiV = X, (X if tag == "train" else Xv)
        if case["center"]:
            mu = X.mean(axis=0)
            sc = np.trace((X - mu) @ (X - mu).T) / len(X)
            PhiN, PhiV = (PhiN - mu) / math.sqrt(sc), (PhiV - mu) / math.sqrt(sc)
        R = PhiV - TV @ np.linalg.pinv(TN.T @ TN, rcond=TOL) @ TN.T @ PhiN
        extra["feature_space"] = -(np.linalg.norm(R) ** 2 / np.linalg.norm(PhiV) ** 2 + lkrr)
    return -(lk + lkrr), extra


def oracle(case, rec, est, info):
    """The five equivalences of C05 executed on the implementation.  Returns a list of
    (key, message).  Comparisons that need a well-conditioned top-k subspace are skipped when the
    case is gated (info['skip'])."""
    msgs = []
    if "error" in rec:
        return [("fit_raises", "fit raised %s: %s" % (rec["error"], rec.get("error_msg")))]
    gated = info is None or info["skip"] is not None
    X = np.array(case["X"], float)
    n, k = case["n"], case["k"]
    sets = new_sets(case)
    # (a) transform / predict / score accept any number of new samples
    for (tag, Xv, Yv), o in zip(sets, rec["news"]):
        for name in ("T", "pred", "score"):
            if name + "_error" in o:
                msgs.append(("%s_raises" % name, "%s on a %s set of %d samples (n_train=%d, center=%s) raised %s" % (
                    {"T": "transform", "pred": "predict", "score": "score"}[name], tag, len(Xv), n,
                    case["center"], o[name + "_error"])))
        if "T" in o and np.array(o["T"]).shape != (len(Xv), k):
            msgs.append(("shape", "transform returned shape %s" % (np.array(o["T"]).shape,)))
    if gated:
        return msgs
    if any(k.endswith("_error") for o in rec["news"] for k in o):
        return msgs                 # an API call raised: reported above; the equivalences need all outputs
    try:
        return msgs + _equivalences(case, rec, est, info, sets)
    except Exception as e:  # noqa  (an implementation call raised inside the equivalence checks)
        return msgs + [("api_raises", "a transform / predict / score / fit call made while checking the "
                        "equivalences raised %s: %s" % (type(e).__name__, str(e)[:200]))]


def _equivalences(case, rec, est, info, sets):
    msgs = []
    X = np.array(case["X"], float)
    n, k = case["n"], case["k"]
    with warnings.catch_warnings():
        warnings.simplefilter("ignore")
        # (e) score = -(documented loss + regression loss); in-sample formula on the training set
        for (tag, Xv, Yv), o in zip(sets, rec["news"]):
            if "score" not in o:
                continue
            want, extra = documented_score(case, est, tag, Xv, Yv)
            if not _close(o["score"], want, 1e-6, 1e-9):
                msgs.append(("score_value", "score on a %s set of %d samples is %r, documented formula gives %r" % (
                    tag, len(Xv), o["score"], float(want))))
            for nm, val in extra.items():
                if not _close(o["score"], val, 1e-6, 1e-8):
                    msgs.append(("score_" + nm, "score on a %s set is %r, %s expression gives %r" % (
                        tag, o["score"], nm, float(val))))
        obs = [(np.array(o["T"]), np.array(o["pred"])) if ("T" in o and "pred" in o) else None for o in rec["news"]]

        def compare(label, est2, argf, scale=1.0, with_pred=True):
            for (tag, Xv, Yv), ob in zip(sets, obs):
                if ob is None:
                    continue
                T2 = est2.transform(argf(tag, Xv)) * scale
                P2 = as2d(est2.predict(argf(tag, Xv)), len(Xv)) if (with_pred and hasattr(est2, "predict")) else None
                if not _close(T2 @ T2.T, ob[0] @ ob[0].T):
                    msgs.append((label + "_T", "%s: projections T T^T differ on a %s set (max dev %.3g)" % (
                        label, tag, float(np.max(np.abs(T2 @ T2.T - ob[0] @ ob[0].T))))))
                if P2 is not None and not _close(P2, ob[1]):
                    msgs.append((label + "_pred", "%s: predictions differ on a %s set (max dev %.3g)" % (
                        label, tag, float(np.max(np.abs(P2 - ob[1]))))))

        Kraw = info["Kraw"]
        # (b) named kernel == the same kernel precomputed
        if case["kernel"] != "precomputed":
            est2, Xfit2, Yfit2, W2 = build(case, kernel="precomputed")
            est2.fit(Xfit2, Yfit2) if W2 is None else est2.fit(Xfit2, Yfit2, W2)
            compare("named_vs_precomputed", est2, lambda tag, Xv: Kraw if tag == "train" else kern(case, Xv, X))
        # (c) center=True == explicit KernelNormalizer on the train and test kernels
        if case["center"]:
            from skmatter.preprocessing import KernelNormalizer
            kn = KernelNormalizer().fit(Kraw.copy())
            Kc = kn.transform(Kraw.copy())
            est3, _, Yfit3, W3 = build(case, kernel="precomputed", center=False, Xfit=Kc)
            est3.fit(Kc, Yfit3) if W3 is None else est3.fit(Kc, Yfit3, W3)
            compare("center_vs_normalizer", est3,
                    lambda tag, Xv: Kc if tag == "train" else kn.transform(kern(case, Xv, X)))
        # (a') linear kernel == sample-space PCovR with the equivalent ridge regressor
        # (the predictions coincide under the hypothesis Yhat = K W of C05_linear_is_pcovr: PCovR takes
        #  pinv(T) = T^T, which holds for T = V S^{-1/2} only; the latent coordinates need no hypothesis)
        consistent = case["regressor"] not in RAW_KINDS
        if case["kernel"] == "linear" and not case["center"] and k <= min(n, case["d"]):
            from skmatter.decomposition import PCovR
            from sklearn.linear_model import Ridge
            Y = np.array(case["Y"], float)
            if case["regressor"] in ("none", "krr_unfitted", "krr_fitted"):
                alpha = rec["alpha_used"]
                ridge = Ridge(alpha=alpha, fit_intercept=False, tol=1e-14, solver="svd")
                if case["regressor"] == "krr_fitted":
                    ridge.fit(X, Y[:, 0] if case["y1d"] else Y)
                est4 = PCovR(mixing=case["mixing"], n_components=k, space="sample", regressor=ridge)
                est4.fit(X, Y[:, 0] if case["y1d"] else Y)
            else:
                est4 = PCovR(mixing=case["mixing"], n_components=k, space="sample", regressor="precomputed")
                est4.fit(X, info["Yhat"], X.T @ info["W"])
            # PCovR.transform subtracts the training mean (PCovR documents that X must be centred),
            # its fit and predict do not; on centred X this is the identity, so the public
            # transform is used there and the fitted projector pxt_ itself otherwise
            if float(np.max(np.abs(X.mean(axis=0)))) > 1e-12:
                class _Proj:
                    def transform(self, A):
                        return np.asarray(A, float) @ est4.pxt_

                    def predict(self, A):
                        return est4.predict(A)
                compare("linear_vs_pcovr", _Proj(), lambda tag, Xv: Xv, with_pred=consistent)
            else:
                compare("linear_vs_pcovr", est4, lambda tag, Xv: Xv, with_pred=consistent)
        # (d) mixing = 1 on a centred kernel: kernel PCA up to sign and the normaliser's scale
        if case["mixing"] == 1.0 and case["center"] and case["kernel"] != "precomputed" and info["n_dead"] == 0:
            from sklearn.decomposition import KernelPCA
            kp = KernelPCA(n_components=k, kernel=case["kernel"], **case["params"]).fit(X)
            scale = center_blocks(Kraw)[3]
            if kp.eigenvalues_.shape[0] == k:
                for (tag, Xv, Yv), ob in zip(sets, obs):
                    if ob is None:
                        continue
                    T2 = kp.transform(Xv) / math.sqrt(scale)
                    if not _close(T2 @ T2.T, ob[0] @ ob[0].T):
                        msgs.append(("kpca_limit", "mixing=1: projections differ from KernelPCA/sqrt(scale) on a %s set (max dev %.3g)" % (
                            tag, float(np.max(np.abs(T2 @ T2.T - ob[0] @ ob[0].T))))))
    return msgs


# --------------------------------------------------------------------------------- histories
# One estimator OBJECT used several times: construct, fit, set_params (any constructor
# argument) and / or new data, fit again, then transform / predict / score.  The machine of
# coq/Model/KPCovRState.v says that after every fit the object is indistinguishable from a new
# object constructed with the arguments in force and fitted once (C05_refit_is_fresh_fit), so
# every stage of a history is checked (i) like an independent case against the single-fit model
# and the five equivalences and (ii) directly against a fresh estimator.
HISTORY_KINDS = ["center_flip", "center_flip", "data", "config", "fresh", "same"]
CFG_FIELDS = ("kernel", "base_kernel", "params", "center", "regressor", "mixing", "alpha")


def _merge(data_case, cfg_case, rng):
    """the data (X, Y, new-data sets) of one case with the configuration of another"""
    c = dict(data_case)
    for f in CFG_FIELDS:
        c[f] = cfg_case[f]
    c["params"] = dict(cfg_case["params"])
    c["y1d"] = bool(c["p"] == 1 and c["regressor"] in ("none", "krr_unfitted", "krr_fitted")
                    and (cfg_case["y1d"] or rng.random() < 0.3))
    c["k"] = max(1, min(cfg_case["k"], c["n"]))
    return c


def gen_history(rng, quick):
    first = gen_case(rng, quick)
    stages, kinds = [first], ["first"]
    nst = 2 if rng.random() < 0.75 else 3
    for _ in range(nst - 1):
        prev = stages[-1]
        kind = rng.choice(HISTORY_KINDS)
        other = gen_case(rng, quick)
        if kind == "center_flip":
            c = _merge(prev, prev, rng)
            c["y1d"] = prev["y1d"]
            c["center"] = not prev["center"]
        elif kind == "data":
            c = _merge(other, prev, rng)
        elif kind == "config":
            c = _merge(prev, other, rng)
        elif kind == "same":
            c = _merge(prev, prev, rng)
            c["y1d"] = prev["y1d"]
        else:
            c = other
        stages.append(c)
        kinds.append(kind)
    return dict(stages=stages, kinds=kinds)


def _same_as_reference(case, rec, fresh, key="refit", what="after a refit", ref="a fresh estimator with the same "
                       "arguments and data", rtol=1e-7, atol=1e-10):
    """two runs of the implementation that must agree: the object with a past against a new one
    (refit = fresh fit), or a presentation of the data against the float64 ndarray presentation"""
    msgs = []
    if "error" in fresh:
        return msgs
    for nm, f in (("pkt_ pkt_^T", lambda r: np.array(r["pkt"]) @ np.array(r["pkt"]).T),
                  ("pky_", lambda r: np.array(r["pky"])),
                  ("pty_^T pty_", lambda r: np.array(r["pty"]).T @ np.array(r["pty"])),
                  ("ptk_^T ptk_", lambda r: np.array(r["ptk"]).T @ np.array(r["ptk"]))):
        if not _close(f(rec), f(fresh), rtol, atol):
            msgs.append((key + "_attr", "%s %s differs from that of %s (max dev %.3g)" % (
                what, nm, ref, float(np.max(np.abs(f(rec) - f(fresh)))))))
    for o, q in zip(rec["news"], fresh["news"]):
        for nm, label in (("T", "transform"), ("pred", "predict"), ("score", "score")):
            if nm not in o or nm not in q:
                if (nm + "_error" in o) != (nm + "_error" in q):
                    msgs.append((key + "_raises", "%s on a %s set: %s %s, %s %s" % (
                        label, o["tag"], what, o.get(nm + "_error", "returns"), ref, q.get(nm + "_error", "returns"))))
                continue
            a, b = np.array(o[nm], float), np.array(q[nm], float)
            if nm == "T":
                a, b = a @ a.T, b @ b.T
            if not _close(a, b, rtol, atol):
                msgs.append((key + "_" + nm, "%s on a %s set of %d samples %s differs from %s (max dev %.3g)" % (
                    label, o["tag"], o["v"], what, ref, float(np.max(np.abs(a - b))))))
    return msgs


def _probe(est, case, Xfit, Yfit, expect, label, probes, msgs):
    """Call transform / predict / score where the machine of coq/Model/KPCovRState.v says the call
    does not return (NotFitted / AttrError); a returned value is a model-implementation mismatch."""
    Yarg = np.asarray(Yfit, float)
    for name, f in (("transform", lambda: est.transform(Xfit)), ("predict", lambda: est.predict(Xfit)),
                    ("score", lambda: est.score(Xfit, Yarg))):
        try:
            f()
            got = "returns"
        except Exception as e:  # noqa
            got = type(e).__name__
        if probes is not None:
            probes["%s:%s" % (label, got)] += 1
        if got not in expect:
            msgs.append(("model_guard_" + label, "%s on %s: the object model says the call raises %s, the "
                         "implementation %s" % (name, label, "/".join(expect), got)))


def run_history(hist, probes=None):
    """Drive ONE estimator object through the history.  Returns per stage (rec, info, msgs)."""
    out = []
    est = None
    ever_centred = False
    with warnings.catch_warnings():
        warnings.simplefilter("ignore")
        for si, case in enumerate(hist["stages"]):
            extra = []
            try:
                est_new, Xfit, Yfit, W = build(case)
                if est is None:
                    est = est_new
                    ever_centred = False
                    # machine: transform / predict / score (init p) = NotFitted
                    _probe(est, case, Xfit, Yfit, ("NotFittedError",), "an unfitted object", probes, extra)
                else:
                    est.set_params(**est_new.get_params(deep=False))
                keep = (_pristine(Xfit), _pristine(Yfit), _pristine(W))
                if W is None:
                    est.fit(Xfit, Yfit)
                else:
                    est.fit(Xfit, Yfit, W)
            except Exception as e:  # noqa
                rec = dict(news=[], error=type(e).__name__, error_msg=str(e)[:300])
                out.append((rec, None, oracle(case, rec, None, None) + extra))
                est = None          # a failed fit leaves a half-updated object: start again
                continue
            ever_centred = ever_centred or case["center"]
            disturb_caller_arrays(est, Xfit, Yfit, W)
            rec = observe(case, est, *keep)
            info = mirror(case, rec)
            msgs = oracle(case, rec, est, info) + extra
            if si > 0 and info["skip"] is None:
                fresh, _ = run_impl(case, disturb=False)
                msgs = msgs + _same_as_reference(case, rec, fresh)
            if not ever_centred:
                # machine (center_on_without_refit): center switched on without a refit on an
                # object that has no centerer_ -> the three methods raise AttributeError
                est.set_params(center=True)
                _probe(est, case, keep[0], keep[1], ("AttributeError",), "center=True set after a center=False fit, no refit",
                       probes, msgs)
                est.set_params(center=False)
            out.append((rec, info, msgs))
    return out


# --------------------------------------------------------------------------------- fit guards
# The rejection branches of KernelPCovR.fit / check_krr_fit (coq/Model/KPCovRGuard.v): calls are
# described discretely, the implementation's outcome is classified by its ValueError message and
# compared inside Coq with [fit_guard]; for accepted calls n_components_ and pkt_.shape[1] too.
GUARD_REGS = ["none", "pre", "other_ridge", "other_string", "krr_ok", "krr_mismatch", "fit_ok", "fit_features",
              "fit_ndim", "fit_cols", "fit_mismatch"]
GUARD_MSG = [("Regressor must be an instance", 1), ("Kernel parameter mismatch", 2), ("features, but", 3),
             ("dimension incompatible", 4), ("shape incompatible", 5), ("n_components=", 6)]


def gen_guard_case(rng):
    n, d, p = rng.randint(3, 7), rng.randint(2, 4), rng.choice([1, 2, 3])
    r = rng.random()
    k = None if r < 0.2 else rng.randint(1, n) if r < 0.6 else 0 if r < 0.68 else n + rng.randint(1, 3) if r < 0.88 \
        else -rng.randint(1, 3)
    return dict(n=n, d=d, p=p, yndim=1 if (p == 1 and rng.random() < 0.5) else 2, k=k,
                reg=rng.choice(GUARD_REGS), kernel=rng.choice(["linear", "rbf", "poly"]),
                gamma=rng.choice([None, 0.3]), mis=rng.choice(["kernel", "gamma", "degree", "coef0"]),
                seed=rng.randrange(2 ** 31))


def guard_descr(regressor, kp):
    """the model's description (reg_arg term) of the regressor argument, read off the object"""
    from sklearn.kernel_ridge import KernelRidge
    if regressor is None:
        return "GNone"
    if isinstance(regressor, str) and regressor == "precomputed":
        return "GPre"
    if not isinstance(regressor, KernelRidge):
        return "GOther"
    match = all(getattr(regressor, a) == kp.get(a) for a in ("kernel", "gamma", "degree", "coef0")) \
        and regressor.kernel_params is None
    if not hasattr(regressor, "dual_coef_"):
        return "(GKrr %s None)" % ("true" if match else "false")
    dc = np.asarray(regressor.dual_coef_)
    return "(GKrr %s (Some (%d, %d, %d)))" % ("true" if match else "false", int(regressor.n_features_in_),
                                              dc.ndim, dc.shape[-1])


def run_guard(g):
    from sklearn.kernel_ridge import KernelRidge
    from sklearn.linear_model import Ridge
    from skmatter.decomposition import KernelPCovR
    rs = np.random.RandomState(g["seed"])
    n, d, p = g["n"], g["d"], g["p"]
    X = rs.standard_normal((n, d))
    Y = rs.standard_normal((n, p))
    Yarg = Y[:, 0] if g["yndim"] == 1 else Y
    kp = dict(kernel=g["kernel"], gamma=g["gamma"], degree=3, coef0=1)
    reg = g["reg"]
    rp = dict(kp)
    if reg in ("krr_mismatch", "fit_mismatch"):
        rp[g["mis"]] = {"kernel": "sigmoid", "gamma": 0.77, "degree": 4, "coef0": 2.5}[g["mis"]]
    if reg == "none":
        regressor = None
    elif reg == "pre":
        regressor = "precomputed"
    elif reg == "other_ridge":
        regressor = Ridge()
    elif reg == "other_string":
        regressor = "kernel_ridge"
    else:
        regressor = KernelRidge(alpha=0.1, **rp)
        if reg.startswith("fit"):
            Xr = rs.standard_normal((n, d + 1)) if reg == "fit_features" else X
            if reg == "fit_ndim":
                Yr = Y if g["yndim"] == 1 else Y[:, 0]
            elif reg == "fit_cols":
                Yr = rs.standard_normal((n, p + 1))
            else:
                Yr = Yarg
            with warnings.catch_warnings():
                warnings.simplefilter("ignore")
                regressor.fit(Xr, Yr)
    obs = dict(code=0, ncomp=-1, cols=-1, msg="", reg_term=guard_descr(regressor, kp))
    with warnings.catch_warnings():
        warnings.simplefilter("ignore")
        try:
            est = KernelPCovR(mixing=0.5, n_components=g["k"], regressor=regressor, **kp)
            est.fit(X, Yarg)
            obs.update(ncomp=int(est.n_components_), cols=int(np.asarray(est.pkt_).shape[1]))
            T = est.transform(X)
            if T.shape != (n, obs["ncomp"]):
                obs["cols"] = -2
        except Exception as e:  # noqa
            obs["msg"] = "%s: %s" % (type(e).__name__, str(e)[:160])
            obs["code"] = 99
            if isinstance(e, ValueError):
                for pat, code in GUARD_MSG:
                    if pat in str(e):
                        obs["code"] = code
                        break
    return obs


def guard_coq(g, obs):
    return "guard_case (mk_gin %s %d %d %d %d %s) %d%%nat %s %s" % (
        obs["reg_term"], g["n"], g["d"], g["yndim"], g["p"],
        "None" if g["k"] is None else "(Some %s)" % C.Zl(g["k"]), obs["code"], C.Zl(obs["ncomp"]), C.Zl(obs["cols"]))


def guard_expected_accept(g, o):
    """independent statement of admissibility (property: fit accepts None / precomputed / a
    KernelRidge with the estimator's kernel arguments, fitted on compatible data or not, and
    0 <= n_components <= n or None)"""
    if g["reg"] not in ("none", "pre", "krr_ok", "fit_ok"):
        return False
    return g["k"] is None or 0 <= g["k"] <= g["n"]


def run_present(case):
    """A presentation case: (rec, info, msgs).  int / list / Fortran / strided / float32-new-sample
    presentations are exact re-presentations of float64 values and go through the whole pipeline
    (Coq single-fit check, five equivalences) plus a comparison with the float64 ndarray
    presentation.  A float32 TRAINING matrix makes sklearn evaluate the kernel in single precision
    (check_pairwise_arrays keeps float32 when both arguments are float32): only the comparison with
    the float64 presentation is made, with a single-precision tolerance, on well-conditioned fits."""
    rec, est = run_impl(case)
    if "error" in rec:
        return rec, None, oracle(case, rec, None, None)
    info = mirror(case, rec)
    plain = {k: v for k, v in case.items() if k != "present"}
    ref, _ = run_impl(plain, disturb=False)
    pres = "X as %s, new samples as %s" % (case["present"]["train"], case["present"]["new"])
    if case["present"]["train"] == "f32":
        msgs = oracle(case, rec, est, dict(info, skip="f32_training"))
        K = info["Kraw"] if not case["center"] else info["K"]
        lam = np.linalg.eigvalsh((info["Kt"] + info["Kt"].T) / 2)[::-1]
        k, n = case["k"], case["n"]
        well = (info["skip"] is None and info["n_dead"] == 0 and lam[k - 1] > 1e-2 * lam[0]
                and (k == n or lam[k - 1] - lam[k] > 1e-2 * lam[0]) and np.linalg.cond(K) < 1e3)
        if well and "error" not in ref:
            msgs = msgs + _same_as_reference(case, rec, ref, key="present", what="with " + pres,
                                             ref="the float64 ndarray presentation of the same values",
                                             rtol=2e-3, atol=1e-5)
        info = dict(info, skip="f32_training" if well else "f32_training_illconditioned")
        return rec, info, msgs
    msgs = oracle(case, rec, est, info)
    if info["skip"] is None and "error" not in ref:
        msgs = msgs + _same_as_reference(case, rec, ref, key="present", what="with " + pres,
                                         ref="the float64 ndarray presentation of the same values")
    return rec, info, msgs


# --------------------------------------------------------------------------------- svd_solver
# Which decomposition ran (coq/Model/KPCovRGuard.v::resolve_solver): est._fit_svd_solver after fit
# and wrappers of _decompose_full / _decompose_truncated on the INSTANCE that count the calls.
# Boundary sizes max(n_samples, n_features) in {499, 500, 501}; where the model resolves "full" on a
# problem with mixing=1, center=True the projections are compared with sklearn KernelPCA.
SOLVER_TERM = {"auto": "SAuto", "full": "SFull", "arpack": "SArpack", "randomized": "SRandomized"}
SOLVER_CODE = {"full": 1, "arpack": 2, "randomized": 3}


def gen_solver_cases(rng, quick):
    out = []

    def mk(n, d, k, solver, kernel, gamma, kpca):
        return dict(n=n, d=d, k=k, solver=solver, kernel=kernel, gamma=gamma, kpca=kpca,
                    seed=rng.randrange(2 ** 31))
    # many samples, few features, flat rbf spectrum: 500 always, one neighbour size per quick run
    big = [500, rng.choice([499, 501])] if quick else [499, 500, 500, 501]
    for n in big:
        out.append(mk(n, rng.randint(2, 3), rng.randint(2, 4), "auto", "rbf", round(rng.uniform(5.0, 10.0), 3), True))
    if not quick:
        out.append(mk(501, 2, rng.randint(402, 450), "auto", "rbf", 6.0, False))     # k >= 0.8 max -> full
    # few samples, many features (n_features_in_ enters the rule)
    for d in ([500, 501] if quick else [499, 500, 501, 502, 640]):
        out.append(mk(rng.randint(5, 8), d, rng.randint(1, 4), "auto", "linear", None, False))
    # small problems, every solver argument
    for _ in range(4 if quick else 30):
        n = rng.randint(5, 9)
        solver = rng.choice(["auto", "full", "arpack", "randomized"])
        out.append(mk(n, rng.randint(2, 4), rng.randint(1, n - 1), solver, rng.choice(["linear", "rbf"]), 0.5, False))
    return out


def run_solver_case(g):
    """fit once; returns dict(code, full, trunc, msgs) - msgs are property failures (kernel PCA)"""
    from skmatter.decomposition import KernelPCovR
    rs = np.random.RandomState(g["seed"])
    n, d, k = g["n"], g["d"], g["k"]
    X = rs.standard_normal((n, d)) if g["kernel"] == "rbf" else rs.standard_normal((n, d)) / math.sqrt(d)
    Y = X[:, :1] + 0.1 * rs.standard_normal((n, 1))
    kp = dict(kernel=g["kernel"], gamma=g["gamma"])
    est = KernelPCovR(mixing=1.0 if g["kpca"] else 0.5, n_components=k, svd_solver=g["solver"],
                      center=bool(g["kpca"]), random_state=0, **kp)
    calls = dict(full=0, trunc=0)
    f0, t0 = est._decompose_full, est._decompose_truncated

    def wfull(mat):
        calls["full"] += 1
        return f0(mat)

    def wtrunc(mat):
        calls["trunc"] += 1
        return t0(mat)
    est._decompose_full, est._decompose_truncated = wfull, wtrunc
    obs = dict(code=99, full=0, trunc=0, msgs=[], err="")
    with warnings.catch_warnings():
        warnings.simplefilter("ignore")
        try:
            est.fit(X, Y)
        except Exception as e:  # noqa
            obs["err"] = "%s: %s" % (type(e).__name__, str(e)[:160])
            return obs
        obs.update(code=SOLVER_CODE.get(getattr(est, "_fit_svd_solver", None), 98), full=calls["full"], trunc=calls["trunc"])
        if g["kpca"] and max(n, d) <= 500:
            # model: full SVD -> exact kernel PCA of the centred, scaled kernel (C05_kpca_limit_scaled)
            from sklearn.decomposition import KernelPCA
            from sklearn.metrics.pairwise import pairwise_kernels
            Kraw = pairwise_kernels(X, metric=g["kernel"], gamma=g["gamma"])
            Kc, _, _, scale = center_blocks(Kraw)
            lam = np.linalg.eigvalsh(Kc)[::-1]
            if lam[k - 1] - lam[k] > 1e-4 * lam[0] and lam[k - 1] > 1e-6 * lam[0]:
                kpca = KernelPCA(n_components=k, kernel=g["kernel"], gamma=g["gamma"], eigen_solver="dense").fit(X)
                T = est.transform(X)
                T2 = kpca.transform(X) / math.sqrt(scale)
                A, B = T @ T.T, T2 @ T2.T
                if not _close(A, B, 1e-6, 1e-9):
                    obs["msgs"].append(("kpca_limit", "mixing=1, center=True, %d training samples (default svd_solver): "
                                        "projections differ from KernelPCA/sqrt(scale) on the training set (max dev %.3g "
                                        "of %.3g)" % (n, float(np.max(np.abs(A - B))), float(np.max(np.abs(B))))))
                obs["kpca_compared"] = True
    return obs


def solver_coq(g, obs):
    return "solver_case %s %d %d %d %d%%nat %d%%nat %d%%nat" % (
        SOLVER_TERM[g["solver"]], g["n"], g["d"], g["k"], obs["code"], obs["full"], obs["trunc"])
