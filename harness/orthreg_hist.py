"""C18, family "history": sequences of calls on OrthogonalRegression objects that share user-supplied
linear-estimator instances (refits on new data, mode / estimator changed between fits, estimators
pre-fitted by the user or shared by two regressions, rejected inputs between two fits, predict with
other widths).  Generator, runner on the implementation, and the literals for the Coq state
machine `Model/OrthRegHist.v` (`hist_ok`).  Every successful fit inside a history is additionally
handed to the float comparators of `Model/OrthReg.v` by harness/props/c18.py.
"""
import numpy as np

from harness import common as C

# hyper-parameter ids of the Coq machine: index in this list (None = default LinearRegression())
HYPERS = ["lr_nointercept", "ridge_small", "ridge_big", "ridge_nointercept"]
EKINDS = {"ValueError": "EValue", "IndexError": "EIndex", "NotFittedError": "ENotFitted",
          "AttributeError": "EAttr"}
BAD_DATA = ["nan_x", "inf_y", "rows", "x1d", "y1d_multi"]


X_PRESENT = ["float64", "int64", "int32", "bool", "float32", "list", "fortran"]
FLAG_PRESENT = ["bool", "int", "npbool"]


def values_for(X, kind):
    """Values (as float64) that the presentation `kind` can carry exactly."""
    X = np.asarray(X, dtype=float)
    if kind in ("int64", "int32"):
        return np.rint(2.0 * X)
    if kind == "bool":
        return (X > 0).astype(float)
    if kind == "float32":
        return X.astype(np.float32).astype(float)
    return X


def present(vals, kind):
    """The SAME values handed to the implementation as another dtype / container / memory order."""
    A = np.array(vals, dtype=float)
    if kind in ("int64", "int32", "bool", "float32"):
        return A.astype({"int64": np.int64, "int32": np.int32, "bool": bool, "float32": np.float32}[kind])
    if kind == "list":
        return A.tolist()
    if kind == "fortran":
        return np.asfortranarray(A)
    return A


ALIASES = ["reversed", "windows", "interleaved", "same"]


def alias_values(rng, X, Y, alias):
    """Values (X, Y, extra) that the aliasing presentation `alias` can carry; X, Y are n x p float arrays.
    reversed: y = X[:, ::-1] (an exact rotation of X: the reversal permutation); windows: two overlapping column
    windows of one n x (p + k) buffer; interleaved: even / odd columns of one buffer (no byte shared); same: y is X."""
    n, p = X.shape
    if alias == "reversed":
        return X, X[:, ::-1].copy(), None
    if alias == "same":
        return X, X.copy(), None
    if alias == "windows":
        k = rng.randint(1, p - 1)
        buf = np.concatenate([X, Y[:, p - k:]], axis=1)
        return buf[:, :p].copy(), buf[:, k:k + p].copy(), k
    return X, Y, None


def present_pair(Xv, Yv, alias, k=None):
    """X and y as float64 VIEWS of one buffer carrying exactly the given values."""
    Xv, Yv = np.array(Xv, dtype=float), np.array(Yv, dtype=float)
    n, p = Xv.shape
    if alias == "reversed":
        buf = Xv.copy()
        X, y = buf, buf[:, ::-1]
    elif alias == "same":
        buf = Xv.copy()
        X, y = buf, buf
    elif alias == "windows":
        buf = np.concatenate([Xv, Yv[:, p - k:]], axis=1)
        X, y = buf[:, :p], buf[:, k:k + p]
    elif alias == "interleaved":
        buf = np.empty((n, 2 * p))
        buf[:, ::2], buf[:, 1::2] = Xv, Yv
        X, y = buf[:, ::2], buf[:, 1::2]
    else:
        return Xv, Yv
    if not (np.array_equal(X, Xv) and np.array_equal(y, Yv)):
        raise AssertionError("aliasing presentation does not carry the values of the case")
    return X, y


def present_flag(b, kind):
    return {"bool": bool(b), "int": int(bool(b)), "npbool": np.bool_(bool(b))}[kind or "bool"]


def _n(rng):
    return rng.gauss(0.0, 1.0)


def _randn(rng, a, b):
    return np.array([[_n(rng) for _ in range(b)] for _ in range(a)], dtype=float).reshape(a, b)


def _orth(rng, m):
    q, r = np.linalg.qr(_randn(rng, m, m))
    return q * np.sign(np.where(np.diag(r) == 0, 1.0, np.diag(r)))


def _shape(rng, pmax):
    rel = rng.choice(["lt", "gt", "lt", "gt", "eq"])
    p = rng.randint(1, pmax)
    if rel == "eq":
        return p, p
    if rel == "lt":
        return p, rng.randint(p + 1, pmax + 1)
    t = rng.randint(1, pmax)
    return t + rng.randint(1, 3), t


def _dataset(rng, p, t, nmax, n=None):
    if n is None or n < max(p, t) + 2:
        n = rng.randint(max(p, t) + 2, max(p, t) + 2 + nmax)
    X = _randn(rng, n, p) @ _randn(rng, p, p)
    xkind = rng.choice(["int64", "int32", "bool", "list", "fortran"]) if rng.random() < 0.2 else "float64"
    X = values_for(X, xkind)
    q = max(p, t)
    Q = _orth(rng, q)
    fam = rng.choice(["rotation", "rotation", "rotation_noise", "noise"])
    if fam == "noise":
        Y = X @ _randn(rng, p, t) + 0.5 * _randn(rng, n, t)
    else:
        Y = (np.pad(X, [(0, 0), (0, q - p)]) @ Q)[:, :t]
        if fam == "rotation_noise":
            Y = Y + 1e-3 * _randn(rng, n, t)
    alias, ak = None, None
    if p == t and p >= 2 and xkind == "float64" and rng.random() < 0.3:
        alias = rng.choice(ALIASES)
        X, Y, ak = alias_values(rng, X, Y, alias)
        if alias in ("reversed", "same"):
            fam, Q = "rotation", (np.eye(p)[:, ::-1] if alias == "reversed" else np.eye(p))
        elif alias == "windows":
            fam = "noise"
    d = dict(family=fam, X=X.tolist(), Y=Y.tolist(), Q=Q.tolist(), y1d=False, bad=None, xkind=xkind,
             alias=alias, alias_k=ak,
             Xnew=_randn(rng, 3, p).tolist())
    if t == 1 and rng.random() < 0.5:
        d["y1d"] = True
    return d


def gen_history(rng, quick):
    pmax = 5 if quick else 8
    n_est = rng.randint(1, 2)
    ests = [rng.choice(HYPERS) for _ in range(n_est)]
    n_obj = 2 if rng.random() < 0.3 else 1
    objs = []
    for _ in range(n_obj):
        objs.append(dict(projector=rng.random() < 0.6,
                         est=(rng.randint(0, n_est - 1) if rng.random() < 0.75 else None)))
    p, t = _shape(rng, pmax)
    q = max(p, t)
    n_base = rng.randint(q + 2, q + 2 + (8 if quick else 16))
    data = []
    for _ in range(rng.randint(2, 4)):
        r = rng.random()
        if r < 0.45:
            pp, tt = p, t
        elif r < 0.75:                       # other widths with the SAME padded size (work arrays of equal shape)
            pp, tt = rng.choice([(q, rng.randint(1, q)), (rng.randint(1, q), q), (t, p)])
        else:
            pp, tt = _shape(rng, pmax)
        # mostly the same samples count (feature subsets of one data set), sometimes another one
        d = _dataset(rng, pp, tt, 8 if quick else 16, n=(n_base if rng.random() < 0.7 else None))
        if rng.random() < 0.12:
            bad = rng.choice(BAD_DATA)
            if bad == "y1d_multi":               # a 1-D target: accepted by projector mode, IndexError in padded mode
                d["Y"] = [[r[0]] for r in d["Y"]]
                d["y1d"] = True
                d["alias"] = None
                d["family"] = "noise"
            else:
                d["bad"] = bad
                if bad == "nan_x":
                    d["X"][0][0] = float("nan")
                elif bad == "inf_y":
                    d["Y"][-1][0] = float("inf")
                elif bad == "rows":
                    d["Y"] = d["Y"] + [d["Y"][0]]
        data.append(d)
    news = []
    for _ in range(3):
        w = rng.choice([p, p, t, max(p, t), max(p, t) + 1, max(1, p - 1), max(1, min(p, t))])
        xn = dict(X=_randn(rng, rng.randint(1, 4), w).tolist(), bad=None)
        if rng.random() < 0.1:
            xn["bad"] = rng.choice(["nan", "x1d"])
            if xn["bad"] == "nan":
                xn["X"][0][0] = float("nan")
        news.append(xn)
    ops = []
    if rng.random() < 0.4:
        ops.append(dict(op="user_fit", e=rng.randint(0, n_est - 1), d=rng.randint(0, len(data) - 1)))
    for _ in range(rng.randint(3, 7)):
        r = rng.random()
        o = rng.randint(0, n_obj - 1)
        if r < 0.5:
            ops.append(dict(op="fit", o=o, d=rng.randint(0, len(data) - 1)))
        elif r < 0.62:
            ops.append(dict(op="set_proj", o=o, b=rng.random() < 0.5))
        elif r < 0.72:
            ops.append(dict(op="set_lin", o=o, e=(rng.randint(0, n_est - 1) if rng.random() < 0.7 else None)))
        elif r < 0.82:
            ops.append(dict(op="user_fit", e=rng.randint(0, n_est - 1), d=rng.randint(0, len(data) - 1)))
        else:
            ops.append(dict(op="predict", o=o, x=rng.randint(0, len(news) - 1)))
    while sum(1 for a in ops if a["op"] == "fit") < 2:
        ops.append(dict(op="fit", o=rng.randint(0, n_obj - 1), d=rng.randint(0, len(data) - 1)))
    if rng.random() < 0.5:
        ops.append(dict(op="predict", o=rng.randint(0, n_obj - 1), x=rng.randint(0, len(news) - 1)))
    return dict(kind="history", ests=ests, objs=objs, data=data, news=news, ops=ops,
                comp_seed=rng.randint(0, 10 ** 9))


# ----------------------------------------------------------------------------- implementation
def _xy(d):
    X = np.array(d["X"], dtype=float)
    Y = np.array(d["Y"], dtype=float)
    if d["bad"] is None and d.get("alias"):
        return present_pair(X, Y, d["alias"], d.get("alias_k"))
    if d["bad"] == "x1d":
        X = X[:, 0]
    elif d["bad"] is None and d.get("xkind", "float64") != "float64":
        X = present(X, d["xkind"])
    y = Y[:, 0] if d["y1d"] else Y
    return X, y


def _err(e):
    return dict(error=type(e).__name__, error_msg=str(e)[:200])


def _snap(objs, ests):
    so, se = [], []
    for m in objs:
        cf = getattr(m, "coef_", None)
        so.append(dict(coef=None if cf is None else np.array(cf, dtype=float, copy=True),
                       maxc=getattr(m, "max_components_", None)))
    for e in ests:
        cf = getattr(e, "coef_", None)
        ic = getattr(e, "intercept_", None)
        se.append(dict(coef=None if cf is None else np.array(cf, dtype=float, copy=True),
                       intercept=None if ic is None else np.array(ic, dtype=float, copy=True)))
    return so, se


def run_history(hist, make_estimator):
    """Execute the history through the public API; one observation per call."""
    from skmatter.linear_model import OrthogonalRegression
    ests = [make_estimator(nm) for nm in hist["ests"]]
    objs = [OrthogonalRegression(use_orthogonal_projector=o["projector"],
                                 linear_estimator=(None if o["est"] is None else ests[o["est"]]))
            for o in hist["objs"]]
    obs = []
    for a in hist["ops"]:
        ob = dict(res="ok")
        try:
            if a["op"] == "fit":
                d = hist["data"][a["d"]]
                X, y = _xy(d)
                m = objs[a["o"]]
                m.fit(X, y)
                if d["bad"] is None:
                    coef = np.asarray(m.coef_, dtype=float)
                    rec = dict(coef=np.atleast_2d(coef).tolist(), coef_shape=list(coef.shape))
                    try:
                        Xn = np.array(d["Xnew"], dtype=float)
                        pred = m.predict(Xn)
                        rec.update(pred=pred.reshape(len(Xn), -1).tolist(), pred_shape=list(np.shape(pred)),
                                   pred_train=m.predict(X).reshape(len(d["X"]), -1).tolist())
                        if not m.use_orthogonal_projector:
                            rec["max_components"] = int(m.max_components_)
                    except Exception as e:  # noqa
                        rec.update(_err(e))
                    ob["fitrec"] = rec
            elif a["op"] == "set_proj":
                objs[a["o"]].use_orthogonal_projector = a["b"]
            elif a["op"] == "set_lin":
                objs[a["o"]].linear_estimator = None if a["e"] is None else ests[a["e"]]
            elif a["op"] == "user_fit":
                X, y = _xy(hist["data"][a["d"]])
                ests[a["e"]].fit(X, y)
            elif a["op"] == "predict":
                xn = hist["news"][a["x"]]
                Xn = np.array(xn["X"], dtype=float)
                if xn["bad"] == "x1d":
                    Xn = Xn[0]
                ob["pred_shape"] = list(np.shape(objs[a["o"]].predict(Xn)))
        except Exception as e:  # noqa
            ob = dict(res="error", **_err(e))
        ob["objs"], ob["ests"] = _snap(objs, ests)
        obs.append(ob)
    return obs


# ----------------------------------------------------------------------------- mirror of the parameters
def claims(hist, obs):
    """Per call: for every regression object the configuration (mode, estimator name or None, data
    index) of its last ACCEPTED fit, for every estimator object (name, data index) of the user's last
    accepted fit.  Only constructor parameters are mirrored here (the harness itself assigned them);
    which fits were accepted is read from the implementation's outcome.  The Coq machine checks these
    claims against its own state, the numeric comparisons check the implementation's arrays against
    the fresh fit of the claimed configuration."""
    par = [dict(o) for o in hist["objs"]]
    oc = [None] * len(par)
    ec = [None] * len(hist["ests"])
    out = []
    for a, ob in zip(hist["ops"], obs):
        if a["op"] == "set_proj":
            par[a["o"]]["projector"] = a["b"]
        elif a["op"] == "set_lin":
            par[a["o"]]["est"] = a["e"]
        elif a["op"] == "fit" and ob["res"] == "ok":
            pr = par[a["o"]]
            hy = None if (not pr["projector"] or pr["est"] is None) else hist["ests"][pr["est"]]
            oc[a["o"]] = (bool(pr["projector"]), hy, a["d"])
        elif a["op"] == "user_fit" and ob["res"] == "ok":
            ec[a["e"]] = (hist["ests"][a["e"]], a["d"])
        out.append((list(oc), list(ec), [dict(p) for p in par]))
    return out


# ----------------------------------------------------------------------------- Coq literals
def _dmat(rows, cols, fin, ident):
    return "(mk_dmat %d %s %s %d)" % (rows, "None" if cols is None else "(Some %d)" % cols,
                                      "true" if fin else "false", ident)


def _data_lits(hist, k):
    d = hist["data"][k]
    X, Y = np.array(d["X"], dtype=float), np.array(d["Y"], dtype=float)
    fx, fy = bool(np.all(np.isfinite(X))), bool(np.all(np.isfinite(Y)))
    xl = _dmat(X.shape[0], None if d["bad"] == "x1d" else X.shape[1], fx, k)
    yl = _dmat(Y.shape[0], None if d["y1d"] else Y.shape[1], fy, k)
    return xl, yl


def _hy(name):
    return "None" if name is None else "(Some %d)" % HYPERS.index(name)


def _dcoef(shape, proj, hy, d):
    return "(Some (mk_dcoef %d %d %s %s %d %d))" % (shape[0], shape[1], "true" if proj else "false", _hy(hy), d, d)


def coq_history(hist, obs, cl):
    """`hist_ok w0 ops obs` or None when an outcome has no counterpart in the machine."""
    w0 = "(dWorld [%s] [%s])" % (
        "; ".join("dEst %d None" % HYPERS.index(nm) for nm in hist["ests"]),
        "; ".join("dObj %s %s None None" % ("true" if o["projector"] else "false",
                                           "None" if o["est"] is None else "(Some %d)" % o["est"])
                  for o in hist["objs"]))
    ops, ol = [], []
    for a, ob, (oc, ec, _) in zip(hist["ops"], obs, cl):
        if a["op"] == "fit":
            ops.append("dFit %d %s %s" % ((a["o"],) + _data_lits(hist, a["d"])))
        elif a["op"] == "set_proj":
            ops.append("dSetProj %d %s" % (a["o"], "true" if a["b"] else "false"))
        elif a["op"] == "set_lin":
            ops.append("dSetLin %d %s" % (a["o"], "None" if a["e"] is None else "(Some %d)" % a["e"]))
        elif a["op"] == "user_fit":
            ops.append("dUserFit %d %s %s" % ((a["e"],) + _data_lits(hist, a["d"])))
        else:
            xn = hist["news"][a["x"]]
            Xn = np.array(xn["X"], dtype=float)
            ops.append("dPredict %d %s" % (a["o"], _dmat(1 if xn["bad"] == "x1d" else Xn.shape[0],
                                                         None if xn["bad"] == "x1d" else Xn.shape[1],
                                                         bool(np.all(np.isfinite(Xn))), a["x"])))
        if ob["res"] == "error":
            if ob["error"] not in EKINDS:
                return None
            r = "dErr %s" % EKINDS[ob["error"]] if a["op"] != "predict" else "dPred (DErr %s)" % EKINDS[ob["error"]]
        elif a["op"] == "predict":
            if len(ob["pred_shape"]) != 2:
                return None
            r = "dPred (DShape %d %d)" % tuple(ob["pred_shape"])
        else:
            r = "dOk"
        so = []
        for s, c in zip(ob["objs"], oc):
            if s["coef"] is None:
                cf = "None"
            elif c is None or s["coef"].ndim != 2:
                return None
            else:
                cf = _dcoef(s["coef"].shape, c[0], c[1], c[2])
            so.append("(%s, %s)" % (cf, "None" if s["maxc"] is None else "Some %d" % int(s["maxc"])))
        se = []
        for s, c in zip(ob["ests"], ec):
            if s["coef"] is None:
                se.append("None")
            elif c is None:
                return None
            else:
                sh = (1, s["coef"].shape[0]) if s["coef"].ndim == 1 else s["coef"].shape
                se.append(_dcoef(sh, True, c[0], c[1]))
        ol.append("(%s, [%s], [%s])" % (r, "; ".join(so), "; ".join(se)))
    return "hist_ok %s [%s] [%s]" % (w0, "; ".join(ops), "; ".join(ol))


# ----------------------------------------------------------------------------- per-fit view
def step_case(hist, k, cl):
    """The single-fit case (format of c18.gen_case) that call k of the history amounts to."""
    a = hist["ops"][k]
    d = hist["data"][a["d"]]
    b, hy, _ = cl[k][0][a["o"]]
    return dict(family=d["family"], scale=1.0, xkind=d.get("xkind", "float64"), alias=d.get("alias"), alias_k=d.get("alias_k"), X=d["X"], Y=d["Y"], Q=d["Q"], projector=b, y1d=bool(d["y1d"]),
                estimator=("default" if hy is None else hy), Xnew=d["Xnew"],
                comp_seed=(hist["comp_seed"] + 7919 * k) % (10 ** 9))


def frame_and_fresh(hist, obs, cl, make_estimator, gates):
    """Python-side numeric part of the claims: (i) arrays of objects a call does not own are bit-identical
    before and after it, (ii) after an accepted fit coef_ equals that of a NEW regression with a NEW
    estimator of the same hyper-parameters fitted once on the same data (only where `gates[k]` says
    the solution is well conditioned), (iii) the user's estimator after his own fit equals a new
    estimator fitted on that data.  Returns a list of (call index, message)."""
    from skmatter.linear_model import OrthogonalRegression
    bad, skipped, compared = [], 0, 0
    prev_o = [dict(coef=None, maxc=None) for _ in hist["objs"]]
    prev_e = [dict(coef=None, intercept=None) for _ in hist["ests"]]

    def same(x, y):
        return (x is None and y is None) or (x is not None and y is not None and x.shape == y.shape
                                             and np.array_equal(x, y))
    for k, (a, ob) in enumerate(zip(hist["ops"], obs)):
        own_o = a["o"] if (a["op"] == "fit" and ob["res"] == "ok") else None
        own_e = a["e"] if (a["op"] == "user_fit" and ob["res"] == "ok") else None
        for i, (s, q) in enumerate(zip(ob["objs"], prev_o)):
            if i != own_o and not (same(s["coef"], q["coef"]) and s["maxc"] == q["maxc"]):
                bad.append((k, "call %d (%s) changed coef_/max_components_ of regression object %d it does not own"
                            % (k, a["op"], i)))
        for i, (s, q) in enumerate(zip(ob["ests"], prev_e)):
            if i != own_e and not (same(s["coef"], q["coef"]) and same(s["intercept"], q["intercept"])):
                bad.append((k, "call %d (%s) changed the user's linear estimator object %d" % (k, a["op"], i)))
        if own_o is not None and hist["data"][a["d"]]["bad"] is None:
            case = step_case(hist, k, cl)
            if gates.get(k, False):
                X, y = _xy(hist["data"][a["d"]])
                got = ob["objs"][own_o]["coef"]
                compared += 1
                try:
                    ref = OrthogonalRegression(use_orthogonal_projector=case["projector"],
                                               linear_estimator=make_estimator(case["estimator"])).fit(X, y)
                except Exception as e:  # noqa
                    bad.append((k, "call %d: the fit was accepted, but a new object constructed in the mode in force (%s) "
                                   "rejects the same data with %s" % (k, "projector" if case["projector"] else "padded",
                                                                      type(e).__name__)))
                    prev_o, prev_e = ob["objs"], ob["ests"]
                    continue
                if got is None or got.shape != ref.coef_.shape or not np.allclose(got, ref.coef_, rtol=1e-8, atol=1e-9):
                    bad.append((k, "call %d: coef_ after the fit differs from a new object fitted once on the same data "
                                   "(max abs difference %s)" % (k, "n/a" if got is None or got.shape != ref.coef_.shape
                                                                else "%.3g" % float(np.max(np.abs(got - ref.coef_))))))
            else:
                skipped += 1
        if own_e is not None:
            X, y = _xy(hist["data"][a["d"]])
            ref = make_estimator(hist["ests"][own_e]).fit(X, y)
            got = ob["ests"][own_e]["coef"]
            if got is None or got.shape != ref.coef_.shape or not np.allclose(got, ref.coef_, rtol=1e-8, atol=1e-10):
                bad.append((k, "call %d: the user's estimator after his own fit differs from a new one" % k))
        prev_o, prev_e = ob["objs"], ob["ests"]
    return bad, compared, skipped


def strip_obs(obs):
    """JSON-able short form of the observations for a replay file."""
    out = []
    for ob in obs:
        o = {k: v for k, v in ob.items() if k in ("res", "error", "error_msg", "pred_shape")}
        o["coef_shapes"] = [None if s["coef"] is None else list(s["coef"].shape) for s in ob["objs"]]
        o["max_components"] = [None if s["maxc"] is None else int(s["maxc"]) for s in ob["objs"]]
        o["estimators_fitted"] = [s["coef"] is not None for s in ob["ests"]]
        out.append(o)
    return out
