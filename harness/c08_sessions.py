"""C08 extension (round 3): SESSIONS on one selector object.

Two correspondence families, both driven through the public API only:

* family S ("sessions with failed calls"): a random sequence of calls on ONE object --
  cold fits, warm starts, calls that raise (validation of n_to_select / full+threshold, the
  warm-start guard, an invalid `initialize` of the FPS family noticed only inside
  _init_greedy_search, an index outside the data or a list longer than n_to_select that raises
  half-way through the initial selections, argument checks of VoronoiFPS / CUR that precede the
  base-class initialisation), set_params in between.  Every call is compared with the session
  model `sess_ok` (coq/Model/SelSession.v) inside Coq, and with the implementation-level oracle:
  (a) a warm start is rejected (ValueError) whenever no call so far has returned with a
  selection, (b) every call that returns leaves exactly what a FRESH selector's single cold fit
  with the same configuration leaves.

* family W ("set_params(recompute_every) between the fits of a warm-started chain", CUR
  family): the chain is compared with a fresh selector that has the final recompute_every from
  the start and is made to take the same first selections (a harness-side wrapper of the public
  `score` method presents one-hot scores for those steps), i.e. the CUR analogue of
  initialising FPS with the selected prefix (theorem C08_cur_switch_recompute_every).
"""
import math
import warnings

import numpy as np

from harness import common as C
from harness import selectors as S
from harness.props import c01

FPS_FAMILY = ("fps", "pcovfps", "voronoi")
KEY_F33 = "warm start accepted after a cold fit that raised during its initial selections"


FORMS = ["same", "copy", "fortran", "list", "copy", "same"]
_RESEED = [20260930]


def reseed_global_rng():
    """numpy's global generator is put into a different state before every fit: nothing a selector
    does may depend on it (initialize='random' draws from check_random_state(random_state))."""
    _RESEED[0] = (_RESEED[0] * 1103515245 + 12345) % (2 ** 31)
    np.random.seed(_RESEED[0])


PRES = ["py", "int64", "int32", "intp", "py"]


def present(v, pres):
    """the same integer value as another type a caller may legitimately pass (numpy scalars are
    numbers.Integral but not `int`); lists element-wise; everything else unchanged."""
    if not pres or pres == "py" or isinstance(v, bool):
        return v
    if isinstance(v, int):
        return getattr(np, pres)(v)
    if isinstance(v, list) and v and all(isinstance(i, int) and not isinstance(i, bool) for i in v):
        return [getattr(np, pres)(i) for i in v]
    return v


def present_flag(b, pres):
    return np.bool_(b) if pres and pres != "py" else bool(b)


def in_form(A, form):
    """the same data as another object: what a caller may legitimately pass at a later fit."""
    if A is None or form == "same":
        return A
    if form == "copy":
        return A.copy()
    if form == "fortran":
        return np.asfortranarray(A.copy())
    return A.tolist()


# ------------------------------------------------------------------------------- family S
def gen_session(rng, data, ncand, nr_max):
    """list of events; each event is a dict:
       op='set'  : set={param: value}                (hyper-parameters irrelevant to a warm start)
       op='fit'  : warm, nts, full, thr, init (the value of `initialize` in force, FPS family),
                   extra={param: value} set before the call, mode in
                   {'ok','pre','init','sub'} = what the model expects."""
    kind = data["kind"]
    fam = kind in FPS_FAMILY
    ev = []
    fitted = 0
    good_init = data["init"]
    template = rng.choice(["never", "never", "mixed", "mixed", "mixed"])
    nev = rng.randint(3, 7)
    never_phase = rng.randint(1, 3) if template == "never" else (1 if rng.random() < 0.3 else 0)

    def pre_failure(warm):
        m = rng.choice(["zero", "big", "negfrac", "bigfrac", "full_thr"])
        e = dict(op="fit", warm=warm, full=False, thr=None, init=good_init, extra={}, mode="pre", why=m)
        e["nts"] = {"zero": 0, "big": ncand + rng.randint(1, 3), "negfrac": -0.2, "bigfrac": 1.5}.get(m, max(fitted, 2))
        if m == "full_thr":
            e.update(full=True, thr=(1, 1))
        return e

    def init_failure():
        modes = ["str", "float", "oor_int", "below_int"]
        if kind == "fps":
            modes += ["floatlist", "list_oor", "list_oor", "list_long", "list_long", "list_below", "list_below"]
        m = rng.choice(modes)
        k = rng.randint(2, nr_max)
        if m == "str":
            init = rng.choice(["first", "Random", ""])
        elif m == "float":
            init = 1.5
        elif m == "oor_int":
            init = ncand + rng.randint(0, 3)
        elif m == "below_int":
            init = -ncand - rng.randint(1, 3)
        elif m == "list_below":
            # valid entries (possibly legal negative ones), then one below -n
            good = rng.sample(range(ncand), rng.randint(1, min(3, k - 1) if k > 1 else 1))
            good = [g - ncand if rng.random() < 0.3 else g for g in good]
            init = good + [-ncand - rng.randint(1, 3)]
            k = max(k, len(init))
        elif m == "floatlist":
            init = [rng.randrange(ncand), 2.5]
        elif m == "list_oor":
            good = rng.sample(range(ncand), rng.randint(1, min(3, k - 1) if k > 1 else 1))
            init = good + [ncand + rng.randint(0, 2)]
            k = max(k, len(init))
        else:  # list_long: more initial selections than n_to_select
            k = rng.randint(1, min(3, ncand - 1))
            init = rng.sample(range(ncand), min(ncand, k + rng.randint(1, 2)))
        return dict(op="fit", warm=False, nts=k, full=False, thr=None, init=init, extra={}, mode="init", why=m)

    def sub_failure():
        # argument checks a subclass makes before GreedySelector._init_greedy_search runs
        if kind == "voronoi":
            return dict(op="fit", warm=False, nts=rng.randint(2, nr_max), full=False, thr=None, init=good_init,
                        extra={"full_fraction": rng.choice([1.5, 0.0, -0.25])}, mode="sub", why="full_fraction",
                        restore={"full_fraction": data["extra"].get("full_fraction", 0.5)})
        if kind == "cur":
            nrow, ncol = len(data["X"]), len(data["X"][0])
            return dict(op="fit", warm=False, nts=rng.randint(2, nr_max), full=False, thr=None, init=good_init,
                        extra={"k": min(nrow, ncol)}, mode="sub", why="k", restore={"k": 1})
        return None

    for t in range(nev):
        r = rng.random()
        if t < never_phase or (fitted == 0 and r < 0.25):
            # a call that does not return
            choices = ["pre", "warm_unfitted"] if fitted == 0 else ["pre"]
            if fam:
                choices += ["init", "init"]
            if fitted == 0 and kind in ("voronoi", "cur"):
                choices += ["sub"]
            c = rng.choice(choices)
            if c == "pre":
                ev.append(pre_failure(warm=(fitted > 0 and rng.random() < 0.5) or (fitted == 0 and rng.random() < 0.3)))
            elif c == "warm_unfitted":
                ev.append(dict(op="fit", warm=True, nts=rng.randint(2, nr_max), full=False, thr=None,
                               init=good_init, extra={}, mode="pre", why="warm_unfitted"))
            elif c == "init":
                ev.append(init_failure())
                fitted = 0
            else:
                e = sub_failure()
                ev.append(e)
            if ev[-1]["mode"] in ("init", "sub") or rng.random() < 0.3:
                ev.append(dict(op="set", set={"progress_bar": False}))
            continue
        if fitted == 0:
            # after failures: the warm start that must be rejected, then a good cold fit
            if ev and rng.random() < 0.8:
                ev.append(dict(op="fit", warm=True, nts=rng.randint(2, nr_max), full=False, thr=None,
                               init=good_init, extra={}, mode="pre", why="warm_unfitted"))
            if fam:
                if kind == "fps" and rng.random() < 0.3:
                    good_init = rng.sample(range(ncand), rng.randint(1, 2))
                    # legal negative entries address item n + i
                    good_init = [g - ncand if rng.random() < 0.35 else g for g in good_init]
                else:
                    good_init = rng.randrange(ncand)
                    if rng.random() < 0.3:
                        good_init -= ncand
            ninit = len(good_init) if isinstance(good_init, list) else (1 if fam else 0)
            k = rng.randint(max(1, ninit), nr_max)
            ev.append(dict(op="fit", warm=False, nts=k, full=False, thr=None, init=good_init, extra={}, mode="ok"))
            fitted = k
            continue
        if r < 0.2:
            ev.append(pre_failure(warm=rng.random() < 0.6))
        elif r < 0.32 and fam:
            ev.append(init_failure())
            fitted = 0
        elif r < 0.42 and fam:
            # set_params of something a warm start must ignore
            ev.append(dict(op="set", set={"initialize": rng.randrange(ncand)}))
        elif r < 0.5:
            ev.append(dict(op="set", set={"progress_bar": False}))
        elif r < 0.62 and fitted >= 2:
            # a warm start asking for FEWER items than are selected (int, fraction or None): rejected
            k = rng.randint(1, fitted - 1)
            nts = k
            q = rng.random()
            if q < 0.3 and int(ncand * ((k + 0.5) / ncand)) == k:
                nts = (k + 0.5) / ncand
            elif q < 0.45 and 1 <= ncand // 2 < fitted:
                nts = None
            ev.append(dict(op="fit", warm=True, nts=nts, full=False, thr=None, init=good_init, extra={}, mode="pre",
                           why="shrink"))
        else:
            k = rng.randint(fitted, nr_max)
            nts = k
            q = rng.random()
            if q < 0.15 and ncand // 2 >= fitted and ncand // 2 <= nr_max:
                nts, k = None, ncand // 2
            elif q < 0.4:
                f = 1.0 if k == ncand else (k + 0.5) / ncand
                if 0 < f <= 1 and int(ncand * f) == k:
                    nts = f
            ev.append(dict(op="fit", warm=True, nts=nts, full=False, thr=None, init=good_init, extra={}, mode="ok"))
            fitted = k
    if fitted == 0 and fam:
        ev.append(dict(op="fit", warm=True, nts=rng.randint(2, nr_max), full=False, thr=None, init=good_init,
                       extra={}, mode="pre", why="warm_unfitted"))
    for e in ev:
        if e["op"] == "fit":
            e["form"] = rng.choice(FORMS)       # the (equal) data is handed over as another object
            e["pres"] = rng.choice(PRES)        # integers / flags handed over as numpy scalars
    return ev


def snapshot(sel, kind, axis, calls):
    out = dict(sel=[int(i) for i in sel.selected_idx_], X_selected=np.array(sel.X_selected_),
               stream=[np.array(v) for v in calls])
    if hasattr(sel, "y_selected_") and axis == 0:
        out["y_selected"] = np.array(sel.y_selected_)
    if kind in FPS_FAMILY:
        out["distance"] = np.array(sel.get_distance())
        out["select_distance"] = np.array(sel.get_select_distance())
    else:
        out["pi"] = np.array(sel.pi_)
        out["X_current"] = np.array(sel.X_current_)
    return out


def run_session(data, events):
    """Run the events on one object.  Returns per-event records."""
    kind, axis = data["kind"], data["axis"]
    X = np.array(data["X"], float)
    Y = None if data["y"] is None else np.array(data["y"], float)
    kw = dict(data["extra"])
    if data["init"] is not None:
        kw["initialize"] = data["init"]
    sel = S.make_selector(kind, axis, **kw)
    rec = c01.Recorder(sel)
    int_scores = kind in ("fps", "voronoi") or (kind == "pcovfps" and axis == 0)
    scale = 4 if kind == "pcovfps" else 1

    def code(v):
        if int_scores:
            w = np.asarray(v, float) * scale
            return [int(x) for x in C.as_int_matrix(np.where(np.isinf(w), 0, w), "score")]
        return [c01.bits(x) for x in v]

    out = []
    for e in events:
        if e["op"] == "set":
            for k_, v_ in e["set"].items():
                setattr(sel, k_, v_)
            out.append(dict(op="set"))
            continue
        pres = e.get("pres")
        params = dict(n_to_select=present(e["nts"], pres), full=e["full"],
                      score_threshold=None if e["thr"] is None else e["thr"][0] / e["thr"][1],
                      score_threshold_type="absolute")
        if kind in FPS_FAMILY and not e["warm"]:
            params["initialize"] = present(e["init"], pres)
        params.update({k_: present(v_, pres) for k_, v_ in e.get("extra", {}).items()})
        for k_, v_ in params.items():
            setattr(sel, k_, v_)      # what BaseEstimator.set_params does (VoronoiFPS hides them in **kwargs)
        ncalls = len(rec.calls)
        r = dict(op="fit")
        with warnings.catch_warnings(record=True) as w:
            warnings.simplefilter("always")
            Xs, Ys = in_form(X, e.get("form", "same")), in_form(Y, e.get("form", "same"))
            reseed_global_rng()
            try:
                if Y is None:
                    sel.fit(Xs, warm_start=present_flag(e["warm"], pres))
                else:
                    sel.fit(Xs, Ys, warm_start=present_flag(e["warm"], pres))
                r["stopped"] = any("Score threshold" in str(x.message) for x in w)
            except Exception as ex:  # noqa
                r["error"] = S.err_class(ex)
                r["error_msg"] = str(ex)[:160]
                del rec.calls[ncalls:]
        if "error" not in r:
            r["obs"] = c01.observe(sel, X, axis)
            r["snap"] = snapshot(sel, kind, axis, rec.calls[ncalls:])
            if any(i < 0 for i in r["obs"]["sel"]):
                # a legal negative `initialize` entry is stored as given: reduce the reported indices
                # modulo the number of items before comparing (the model holds n + i)
                nc = X.shape[axis]
                r["negative_indices_reported"] = True
                r["obs"]["sel"] = [i % nc for i in r["obs"]["sel"]]
                r["obs"]["ordered"] = [i % nc for i in r["obs"]["ordered"]]
                r["obs"]["sorted"] = sorted(i % nc for i in r["obs"]["sorted"])
                r["snap"]["sel"] = [i % nc for i in r["snap"]["sel"]]
        r["stream"] = [code(v) for v in rec.calls[ncalls:]]
        r["n_selected_after"] = int(getattr(sel, "n_selected_", -1))
        out.append(r)
        for k_, v_ in e.get("restore", {}).items():
            setattr(sel, k_, v_)
    return out, int_scores


def init_req_coq(kind, init):
    if kind not in FPS_FAMILY:
        return "InitNone"
    if isinstance(init, bool):
        return "InitInvalid"
    if isinstance(init, int):
        return "(InitIdx [%s])" % C.Zl(init)
    if isinstance(init, list) and all(isinstance(i, int) and not isinstance(i, bool) for i in init):
        return "(InitIdx %s)" % C.zlist(init)
    return "InitInvalid"


def session_coq(data, events, recs, int_scores):
    cs = c01.cands(data)
    n = len(cs)
    y = "None" if (data["y"] is None or data["axis"] == 1) else "(Some %s)" % C.zmat(data["y"])
    items = []
    for e, r in zip(events, recs):
        if e["op"] == "set":
            items.append("(ESet, None)")
            continue
        if "obs" in r:
            seen = "(Some (SeenOk %s))" % c01.sobs_coq(r["obs"], r["stopped"])
        elif r["error"] == "ValueError":
            seen = "(Some SeenValueError)"
        else:
            seen = "(Some SeenOther)"
        if e["mode"] == "sub":
            items.append("(EPre, %s)" % seen)
            continue
        cfg = c01.cfg_coq(dict(nts=e["nts"], thr=e["thr"], thr_kind="absolute" if e["thr"] else None,
                               full=e["full"], warm=e["warm"]), n, int_scores)
        items.append("(EFit %s %s %s, %s)" % (cfg, init_req_coq(data["kind"], e["init"]), C.zmat(r["stream"]), seen))
    return "sess_ok %s %s None [%s]" % (C.zmat(cs), y, "; ".join(items))


def session_oracle(data, events, recs, final_tables, tables_equal):
    """implementation-level statement; returns list of (message, key)."""
    kind, axis = data["kind"], data["axis"]
    ncand = len(c01.cands(data))
    out = []
    fitted = 0
    last_cold = None
    partial_before = False
    for ei, (e, r) in enumerate(zip(events, recs)):
        if e["op"] == "set":
            continue
        nts = e["nts"]
        valid_n = (nts is None or (isinstance(nts, int) and 0 < nts <= ncand)
                   or (isinstance(nts, float) and 0 < nts <= 1 and int(ncand * nts) >= 1))
        valid = valid_n and not (e["full"] and e["thr"] is not None)
        shrink = bool(e["warm"] and valid and fitted > 0 and S.resolve_niter(ncand, nts) < fitted)
        if e["warm"]:
            expect_ok = valid and fitted > 0 and not shrink
        else:
            expect_ok = valid and e["mode"] == "ok"
        if not expect_ok:
            if "error" not in r:
                if e["warm"] and valid and fitted == 0:
                    out.append(("call %d: fit(warm_start=True) was ACCEPTED on a selector that is not fitted (no call of "
                                "fit has returned since it was created / since its last cold fit raised); it now "
                                "reports selected_idx_=%s" % (ei, r["obs"]["sel"]),
                                None))      # F33 is repaired in /repo: no known-finding key any more
                elif shrink:
                    out.append(("call %d: fit(warm_start=True) with n_to_select=%r, which resolves to %d < n_selected_=%d, "
                                "returned normally (selected_idx_=%s) instead of being rejected"
                                % (ei, nts, S.resolve_niter(ncand, nts), fitted, r["obs"]["sel"]), None))
                else:
                    out.append(("call %d: an invalid call (%s) was accepted" % (ei, e.get("why")), None))
                # the object is in an unspecified state now: stop judging this session
                return out
            if e["warm"] and valid and fitted == 0 and r["error"] != "ValueError":
                out.append(("call %d: warm start on a never-fitted selector rejected with %s (%s), not ValueError"
                            % (ei, r["error"], r.get("error_msg")), None))
            if shrink and r["error"] != "ValueError":
                out.append(("call %d: a warm start asking for fewer items than are selected was rejected with %s (%s), "
                            "not ValueError" % (ei, r["error"], r.get("error_msg")), None))
            if valid and not e["warm"] and e["mode"] == "init":
                fitted = 0
                if r["n_selected_after"] > 0:
                    partial_before = True
            continue
        if "error" in r:
            out.append(("call %d: a valid %s fit raised %s: %s" % (ei, "warm" if e["warm"] else "cold", r["error"],
                                                                 r.get("error_msg")), None))
            return out
        k = S.resolve_niter(ncand, nts)
        if not e["warm"]:
            last_cold = e["init"]
            if isinstance(last_cold, int) and not isinstance(last_cold, bool):
                last_cold = last_cold % ncand
            elif isinstance(last_cold, list):
                last_cold = [i % ncand for i in last_cold]
        fitted = k
        # history independence: what a fresh selector's single cold fit leaves
        try:
            with warnings.catch_warnings():
                warnings.simplefilter("ignore")
                ref = final_tables(kind, axis, data["X"], data["y"], last_cold, data["extra"], [nts])
        except Exception as ex:  # noqa
            out.append(("call %d: reference cold fit raised %s" % (ei, S.err_class(ex)), None))
            return out
        msg = tables_equal(kind, r["snap"], ref)
        if msg and msg != "TIE":
            out.append(("call %d (%s fit, n_to_select=%r) after this history differs from a fresh selector's cold fit: %s"
                        % (ei, "warm" if e["warm"] else "cold", nts, msg), None))
            return out
    return out


# ------------------------------------------------------------------------------- family W
def forced_reference(kind, axis, X, Y, extra, prefix, n_total):
    """fresh selector, same hyper-parameters, made to take `prefix` first: its public `score`
    method is wrapped and presents one-hot scores for the first len(prefix) calls."""
    sel = S.make_selector(kind, axis, **extra)
    orig = sel.score
    state = dict(t=0, real=[])

    def score(Xa, ya=None):
        t = state["t"]
        state["t"] += 1
        real = np.array(orig(Xa, ya), dtype=float, copy=True)
        if t < len(prefix):
            v = np.full(real.shape, -1.0)
            v[prefix[t]] = 1.0
            return v
        state["real"].append(real)
        return real
    sel.score = score
    sel.n_to_select = n_total
    with warnings.catch_warnings():
        warnings.simplefilter("ignore")
        if Y is None:
            sel.fit(X)
        else:
            sel.fit(X, Y)
    return sel, state["real"]


def run_switch(data, stages, forms=None, pres=None):
    """stages = [(recompute_every, n_to_select), ...]; first cold, others warm, set_params between."""
    kind, axis = data["kind"], data["axis"]
    X = np.array(data["X"], float)
    Y = None if data["y"] is None else np.array(data["y"], float)
    extra = dict(data["extra"])
    extra["recompute_every"] = stages[0][0]
    sel = S.make_selector(kind, axis, **extra)
    rec = c01.Recorder(sel)
    stale_counts = []
    with warnings.catch_warnings():
        warnings.simplefilter("ignore")
        for si, (re_, k) in enumerate(stages):
            sel.set_params(recompute_every=present(re_, pres), n_to_select=present(k, pres))
            if si > 0:
                # the guard of _continue_greedy_search, evaluated on the public attributes before the call
                cnt = 0
                for c in sel.selected_idx_:
                    a = np.linalg.norm(np.take(sel.X_current_, [c], axis=axis))
                    b = np.linalg.norm(np.take(X, [c], axis=axis))
                    cnt += bool(a > sel.tolerance * b)
                stale_counts.append(cnt)
            form = "same" if not forms else forms[si % len(forms)]
            reseed_global_rng()
            if Y is None:
                sel.fit(in_form(X, form), warm_start=present_flag(si > 0, pres))
            else:
                sel.fit(in_form(X, form), in_form(Y, form), warm_start=present_flag(si > 0, pres))
    return sel, rec.calls, stale_counts


def switch_compare(data, stages, forms=None, pres=None):
    """returns (message or None, info)."""
    kind, axis = data["kind"], data["axis"]
    X = np.array(data["X"], float)
    Y = None if data["y"] is None else np.array(data["y"], float)
    sel, calls, stale = run_switch(data, stages, forms, pres)
    chain_sel = [int(i) for i in sel.selected_idx_]
    n_pre = stages[-2][1]
    re_last, n_total = stages[-1]
    extra = dict(data["extra"])
    extra["recompute_every"] = re_last
    ref, real = forced_reference(kind, axis, X, Y, extra, chain_sel[:n_pre], n_total)
    ref_sel = [int(i) for i in ref.selected_idx_]
    info = dict(stale=stale, chain_sel=chain_sel, ref_sel=ref_sel)
    if chain_sel != ref_sel:
        t = next((i for i, (a, b) in enumerate(zip(chain_sel, ref_sel)) if a != b), None)
        if t is not None and t >= n_pre and t - n_pre < len(real):
            v = real[t - n_pre]
            from harness.props.c08 import score_tie
            if score_tie(float(v[chain_sel[t]]), float(v[ref_sel[t]]), v, real + [np.array([1.0])]):
                return "TIE", info
        return ("selections after the switch differ: session %s vs a recompute_every=%d selector made to take the "
                "same first %d selections %s" % (chain_sel, re_last, n_pre, ref_sel)), info
    scale = max(1.0, float(np.max(np.abs(X))))
    if not np.array_equal(np.array(sel.X_selected_), np.array(ref.X_selected_)):
        return "X_selected_ differs", info
    if hasattr(sel, "y_selected_") and axis == 0 and not np.array_equal(np.array(sel.y_selected_), np.array(ref.y_selected_)):
        return "y_selected_ differs", info
    if not np.allclose(sel.X_current_, ref.X_current_, rtol=1e-8, atol=1e-8 * scale):
        return ("X_current_ after the switch is not the residual a recompute_every=%d selector holds after the same "
                "selections (max deviation %.3g)" % (re_last, float(np.max(np.abs(sel.X_current_ - ref.X_current_))))), info
    free = [i for i in range(len(sel.pi_)) if i not in chain_sel]
    if free and not np.allclose(np.array(sel.pi_)[free], np.array(ref.pi_)[free], rtol=1e-6, atol=1e-9):
        return "pi_ of the unselected items differs", info
    return None, info


# ------------------------------------------------------------------------------- family P
PREFIX_HOWS = ["get_support", "selected_idx", "whole_array", "array_copy", "list_same_object", "array_fresh"]


def prefix_refit(data, nr, kpre, how, n2, final_tables, tables_equal):
    """FPS re-initialised with its own selected prefix, the prefix handed over AS THE API RETURNED IT
    (get_support(indices=True, ordered=True), selected_idx_ itself, slices of them: views of the result
    buffer) on the SAME object, which is then fitted cold again with n2 (>= kpre); or as an array on a
    fresh object.  Returns a message or None."""
    kind, axis = "fps", data["axis"]
    X = np.array(data["X"], float)
    Y = None if data["y"] is None else np.array(data["y"], float)

    def fit(s):
        with warnings.catch_warnings():
            warnings.simplefilter("ignore")
            reseed_global_rng()
            return s.fit(X) if Y is None else s.fit(X, Y)

    sel = S.make_selector(kind, axis, initialize=data["init"], n_to_select=nr, **data["extra"])
    fit(sel)
    first = [int(i) for i in sel.selected_idx_]
    if how == "whole_array":
        kpre = nr
    want = first[:kpre]
    if how == "get_support":
        prefix = sel.get_support(indices=True, ordered=True)[:kpre]
    elif how in ("selected_idx", "whole_array"):
        prefix = sel.selected_idx_[:kpre]
    elif how in ("array_copy", "array_fresh"):
        prefix = np.array(sel.selected_idx_[:kpre])
    else:
        prefix = list(want)
    n2 = max(n2, kpre)
    if how == "array_fresh":
        sel = S.make_selector(kind, axis, n_to_select=n2, **data["extra"])
    rec = c01.Recorder(sel)
    sel.set_params(initialize=prefix)
    sel.n_to_select = n2
    fit(sel)
    tag = "prefix %s of its own selection passed as %s, cold refit with n_to_select=%d" % (want, how, n2)
    after = [int(i) for i in np.asarray(sel.initialize).ravel()]
    snap = snapshot(sel, kind, axis, rec.calls)
    ref = final_tables(kind, axis, data["X"], data["y"], data["init"], data["extra"], [n2])
    msg = tables_equal(kind, snap, ref)
    note = "" if after == want else " (the `initialize` it was given reads %s after the fit)" % after
    if msg:
        return "%s: %s%s" % (tag, msg, note)
    if note:
        return "%s: fit changed the `initialize` it was given: it now reads %s" % (tag, after)
    return None


# ------------------------------------------------------------------------------- family D
def gen_degenerate(rng, quick):
    """CUR data with a DEGENERATE leading singular value: X = U diag(s) V^T, the first m singular
    values equal, k below the multiplicity (the leading singular vectors are defined only up to a
    rotation inside an m-dimensional space; which one svds returns depends on its starting vector)."""
    nmax, dmax = (10, 8) if quick else (16, 10)
    n, d = rng.randint(6, nmax), rng.randint(5, dmax)
    r = min(n, d)
    rs = np.random.RandomState(rng.getrandbits(31))
    U, _ = np.linalg.qr(rs.normal(size=(n, r)))
    V, _ = np.linalg.qr(rs.normal(size=(d, r)))
    m = rng.choice([2, 2, 3])
    top = rng.choice([2.0, 3.0, 4.5])
    sing = [top] * m
    while len(sing) < r:
        sing.append(sing[-1] * rng.choice([0.5, 0.6, 0.7, 0.8]))
    Xa = (U * np.array(sing)) @ V.T
    axis = rng.choice([0, 1])
    return dict(kind="cur", axis=axis, X=[[float(v) for v in row] for row in Xa], y=None, family="degenerate",
                extra=dict(recompute_every=rng.choice([0, 0, 1]), k=rng.randint(1, m - 1)), init=None,
                multiplicity=m, singular_values=sing)
