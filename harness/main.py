"""./check <Cxx> [--tier quick|thorough] [--replay file]"""
import argparse
import importlib
import json
import os
import sys
import traceback
import warnings

from harness import common


def main():
    ap = argparse.ArgumentParser()
    ap.add_argument("prop")
    ap.add_argument("--tier", default=os.environ.get("VERIF_TIER", "quick"))
    ap.add_argument("--replay", default=None)
    a = ap.parse_args()
    seed = int(os.environ.get("VERIF_SEED", "20260929"))
    tier = a.tier if a.tier in ("quick", "thorough") else "quick"
    ctx = common.Ctx(a.prop, tier, seed)
    common.CURRENT_TIER = tier
    warnings.filterwarnings("ignore")
    try:
        mod = importlib.import_module("harness.props." + a.prop.lower())
    except ImportError:
        print("no check for", a.prop)
        traceback.print_exc()
        return 2
    if not a.replay:
        import glob
        for f in glob.glob(os.path.join(common.REPLAYS, a.prop + "_*.json")):
            os.remove(f)          # replay files of earlier runs are stale
    if a.replay:
        obj = json.load(open(a.replay))
        return mod.replay(ctx, obj)
    return mod.run(ctx)


if __name__ == "__main__":
    sys.exit(main())
