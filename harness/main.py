"""./check <Cxx> [--tier quick|thorough] [--replay file]"""
import argparse
import importlib
import json
import os
import sys
import traceback
import warnings

from harness import common


def main():
    ap = argparse.ArgumentParser()
    ap.add_argument("prop")
    ap.add_argument("--tier", default=os.environ.get("VERIF_TIER", "quick"))
    ap.add_argument("--replay", default=None)
    a = ap.parse_args()
    seed = int(os.environ.get("VERIF_SEED", "20260929"))
    tier = a.tier if a.tier in ("quick", "thorough") else "quick"
    ctx = common.Ctx(a.prop, tier, seed)
    common.CURRENT_TIER = tier
    warnings.filterwarnings("ignore")
    try:
        mod = importlib.import_module("harness.props." + a.prop.lower())
    except ImportError:
        print("no check for", a.prop)
        traceback.print_exc()
        return 2
    if not a.replay:
        import glob
        for f in glob.glob(os.path.join(common.REPLAYS, a.prop + "_*.json")):
            try:
                os.remove(f)      # replay files of earlier runs are stale
            except OSError:
                pass              # a concurrent run of the same check removed it first
    if a.replay:
        obj = json.load(open(a.replay))
        return mod.replay(ctx, obj)
    # Escalation on source drift: when the library's source differs (AST-wise) from the state the
    # models were last validated against, the quick tier is run on further seeds as well, so that the
    # search is deepest exactly when the code has just changed.  Nothing changes on the unchanged tree.
    changed = common.changed_files() if tier == "quick" else []
    passes = int(os.environ.get("VERIF_DRIFT_PASSES", "3")) if changed else 1
    rc = 0
    for k in range(passes):
        if k:
            ctx = common.Ctx(a.prop, tier, seed + 7919 * k)
            print("# source drift in %d file(s) (%s): additional quick pass %d/%d with seed %d"
                  % (len(changed), ", ".join(changed[:4]), k + 1, passes, ctx.seed))
        try:
            rc = mod.run(ctx)
        except Exception:  # noqa
            # The harness itself could not complete (typically: the implementation now raises / returns
            # something of another shape at a place where the driver does not expect it).  The property is
            # then not shown to hold on this run: report it as a violation whose replay names what broke.
            tb = traceback.format_exc()
            print(tb)
            common.report_violation(ctx, "the correspondence run of %s could not be completed: %s" % (
                a.prop, tb.strip().split("\n")[-1][:300]),
                dict(kind="harness-exception", traceback=tb[-6000:], seed=ctx.seed, tier=ctx.tier),
                key=None, found_input=False)
            rc = common.finish(ctx, "proof", dict(
                obligations=common.LAST_PO.get("obligations", 0), discharged=common.LAST_PO.get("discharged", 0),
                checker_cmd=common.LAST_PO.get("checker_cmd", ""), trusted_base=common.TRUSTED_BASE_COMMON,
                evaluations=0, distinct_nontrivial=0, rule="run aborted by an exception in the harness, see the replay file",
                samples=[], traces_validated_against_impl=0, explanation=tb[-2000:]), [])
        if rc != 0:
            break
    if changed:
        try:
            ef = os.path.join(common.EVID, a.prop + ".json")
            ev = json.load(open(ef))
            ev.setdefault("coverage", {})["source_drift"] = dict(changed_files=changed, quick_passes_run=k + 1,
                                                                 of=passes, note="evidence below is that of the last pass run")
            json.dump(ev, open(ef, "w"), indent=1)
        except Exception:  # noqa
            pass
    return rc


if __name__ == "__main__":
    sys.exit(main())
